import NimaVerif.Model.Registry
/-! Invariant and refinement lemmas for the context registry (C10). -/
namespace Nima.Registry

/-- The registry invariant. (C) is the statement of the property's state anchor: every entry whose
    weak reference is alive is keyed by the id of the object it refers to. -/
structure Inv (s : Reg) : Prop where
  allocated : ∀ o a, s.addr o = some a → o < s.next
  distinct : ∀ o1 o2 a, s.addr o1 = some a → s.addr o2 = some a → o1 = o2
  keyed : ∀ a e, s.table a = some e → s.alive e.target = true → s.addr e.target = some a
  targets : ∀ a e, s.table a = some e → e.target < s.next

/-- what the table holds FOR object `o` -/
def view (s : Reg) (o : Nat) : Option Nat :=
  match s.addr o with
  | none => none
  | some a =>
    match s.table a with
    | some e => if e.target = o then some e.ctx else none
    | none => none

/-- refinement relation between the address-keyed table and the identity-keyed map -/
structure Refines (s : Reg) (t : Abs) : Prop where
  next : t.next = s.next
  alive : ∀ o, t.alive o = s.alive o
  addr : ∀ o, t.addr o = s.addr o
  ctx : ∀ o, t.ctx o = view s o

theorem addrInUse_iff (s : Reg) (a : Nat) (h : ∀ o a, s.addr o = some a → o < s.next) :
    s.addrInUse a = true ↔ ∃ o, s.addr o = some a := by
  unfold Reg.addrInUse
  simp only [List.any_eq_true, List.mem_range, beq_iff_eq]
  constructor
  · rintro ⟨o, _, ho⟩; exact ⟨o, ho⟩
  · rintro ⟨o, ho⟩; exact ⟨o, h o a ho, ho⟩

theorem inv_init : Inv init := by
  constructor <;> intros <;> simp_all [init]

theorem refines_init : Refines init {} := by
  constructor <;> intros <;> simp [init, view, Reg.alive]



theorem inv_alloc (s : Reg) (a : Nat) (h : Inv s) : Inv (step currentCfg s (.alloc a)) := by
  simp only [step]
  split
  · exact h
  · rename_i hu
    have hfree : ∀ o, s.addr o ≠ some a := by
      intro o ho
      exact hu ((addrInUse_iff s a h.allocated).2 ⟨o, ho⟩)
    constructor
    · intro o a' ho
      dsimp only at ho ⊢
      split at ho
      · omega
      · have := h.allocated o a' ho; omega
    · intro o1 o2 a' h1 h2
      simp only at h1 h2
      split at h1 <;> split at h2
      · omega
      · injection h1 with h1; subst h1; exact absurd h2 (hfree o2)
      · injection h2 with h2; subst h2; exact absurd h1 (hfree o1)
      · exact h.distinct o1 o2 a' h1 h2
    · intro a' e he hal
      simp only [Reg.alive] at he hal ⊢
      have ht := h.targets a' e he
      have hne : e.target ≠ s.next := by omega
      simp only [hne, if_false] at hal ⊢
      exact h.keyed a' e he hal
    · intro a' e he
      have := h.targets a' e he
      dsimp only at he ⊢
      omega


@[simp] theorem setTable_addr (s : Reg) (a : Nat) (e : Option Entry) : (s.setTable a e).addr = s.addr := rfl
@[simp] theorem setTable_next (s : Reg) (a : Nat) (e : Option Entry) : (s.setTable a e).next = s.next := rfl
@[simp] theorem setTable_alive (s : Reg) (a : Nat) (e : Option Entry) (o : Nat) :
    (s.setTable a e).alive o = s.alive o := rfl
theorem setTable_table (s : Reg) (a : Nat) (e : Option Entry) (a' : Nat) :
    (s.setTable a e).table a' = if a' = a then e else s.table a' := rfl

/-- removing an entry keeps the invariant -/
theorem inv_erase (s : Reg) (a : Nat) (h : Inv s) : Inv (s.setTable a none) := by
  constructor
  · exact h.allocated
  · exact h.distinct
  · intro a' e he hal
    rw [setTable_table] at he
    split at he
    · cases he
    · exact h.keyed a' e he hal
  · intro a' e he
    rw [setTable_table] at he
    split at he
    · cases he
    · exact h.targets a' e he

/-- an object dying keeps the invariant (whatever the table holds) -/
theorem inv_kill (s : Reg) (o : Nat) (h : Inv s) :
    Inv { s with addr := fun o' => if o' = o then none else s.addr o' } := by
  constructor
  · intro o' a ho
    dsimp only at ho ⊢
    split at ho
    · cases ho
    · exact h.allocated o' a ho
  · intro o1 o2 a h1 h2
    dsimp only at h1 h2
    split at h1
    · cases h1
    · split at h2
      · cases h2
      · exact h.distinct o1 o2 a h1 h2
  · intro a e he hal
    dsimp only [Reg.alive] at he hal ⊢
    split at hal
    · cases hal
    · rename_i hne
      simp only [hne, if_false]
      exact h.keyed a e he hal
  · intro a e he
    exact h.targets a e he

theorem inv_callback (s : Reg) (a r : Nat) (h : Inv s) : Inv (callback currentCfg s a r) := by
  unfold callback
  split
  · exact h
  · split
    · exact inv_erase s a h
    · exact h

theorem inv_step (s : Reg) (op : Op) (h : Inv s) : Inv (step currentCfg s op) := by
  cases op with
  | alloc a => exact inv_alloc s a h
  | free o =>
    simp only [step]
    split
    · exact h
    · rename_i a ha
      split
      · split
        · exact inv_kill _ o (inv_callback s a _ h)
        · exact inv_kill _ o h
      · exact inv_kill _ o h
  | freeQuiet o =>
    simp only [step]
    split
    · exact h
    · exact inv_kill s o h
  | store o c =>
    simp only [step]
    split
    · exact h
    · rename_i a ha
      constructor
      · exact h.allocated
      · exact h.distinct
      · intro a' e he hal
        dsimp only at he
        rw [setTable_table] at he
        split at he
        · rename_i heq
          injection he with he
          subst he
          subst heq
          exact ha
        · exact h.keyed a' e he hal
      · intro a' e he
        dsimp only at he ⊢
        rw [setTable_table] at he
        split at he
        · injection he with he
          subst he
          exact h.allocated o a ha
        · exact h.targets a' e he
  | get o =>
    simp only [step, getCtx]
    split
    · exact h
    · split
      · exact h
      · simp only [currentCfg, Bool.not_true, Bool.false_eq_true, if_false]
        split
        · exact h
        · exact inv_erase s _ h
  | clear o =>
    simp only [step]
    split
    · exact h
    · exact inv_erase s _ h



theorem abs_addrInUse (s : Reg) (t : Abs) (r : Refines s t) (a : Nat) : t.addrInUse a = s.addrInUse a := by
  unfold Abs.addrInUse Reg.addrInUse
  rw [r.next]
  congr 1
  funext o
  rw [r.addr]

/-- erasing the entry at an address no live object other than `o` occupies changes only `o`'s view -/
theorem view_erase_other (s : Reg) (h : Inv s) (o o' a : Nat) (ha : s.addr o = some a) (hne : o' ≠ o) :
    view (s.setTable a none) o' = view s o' := by
  unfold view
  show (match s.addr o' with | none => none | some a' => _) = _
  cases h' : s.addr o' with
  | none => rfl
  | some a' =>
    have : a' ≠ a := by
      intro heq; subst heq
      exact hne (h.distinct o' o a' h' ha)
    simp only [setTable_table, this, if_false]

theorem get_correct (s : Reg) (t : Abs) (h : Inv s) (r : Refines s t) (o : Nat) :
    (getCtx currentCfg s o).1 = if t.alive o then t.ctx o else none := by
  rw [r.alive, r.ctx]
  unfold getCtx view Reg.alive
  cases ha : s.addr o with
  | none => simp
  | some a =>
    simp only [Option.isSome_some, if_true]
    cases he : s.table a with
    | none => rfl
    | some e =>
      simp only [currentCfg, Bool.not_true, Bool.false_eq_true, if_false]
      by_cases ht : e.target = o
      · subst ht
        simp [ha]
      · simp [ht]



/-- view of a state in which `o` has died -/
theorem view_kill (s : Reg) (o o' : Nat) :
    view { s with addr := fun x => if x = o then none else s.addr x } o' =
      if o' = o then none else view s o' := by
  unfold view
  dsimp only
  by_cases h : o' = o
  · simp [h]
  · simp [h]

theorem refines_step (s : Reg) (t : Abs) (h : Inv s) (r : Refines s t) (op : Op) :
    Refines (step currentCfg s op) (absStep t op) := by
  cases op with
  | alloc a =>
    simp only [step, absStep, abs_addrInUse s t r]
    split
    · exact r
    · constructor
      · simp [r.next]
      · intro o; simp only [Reg.alive, r.next]
        split
        · simp
        · rw [r.alive]; rfl
      · intro o; simp only [r.next, r.addr]
      · intro o
        dsimp only
        rw [r.ctx]
        unfold view
        dsimp only
        by_cases ho : o = s.next
        · subst ho
          have hn : s.addr s.next = none := by
            cases hx : s.addr s.next with
            | none => rfl
            | some a' => exact absurd (h.allocated _ _ hx) (Nat.lt_irrefl _)
          simp only [hn]
          cases he : s.table a with
          | none => simp [he]
          | some e =>
            have := h.targets a e he
            have hne : e.target ≠ s.next := by omega
            simp [he, hne]
        · simp [ho]
  | free o =>
    simp only [step, absStep]
    have hal := r.alive o
    unfold Reg.alive at hal
    cases ha : s.addr o with
    | none =>
      rw [ha] at hal
      simp only [hal, Option.isSome_none, Bool.false_eq_true, if_false]
      exact r
    | some a =>
      rw [ha] at hal
      simp only [hal, Option.isSome_some, if_true]
      have key : ∀ s1 : Reg, s1.addr = s.addr → s1.next = s.next → (∀ o', o' ≠ o → view s1 o' = view s o') →
          Refines { s1 with addr := fun o' => if o' = o then none else s1.addr o' }
            { t with alive := fun o' => if o' = o then false else t.alive o',
                     addr := fun o' => if o' = o then none else t.addr o',
                     ctx := fun o' => if o' = o then none else t.ctx o' } := by
        intro s1 h1 h2 h3
        constructor
        · simp [r.next, h2]
        · intro o'; simp only [Reg.alive, h1]
          split
          · rfl
          · rw [r.alive]; rfl
        · intro o'; simp only [h1, r.addr]
        · intro o'
          rw [view_kill]
          dsimp only
          split
          · rfl
          · rename_i hne
            rw [r.ctx, h3 o' hne]
      split
      · rename_i e he
        split
        · unfold callback
          simp only [he, currentCfg, Bool.not_true, Bool.false_or, beq_self_eq_true, if_true]
          exact key _ rfl rfl (fun o' hne => view_erase_other s h o o' a ha hne)
        · exact key s rfl rfl (fun _ _ => rfl)
      · exact key s rfl rfl (fun _ _ => rfl)
  | freeQuiet o =>
    simp only [step, absStep]
    have hal := r.alive o
    unfold Reg.alive at hal
    cases ha : s.addr o with
    | none =>
      rw [ha] at hal
      simp only [hal, Option.isSome_none, Bool.false_eq_true, if_false]
      exact r
    | some a =>
      rw [ha] at hal
      simp only [hal, Option.isSome_some, if_true]
      constructor
      · simp [r.next]
      · intro o'; simp only [Reg.alive]
        split
        · rfl
        · rw [r.alive]; rfl
      · intro o'; simp only [r.addr]
      · intro o'
        rw [view_kill]
        dsimp only
        split
        · rfl
        · rw [r.ctx]
  | store o c =>
    simp only [step, absStep]
    have hal := r.alive o
    unfold Reg.alive at hal
    cases ha : s.addr o with
    | none =>
      rw [ha] at hal
      simp only [hal, Option.isSome_none, Bool.false_eq_true, if_false]
      exact r
    | some a =>
      rw [ha] at hal
      simp only [hal, Option.isSome_some, if_true]
      constructor
      · exact r.next
      · intro o'; rw [r.alive]; rfl
      · intro o'; rw [r.addr]; rfl
      · intro o'
        dsimp only
        unfold view
        dsimp only [Reg.setTable]
        split
        · rename_i heq
          subst heq
          simp [ha]
        · rename_i hne
          rw [r.ctx]
          unfold view
          cases h' : s.addr o' with
          | none => rfl
          | some a' =>
            have : a' ≠ a := by
              intro heq; subst heq
              exact hne (h.distinct o' o a' h' ha)
            simp [this]
  | get o =>
    simp only [step, absStep, getCtx]
    cases ha : s.addr o with
    | none => exact r
    | some a =>
      dsimp only
      cases he : s.table a with
      | none => exact r
      | some e =>
        simp only [currentCfg, Bool.not_true, Bool.false_eq_true, if_false]
        split
        · exact r
        · rename_i hstale
          constructor
          · exact r.next
          · intro o'; rw [r.alive]; rfl
          · intro o'; rw [r.addr]; rfl
          · intro o'
            rw [r.ctx]
            by_cases hoo : o' = o
            · subst hoo
              have : e.target ≠ o' := by
                intro heq
                apply hstale
                simp [heq, Reg.alive, ha]
              unfold view
              simp [setTable_addr, ha, setTable_table, he, this]
            · exact (view_erase_other s h o o' a ha hoo).symm
  | clear o =>
    simp only [step, absStep]
    have hal := r.alive o
    unfold Reg.alive at hal
    cases ha : s.addr o with
    | none =>
      rw [ha] at hal
      simp only [hal, Option.isSome_none, Bool.false_eq_true, if_false]
      exact r
    | some a =>
      rw [ha] at hal
      simp only [hal, Option.isSome_some, if_true]
      constructor
      · exact r.next
      · intro o'; rw [r.alive]; rfl
      · intro o'; rw [r.addr]; rfl
      · intro o'
        dsimp only
        split
        · rename_i heq
          subst heq
          unfold view
          simp [setTable_addr, ha, setTable_table]
        · rename_i hne
          rw [r.ctx]
          exact (view_erase_other s h o o' a ha hne).symm


theorem inv_run (s : Reg) (ops : List Op) (h : Inv s) : Inv (run currentCfg s ops) := by
  induction ops generalizing s with
  | nil => exact h
  | cons op ops ih => exact ih _ (inv_step s op h)

theorem refines_run (s : Reg) (t : Abs) (ops : List Op) (h : Inv s) (r : Refines s t) :
    Refines (run currentCfg s ops) (absRun t ops) := by
  induction ops generalizing s t with
  | nil => exact r
  | cons op ops ih => exact ih _ _ (inv_step s op h) (refines_step s t h r op)

theorem answers_refine (s : Reg) (t : Abs) (ops : List Op) (h : Inv s) (r : Refines s t) :
    answers currentCfg s ops = absAnswers t ops := by
  induction ops generalizing s t with
  | nil => rfl
  | cons op ops ih =>
    have ih' := ih _ _ (inv_step s op h) (refines_step s t h r op)
    cases op with
    | get o =>
      simp only [answers, absAnswers]
      rw [get_correct s t h r o, ih']
    | alloc a => simpa only [answers, absAnswers] using ih'
    | free o => simpa only [answers, absAnswers] using ih'
    | freeQuiet o => simpa only [answers, absAnswers] using ih'
    | store o c => simpa only [answers, absAnswers] using ih'
    | clear o => simpa only [answers, absAnswers] using ih'


/-! ### the abstract registry: objects not yet allocated are dead and have no context -/

def AbsInv (t : Abs) : Prop := ∀ o, t.next ≤ o → t.alive o = false ∧ t.ctx o = none

theorem absInv_init : AbsInv {} := by intro o _; exact ⟨rfl, rfl⟩

theorem absInv_step (t : Abs) (op : Op) (h : AbsInv t) : AbsInv (absStep t op) := by
  have hdead : ∀ o, t.alive o = true → o < t.next := by
    intro o ho
    apply Classical.byContradiction
    intro hn
    have := (h o (by omega)).1
    rw [this] at ho
    cases ho
  cases op with
  | alloc a =>
    simp only [absStep]
    split
    · exact h
    · intro o ho
      dsimp only at ho ⊢
      have hne : o ≠ t.next := by omega
      simp only [hne, if_false]
      exact h o (by omega)
  | free x =>
    simp only [absStep]
    split
    · intro o ho
      dsimp only at ho ⊢
      have := h o ho
      split <;> simp [this]
    · exact h
  | freeQuiet x =>
    simp only [absStep]
    split
    · intro o ho
      dsimp only at ho ⊢
      have := h o ho
      split <;> simp [this]
    · exact h
  | store x c =>
    simp only [absStep]
    split
    · rename_i hx
      intro o ho
      dsimp only at ho ⊢
      have hlt := hdead x hx
      have hne : o ≠ x := by omega
      simp only [hne, if_false]
      exact h o ho
    · exact h
  | get x => exact h
  | clear x =>
    simp only [absStep]
    split
    · intro o ho
      dsimp only at ho ⊢
      have := h o ho
      split <;> simp [this]
    · exact h

theorem absInv_run (t : Abs) (ops : List Op) (h : AbsInv t) : AbsInv (absRun t ops) := by
  induction ops generalizing t with
  | nil => exact h
  | cons op ops ih => exact ih _ (absInv_step t op h)

theorem absAnswers_append (t : Abs) (ops more : List Op) :
    absAnswers t (ops ++ more) = absAnswers t ops ++ absAnswers (absRun t ops) more := by
  induction ops generalizing t with
  | nil => rfl
  | cons op ops ih =>
    cases op <;> simp [absAnswers, absRun, ih]

/-- a newly created object has no context, whatever its address was used for before -/
theorem abs_new_object_clean (t : Abs) (h : AbsInv t) (a : Nat) :
    absAnswers t [.alloc a, .get t.next] = [none] := by
  simp only [absAnswers, absStep]
  split
  · simp [(h t.next (Nat.le_refl _)).1]
  · simp [(h t.next (Nat.le_refl _)).2]

end Nima.Registry
