import NimaVerif.Lemmas.NameAgree
import NimaVerif.Lemmas.EditKeeps
import NimaVerif.Lemmas.CliEdit
import NimaVerif.Gen.Cli
/-!
# C08 — a rejected edit is loud and leaves the document exactly as it was

The model (`Model/Edit.lean`) is state-returning: `EditM α = Doc → Except Err α × Doc` hands back the
(possibly already mutated) document also when the operation fails, with the writes in the order of
the Python. "Rejected edits change nothing" is therefore a statement about the second component,
and its proof obligation is *no write precedes a reachable throw*.

SPEC vocabulary (`Model/EditSpec.lean`): `Doc.same d d'` (equal up to the allocation counter
`next`, which is not document state), `WF d` (no scratch set left over, the target is an attribute
set — both decidable, both invariants of every operation: `wf_preserved`), `Op`, `runOps`
(histories; a rejected step does not stop the history), `finalDoc`, `lastGood`, `goodOps`.

All statements quantify over every document, path text, value and history.
-/
namespace Nima.C08
-- name tokens are compared by spelling in this file (see `NameCmp` in Model/Edit.lean)
attribute [local instance] NameCmp.spelled

open Nima Nima.Node Nima.EditM Nima.EditFail

/-! ## (a) a rejected edit leaves the document as it was -/

/-- A rejected `set` returns the document it was given, up to the allocation counter — whatever
    the path (plain, nested, attrpath family, quoted, scoped, malformed) and the value. -/
theorem set_fail_unchanged (d : Doc) (p : Text) (v : ValueArg) (e : Err) (d' : Doc)
    (hwf : WF d) (h : setValue p v d = (.error e, d')) : d.same d' :=
  (setValue_error (WF.scratch hwf) h).1

/-- A rejected `rm` returns the document it was given, up to the allocation counter. -/
theorem rm_fail_unchanged (d : Doc) (p : Text) (e : Err) (d' : Doc)
    (hwf : WF d) (h : removeValue p d = (.error e, d')) : d.same d' :=
  (removeValue_error (WF.scratch hwf) h).1

/-- Without a scope selector nothing at all is spent: the rejected `set` returns *exactly* its
    input, for every document (no well-formedness needed). -/
theorem set_fail_exact (d : Doc) (p : Text) (v : ValueArg) (e : Err) (d' : Doc)
    (hp : p.head? ≠ some '@') (h : setValue p v d = (.error e, d')) : d' = d :=
  setValue_error_exact (splitScopeNpath_plain hp) h

theorem rm_fail_exact (d : Doc) (p : Text) (e : Err) (d' : Doc)
    (hp : p.head? ≠ some '@') (h : removeValue p d = (.error e, d')) : d' = d :=
  removeValue_error_exact (splitScopeNpath_plain hp) h

/-- Exact equality for *every* path is false of the model, for a reason that is not document
    state: a scoped edit allocates the identity of its scratch `AttributeSet` before the
    attrset-level operation runs, so `next` has advanced when that operation is rejected. This is
    why (a) is stated with `Doc.same`. (Python: `AttributeSet(values=layer["scope"], …)` is
    constructed and dropped.) -/
def fail_exact_full : Prop :=
  ∀ (d : Doc) (p : Text) (v : ValueArg) (e : Err) (d' : Doc),
    WF d → setValue p v d = (.error e, d') → d' = d

/-- `let v = 1; in { a = v; }` -/
def exLet : Doc :=
  { target := .set 0 [.bind 1 "a".toList false (.ident "v".toList) [] []] [] true false,
    scope := [.bind 2 "v".toList false (.atom "1".toList) [] []],
    next := 3 }

theorem cex_scoped_allocates : ¬ fail_exact_full := by
  intro h
  have h1 : setValue "@v.w".toList (.one (.atom "3".toList)) exLet =
      (.error .value, { exLet with next := 4 }) := rfl
  have := congrArg Doc.next (h _ _ _ _ _ (by decide) h1)
  exact absurd this (by decide)

/-! ### the key lemmas: no write precedes a reachable throw -/

/-- `_set_attrpath_value`: once a segment is missing the rest of the walk runs on a fresh empty
    set; it cannot fail and ends on an empty set. -/
theorem attrpath_walk_on_fresh_set_cannot_fail (cur : Node) (segs : List Text) (d : Doc)
    (hs : cur.isSet = true) (he : cur.setValues = []) :
    ∃ c d', setAttrpathWalk cur segs d = (.ok c, d') ∧ c.isSet = true ∧ c.setValues = [] :=
  setAttrpathWalk_empty segs cur d hs he

/-- `_set_attrpath_value`'s walk: a failure returns the state untouched; a success either wrote
    nothing or ended on a set this walk created (which is empty). -/
theorem attrpath_walk_fails_before_first_write (cur : Node) (segs : List Text) (d : Doc) :
    (∀ e d', setAttrpathWalk cur segs d = (.error e, d') → d' = d) ∧
    (∀ c d', setAttrpathWalk cur segs d = (.ok c, d') →
      d' = d ∨ (c.isSet = true ∧ c.setValues = [])) :=
  ⟨fun _ _ h => ((setAttrpathWalk_spec segs cur d _ _ h).1 _ rfl).1,
   fun _ _ h => ((setAttrpathWalk_spec segs cur d _ _ h).2 _ rfl).2⟩

/-- `_resolve_npath_parent(create_missing=True)` on a fresh empty set cannot fail. -/
theorem parent_walk_on_fresh_set_cannot_fail (cur : Node) (segs : List Text) (d : Doc)
    (hs : cur.isSet = true) (he : cur.setValues = []) :
    ∃ c d', resolveParentWalk true cur segs d = (.ok c, d') ∧ c.isSet = true ∧ c.setValues = [] :=
  resolveParentWalk_empty segs cur d hs he

/-- `_resolve_npath_parent`: a failure returns the state untouched (both modes); a success either
    wrote nothing or ended on a set this walk created. -/
theorem parent_walk_fails_before_first_write (cm : Bool) (cur : Node) (segs : List Text) (d : Doc) :
    (∀ e d', resolveParentWalk cm cur segs d = (.error e, d') → d' = d) ∧
    (∀ c d', resolveParentWalk cm cur segs d = (.ok c, d') →
      d' = d ∨ (c.isSet = true ∧ c.setValues = [])) :=
  ⟨fun _ _ h => ((resolveParentWalk_spec cm segs cur d _ _ h).1 _ rfl).1,
   fun _ _ h => ((resolveParentWalk_spec cm segs cur d _ _ h).2 _ rfl).2⟩

/-- `_set_value_in_attrset` / `_remove_value_in_attrset` on any set object, in any state:
    a failure returns the state untouched. -/
theorem attrset_level_fail_unchanged (ts : Node) (wl : Bool) (p : Text) (v : Node) (d : Doc) :
    (∀ e d', setValueInAttrset ts wl p v d = (.error e, d') → d' = d) ∧
    (∀ e d', removeValueInAttrset ts p d = (.error e, d') → d' = d) :=
  ⟨fun _ _ h => (setValueInAttrset_clean ts wl p v _ _ _ h).1,
   fun _ _ h => (removeValueInAttrset_clean ts p _ _ _ h).1⟩

/-- The scoped branch that creates a new `let` layer clears `before`/`after` of the target
    *before* the attrset-level operation runs; that operation cannot fail on the fresh empty
    scratch set once the path text has been accepted (it was checked first). -/
theorem fresh_layer_operation_cannot_fail (sid : Nat) (p : Text) (v : Node) (segs : List Text) (d : Doc)
    (hf : formatNPath currentAnchor p = .ok segs) :
    ∃ d', setValueInAttrset (.set sid [] [] true false) false p v d = (.ok (), d') := by
  obtain ⟨a, d', h⟩ := setValueInAttrset_empty_noFail (.set sid [] [] true false) false p v segs hf rfl rfl d
  exact ⟨d', h⟩

/-! ### mapping operations -/

/-- `AttributeSet.__setitem__` is rejected only for a receiver that is not a set object, and then
    without a write; on a set object it always succeeds. -/
theorem setitem_fail_unchanged (s : Node) (key : Text) (v : Node) (d : Doc) (e : Err) (d' : Doc)
    (h : setSetItem s key v d = (.error e, d')) : d' = d ∧ s.isSet = false := by
  obtain ⟨h1, h2, _⟩ := setSetItem_error h
  refine ⟨h1, ?_⟩
  cases hs : s.isSet with
  | false => rfl
  | true =>
    obtain ⟨i, hi⟩ := isSet_setSid s hs
    rw [hi] at h2; cases h2

theorem setitem_on_set_succeeds (s : Node) (key : Text) (v : Node) (d : Doc) (hs : s.isSet = true) :
    ∃ d', setSetItem s key v d = (.ok (), d') := by
  obtain ⟨a, d', h⟩ := setSetItem_noFail s key v hs d
  exact ⟨d', h⟩

/-- `AttributeSet.__delitem__`: a rejection is a `KeyError` and writes nothing. -/
theorem delitem_fail_unchanged (s : Node) (key : Text) (d : Doc) (e : Err) (d' : Doc)
    (h : setDelItem s key d = (.error e, d')) : d' = d ∧ e = .key :=
  setDelItem_error h

/-- `Scope.__setitem__` never fails. -/
theorem scope_setitem_succeeds (key : Text) (v : Node) (d : Doc) :
    ∃ d', scopeSetItem key v d = (.ok (), d') :=
  scopeSetItem_ok key v d

/-- `Scope.__delitem__`: a rejection is a `KeyError` and writes nothing. -/
theorem scope_delitem_fail_unchanged (key : Text) (d : Doc) (e : Err) (d' : Doc)
    (h : scopeDelItem key d = (.error e, d')) : d' = d ∧ e = .key :=
  scopeDelItem_error h

/-! ## (b) a rejected edit is loud in the documented way: `KeyError` or `ValueError` -/

/-- FULL statement: every exception escaping `set` is a `KeyError` or a `ValueError`. -/
def error_class_full : Prop :=
  ∀ (d : Doc) (p : Text) (v : ValueArg) (e : Err) (d' : Doc),
    WF d → setValue p v d = (.error e, d') → e = .key ∨ e = .value

def rm_error_class_full : Prop :=
  ∀ (d : Doc) (p : Text) (e : Err) (d' : Doc),
    WF d → removeValue p d = (.error e, d') → e = .key ∨ e = .value

/-- a document whose target resolution dereferences an unresolvable identifier (`x: x`) -/
def exResolution : Doc := { noTarget := some .resolution }

/-- Known finding C08-fixed-resolution-error (repaired in /repo commit 254c762): when
    `ResolutionError` escapes target resolution it is neither class. Kept as documentation of the
    class the partial theorem excludes. -/
theorem cex_resolution : ¬ error_class_full := by
  intro h
  have h1 : setValue "a".toList (.one (.atom "1".toList)) exResolution =
      (.error .resolution, exResolution) := rfl
  have := h _ _ _ _ _ (by decide) h1
  revert this; decide

theorem cex_resolution_rm : ¬ rm_error_class_full := by
  intro h
  have h1 : removeValue "a".toList exResolution = (.error .resolution, exResolution) := rfl
  have := h _ _ _ _ (by decide) h1
  revert this; decide

/-- Outside that class (decidable side condition on the document), only `KeyError` and
    `ValueError` escape `set` — in particular none of the model's `.internal _` branches
    (IndexError, AssertionError, not-a-set, shape) is reachable on a well-formed document. -/
theorem error_class_partial (d : Doc) (p : Text) (v : ValueArg) (e : Err) (d' : Doc)
    (hwf : WF d) (hres : d.noTarget ≠ some .resolution)
    (h : setValue p v d = (.error e, d')) : e = .key ∨ e = .value :=
  (setValue_error (WF.scratch hwf) h).2 hwf.2 hres

theorem rm_error_class_partial (d : Doc) (p : Text) (e : Err) (d' : Doc)
    (hwf : WF d) (hres : d.noTarget ≠ some .resolution)
    (h : removeValue p d = (.error e, d')) : e = .key ∨ e = .value :=
  (removeValue_error (WF.scratch hwf) h).2 hwf.2 hres

/-- Total form: whatever the document's `noTarget`, an exception escaping `set`/`rm` is a
    `KeyError`, a `ValueError`, or the `ResolutionError` of target resolution — never one of the
    model's internal failure modes (IndexError, AssertionError, not-a-set, shape): those branches
    are dead code on well-formed documents. -/
theorem error_class_total (d : Doc) (op : Op) (e : Err) (d' : Doc) (hwf : WF d)
    (h : op.run d = (.error e, d')) :
    e = .key ∨ e = .value ∨ (e = .resolution ∧ d.noTarget = some .resolution) := by
  by_cases hres : d.noTarget = some .resolution
  · -- target resolution raises before the document is looked at
    have hrt : resolveTarget d = .error .resolution := by simp [resolveTarget, hres]
    cases op with
    | set p v =>
      cases v with
      | empty => cases h; exact Or.inr (Or.inl rfl)
      | invalid => cases h; exact Or.inr (Or.inl rfl)
      | one n' =>
        simp only [Op.run, setValue, hres, hrt] at h
        split at h
        · rename_i hs
          cases h
          exact Or.inr (Or.inl (splitScopeNpath_error p _ hs))
        · cases h; exact Or.inr (Or.inr ⟨rfl, hres⟩)
        · cases h; exact Or.inr (Or.inr ⟨rfl, hres⟩)
    | rm p =>
      simp only [Op.run, removeValue, hres, hrt] at h
      split at h
      · rename_i hs
        cases h
        exact Or.inr (Or.inl (splitScopeNpath_error p _ hs))
      · cases h; exact Or.inr (Or.inr ⟨rfl, hres⟩)
      · cases h; exact Or.inr (Or.inr ⟨rfl, hres⟩)
  · rcases (Op.run_error (WF.scratch hwf) h).2 hwf.2 hres with h1 | h1
    · exact Or.inl h1
    · exact Or.inr (Or.inl h1)

theorem no_internal_error (d : Doc) (op : Op) (e : Err) (d' : Doc) (hwf : WF d)
    (h : op.run d = (.error e, d')) : ∀ n, e ≠ .internal n := by
  intro n hn
  rcases error_class_total d op e d' hwf h with h1 | h1 | ⟨h1, _⟩ <;> rw [hn] at h1 <;> cases h1

/-! ## (c) histories: rejected operations are invisible to later ones -/

/-- Well-formedness is established once (the parser yields no scratch set and
    `_resolve_target_set` an `AttributeSet`) and kept by every operation, accepted or rejected;
    `noTarget` never changes. -/
theorem wf_preserved (d : Doc) (op : Op) (r : Except Err Unit) (d' : Doc) (hwf : WF d)
    (h : op.run d = (r, d')) : WF d' ∧ d'.noTarget = d.noTarget :=
  ⟨WF.of_keeps hwf (Op.run_keeps op d r d' h), (Op.run_keeps op d r d' h).1⟩

theorem history_wf (d : Doc) (ops : List Op) (hwf : WF d) :
    ∀ r ∈ runOps ops d, WF r.2 ∧ r.2.noTarget = d.noTarget :=
  runOps_wf ops d hwf

/-- Every rejected step of every history returns the state that step started in (up to `next`),
    with a `KeyError`/`ValueError` (unless target resolution itself raises `ResolutionError`). -/
theorem history_failed_step_unchanged (d : Doc) (ops : List Op) (i : Nat) (e : Err) (d' : Doc)
    (hwf : WF d) (h : (runOps ops d)[i]? = some (.error e, d')) :
    (finalDoc d ((runOps ops d).take i)).same d' ∧
    (d.noTarget ≠ some .resolution → e = .key ∨ e = .value) := by
  obtain ⟨h1, h2, h3⟩ := runOps_failed_step ops d i e d' hwf h
  exact ⟨h1.1, fun hres => h1.2 h3.2 (by rw [h2]; exact hres)⟩

/-- Hence the document any later operation sees is the one the last accepted operation left
    (or the initial one), up to `next`. -/
theorem history_sees_last_success (d : Doc) (ops : List Op) (hwf : WF d) :
    (lastGood d (runOps ops d)).same (finalDoc d (runOps ops d)) :=
  runOps_lastGood ops d d (Doc.same_refl d) hwf

/-- DESIGN §8/C08 `run d ops = run d (filter succeeded ops)`, literally, for histories without
    scope selectors: running only the accepted operations yields exactly the accepted steps of the
    full run — same outcomes, same documents, same identities. No well-formedness needed. -/
theorem history_filter_plain (d : Doc) (ops : List Op) (hp : ∀ op ∈ ops, op.plain) :
    runOps (goodOps ops d) d = (runOps ops d).filter isOk :=
  runOps_goodOps ops d hp

/-- The literal equation for *all* histories is false of the model only through identity
    numbering: a rejected scoped operation has spent one identity (see `cex_scoped_allocates`), so
    objects created afterwards are numbered differently. Up to `next` the states agree
    (`history_sees_last_success`). -/
def history_filter_full : Prop :=
  ∀ (d : Doc) (ops : List Op), WF d → runOps (goodOps ops d) d = (runOps ops d).filter isOk

def exOps : List Op :=
  [.set "@v.w".toList (.one (.atom "3".toList)), .set "b".toList (.one (.atom "1".toList))]

theorem cex_history_filter_ids : ¬ history_filter_full := by
  intro h
  have := congrArg (fun t => t.map (·.2.next)) (h exLet exOps (by decide))
  exact absurd this (by decide)

/-! ## Non-vacuity -/

/-- `{ a.b = 1; x = 2; }` : two bindings, one of them an attrpath family -/
def exLeafB : Node := .bind 3 "b".toList false (.atom "1".toList) [] []
def exDoc : Doc :=
  { target := .set 0
      [.bind 1 "a".toList true (.set 2 [exLeafB] [] true false) [] [],
       .bind 4 "x".toList false (.atom "2".toList) [] []]
      [.entry ["a".toList, "b".toList] exLeafB none none,
       .bind 4 "x".toList false (.atom "2".toList) [] []]
      true false,
    next := 5 }

example : WF exDoc ∧ exDoc.noTarget ≠ some .resolution := by decide
example : WF exLet ∧ exLet.noTarget ≠ some .resolution := by decide
-- `set a.b.c 3` runs into the non-set `b = 1` inside the family: ValueError, nothing changed
example : setValue "a.b.c".toList (.one (.atom "3".toList)) exDoc = (.error .value, exDoc) := rfl
-- `set x.y 3` runs into the non-set `x = 2` on the plain nested path
example : setValue "x.y".toList (.one (.atom "3".toList)) exDoc = (.error .value, exDoc) := rfl
example : removeValue "a.c".toList exDoc = (.error .key, exDoc) := rfl
example : removeValue "x.y.z".toList exDoc = (.error .value, exDoc) := rfl
example : setValue "a..b".toList (.one (.atom "3".toList)) exDoc = (.error .value, exDoc) := rfl
-- the same walks do write when nothing is in the way: two intermediate sets and a leaf are created
example : (setValue "a.c.d".toList (.one (.atom "3".toList)) exDoc).1 = .ok () ∧
    (setValue "a.c.d".toList (.one (.atom "3".toList)) exDoc).2.next = 8 := ⟨rfl, rfl⟩
-- scoped: rejected on the let layer, document the same up to `next`; missing layer: exactly the same
example : setValue "@v.w".toList (.one (.atom "3".toList)) exLet =
    (.error .value, { exLet with next := 4 }) := rfl
example : removeValue "@zz".toList exLet = (.error .key, { exLet with next := 4 }) := rfl
example : setValue "@@v".toList (.one (.atom "3".toList)) exLet = (.error .value, exLet) := rfl
-- a history with rejected steps in the middle
example : (runOps [.rm "zz".toList, .set "x".toList (.one (.atom "7".toList)),
    .set "x.y".toList (.one (.atom "3".toList)), .rm "a.b".toList, .rm "x.y".toList] exDoc).map (·.1) =
    [.error .key, .ok (), .error .value, .ok (), .error .value] := rfl

/-! ## (e) through the command line

`nima set` / `nima rm` over the edit model (`Cli.editLib`, `Lemmas/CliEdit.lean`: any library whose
edit entry points are the modelled ones — for ANY comparison of name tokens `inst`, so also for the
code as it is, `NameCmp.model` —, any `parse`, any reading of VALUE, any rendering). The programs
the interpreter runs are re-extracted from `cli/main.py` (`tie_cli_set`, `tie_cli_rm`). -/
section CommandLine
open Cli
variable {σ : Type}

theorem tie_cli_set : Gen.cliSet = some Cli.setProg := by decide
theorem tie_cli_rm : Gen.cliRm = some Cli.rmProg := by decide

/-- A `set` the library rejects: not one byte on stdout, exit status 1, the exception of the
    library on stderr — for every document, path, value and channel. -/
theorem cli_rejected_set_silent (inst : NameCmp) (base : Lib σ) (docOf : σ → Doc)
    (classify : Text → ValueArg) (render : Doc → Except Err Text) (inv : Inv) (t : Text) (s : σ)
    (e : Err) (d' : Doc) (hc : inv.content = .ok t) (hp : base.parse t = .ok s)
    (h : @setValue inst inv.npath (classify inv.value) (docOf s) = (.error e, d')) :
    cli (@editLib σ inst base docOf classify render) .set inv = tracebackRes e := by
  rw [@cli_set_model σ inst base docOf classify render inv t s hc hp, h]
  rfl

theorem cli_rejected_rm_silent (inst : NameCmp) (base : Lib σ) (docOf : σ → Doc)
    (classify : Text → ValueArg) (render : Doc → Except Err Text) (inv : Inv) (t : Text) (s : σ)
    (e : Err) (d' : Doc) (hc : inv.content = .ok t) (hp : base.parse t = .ok s)
    (h : @removeValue inst inv.npath (docOf s) = (.error e, d')) :
    cli (@editLib σ inst base docOf classify render) .rm inv = tracebackRes e := by
  rw [@cli_rm_model σ inst base docOf classify render inv t s hc hp, h]
  rfl

/-- Exit status 0 exactly when the library accepted the edit and the edited document rendered:
    a rejection can never look like a success from the shell. -/
theorem cli_set_exit_zero_iff (inst : NameCmp) (base : Lib σ) (docOf : σ → Doc)
    (classify : Text → ValueArg) (render : Doc → Except Err Text) (inv : Inv) (t : Text) (s : σ)
    (hc : inv.content = .ok t) (hp : base.parse t = .ok s) :
    (cli (@editLib σ inst base docOf classify render) .set inv).exit = 0 ↔
      ∃ u d' text, @setValue inst inv.npath (classify inv.value) (docOf s) = (.ok u, d') ∧
        render d' = .ok text := by
  rw [@cli_set_model σ inst base docOf classify render inv t s hc hp]
  rcases hm : @setValue inst inv.npath (classify inv.value) (docOf s) with ⟨r, d'⟩
  cases r with
  | error e => simp [shown, tracebackRes]
  | ok u => cases hr : render d' <;> simp [shown, tracebackRes, hr]

theorem cli_rm_exit_zero_iff (inst : NameCmp) (base : Lib σ) (docOf : σ → Doc)
    (classify : Text → ValueArg) (render : Doc → Except Err Text) (inv : Inv) (t : Text) (s : σ)
    (hc : inv.content = .ok t) (hp : base.parse t = .ok s) :
    (cli (@editLib σ inst base docOf classify render) .rm inv).exit = 0 ↔
      ∃ u d' text, @removeValue inst inv.npath (docOf s) = (.ok u, d') ∧ render d' = .ok text := by
  rw [@cli_rm_model σ inst base docOf classify render inv t s hc hp]
  rcases hm : @removeValue inst inv.npath (docOf s) with ⟨r, d'⟩
  cases r with
  | error e => simp [shown, tracebackRes]
  | ok u => cases hr : render d' <;> simp [shown, tracebackRes, hr]

/-- What stderr names for a rejected `set` on a well-formed document whose target resolves:
    KeyError or ValueError, nothing else (names compared by spelling; `_repaired` below). -/
theorem cli_rejected_set_class (base : Lib σ) (docOf : σ → Doc)
    (classify : Text → ValueArg) (render : Doc → Except Err Text) (inv : Inv) (t : Text) (s : σ)
    (e : Err) (d' : Doc) (hc : inv.content = .ok t) (hp : base.parse t = .ok s)
    (hwf : WF (docOf s)) (hres : (docOf s).noTarget ≠ some .resolution)
    (h : setValue inv.npath (classify inv.value) (docOf s) = (.error e, d')) :
    cli (editLib base docOf classify render) .set inv = tracebackRes .key ∨
    cli (editLib base docOf classify render) .set inv = tracebackRes .value := by
  rw [cli_rejected_set_silent NameCmp.spelled base docOf classify render inv t s e d' hc hp h]
  rcases error_class_partial _ _ _ e d' hwf hres h with h1 | h1 <;> rw [h1]
  · exact Or.inl rfl
  · exact Or.inr rfl

theorem cli_rejected_rm_class (base : Lib σ) (docOf : σ → Doc)
    (classify : Text → ValueArg) (render : Doc → Except Err Text) (inv : Inv) (t : Text) (s : σ)
    (e : Err) (d' : Doc) (hc : inv.content = .ok t) (hp : base.parse t = .ok s)
    (hwf : WF (docOf s)) (hres : (docOf s).noTarget ≠ some .resolution)
    (h : removeValue inv.npath (docOf s) = (.error e, d')) :
    cli (editLib base docOf classify render) .rm inv = tracebackRes .key ∨
    cli (editLib base docOf classify render) .rm inv = tracebackRes .value := by
  rw [cli_rejected_rm_silent NameCmp.spelled base docOf classify render inv t s e d' hc hp h]
  rcases rm_error_class_partial _ _ e d' hwf hres h with h1 | h1 <;> rw [h1]
  · exact Or.inl rfl
  · exact Or.inr rfl

/-- Non-vacuity: `nima rm zz` on `{ b = 1; }` in the model — KeyError, silence, status 1. -/
example : cli (editLib (σ := Unit) ⟨fun _ => .ok (), fun _ => false, fun _ => .ok [], fun _ _ _ => .ok [],
      fun _ _ => .ok []⟩ (fun _ => exDoc) (fun _ => .one (.atom ['1'])) (fun _ => .ok []))
    .rm { chan := .stdin, raw := .ok [], npath := ['z', 'z'] } = tracebackRes .key := by decide

end CommandLine

/-! ## For the repaired code (`NameCmp.model`, i.e. lookups through `_same_attr_name`)

Everything above is stated for the name comparison by spelling (`NameCmp.spelled`, declared at the head
of this file). `setValue_model_eq_spelled` / `removeValue_model_eq_spelled` (Lemmas/NameAgree.lean) make
it a statement about the model of the repaired code under the decidable side condition
`NameAgree.noSpellingClash d p`: among the name tokens of the document and the keys of the path no two are
different spellings of one Nix name. The single-operation theorems restated that way (hypotheses about
lookups keep the comparison by spelling, which is the code's on such inputs): -/

theorem repaired_set_is_spelled (p : Text) (v : ValueArg) (d : Doc) (hns : NameAgree.noSpellingClash d p) :
    @setValue NameCmp.model p v d = setValue p v d := NameAgree.setValue_model_eq_spelled p v d hns

theorem repaired_rm_is_spelled (p : Text) (d : Doc) (hns : NameAgree.noSpellingClash d p) :
    @removeValue NameCmp.model p d = removeValue p d := NameAgree.removeValue_model_eq_spelled p d hns

theorem set_fail_unchanged_repaired (d : Doc) (p : Text) (v : ValueArg) (e : Err) (d' : Doc)
    (hwf : WF d) (h : @setValue NameCmp.model p v d = (.error e, d'))
    (hns : NameAgree.noSpellingClash d p) : d.same d' := by
  simp only [NameAgree.setValue_model_eq_spelled p _ d hns, NameAgree.removeValue_model_eq_spelled p d hns] at *
  exact set_fail_unchanged d p v e d' hwf h

theorem rm_fail_unchanged_repaired (d : Doc) (p : Text) (e : Err) (d' : Doc)
    (hwf : WF d) (h : @removeValue NameCmp.model p d = (.error e, d'))
    (hns : NameAgree.noSpellingClash d p) : d.same d' := by
  simp only [NameAgree.setValue_model_eq_spelled p _ d hns, NameAgree.removeValue_model_eq_spelled p d hns] at *
  exact rm_fail_unchanged d p e d' hwf h

theorem set_fail_exact_repaired (d : Doc) (p : Text) (v : ValueArg) (e : Err) (d' : Doc)
    (hp : p.head? ≠ some '@') (h : @setValue NameCmp.model p v d = (.error e, d'))
    (hns : NameAgree.noSpellingClash d p) : d' = d := by
  simp only [NameAgree.setValue_model_eq_spelled p _ d hns, NameAgree.removeValue_model_eq_spelled p d hns] at *
  exact set_fail_exact d p v e d' hp h

theorem rm_fail_exact_repaired (d : Doc) (p : Text) (e : Err) (d' : Doc)
    (hp : p.head? ≠ some '@') (h : @removeValue NameCmp.model p d = (.error e, d'))
    (hns : NameAgree.noSpellingClash d p) : d' = d := by
  simp only [NameAgree.setValue_model_eq_spelled p _ d hns, NameAgree.removeValue_model_eq_spelled p d hns] at *
  exact rm_fail_exact d p e d' hp h

theorem error_class_partial_repaired (d : Doc) (p : Text) (v : ValueArg) (e : Err) (d' : Doc)
    (hwf : WF d) (hres : d.noTarget ≠ some .resolution)
    (h : @setValue NameCmp.model p v d = (.error e, d'))
    (hns : NameAgree.noSpellingClash d p) : e = .key ∨ e = .value := by
  simp only [NameAgree.setValue_model_eq_spelled p _ d hns, NameAgree.removeValue_model_eq_spelled p d hns] at *
  exact error_class_partial d p v e d' hwf hres h

theorem rm_error_class_partial_repaired (d : Doc) (p : Text) (e : Err) (d' : Doc)
    (hwf : WF d) (hres : d.noTarget ≠ some .resolution)
    (h : @removeValue NameCmp.model p d = (.error e, d'))
    (hns : NameAgree.noSpellingClash d p) : e = .key ∨ e = .value := by
  simp only [NameAgree.setValue_model_eq_spelled p _ d hns, NameAgree.removeValue_model_eq_spelled p d hns] at *
  exact rm_error_class_partial d p e d' hwf hres h

theorem cli_rejected_set_class_repaired {σ : Type} (base : Cli.Lib σ) (docOf : σ → Doc)
    (classify : Text → ValueArg) (render : Doc → Except Err Text) (inv : Cli.Inv) (t : Text) (s : σ)
    (e : Err) (d' : Doc) (hc : inv.content = .ok t) (hp : base.parse t = .ok s)
    (hwf : WF (docOf s)) (hres : (docOf s).noTarget ≠ some .resolution)
    (h : @setValue NameCmp.model inv.npath (classify inv.value) (docOf s) = (.error e, d'))
    (hns : NameAgree.noSpellingClash (docOf s) inv.npath) :
    Cli.cli (@Cli.editLib σ NameCmp.model base docOf classify render) .set inv = Cli.tracebackRes .key ∨
    Cli.cli (@Cli.editLib σ NameCmp.model base docOf classify render) .set inv = Cli.tracebackRes .value := by
  rw [cli_rejected_set_silent NameCmp.model base docOf classify render inv t s e d' hc hp h]
  rcases error_class_partial_repaired _ _ _ e d' hwf hres h hns with h1 | h1 <;> rw [h1]
  · exact Or.inl rfl
  · exact Or.inr rfl

theorem cli_rejected_rm_class_repaired {σ : Type} (base : Cli.Lib σ) (docOf : σ → Doc)
    (classify : Text → ValueArg) (render : Doc → Except Err Text) (inv : Cli.Inv) (t : Text) (s : σ)
    (e : Err) (d' : Doc) (hc : inv.content = .ok t) (hp : base.parse t = .ok s)
    (hwf : WF (docOf s)) (hres : (docOf s).noTarget ≠ some .resolution)
    (h : @removeValue NameCmp.model inv.npath (docOf s) = (.error e, d'))
    (hns : NameAgree.noSpellingClash (docOf s) inv.npath) :
    Cli.cli (@Cli.editLib σ NameCmp.model base docOf classify render) .rm inv = Cli.tracebackRes .key ∨
    Cli.cli (@Cli.editLib σ NameCmp.model base docOf classify render) .rm inv = Cli.tracebackRes .value := by
  rw [cli_rejected_rm_silent NameCmp.model base docOf classify render inv t s e d' hc hp h]
  rcases rm_error_class_partial_repaired _ _ e d' hwf hres h hns with h1 | h1 <;> rw [h1]
  · exact Or.inl rfl
  · exact Or.inr rfl

end Nima.C08
