#!/usr/bin/env python3
"""Regenerate the section "For the repaired code" at the end of lean/NimaVerif/Props/<pid>.lean and the
matching `#print axioms` lines of Audit/<pid>.lean:

    python3 tools/gen_repaired_bridges.py C05

Every theorem of the file whose statement mentions `setValue PATH … d` / `removeValue PATH d` for ONE
path expression and the document `d` is restated for the model of the repaired code (`NameCmp.model`)
under `NameAgree.noSpellingClash d PATH`, proved from the by-spelling theorem with
`NameAgree.setValue_model_eq_spelled` / `removeValue_model_eq_spelled`. Run by hand after such a
theorem is added or its statement changes; the result is committed."""
from pathlib import Path
ROOT = str(Path(__file__).resolve().parent.parent)
import re,sys
pid=sys.argv[1]
path=ROOT + f'/lean/NimaVerif/Props/{pid}.lean'
src=open(path).read()
MARK='/-! ## For the repaired code'
if MARK in src:
    src=src[:src.index(MARK)].rstrip()+'\n\nend Nima.'+pid+'\n'
out=[]
# iterate theorems
for m in re.finditer(r'^theorem (\S+)',src,re.M):
    name=m.group(1)
    i=m.end()
    # scan header until top-level ':=' 
    depth=0;j=i;colon=None
    while j<len(src):
        c=src[j]
        if c in '([{⟨': depth+=1
        elif c in ')]}⟩': depth-=1
        elif c==':' and depth==0:
            if src[j+1]=='=':
                if re.search(r"let\s+[\w']+\s*$",src[i:j]):
                    j+=2; continue
                break
            if colon is None: colon=j
        j+=1
    if colon is None: continue
    binders=src[i:colon]
    stmt=src[colon+1:j]
    header=binders+stmt
    if not re.search(r'\b(setValue|removeValue)\b',header): continue
    # all occurrences must be `setValue PATH <arg> d` / `removeValue PATH d` with one PATH
    ok=True; paths=set()
    PATH=r'(p|\(atSigns k \+\+ name\)|\(atSigns k \+\+ p\))'
    for mm in re.finditer(r'\b(setValue|removeValue)\b([^\n]*)',header):
        rest=mm.group(2)
        if mm.group(1)=='setValue':
            m2=re.match(r' '+PATH+r' (\(\.one v\)|v|\(\.one \w+\)) d(?![\w.\'])',rest)
        else:
            m2=re.match(r' '+PATH+r' d(?![\w.\'])',rest)
        if not m2: ok=False
        else: paths.add(m2.group(1))
    if not ok or len(paths)!=1: continue
    pth=paths.pop()
    # binder names
    names=[];depth=0;k=0;grp='';gtype=None
    b=binders
    pos=0
    groups=[]
    while pos<len(b):
        c=b[pos]
        if c in '([{' and depth==0:
            depth=1; start=pos; opener=c
        elif c in '([{⟨': depth+=1
        elif c in ')]}⟩':
            depth-=1
            if depth==0:
                groups.append((opener,b[start+1:pos]))
        pos+=1
    hasd=hasp=False
    for op,g in groups:
        if ':' not in g: continue
        ns=g[:g.index(':')].split()
        ty=g[g.index(':')+1:].strip()
        if op=='(':
            names+=ns
        if 'd' in ns and ty=='Doc': hasd=True
        if 'p' in ns and ty=='Text': hasp=True
    if pth!='p': hasp=True
    if not(hasd and hasp): continue
    def conv(t):
        t=t.replace('setValue '+pth+' ','@setValue NameCmp.model '+pth+' ')
        t=t.replace('removeValue '+pth+' d','@removeValue NameCmp.model '+pth+' d')
        return t
    out.append(f'''theorem {name}_repaired{conv(binders).rstrip()}
    (hns : NameAgree.noSpellingClash d {pth}) :{conv(stmt).rstrip()} := by
  simp only [NameAgree.setValue_model_eq_spelled {pth} _ d hns, NameAgree.removeValue_model_eq_spelled {pth} d hns] at *
  exact {name} {' '.join(names)}
''')
print(pid,len(out),file=sys.stderr)
extra=''
if pid=='C14':
    extra='''/-- the mapping API on one set object: `m[k]`, `m[k] = v`, `del m[k]` of the repaired code are the
    by-spelling ones when no name token of the set and no reading of the key are different spellings
    of one name -/
theorem repaired_mapping_is_spelled (s : Node) (key : Text) (v : Node)
    (hns : NameAgree.NoSpellingClash (NameAgree.toks s ++ NameAgree.keyToks key)) :
    @setGetItem NameCmp.model s key = setGetItem s key ∧
    @setSetItem NameCmp.model s key v = setSetItem s key v ∧
    @setDelItem NameCmp.model s key = setDelItem s key :=
  NameAgree.mapping_model_eq_spelled s key v hns

'''

endline=f'end Nima.{pid}'
assert src.rstrip().endswith(endline), src[-80:]
body=src.rstrip()[:-len(endline)]
sec=f'''{MARK} (`NameCmp.model`, i.e. lookups through `_same_attr_name`)

Everything above is stated for the name comparison by spelling (`NameCmp.spelled`, declared at the head
of this file). `setValue_model_eq_spelled` / `removeValue_model_eq_spelled` (Lemmas/NameAgree.lean) make
it a statement about the model of the repaired code under the decidable side condition
`NameAgree.noSpellingClash d p`: among the name tokens of the document and the keys of the path no two are
different spellings of one Nix name. The single-operation theorems restated that way (hypotheses about
lookups keep the comparison by spelling, which is the code's on such inputs): -/

theorem repaired_set_is_spelled (p : Text) (v : ValueArg) (d : Doc) (hns : NameAgree.noSpellingClash d p) :
    @setValue NameCmp.model p v d = setValue p v d := NameAgree.setValue_model_eq_spelled p v d hns

theorem repaired_rm_is_spelled (p : Text) (d : Doc) (hns : NameAgree.noSpellingClash d p) :
    @removeValue NameCmp.model p d = removeValue p d := NameAgree.removeValue_model_eq_spelled p d hns

'''+extra+'\n'.join(out)+'\n'
new=body+sec+endline+'\n'
if 'import NimaVerif.Lemmas.NameAgree' not in new:
    new=new.replace('import ','import NimaVerif.Lemmas.NameAgree\nimport ',1)
open(path,'w').write(new)
# audit
ap=ROOT + f'/lean/NimaVerif/Audit/{pid}.lean'
a=open(ap).read()
names_all=re.findall(r'^theorem (\S+)',new,re.M)
lines=a.rstrip('\n').split('\n')
have=set(re.findall(r'#print axioms (?:Nima\.%s\.)?(\S+)'%pid,a))
pref='Nima.%s.'%pid if ('#print axioms Nima.%s.'%pid) in a else ''
add=[n for n in names_all if n not in have]
open(ap,'w').write(a.rstrip('\n')+'\n'+''.join(f'#print axioms {pref}{n}\n' for n in add))
print('audit added',len(add),file=sys.stderr)
