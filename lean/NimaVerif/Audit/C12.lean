import NimaVerif.Props.C12
open Nima.C12
#print axioms tie_escape_table
#print axioms tie_interp_escape
#print axioms tie_ident_start
#print axioms tie_ident_rest
#print axioms tie_anchor
#print axioms tie_keywords
#print axioms escapeNix_table
#print axioms addressable
#print axioms string_escape_faithful
#print axioms faithful_writing
#print axioms roundtrip
#print axioms rejects_empty
#print axioms bare_segments_are_identifiers
#print axioms rejects_examples
#print axioms quoted_segment_ends_at_boundary
#print axioms cex_dollar_anchor
#print axioms cex_keyword_unquoted
#print axioms cex_spelling
#print axioms refinding_partial
