import NimaVerif.Model.Edit
import NimaVerif.Lemmas.Cli
/-!
The command line over the edit model: `editLib` is ANY library whose two edit entry points are the
modelled `setValue` / `removeValue` (for whichever name comparison `[NameCmp]` is in force) on the
edit code's view `docOf` of a parsed source, with any reading `classify` of the VALUE argument and
any rendering `render` of the edited document (may raise); `parse`, `containsError`, `rebuild` are
arbitrary. `cli_set_model` / `cli_rm_model` say what `nima set` / `nima rm` show in terms of the
model's outcome — the refinement step from which the command-line corollaries of C07 and C08 follow.
-/
namespace Nima.Cli
open Nima

variable {σ : Type} [NameCmp]

def editLib (base : Lib σ) (docOf : σ → Doc) (classify : Text → ValueArg)
    (render : Doc → Except Err Text) : Lib σ :=
  { parse := base.parse
    containsError := base.containsError
    rebuild := base.rebuild
    setValue := fun s p v =>
      match setValue p (classify v) (docOf s) with
      | (.ok _, d') => render d'
      | (.error e, _) => .error e
    removeValue := fun s p =>
      match removeValue p (docOf s) with
      | (.ok _, d') => render d'
      | (.error e, _) => .error e }

/-- what the shell sees of an edit outcome -/
def shown (render : Doc → Except Err Text) : Except Err Unit × Doc → Res
  | (.ok _, d') =>
    match render d' with
    | .ok text => ⟨ensureNewline text, 0, none, false⟩
    | .error e => tracebackRes e
  | (.error e, _) => tracebackRes e

theorem cli_set_model (base : Lib σ) (docOf : σ → Doc) (classify : Text → ValueArg)
    (render : Doc → Except Err Text) (inv : Inv) (t : Text) (s : σ) (hc : inv.content = .ok t)
    (hp : base.parse t = .ok s) :
    cli (editLib base docOf classify render) .set inv =
      shown render (setValue inv.npath (classify inv.value) (docOf s)) := by
  rw [cli_set_eq]
  simp only [editClosed, hc, libEdit, editLib, hp, shown]
  rcases hm : setValue inv.npath (classify inv.value) (docOf s) with ⟨r, d'⟩
  cases r with
  | error e => simp
  | ok u => cases hr : render d' <;> simp [hr]

theorem cli_rm_model (base : Lib σ) (docOf : σ → Doc) (classify : Text → ValueArg)
    (render : Doc → Except Err Text) (inv : Inv) (t : Text) (s : σ) (hc : inv.content = .ok t)
    (hp : base.parse t = .ok s) :
    cli (editLib base docOf classify render) .rm inv =
      shown render (removeValue inv.npath (docOf s)) := by
  rw [cli_rm_eq]
  simp only [editClosed, hc, libEdit, editLib, hp, shown]
  rcases hm : removeValue inv.npath (docOf s) with ⟨r, d'⟩
  cases r with
  | error e => simp
  | ok u => cases hr : render d' <;> simp [hr]

end Nima.Cli
