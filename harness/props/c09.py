"""C09 — scope selectors address exactly the intended let layer."""
from __future__ import annotations

import copy

from .. import editcorr as ec
from .. import editprops as ep
from .. import framework as fw
from ..gen import docs
from ..oracle import cstread
from .c05 import is_ident_leaf

GEN_TABLES = ()


def scoped_stream(ctx: fw.Ctx, n_random: int):
    """0..3 let layers × wrapper shapes × selector depth 1..4 × names present in none/one/several layers."""
    hists = []
    layer_sets = [
        [],
        [{"x": "1"}],
        [{"x": "1", "y": "2"}, {"x": "3"}],
        [{"v": '"0"'}, {"x": "1", "v": '"1"'}, {"y": "x"}],
        [{"inherit (pkgs) lib": None, "x": "1"}],
        [{"x": "1"}, {"inherit y": None, "v": "2"}, {"inherit (p) q": None}],
        # layers with equal contents (shadowing that re-declares the same text) stay distinct layers
        [{"x": "1"}, {"x": "1"}],
        [{"x": "1", "v": '"0"'}, {"y": "x"}, {"x": "1", "v": '"0"'}],
        # dotted bindings inside a layer
        [{"meta.rev": "1", "x": "2"}],
        [{"y": "1"}, {"meta.rev": "1", "meta.tag": "2", "x": "3"}],
    ]
    bodies = ["{ a = 1; }", "{\n  a = 1;\n  x = 5;\n}", "rec {\n  version = v;\n}", "{ }"]
    names = ["x", "y", "v", "zz", "x.k", "a", "q", '"a@b"', 'x."@s/t"', "meta.rev", "meta.zz", "meta"]
    for wname, wtpl in docs.WRAPPERS:
        for li, layers in enumerate(layer_sets):
            lay = "".join("let\n" + "".join((f"  {k};\n" if v is None else f"  {k} = {v};\n") for k, v in l.items())
                          + "in\n" for l in layers)
            for bi, body in enumerate(bodies):
                if (li + bi + len(wname) + ctx.seed) % (2 if ctx.quick else 1) != 0:
                    continue
                for inside in (True, False):
                    if wname == "bare" and not inside:
                        continue
                    if inside:
                        text = wtpl.replace("{S}", lay + body)
                    else:
                        text = lay + wtpl.replace("{S}", body)
                    text = text.replace("{{", "{").replace("}}", "}") + "\n"
                    for depth in (1, 2, 3, 4):
                        for nm in names:
                            p = "@" * depth + nm
                            info = {"wrapper": wname, "layers": len(layers), "inside": inside, "depth": depth, "stream": "fixed"}
                            hists.append(ec.run_real(text, [("set", p, "7")], dict(info, op="set")))
                            hists.append(ec.run_real(text, [("rm", p)], dict(info, op="rm")))
    commented = [
        "let # outer\n  x = 1;\nin\nlet # inner\n  y = 2;\nin\n{ a = 1; }\n",
        "let # l1\n  x = 1;\nin\nlet # l2\n  y = 2;\n  # about z\n  z = 3; # eol z\nin\nlet # l3\n  w = 4;\nin\n{\n  a = 1;\n}\n",
        "{ pkgs }:\nlet # outer\n  x = 1; # eol x\nin\nlet\n  # lead y\n  y = 2;\nin\n{\n  a = 1;\n}\n",
    ]
    for text in commented:
        for depth in (1, 2, 3):
            for nm in ("x", "y", "z", "w", "q"):
                info = {"wrapper": "bare", "layers": text.count("let"), "inside": True, "depth": depth, "stream": "fixed"}
                hists.append(ec.run_real(text, [("rm", "@" * depth + nm)], dict(info, op="rm")))
                hists.append(ec.run_real(text, [("set", "@" * depth + nm, "7")], dict(info, op="set")))
    for _ in range(n_random):
        text, info = docs.gen_doc(ctx.rng)
        ops = []
        for _ in range(ctx.rng.randint(1, 6)):
            d = ctx.rng.choice([1, 1, 2, 3])
            nm = ctx.rng.choice(["x", "y", "v", "version", "a", "zz", "x.k", '"u@h"'])
            ops.append(("set", "@" * d + nm, ctx.rng.choice(["7", '"s"', "y"])) if ctx.rng.random() < 0.6
                       else ("rm", "@" * d + nm))
        hists.append(ec.run_real(text, ops, dict(info, stream="random")))
    for h in hists:
        for r in h.recs:
            ctx.count("op:" + r.op[0] + ":" + r.result)
    return hists


def run(ctx: fw.Ctx):
    ctx.extra["rule"] = (
        "documents with 0..3 nested let layers (also layers with equal contents) around every wrapper shape (lets directly around the set and lets "
        "outside the wrapper), selector depths 1..4, names present in none/one/several layers, set and rm; plus random "
        "scoped histories; non-trivial = a scoped operation that succeeded; oracle = let chain decoded from the OUTPUT CST"
    )
    ctx.trusted_base = [
        "Lean 4 kernel; axioms propext, Classical.choice, Quot.sound only",
        "edit model Model/Edit.lean (collectScopeLayers/writeScopeLayers/onLayer) tied by correspondence",
        "tree-sitter-nix as independent reader of the let chain of the output",
    ]
    ctx.assumptions = ["edits through identifier references inside a layer are decided by C11"]
    hists = scoped_stream(ctx, 300 if ctx.quick else 6000)
    ec.correspond(ctx, hists)
    observe(ctx, hists)


def layer_trees(text):
    try:
        ch = cstread.let_chain(text)
    except cstread.Duplicate:
        return None
    if ch is None:
        return None
    return [cstread.plain(t) for t in ch]


def layer_token_lists(text):
    """per let layer on the spine (outermost first): the texts of its tokens and comments from `let` to `in`"""
    from ..layout import leaves_of

    root = cstread.ts_parse(text)
    if root.has_error:
        return None
    spans = []
    node = root
    while node is not None:
        t = node.type
        if t == "source_code":
            kids = [c for c in node.named_children if c.type != "comment"]
            if len(kids) != 1:
                return None
            node = kids[0]
        elif t == "let_expression":
            body = node.child_by_field_name("body")
            spans.append((node.start_byte, body.start_byte if body is not None else node.end_byte))
            node = body
        elif t in ("function_expression", "with_expression", "assert_expression"):
            node = node.child_by_field_name("body")
        elif t == "parenthesized_expression":
            node = node.child_by_field_name("expression")
        elif t == "apply_expression":
            node = node.child_by_field_name("argument")
        else:
            break
    toks = leaves_of(text)[0]
    return [[tt for (_k, tt, s0, _e) in toks if a <= s0 < b] for a, b in spans]


def adjacent_layers(text) -> int | None:
    """number of let layers that directly wrap the target set (no other wrapper in between)"""
    root = cstread.ts_parse(text)
    tgt = cstread.find_target(root)
    if tgt is None:
        return None
    n = 0
    node = tgt
    while node.parent is not None and node.parent.type == "let_expression" and \
            node.parent.child_by_field_name("body") == node:
        n += 1
        node = node.parent
    return n


def rm_path(tree, names):
    t = copy.deepcopy(tree)
    chain = [t]
    cur = t
    for n in names[:-1]:
        if not isinstance(cur, dict) or n not in cur:
            return None
        cur = cur[n]
        chain.append(cur)
    if not isinstance(cur, dict) or names[-1] not in cur:
        return None
    del cur[names[-1]]
    return t


def observe(ctx: fw.Ctx, hists, count_case: bool = True):
    for h in hists:
        if h.parse_error:
            continue
        if count_case:
            ctx.case({"doc": h.text, "ops": [list(r.op) for r in h.recs]}, any(r.result == "ok" for r in h.recs))
        for r in h.recs:
            path = r.op[1]
            if not path.startswith("@"):
                continue
            depth = len(path) - len(path.lstrip("@"))
            rest = path[depth:]
            root = cstread.ts_parse(r.before_text)
            if root.has_error or cstread.find_target(root) is None:
                continue
            try:
                names = ep.split_path(rest)
            except Exception:  # noqa: BLE001
                continue
            layers = layer_trees(r.before_text)
            body = ep.safe_tree(r.before_text)
            if layers is None or body is None or isinstance(body, tuple):
                continue
            # Only the let layers that directly wrap the set are addressable ("let layers around
            # … lambda body, call argument, with/assert body"); lets further out are context that
            # must stay untouched. `outer` = those, `layers` = the addressable ones.
            adj = adjacent_layers(r.before_text) or 0
            separated = adj != len(layers)
            outer, layers = layers[: len(layers) - adj], layers[len(layers) - adj:]
            n = len(layers)
            inp = {"doc": h.text, "ops": [list(x.op) for x in h.recs], "at": list(r.op), "before": r.before_text,
                   "stream": h.info.get("stream")}
            key = {"op": r.op[0], "separated": separated, "wrapper": h.info.get("wrapper")}
            if r.result != "ok":
                if r.op[0] == "set" and ep.value_as_tree(r.op[2]) is None:
                    continue
                if not ep.path_wellformed(rest):
                    continue  # malformed path (the property's own grammar)
                if depth > n and not (n == 0 and depth == 1 and r.op[0] == "set"):
                    continue  # missing layer: documented
                if r.op[0] == "rm" and depth <= n and (
                        ep.tree_get(layers[n - depth], names) is None
                        or isinstance(ep.tree_get(layers[n - depth], names), (tuple, list))):
                    continue  # missing key (a name the layer only inherits has no binding to remove)
                if depth <= n:
                    lp_all = ep.let_layer_parents(r.before_text)
                    lpar = lp_all[len(outer) + n - depth] if len(lp_all) == len(outer) + n else set()
                    if tuple(names) in lpar:
                        continue  # root of a dotted family inside the layer: overwrite / removal as a whole is refused (documented)
                    tgt_layer = layers[n - depth]
                    if any(not isinstance(ep.tree_get(tgt_layer, names[:k]), (dict, type(None)))
                           for k in range(1, len(names))):
                        continue  # through a non-set
                    parents = set()
                    if r.op[0] == "set" and isinstance(ep.tree_get(tgt_layer, names), dict):
                        pass
                ctx.fail({"clause": "refused", **key, "class": r.result}, inp,
                         f"{r.op!r} on {r.before_text!r} was refused ({r.exc}) although layer {depth} of {n} exists")
                continue
            out = r.out
            if not cstread.error_free(out):
                cause = "let-in-call-argument" if h.info.get("wrapper") in docs.CALL_WRAPPERS else "other"
                ctx.fail({"clause": "output-parses", **key, "cause": cause}, {**inp, "output": out},
                         f"{r.op!r} on {r.before_text!r} emitted invalid Nix: {out!r}")
                continue
            layers2 = layer_trees(out)
            body2 = ep.safe_tree(out)
            if layers2 is None and depth <= n and isinstance(ep.tree_get(layers[n - depth], names[:1]), (tuple, list)):
                ctx.fail({"clause": "duplicate-in-layer", "via": "inherit", **key}, {**inp, "output": out},
                         f"{r.op!r} defines a name the layer already inherits: {out!r}")
                continue
            if layers2 is None or body2 is None or isinstance(body2, tuple):
                ctx.fail({"clause": "output-shape", **key}, {**inp, "output": out}, f"cannot read the let chain of {out!r}")
                continue
            # reference
            want_layers = copy.deepcopy(layers)
            want_body = body
            if r.op[0] == "set":
                vt = ep.value_as_tree(r.op[2])
                if depth <= n:
                    if is_ident_leaf(ep.tree_get(layers[n - depth], names)):
                        continue
                    w = ep.spec_set(layers[n - depth], names, vt)
                    if w is None:
                        ctx.fail({"clause": "accepted-through-non-set", **key}, {**inp, "output": out}, "path through non-set accepted")
                        continue
                    want_layers[n - depth] = w
                elif n == 0 and depth == 1:
                    ex = ep.tree_get(body, names)
                    parents = ep.attrpath_parents_of(r.before_text)
                    concrete = ex is not None and tuple(names) not in parents and not isinstance(ex, (tuple, list))
                    if concrete:
                        # tested behaviour (test_set_scope_path_updates_existing_attrset_body): with no scope
                        # present, `@path` naming an existing binding of the set updates that binding
                        if is_ident_leaf(ex):
                            continue
                        want_body = ep.spec_set(body, names, vt)
                    else:
                        want_layers = [ep.spec_set({}, names, vt)]
                else:
                    ctx.fail({"clause": "accepted-missing-layer", **key}, {**inp, "output": out},
                             f"{r.op!r} succeeded although only {n} layer(s) exist: {out!r}")
                    continue
            else:
                if depth > n:
                    ctx.fail({"clause": "accepted-missing-layer", **key}, {**inp, "output": out},
                             f"{r.op!r} succeeded although only {n} layer(s) exist")
                    continue
                lp = ep.let_layer_parents(r.before_text)
                lparents = lp[len(outer) + n - depth] if len(lp) == len(outer) + n else set()
                w = ep.spec_rm(layers[n - depth], names, lparents)
                if w is None:
                    ctx.fail({"clause": "rm-accepted-missing", **key}, {**inp, "output": out}, "rm of a missing name succeeded")
                    continue
                if w:
                    want_layers[n - depth] = w
                else:
                    del want_layers[n - depth]
            want_layers = outer + want_layers
            if layers2 == want_layers and body2 == want_body and depth <= n:
                # "the other layers keep their text": tokens AND comments of every layer that was not addressed
                lb, la = layer_token_lists(r.before_text), layer_token_lists(out)
                k = len(outer) + n - depth  # index of the addressed layer (outermost first)
                if lb is not None and la is not None and k < len(lb):
                    rest_b = lb[:k] + lb[k + 1:]
                    rest_a = (la[:k] + la[k + 1:]) if len(la) == len(lb) else la
                    if rest_b != rest_a:
                        ctx.fail({"clause": "other-layers-text", **key, "depth": depth, "layers": n},
                                 {**inp, "output": out},
                                 f"{r.op!r} on {r.before_text!r}: a layer that was not addressed changed its text "
                                 f"(tokens and comments per layer {rest_b!r} -> {rest_a!r}): {out!r}")
                        continue
            if layers2 != want_layers or body2 != want_body:
                ctx.fail({"clause": "layer-addressing", **key, "depth": depth, "layers": n},
                         {**inp, "output": out, "layers": layers2, "expected_layers": want_layers, "body": body2},
                         f"{r.op!r} on {r.before_text!r}: let chain {layers2!r} body {body2!r}, expected "
                         f"{want_layers!r} body {want_body!r}")


def search(ctx: fw.Ctx):
    observe(ctx, scoped_stream(ctx, 3000))


def replay(payload: dict) -> int:
    inp = payload["input"]
    h = ec.run_real(inp["doc"], [tuple(o) for o in inp.get("ops", [])], {"wrapper": payload.get("key", {}).get("wrapper")})
    ctx = fw.Ctx("C09", "quick", 0)
    observe(ctx, [h])
    for r in h.recs:
        print(r.op, "->", r.result, r.exc, repr(r.out))
    for f in ctx.failures:
        print("FAIL", f["what"])
    return 1 if ctx.failures else 0
