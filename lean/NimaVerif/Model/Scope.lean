import NimaVerif.Model.Basic
/-!
L7 (a): the program type of the scoping model and the resolution-context store.

`Expr` is the fragment of Nix that identifier resolution looks at: let layers, `rec` and plain
attribute sets, `with`, `inherit` / `inherit (src)`, lambdas (simple parameter or formals with
defaults), application, parentheses, identifier references and opaque literals.

Every expression that becomes a Python object of its own carries a node id (`Nat`, assigned by
whoever builds the program; the harness numbers nodes in document order). A `let … in e` has NO
id of its own: `LetExpression.to_scoped_expression` (expressions/let.py) lifts the bindings into
the `scope` / `scope_state.stack` of (a copy of) the body, so `let A in let B in e` is ONE Python
object, of the class of `e`, with `scope = A`, `stack = [B]`. `peel` is that lifting.

Items (`Binding` / `Inherit` objects) carry ids as well: `_resolve_identifier` keeps `id(binding)`
and `id(inherit)` in its `visited` sets.
-/
namespace Nima.Scope
open Nima

mutual
inductive Expr where
  /-- any expression that is neither an identifier nor an attribute set nor one of the forms below
      (integer literal in generated programs) -/
  | lit (id : Nat)
  | ref (id : Nat) (name : Text)
  | set (id : Nat) (isRec : Bool) (items : List Item)
  | letE (items : List Item) (body : Expr)
  | withE (id : Nat) (env : Expr) (body : Expr)
  | paren (id : Nat) (e : Expr)
  | app (id : Nat) (fn : Expr) (arg : Expr)
  /-- `x: body` -/
  | lam1 (id : Nat) (param : Text) (body : Expr)
  /-- `{ a, b ? d, ... }: body` -/
  | lamP (id : Nat) (formals : List Formal) (body : Expr)
inductive Item where
  | bind (id : Nat) (name : Text) (val : Expr)
  | inh (id : Nat) (names : List Text)
  | inhFrom (id : Nat) (names : List Text) (src : Expr)
inductive Formal where
  | req (name : Text)
  | opt (name : Text) (dflt : Expr)
end

instance : Inhabited Expr := ⟨.lit 0⟩

abbrev Scope := List Item
/-- A scope chain, OUTERMOST FIRST, innermost last (the order of `ResolutionContext.scopes`). -/
abbrev Chain := List Scope

/-- `to_scoped_expression`: the let layers around an expression (outermost first) and the
    expression that carries them. -/
def peel : Expr → List (List Item) × Expr
  | .letE items body => let r := peel body; (items :: r.1, r.2)
  | e => ([], e)

def Expr.layers (e : Expr) : List (List Item) := (peel e).1
def Expr.core (e : Expr) : Expr := (peel e).2

/-- Python object identity of the (lifted) object for `e`. -/
def nodeId : Expr → Nat
  | .lit id => id
  | .ref id _ => id
  | .set id _ _ => id
  | .letE _ body => nodeId body
  | .withE id _ _ => id
  | .paren id _ => id
  | .app id _ _ => id
  | .lam1 id _ _ => id
  | .lamP id _ _ => id

/-- Ids of objects the code creates while resolving (never produced by the parser):
    the `Binding(name=param.name, value=default)` of a formal's default, the binding of a simple
    parameter, the identifier copy `AttributeSet.__getitem__` returns for an inherited name.
    Parsed ids must stay below `freshBase` (checked by the driver). -/
def freshBase : Nat := 1000000
def dfltBindId (dfltNode : Nat) : Nat := freshBase + dfltNode
def simpleBindId (lamNode : Nat) : Nat := 2 * freshBase + lamNode
def inhCopyId (inhItem : Nat) : Nat := 3 * freshBase + inhItem

/-- `str.strip('"')` -/
def stripQuotes (s : Text) : Text :=
  ((s.dropWhile (· == '"')).reverse.dropWhile (· == '"')).reverse

/-- `Scope.get_binding(name)`: first `Binding` whose name is exactly `name`. -/
def findBind (name : Text) : Scope → Option (Nat × Expr)
  | [] => none
  | .bind id n v :: rest => if n = name then some (id, v) else findBind name rest
  | _ :: rest => findBind name rest

/-- the `quoted_match` fallback of `_resolve_identifier`: first `Binding` with
    `entry.name.strip('"') == name`. -/
def findQuoted (name : Text) : Scope → Option (Nat × Expr)
  | [] => none
  | .bind id n v :: rest => if stripQuotes n = name then some (id, v) else findQuoted name rest
  | _ :: rest => findQuoted name rest

/-- first `Inherit` entry naming `name` (`_inherit_matches`). -/
def findInherit (name : Text) : Scope → Option Item
  | [] => none
  | .inh id ns :: rest => if ns.contains name then some (.inh id ns) else findInherit name rest
  | .inhFrom id ns src :: rest =>
    if ns.contains name then some (.inhFrom id ns src) else findInherit name rest
  | _ :: rest => findInherit name rest

/-- `_CONTEXTS` seen from inside one document: node id ↦ scope chain (latest entry first).
    The identity/weak-reference side of the registry is `Model/Registry.lean`. -/
structure St where
  ctx : List (Nat × Chain) := []

def St.get (s : St) (id : Nat) : Option Chain :=
  match s.ctx.find? (fun p => p.1 == id) with
  | some p => some p.2
  | none => none

/-- `set_resolution_context` / `attach_resolution_context`: an empty chain stores nothing. -/
def St.set (s : St) (id : Nat) (c : Chain) : St :=
  if c.isEmpty then s else ⟨(id, c) :: s.ctx⟩

/-- Why a `ResolutionError` was raised (informative; the checks compare the class only). -/
inductive ResKind where
  | noContext | unbound | cycle | cycleInherit | inheritSrc | withEnv | callArg | missingParam
deriving DecidableEq, Repr

/-- What can come out of a traversal `src[k1]…[kn].value` other than a value. -/
inductive Fail where
  | res (k : ResKind)   -- ResolutionError
  | key                 -- KeyError
  | type                -- TypeError (object is not subscriptable)
  | value               -- ValueError (no target set)
  | notIdent            -- the path does not end at an identifier (harness never calls `.value`)
  | fuel                -- the recursion has no bound: RecursionError in CPython
deriving DecidableEq, Repr

/-- Observable outcome: the node id of the value of the defining binding, or a failure. -/
inductive Outcome where
  | bound (valueNode : Nat)
  /-- the final `.value` raised -/
  | fail (f : Fail)
  /-- a step before the final `.value` raised (no identifier was reached) -/
  | nav (f : Fail)
deriving DecidableEq, Repr

inductive Step where
  | key (k : Text)
  /-- `.value` on an identifier in the middle of a path -/
  | deref
deriving DecidableEq, Repr

end Nima.Scope
