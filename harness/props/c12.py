"""C12 — attribute names in paths are written and matched faithfully.

Tie: translator tables (escape chain, identifier class, anchor, keyword set) + correspondence of
_parse_npath / _format_attr_name / _escape_nix_string / _split_attrpath / _decode_attr_name /
_same_attr_name / _segment_name with the Lean model.
Oracle (implementation only): names decoded from the OUTPUT CST by tree-sitter's own string pieces.
"""
from __future__ import annotations

import itertools

from .. import framework as fw
from ..framework import hx, unhx
from ..oracle import cstread

GEN_TABLES = ("escape", "ident_re", "keywords", "name_re", "name_escapes")

ALPHABET = ["a", "Z", "0", "_", "'", "-", ".", '"', "\\", "$", "{", "}", " ", "\n", "\r", "\t", "é"]
KEYWORDS = ["if", "then", "else", "assert", "with", "let", "in", "rec", "inherit", "or", "true", "null"]


def names_stream(ctx, full_len, n_random, max_rand_len=9):
    seen = set()
    for L in range(0, full_len + 1):
        for tup in itertools.product(ALPHABET, repeat=L):
            s = "".join(tup)
            seen.add(s)
            yield s
    extra = ["\x01", "a\x0cb", "esc\x1b[0m", "\x7f", "a\x0bb", "\x85", "a\u2028b", "\ufeffa", "tab\there", "cr\rx", "a\x1fb",
             "a\\x0cb", "\\u001b"]
    for k in KEYWORDS + ["foo-bar", "a.b", "${x}", "$${x}", "a\\${b}", "x\n", "if\n", "ключ", "a b"] + extra:
        if k not in seen:
            seen.add(k)
            yield k
    for _ in range(n_random):
        L = ctx.rng.randint(full_len + 1, max_rand_len)
        s = "".join(ctx.rng.choice(ALPHABET) for _ in range(L))
        if s not in seen:
            seen.add(s)
            yield s


def render_seg(name: str) -> str:
    """Canonical path segment of the property statement (independent of the code under test)."""
    ok = bool(name) and (name[0].isascii() and (name[0].isalpha() or name[0] == "_")) and all(
        c.isascii() and (c.isalnum() or c in "_'") for c in name
    )
    if ok:
        return name
    return '"' + name.replace("\\", "\\\\").replace('"', '\\"') + '"'


def exc_class(exc: BaseException) -> str:
    if isinstance(exc, KeyError):
        return "key"
    if isinstance(exc, ValueError):
        return "value"
    return "internal:" + type(exc).__name__


def run(ctx: fw.Ctx):
    from nix_manipulator.cli import manipulations as M
    from nix_manipulator.expressions.binding import _split_attrpath
    from nix_manipulator.expressions.primitive import _escape_nix_string

    ctx.extra["rule"] = (
        "names: every string over a 17-letter alphabet (one representative per character class the code "
        "distinguishes) up to a length bound, keywords, plus random longer strings; non-trivial = contains a "
        "character outside [A-Za-z0-9_]; path texts: the same strings taken as raw NPath text (malformed stream)"
    )
    ctx.trusted_base = [
        "Lean 4 kernel; axioms propext, Classical.choice, Quot.sound only",
        "translator harness/translate (escape chain, identifier regex, keyword set)",
        "correspondence harness (this file) and the driver's hex line protocol",
        "tree-sitter-nix as the independent reader of attribute names in output text",
        "SPEC definitions nixDecodeName / renderSeg (Props/C12.lean)",
    ]
    ctx.assumptions = [
        "Nix reads `\"…\"` attribute names per the lexer rule mirrored in decodeBody",
        "names are valid Unicode strings (no lone surrogates)",
    ]
    full_len = 3 if ctx.quick else 4
    n_random = 6000 if ctx.quick else 150000
    names = list(names_stream(ctx, full_len, n_random))
    anchor = "f"  # the model's currentAnchor; tie_anchor proves it equals the source's

    # ---------------- correspondence: the four functions, model vs implementation
    reqs, expect = [], []
    for s in names:
        # as raw path text
        try:
            segs = M._parse_npath(s)
            e = ["ok"] + [[hx(x.name), "t" if x.quoted else "f"] for x in segs]
        except Exception as exc:  # noqa: BLE001
            e = ["err", exc_class(exc)]
        reqs.append(["npath", anchor, hx(s)])
        expect.append(e)
        for q in (False, True):
            reqs.append(["fmtname", anchor, hx(s), "t" if q else "f"])
            expect.append(["ok", hx(M._format_attr_name(M._NPathSegment(name=s, quoted=q)))])
        for i in (False, True):
            reqs.append(["escape", hx(s), "t" if i else "f"])
            expect.append(["ok", hx(_escape_nix_string(s, escape_interpolation=i))])
        try:
            e = ["ok"] + [hx(x) for x in _split_attrpath(s)]
        except Exception as exc:  # noqa: BLE001
            e = ["err", exc_class(exc)]
        reqs.append(["split", hx(s)])
        expect.append(e)
    # how lookups compare name tokens: `_decode_attr_name`, `_same_attr_name`, `_segment_name` on every string
    # taken as a token, on its quoted form (the string as a raw string body, so that every escape and `$`
    # combination of the alphabet is read), and on the spellings `_format_attr_name` writes
    from nix_manipulator.expressions import binding as B

    dec, same = getattr(B, "_decode_attr_name", None), getattr(B, "_same_attr_name", None)
    if dec is None or same is None:
        ctx.tie_break("correspondence", "expressions/binding.py has no _decode_attr_name/_same_attr_name "
                      "(the model compares names the way the repaired lookups do)")
    else:
        for s in names:
            raw_q = '"' + s + '"'
            toks = [s, raw_q, M._format_attr_name(M._NPathSegment(name=s, quoted=True))]
            for t in toks:
                reqs.append(["decname", hx(t)])
                d = dec(t)
                expect.append(["none"] if d is None else ["some", hx(d)])
                reqs.append(["segname", hx(t)])
                expect.append(["ok", hx(M._segment_name(t))])
            for a, b in ((toks[0], toks[1]), (toks[0], toks[2]), (toks[1], toks[2]), (toks[2], toks[0]), (toks[0], toks[0]),
                         (toks[1], '"' + s.replace("a", "\\a") + '"')):
                reqs.append(["samename", hx(a), hx(b)])
                expect.append(["ok", "t" if same(a, b) else "f"])
    replies = ctx.driver.ask_many(reqs)
    ctx.corr_checked = len(reqs)
    bad = 0
    for rq, ex, got in zip(reqs, expect, replies):
        if ex != got:
            bad += 1
            if bad <= 5:
                ctx.tie_break(
                    "correspondence",
                    f"{rq[0]} disagrees on {unhx(rq[2] if rq[0] in ('npath', 'fmtname') else rq[1])!r}"
                    + (f" / {unhx(rq[2])!r}" if rq[0] == "samename" else ""),
                    request=rq, implementation=ex, model=got,
                )
    ctx.count("correspondence_requests", len(reqs))
    ctx.count("correspondence_disagreements", bad)

    # ---------------- observation on the implementation
    observe(ctx, names if ctx.quick else names[: 40000])


def observe(ctx: fw.Ctx, names):
    from nix_manipulator import parse
    from nix_manipulator.cli import manipulations as M

    base = "{ a = 1; }"
    for s in names:
        nontrivial = any(not (c.isascii() and (c.isalnum() or c == "_")) for c in s)
        ctx.case({"name": s}, nontrivial)
        seg = render_seg(s)
        for kind, path, name_path in (("single", seg, [s]), ("nested", "n." + seg, ["n", s])):
            if kind == "nested" and len(s) > 3 and ctx.quick:
                continue
            try:
                out = M.set_value(parse(base), path, "2")
            except Exception as exc:  # noqa: BLE001
                ctx.count("err:" + exc_class(exc))
                ctx.fail({"clause": "addressable", "kind": kind, "class": classify(s)},
                         {"doc": base, "path": path, "name": s},
                         f"set with the canonical segment for name {s!r} raised {type(exc).__name__}: {exc}")
                continue
            if not cstread.error_free(out):
                ctx.fail({"clause": "output-parses", "kind": kind, "class": classify(s)},
                         {"doc": base, "path": path, "name": s, "output": out},
                         f"set {path!r} emitted text with a syntax error: {out!r}")
                continue
            try:
                tree = cstread.plain(cstread.read_doc_tree(out))
            except cstread.Duplicate as exc:
                ctx.fail({"clause": "duplicate", "kind": kind, "class": classify(s)},
                         {"doc": base, "path": path, "output": out}, f"duplicate definition {exc} in {out!r}")
                continue
            want = {"a": "1"}
            cur = want
            for p in name_path[:-1]:
                cur = cur.setdefault(p, {})
            if name_path == ["a"]:
                want = {"a": "2"}
            else:
                cur[name_path[-1]] = "2"
            if tree != want:
                ctx.fail({"clause": "reads-back", "kind": kind, "class": classify(s)},
                         {"doc": base, "path": path, "name": s, "output": out, "tree": tree},
                         f"set {path!r}: Nix reads {tree!r}, expected {want!r}")
                continue
            # second set with the same path finds the same binding (no second definition)
            try:
                out2 = M.set_value(parse(out), path, "3")
                tree2 = cstread.plain(cstread.read_doc_tree(out2))
                cur = tree2
                for p in name_path[:-1]:
                    cur = cur[p]
                if cur.get(name_path[-1]) != "3" or sum(len(v) if isinstance(v, dict) else 1 for v in tree2.values()) != \
                        sum(len(v) if isinstance(v, dict) else 1 for v in tree.values()):
                    ctx.fail({"clause": "refind-set", "kind": kind, "class": classify(s)},
                             {"doc": out, "path": path, "output": out2}, f"second set did not update in place: {out2!r}")
            except cstread.Duplicate as exc:
                ctx.fail({"clause": "refind-set", "kind": kind, "class": classify(s)},
                         {"doc": out, "path": path}, f"second set created a duplicate: {exc}")
            except Exception as exc:  # noqa: BLE001
                ctx.fail({"clause": "refind-set", "kind": kind, "class": classify(s)},
                         {"doc": out, "path": path}, f"second set raised {type(exc).__name__}: {exc}")
            # rm with the same path removes it again
            if name_path != ["a"]:
                try:
                    out3 = M.remove_value(parse(out), path)
                    tree3 = cstread.plain(cstread.read_doc_tree(out3))
                    # `n.x` on a fresh document creates an explicit set `n = { x = …; }`; rm removes the
                    # leaf and keeps the (now empty) explicit set - only attrpath parents are pruned.
                    want3 = {"a": "1"} if kind == "single" else {"a": "1", "n": {}}
                    if tree3 != want3:
                        ctx.fail({"clause": "refind-rm", "kind": kind, "class": classify(s)},
                                 {"doc": out, "path": path, "output": out3}, f"rm left {tree3!r}")
                except Exception as exc:  # noqa: BLE001
                    ctx.fail({"clause": "refind-rm", "kind": kind, "class": classify(s)},
                             {"doc": out, "path": path}, f"rm with the path just set raised {type(exc).__name__}: {exc}")
        # malformed stream: s as raw path text; whatever is accepted bare must be an identifier
        try:
            segs = M._parse_npath(s)
            for sg in segs:
                if not sg.quoted and render_seg(sg.name) != sg.name:
                    ctx.fail({"clause": "malformed-accepted", "class": classify(sg.name)},
                             {"path_text": s}, f"path text {s!r} accepted bare segment {sg.name!r}")
            if not ep_path_wellformed(s):
                ctx.fail({"clause": "malformed-accepted", "class": "grammar"}, {"path_text": s},
                         f"path text {s!r} is not a sequence of bare / quoted segments separated by dots but was accepted as "
                         f"{[(x.name, x.quoted) for x in segs]!r}")
        except ValueError:
            ctx.count("rejected_paths")

    # a quoted name containing dots next to the nested path it must not be confused with: the path is
    # split only at unquoted dots, also in non-final position and when the nested attributes exist
    dotted = [n for n in names if "." in n and all(is_nix_ident(p) for p in n.split("."))][: 60 if ctx.quick else 600]
    for s in ["a.b", "x.y.z", "n.k"] + dotted:
        parts = s.split(".")
        q = render_seg(s)
        nested = "{ " + " = { ".join(parts) + " = { d = 1; }; " + "}; " * (len(parts) - 1) + "}"
        dotted_doc = "{ " + s + ".d = 1; }"
        for doc in (nested, dotted_doc):
            try:
                t0 = cstread.plain(cstread.read_doc_tree(doc))
            except Exception:  # noqa: BLE001
                continue
            ctx.case({"doc": doc, "name": s, "confusable": True}, True)
            for op, path, want in (
                ("set", q + ".c", {**t0, s: {"c": "2"}}), ("set", q, {**t0, s: "2"}), ("rm", q + ".d", KeyError), ("rm", q, KeyError),
            ):
                try:
                    out = M.set_value(parse(doc), path, "2") if op == "set" else M.remove_value(parse(doc), path)
                except (KeyError, ValueError) as exc:
                    if want is not KeyError:
                        ctx.fail({"clause": "quoted-dot-split", "op": op, "outcome": "refused"}, {"doc": doc, "path": path, "op": op},
                                 f"{op} {path!r} on {doc!r} raised {type(exc).__name__}: {exc}")
                    continue
                except Exception as exc:  # noqa: BLE001
                    ctx.fail({"clause": "quoted-dot-split", "op": op, "outcome": exc_class(exc)}, {"doc": doc, "path": path, "op": op},
                             f"{op} {path!r} on {doc!r} raised {type(exc).__name__}: {exc}")
                    continue
                try:
                    tree = cstread.plain(cstread.read_doc_tree(out))
                except cstread.Duplicate as exc:
                    tree = ("duplicate", str(exc))
                if want is KeyError or tree != want:
                    ctx.fail({"clause": "quoted-dot-split", "op": op, "outcome": "wrong-attribute"},
                             {"doc": doc, "path": path, "op": op, "output": out},
                             f"{op} {path!r} on {doc!r}: the quoted name {s!r} is one attribute, distinct from the nested "
                             f"path {s}; got {out!r}" + ("" if want is KeyError else f", expected tree {want!r}"))

    # multi-segment combinations: a name repeated along the path, on documents with and without dotted roots —
    # `set` writes the path, a second `set` and `rm` with the same path find that same binding
    for doc in ("{ a.x = 0; }", "{ }", "{ a = { x = 0; }; }", "{ s.k = 1; }"):
        for path, names_p in (("a.b.b", ["a", "b", "b"]), ("a.a.a", ["a", "a", "a"]), ("a.b.c.b", ["a", "b", "c", "b"]),
                              ('s."x.y"."x.y"', ["s", "x.y", "x.y"]), ("k.k", ["k", "k"]), ('"k"."k".j', ["k", "k", "j"])):
            ctx.case({"doc": doc, "path": path, "repeated": True}, True)

            def get(tree, ns):
                for n in ns:
                    if not isinstance(tree, dict) or n not in tree:
                        return None
                    tree = tree[n]
                return tree

            try:
                o1 = M.set_value(parse(doc), path, "1")
                t1 = cstread.plain(cstread.read_doc_tree(o1))
                o2 = M.set_value(parse(o1), path, "2")
                t2 = cstread.plain(cstread.read_doc_tree(o2))
                o3 = M.remove_value(parse(o1), path)
                t3 = cstread.plain(cstread.read_doc_tree(o3))
            except cstread.Duplicate as exc:
                ctx.fail({"clause": "repeated-segment", "outcome": "duplicate"}, {"doc": doc, "path": path},
                         f"set/set/rm {path!r} on {doc!r}: duplicate definition {exc}")
                continue
            except Exception as exc:  # noqa: BLE001
                ctx.fail({"clause": "repeated-segment", "outcome": exc_class(exc)}, {"doc": doc, "path": path},
                         f"set, then set / rm with the same path {path!r} on {doc!r} raised {type(exc).__name__}: {exc}")
                continue
            if get(t1, names_p) != "1" or get(t2, names_p) != "2" or get(t3, names_p) is not None:
                ctx.fail({"clause": "repeated-segment", "outcome": "wrong-binding"}, {"doc": doc, "path": path, "outputs": [o1, o2, o3]},
                         f"{path!r} on {doc!r}: after set {get(t1, names_p)!r}, after second set {get(t2, names_p)!r}, "
                         f"after rm {get(t3, names_p)!r} (texts {o1!r}, {o2!r}, {o3!r})")

    # two QUOTED spellings of one name (sixth widening, after seeded round 6): a file token that is not in
    # the escape form the tool writes (raw control character, needless escape) and the path segment in
    # canonical form address the same attribute — `set` leaves exactly one definition, `rm` finds it
    for name, file_tok in [("a\tb", '"a\tb"'), ("a.b", '"a\\.b"'), ("$x", '"\\$x"'), ("a", '"\\a"'), ("a\nb", '"a\nb"'),
                           ("q r", '"q\\ r"'), ("k-1", '"k\\-1"'), ("a\rb", '"a\rb"')]:
        for seg in {render_seg(name), '"' + name.replace("\\", "\\\\").replace('"', '\\"').replace("\t", "\\t").replace("\n", "\\n").replace("\r", "\\r") + '"'}:
            doc = "{ " + file_tok + " = 1; b = 0; }"
            ctx.case({"doc": doc, "path": seg, "quoted-pair": True}, True)
            try:
                if cstread.plain(cstread.read_doc_tree(doc)) != {name: "1", "b": "0"}:
                    continue  # the independent reader does not read the token as that name: not a witness
                out = M.set_value(parse(doc), seg, "2")
                try:
                    tree = cstread.plain(cstread.read_doc_tree(out))
                except cstread.Duplicate as exc:
                    tree = ("duplicate", str(exc))
                if tree != {name: "2", "b": "0"}:
                    ctx.fail({"clause": "spelling", "file": "quoted-noncanonical"}, {"doc": doc, "path": seg, "output": out},
                             f"set {seg!r} on {doc!r}: the file's {file_tok!r} and the path denote the attribute {name!r}; got {out!r}")
                out = M.remove_value(parse(doc), seg)
                if cstread.plain(cstread.read_doc_tree(out)) != {"b": "0"}:
                    ctx.fail({"clause": "spelling", "file": "quoted-noncanonical"}, {"doc": doc, "path": seg, "output": out},
                             f"rm {seg!r} on {doc!r} left {out!r}")
            except Exception as exc:  # noqa: BLE001
                ctx.fail({"clause": "spelling", "file": "quoted-noncanonical"}, {"doc": doc, "path": seg},
                         f"set / rm {seg!r} on {doc!r} raised {type(exc).__name__}: {exc} although the file defines {name!r}")

    # the command line hands the path to the library unchanged: a sample of names (non-ASCII in several
    # normalisation forms, spaces, dots, quotes) through `python -m nix_manipulator set|rm`
    cli_paths(ctx)

    # spelling equivalence (both directions), on a sample of names Nix can spell two ways
    spell = [n for n in names if n and is_nix_ident(n)][: 400 if ctx.quick else 4000]
    for s in spell:
        for file_tok, seg in ((s, '"' + s + '"'), ('"' + s + '"', s if render_seg(s) == s else None)):
            if seg is None:
                continue
            doc = "{ " + file_tok + " = 1; }"
            ctx.case({"doc": doc, "path": seg})
            try:
                out = M.set_value(parse(doc), seg, "2")
                tree = cstread.plain(cstread.read_doc_tree(out))
                if tree != {s: "2"}:
                    ctx.fail({"clause": "spelling", "file": "bare" if file_tok == s else "quoted"},
                             {"doc": doc, "path": seg, "output": out}, f"tree {tree!r}")
            except cstread.Duplicate:
                ctx.fail({"clause": "spelling", "file": "bare" if file_tok == s else "quoted"},
                         {"doc": doc, "path": seg, "output": out},
                         f"set {seg!r} on {doc!r} wrote a second definition: {out!r}")
            except Exception as exc:  # noqa: BLE001
                ctx.fail({"clause": "spelling", "file": "bare" if file_tok == s else "quoted"},
                         {"doc": doc, "path": seg}, f"raised {type(exc).__name__}: {exc}")


def cli_paths(ctx: fw.Ctx):
    import os
    import subprocess
    import sys

    from nix_manipulator import parse
    from nix_manipulator.cli import manipulations as M

    env = dict(os.environ)
    if os.environ.get("NIMA_REPO"):
        env["PYTHONPATH"] = os.environ["NIMA_REPO"]
    sample = ["e\u0301", "\u00e9", "\u212b", "\u00c5", "\u2126x", "a b", "a.b", "q\"r", "ﬁ", "한", "\u1112\u1161\u11ab", " lead", "tab\tx"]
    if not ctx.quick:
        sample += [n for n in ["\u0041\u030a", "\ufb01x", "ｱ", "x\u00a0y", "İ", "ǆ"]]
    for nm in sample:
        seg = render_seg(nm)
        doc = "{ " + seg + " = 1; z = 0; }\n"
        for cmd, args in (("set", ["set", seg, "2"]), ("rm", ["rm", seg]), ("set-new", ["set", "n." + seg, "3"])):
            base = doc if cmd != "set-new" else "{ z = 0; }\n"
            try:
                want = M.set_value(parse(base), args[1], args[2]) if args[0] == "set" else M.remove_value(parse(base), args[1])
            except Exception as exc:  # noqa: BLE001
                want = ("raises", type(exc).__name__)
            r = subprocess.run([sys.executable, "-m", "nix_manipulator", *args], input=base.encode("utf-8"), capture_output=True,
                               timeout=60, env=env)
            got = r.stdout.decode("utf-8", "replace") if r.returncode == 0 else ("raises", "exit-" + str(r.returncode))
            ctx.case({"cli": args, "doc": base}, True)
            ctx.count("cli_paths")
            if isinstance(want, str) != isinstance(got, str) or (isinstance(want, str) and got.rstrip("\n") != want.rstrip("\n")):
                ctx.fail({"clause": "cli-path", "cmd": cmd}, {"doc": base, "args": args, "stdout": got if isinstance(got, str) else None},
                         f"nima {' '.join(args)!r} on {base!r}: command line gives {got!r}, the library {want!r} "
                         f"(name {nm!r}, code points {[hex(ord(c)) for c in nm]})")


def ep_path_wellformed(s: str) -> bool:
    from .. import editprops as ep

    return ep.path_wellformed(s) and not s.startswith("@")


def is_nix_ident(n: str) -> bool:
    return bool(n) and (
        (n[0].isascii() and (n[0].isalpha() or n[0] == "_"))
        and all(c.isascii() and (c.isalnum() or c in "_'-") for c in n)
        and n not in ("if", "then", "else", "assert", "with", "let", "in", "rec", "inherit")
    )


def classify(s: str) -> str:
    if s in KEYWORDS[:9]:
        return "keyword"
    if s.endswith("\n") and render_seg(s[:-1]) == s[:-1]:
        return "ident+newline"
    if render_seg(s) == s:
        return "ident"
    if "${" in s:
        return "interp"
    return "quoted"


def search(ctx: fw.Ctx):
    """Broken tie: explore a wider stream with the oracle."""
    names = list(names_stream(ctx, 3, 30000, max_rand_len=12))
    observe(ctx, names)


def replay(payload: dict) -> int:
    from nix_manipulator import parse
    from nix_manipulator.cli import manipulations as M

    inp = payload.get("input", {})
    print("replaying", inp)
    if "doc" in inp and "path" in inp:
        try:
            out = M.set_value(parse(inp["doc"]), inp["path"], "2")
            print("output:", repr(out), "error_free:", cstread.error_free(out))
            try:
                print("tree:", cstread.plain(cstread.read_doc_tree(out)))
            except cstread.Duplicate as exc:
                print("duplicate:", exc)
                return 1
        except Exception as exc:  # noqa: BLE001
            print("raised", type(exc).__name__, exc)
            return 1
    if "path_text" in inp:
        print(M._parse_npath(inp["path_text"]))
    return 0
