"""C16 — the command line reports and emits exactly what the library computes.

Tie: translator (the `match args.command` programs of cli/main.py, the argparse wiring of cli/parser.py,
the entry point of __main__.py; Gen/Cli.lean, `tie_*` theorems) + correspondence by SUBPROCESS
`python -m nix_manipulator …` (stdout bytes, exit status, exception class on stderr) against the Lean model
applied to what the library answered in process, on both input channels.
Oracle (implementation only, no model involved): the property's clauses evaluated on the same subprocess
runs, with tree-sitter as the independent judge of "free of syntax errors".
"""
from __future__ import annotations

import concurrent.futures
import io
import json
import os
import shutil
import subprocess
import sys
import tempfile
from dataclasses import dataclass, field
from pathlib import Path

from .. import framework as fw
from ..framework import hx, unhx
from ..oracle import cstread

GEN_TABLES = ("cli_test", "cli_set", "cli_rm", "cli_default", "cli_entry", "cli_argspec", "cli_fileopt")
JOBS = max(1, int(os.environ.get("VERIF_JOBS", "8")))
ARITY = {"test": 0, "set": 2, "rm": 1}


# ---------------------------------------------------------------- running the real command line
def child_env() -> dict:
    env = dict(os.environ)
    if os.environ.get("NIMA_REPO"):
        old = env.get("PYTHONPATH", "")
        parts = [str(fw.REPO)] + [p for p in old.split(os.pathsep) if p and p != str(fw.REPO)]
        env["PYTHONPATH"] = os.pathsep.join(parts)
    return env


def use_repo_in_process():
    """Import nix_manipulator from the tree under verification (NIMA_REPO overrides the editable install)."""
    if os.environ.get("NIMA_REPO") and str(fw.REPO) not in sys.path[:1] and "nix_manipulator" not in sys.modules:
        sys.path.insert(0, str(fw.REPO))
    import nix_manipulator

    here = Path(nix_manipulator.__file__).resolve()
    if fw.REPO.resolve() not in here.parents:
        raise fw.Infra(f"in-process nix_manipulator is {here}, not under {fw.REPO} (set PYTHONPATH)")


def run_cli(argv: list[str], stdin: bytes | None, cwd: str, env: dict) -> dict:
    try:
        r = subprocess.run([sys.executable, "-m", "nix_manipulator", *argv], input=stdin if stdin is not None else b"",
                           capture_output=True, cwd=cwd, env=env, timeout=120)
    except subprocess.TimeoutExpired:
        return {"rc": None, "out": b"", "err": "TIMEOUT", "exc": "TIMEOUT"}
    err = r.stderr.decode("utf-8", "replace")
    return {"rc": r.returncode, "out": r.stdout, "err": err[-600:], "exc": traceback_class(err)}


def traceback_class(stderr: str) -> str | None:
    """class name of the uncaught exception (last line of a traceback), None when there is no traceback"""
    if "Traceback (most recent call last)" not in stderr:
        return None
    for line in reversed(stderr.strip().splitlines()):
        if line and not line.startswith(" "):
            head = line.split(":", 1)[0].strip()
            return head.split(".")[-1]
    return "?"


def probe(env: dict) -> dict:
    code = ("import sys, json, nix_manipulator; d = sys.stdin.read(); "
            "print(json.dumps({'file': nix_manipulator.__file__, 'enc': sys.stdin.encoding, "
            "'errors': sys.stdin.errors, 'out_enc': sys.stdout.encoding, 'read': d}))")
    r = subprocess.run([sys.executable, "-c", code], input=b"a\r\nb\rc", capture_output=True, env=env,
                       cwd=tempfile.gettempdir(), timeout=120)
    if r.returncode != 0:
        raise fw.Infra("probe subprocess failed: " + r.stderr.decode("utf-8", "replace")[-400:])
    p = json.loads(r.stdout.decode())
    if fw.REPO.resolve() not in Path(p["file"]).resolve().parents:
        raise fw.Infra(f"subprocess imports nix_manipulator from {p['file']}, not from {fw.REPO}")
    p["stdin_translates_newlines"] = p["read"] != "a\r\nb\rc"
    return p


# ---------------------------------------------------------------- cases
@dataclass
class Case:
    cmd: str                    # test | set | rm
    args: list[str]             # positionals as given (a wrong count is a usage error)
    data: bytes                 # the input bytes
    kind: str                   # label of the input kind (evidence only)
    opt_first: bool = True      # `-f FILE` before or after the positionals
    res: dict = field(default_factory=dict)   # channel -> subprocess result

    def rep(self, chan: str | None = None) -> dict:
        d = {"cmd": self.cmd, "args": self.args, "data_hex": self.data.hex(),
             "data": self.data.decode("utf-8", "replace"), "kind": self.kind, "opt_first": self.opt_first}
        if chan:
            d["channel"] = chan
        return d


def argv_for(case: Case, chan: str, path: str) -> list[str]:
    if chan == "stdin":
        return [case.cmd, *case.args]
    return [case.cmd, "-f", path, *case.args] if case.opt_first else [case.cmd, *case.args, "-f", path]


NAMES = ["a", "b", "foo", "bar_1", "x'", "version", "src", "é"]
VALUES = ["1", "2", '"x"', '"é ü"', "[ 1 2 ]", "true", "./p", '"a\\nb"', "{ c = 3; }", "x: x", "null"]


def gen_doc(rng) -> tuple[str, list[str]]:
    """an RFC-style document in the tool's canonical layout; returns (text, top-level binding names)"""
    n = rng.randint(0, 4)
    names = []
    for _ in range(n):
        nm = rng.choice(NAMES[:-1])
        if nm not in names:
            names.append(nm)
    binds = [f"{nm} = {rng.choice(VALUES)};" for nm in names]
    style = rng.choice(["inline", "multi", "multi", "fn", "let", "rec", "comment"])
    if not binds:
        body = "{ }"
    elif style == "inline" and len(binds) == 1:
        body = "{ " + binds[0] + " }"
    else:
        body = "{\n" + "".join("  " + b + "\n" for b in binds) + "}"
    if style == "fn":
        body = "{ pkgs }:\n" + body
    elif style == "let":
        body = "let\n  v = 1;\nin\n" + body
    elif style == "rec" and binds:
        body = "rec " + body
    elif style == "comment":
        body = "# head — comment\n" + body
    return body + "\n", names


def gen_cases(ctx, n: int) -> list[Case]:
    rng = ctx.rng
    out: list[Case] = []
    for _ in range(n):
        text, names = gen_doc(rng)
        canonical_text = text
        kind = "canonical"
        r = rng.random()
        if r < 0.12:
            kind = "non-canonical"
            text = text.replace(" = ", "=", 1) if " = " in text else "  " + text
            if rng.random() < 0.5:
                text = text.replace("\n", " \n", 1)
        elif r < 0.24:
            kind = "erroneous"
            toks = [i for i, c in enumerate(text) if c in ";}{="]
            if toks:
                i = rng.choice(toks)
                text = text[:i] + rng.choice(["", "@@", "= ="]) + text[i + 1:]
            else:
                text = "{ a = ; }\n"
        elif r < 0.32:
            kind = "no-final-newline"
            text = text.rstrip("\n")
        elif r < 0.40:
            kind = "two-final-newlines"
            text = text + "\n" * rng.randint(1, 2)
        elif r < 0.46:
            kind = "non-ascii"
            text = text.replace("{\n", '{\n  "ключ" = "значение — ✓";\n', 1) if "{\n" in text else '{ s = "ü"; }\n'
        elif r < 0.52:
            kind = "crlf"
            text = text.replace("\n", "\r\n")
        elif r < 0.56:
            kind = "lone-cr"
            text = text.replace("{", '{ cr = "x\ry";', 1)
        elif r < 0.60:
            kind = rng.choice(["empty", "blank", "comment-only", "not-a-set", "unsupported"])
            text = {"empty": "", "blank": " \n\n", "comment-only": "# nothing\n", "not-a-set": "[ 1 2 ]\n",
                    "unsupported": "{ u = http://example.org/x; }\n"}[kind]
        data = text.encode("utf-8")
        if rng.random() < 0.03:
            kind = "invalid-utf8"
            data = data[: len(data) // 2] + b"\xff\xfe" + data[len(data) // 2:]
        cmd = rng.choice(["test", "set", "set", "rm", "rm"])
        args: list[str] = []
        if cmd == "set":
            args = [gen_npath(rng, names), rng.choice(VALUES + ["", "1 2", "{", "-1", "[", '"unterminated'])]
            if names and rng.random() < 0.15:
                # a `set` of the value the binding already has (the edit text equals the plain rebuild)
                import re as _re

                nm = rng.choice(names)
                m = _re.search(r"^\s*(?:\{ )?" + _re.escape(nm) + r" = (.*?);", canonical_text, _re.M)
                if m:
                    args = [nm, m.group(1)]
        elif cmd == "rm":
            args = [gen_npath(rng, names)]
        if cmd != "test" and rng.random() < 0.04:
            args = args[:-1] if rng.random() < 0.5 else args + ["extra"]
        out.append(Case(cmd, args, data, kind, opt_first=rng.random() < 0.5))
    return out


def gen_npath(rng, names: list[str]) -> str:
    r = rng.random()
    if names and r < 0.5:
        return rng.choice(names)
    if r < 0.7:
        return rng.choice(["new", "zz", "n.m", "a.b.c", '"q s"', "é"])
    if names and r < 0.8:
        return rng.choice(names) + "." + rng.choice(["c", "d"])
    return rng.choice(["", "a..b", '"open', ".a", "a.", "@v", "@zz", "missing", " a", "a ", "a\n"])


def fixed_cases() -> list[Case]:
    """the witnesses of the cex_* theorems and one case per input kind the property names"""
    c = []
    for data, kind in [
        (b"{ a = 1; }\n", "canonical"), (b"{a=1;}\n", "non-canonical"), (b"{ a = ; }\n", "erroneous"), (b"", "empty"),
        (b"{ a = 1; }", "no-final-newline"), (b"{ a = 1; }\n\n", "two-final-newlines"),
        ("{ a = \"é—✓\"; }\n".encode(), "non-ascii"), (b"{ a = 1; }\r\n", "crlf"), (b'{ a = "x\ry"; }\n', "lone-cr"),
        (b"http://foo.bar\n", "unsupported"), (b'{ a = "\xff"; }\n', "invalid-utf8"),
        (b"{\n  a = 1;\n  b = 2;\n}\n", "canonical"),
        (b"\xef\xbb\xbf{ a = 1; }\n", "utf8-bom"),
    ]:
        c.append(Case("test", [], data, kind))
        c.append(Case("set", ["a", "2"], data, kind, opt_first=False))
        c.append(Case("rm", ["a"], data, kind))
    c += [
        Case("rm", ["b"], b"{ a = 1; }\n", "canonical"),               # KeyError
        Case("set", ["a", ""], b"{ a = 1; }\n", "canonical"),           # empty value
        Case("set", ["a", "1 2"], b"{ a = 1; }\n", "canonical"),        # two expressions
        Case("set", ["", "1"], b"{ a = 1; }\n", "canonical"),           # empty path
        Case("set", ["a"], b"{ a = 1; }\n", "canonical"),               # usage: missing positional
        Case("rm", [], b"{ a = 1; }\n", "canonical"),                   # usage
        Case("rm", ["a", "b"], b"{ a = 1; }\n", "canonical"),           # usage: extra positional
        Case("test", ["x"], b"{ a = 1; }\n", "canonical"),              # usage
        Case("set", ["b", '"é"'], b"{ a = 1; }\n", "canonical"),
        Case("set", ["a", "-1"], b"{ a = 1; }\n", "canonical"),
        Case("rm", [" a"], b"{ a = 1; }\n", "canonical"),              # arguments reach the library verbatim
        Case("set", ["a ", "2"], b"{ a = 1; }\n", "canonical"),
        Case("set", ["a", " 2\n"], b"{ a = 1; }\n", "canonical"),
        # a `set` that changes nothing, on input the tool would re-lay out (the edit text is still the library's)
        Case("set", ["a", "1"], b"{a=1;}\n", "non-canonical"),
        Case("set", ["a", "1"], b"{ a = 1; }\n\n\n", "two-final-newlines"),
        Case("set", ["a.b", "1"], b"{ a  =  { b=1; }; }\n", "non-canonical"),
        Case("set", ["a", "1"], b"{ a = 1; }", "no-final-newline"),
    ]
    return c


ARGV_CASES = [   # raw command lines that argparse must refuse (or, for no command, main's default branch)
    ([], "no-command"), (["frobnicate"], "unknown-command"), (["test", "--nope"], "unknown-option"),
    (["test", "-f", "/nonexistent-c16/x.nix"], "missing-file"), (["set", "a", "1", "-f", "."], "file-is-directory"),
    (["rm", "-f"], "option-without-value"),
]


def run_all(ctx, cases: list[Case], tmp: str, env: dict):
    jobs = []
    for i, c in enumerate(cases):
        path = os.path.join(tmp, f"in{i}.nix")
        with open(path, "wb") as fh:
            fh.write(c.data)
        c.path = path
        for chan in ("stdin", "file"):
            jobs.append((c, chan, argv_for(c, chan, path), c.data if chan == "stdin" else None))
    with concurrent.futures.ThreadPoolExecutor(max_workers=JOBS) as ex:
        futs = [(c, chan, ex.submit(run_cli, argv, stdin, tmp, env)) for c, chan, argv, stdin in jobs]
        for c, chan, f in futs:
            c.res[chan] = f.result()
            ctx.count("subprocess_runs")
            if c.res[chan]["rc"] is None:
                raise fw.Infra(f"subprocess timeout on {c.rep(chan)}")


# ---------------------------------------------------------------- the library, in process
_lib_cache: dict = {}


def exc_name(exc: BaseException) -> str:
    return type(exc).__name__


def lib_eval(text: str, cmd: str, args: list[str]) -> dict:
    """What the library answers on `text`: parse (contains_error), rebuild, set_value, remove_value — each on a
    fresh parse, whatever the order in which the command line consults them."""
    key = (text, cmd, tuple(args))
    if key in _lib_cache:
        return _lib_cache[key]
    from nix_manipulator import parse
    from nix_manipulator.cli.manipulations import remove_value, set_value

    out = {"parse": "na", "rebuild": "na", "set": "na", "rm": "na"}
    try:
        src = parse(text)
        out["parse"] = ("ok", bool(src.contains_error))
    except BaseException as exc:  # noqa: BLE001
        out["parse"] = ("err", exc_name(exc))
        _lib_cache[key] = out
        return out
    if cmd == "test":
        try:
            out["rebuild"] = ("ok", parse(text).rebuild())
        except BaseException as exc:  # noqa: BLE001
            out["rebuild"] = ("err", exc_name(exc))
    elif cmd == "set" and len(args) == 2:
        try:
            out["set"] = ("ok", set_value(source=parse(text), npath=args[0], value=args[1]))
        except BaseException as exc:  # noqa: BLE001
            out["set"] = ("err", exc_name(exc))
    elif cmd == "rm" and len(args) == 1:
        try:
            out["rm"] = ("ok", remove_value(source=parse(text), npath=args[0]))
        except BaseException as exc:  # noqa: BLE001
            out["rm"] = ("err", exc_name(exc))
    _lib_cache[key] = out
    return out


def decode_raw(data: bytes, chan: str, pr: dict):
    """the input after byte decoding, before any newline handling: ('ok', text) | ('err', Name)"""
    try:
        if chan == "file":
            return ("ok", data.decode("utf-8"))
        return ("ok", data.decode(pr["enc"], pr["errors"]))
    except UnicodeDecodeError as exc:
        return ("err", exc_name(exc))


def content_in_process(case: Case, chan: str, pr: dict):
    """what `args.file.read()` yields, obtained from the real wiring: for `-f FILE` through the implementation's
    own argparse parser in process; for stdin through a text wrapper configured like the child's sys.stdin."""
    try:
        if chan == "file":
            from nix_manipulator.cli.parser import build_parser

            ns = build_parser().parse_args(argv_for(case, "file", case.path))
            try:
                return ("ok", ns.file.read())
            finally:
                ns.file.close()
        w = io.TextIOWrapper(io.BytesIO(case.data), encoding=pr["enc"], errors=pr["errors"],
                             newline=None if pr["stdin_translates_newlines"] else "\n")
        return ("ok", w.read())
    except UnicodeDecodeError as exc:
        return ("err", exc_name(exc))


def has_surrogates(s: str) -> bool:
    return any(0xD800 <= ord(ch) <= 0xDFFF for ch in s)


def sx_outcome(o):
    if o == "na":
        return "na"
    if o[0] == "err":
        return ["err", o[1]]
    if isinstance(o[1], bool):
        return ["ok", "t" if o[1] else "f"]
    return ["ok", hx(o[1])]


# ---------------------------------------------------------------- the property, as an oracle
def ensure_newline(t: str) -> str:
    return t if t.endswith("\n") else t + "\n"


def translate_newlines(t: str) -> str:
    return t.replace("\r\n", "\n").replace("\r", "\n")


def good(text: str) -> tuple[bool, str | None]:
    """(free of syntax errors [tree-sitter, independently] and rebuilds to identical text, exception class if the
    library raised)"""
    lib = lib_eval(text, "test", [])
    if lib["parse"][0] == "err":
        return False, lib["parse"][1]
    if lib["rebuild"][0] == "err":
        return False, lib["rebuild"][1]
    syntax_ok = not cstread.ts_parse(text).has_error
    return syntax_ok and lib["rebuild"][1] == text, None


def expected_test(text: str):
    g, raised = good(text)
    return ((b"OK\n", 0) if g else (b"Fail\n", 1)), raised


def expected_edit(text: str, cmd: str, args: list[str], out_enc: str):
    """('ok', bytes the property wants, library text) | ('err', class)"""
    lib = lib_eval(text, cmd, args)
    if lib["parse"][0] == "err":
        return ("err", lib["parse"][1], None)
    r = lib["set" if cmd == "set" else "rm"]
    if r[0] == "err":
        return ("err", r[1], None)
    return ("ok", ensure_newline(r[1]).encode(out_enc, "surrogateescape"), r[1])


def observe_case(ctx, c: Case, pr: dict, followups: list):
    enc = pr["out_enc"]
    arity_ok = len(c.args) == ARITY[c.cmd]
    for chan in ("stdin", "file"):
        got = c.res[chan]
        obs = (got["out"], got["rc"])
        inp = c.rep(chan)
        ctx.case(inp, nontrivial=bool(c.data) and c.kind != "canonical" or c.cmd != "test")
        ctx.count("kind:" + c.kind)
        ctx.count("cmd:" + c.cmd)
        if not arity_ok:
            ctx.count("usage_cases")
            if got["out"] != b"" or got["rc"] in (0, None):
                ctx.fail({"clause": "error-silent", "shape": "usage-error"}, inp,
                         f"wrong number of arguments: stdout={got['out']!r} exit={got['rc']}", observed=fmt(got))
            continue
        raw = decode_raw(c.data, "file", pr)     # the property's "input text": the bytes as UTF-8
        if raw[0] == "err":
            ctx.count("undecodable_inputs")
            ok = got["rc"] not in (0, None) and (got["out"] == b"" or (c.cmd == "test" and got["out"] == b"Fail\n"))
            if not ok:
                ctx.fail({"clause": "error-silent", "shape": "undecodable-input", "cmd": c.cmd}, inp,
                         f"input is not UTF-8 but stdout={got['out']!r} exit={got['rc']}", observed=fmt(got))
            continue
        text = raw[1]
        translated = translate_newlines(text)
        via_translation = chan == "file" and translated != text
        if c.cmd == "test":
            want, raised = expected_test(text)
            if obs == want:
                ctx.count("verdict:" + want[0].decode().strip())
                continue
            if raised is not None and got["out"] == b"" and got["rc"] == 1 and got["exc"] is not None:
                shape = "traceback-instead-of-Fail"
            elif via_translation and obs == expected_test(translated)[0]:
                shape = "file-newline-translation"
            else:
                shape = "wrong-verdict"
            ctx.fail({"clause": "test-verdict", "shape": shape}, inp,
                     f"`nima test` ({chan}) gave stdout={got['out']!r} exit={got['rc']}; the property requires "
                     f"stdout={want[0]!r} exit={want[1]}" + (f" (library raised {raised})" if raised else ""),
                     observed=fmt(got), expected={"stdout": want[0].decode(), "exit": want[1]})
            continue
        # set / rm
        exp = expected_edit(text, c.cmd, c.args, enc)
        if exp[0] == "err":
            ctx.count("edit_errors:" + exp[1])
            if got["out"] == b"" and got["rc"] not in (0, None):
                continue
            shape = "error-not-silent"
            if via_translation and expected_edit(translated, c.cmd, c.args, enc)[0] == "ok":
                shape = "file-newline-translation"
            ctx.fail({"clause": "error-silent", "shape": shape, "cmd": c.cmd}, inp,
                     f"library raised {exp[1]} but stdout={got['out']!r} exit={got['rc']}", observed=fmt(got))
            continue
        ctx.count("edit_successes")
        want_bytes, libtext = exp[1], exp[2]
        if got["rc"] != 0:
            shape = "success-nonzero-exit"
            if via_translation and expected_edit(translated, c.cmd, c.args, enc)[0] == "err":
                shape = "file-newline-translation"
            ctx.fail({"clause": "exit-status", "shape": shape, "cmd": c.cmd}, inp,
                     f"library edit succeeded but exit={got['rc']}", observed=fmt(got))
            continue
        plus_nl = (libtext + "\n").encode(enc, "surrogateescape")
        if got["out"] != want_bytes:
            if libtext.endswith("\n") and got["out"] == plus_nl:
                shape = "print-appends-newline"
            elif via_translation and _matches_translated(got["out"], translated, c, enc):
                shape = "file-newline-translation"
            else:
                shape = "wrong-output"
            ctx.fail({"clause": "line-terminator", "shape": shape, "cmd": c.cmd}, inp,
                     f"`nima {c.cmd}` ({chan}) emitted {got['out']!r}; the library edit is {libtext!r}, so the property "
                     f"requires {want_bytes!r}", observed=fmt(got), expected={"stdout": want_bytes.decode(enc, 'replace'), "exit": 0})
        # the consequence the property names: one final newline stays one, and `nima test` accepts the result
        if text.endswith("\n") and not text.endswith("\n\n") and not via_translation:
            if libtext.endswith("\n") and not libtext.endswith("\n\n"):
                if not (got["out"].endswith(b"\n") and not got["out"].endswith(b"\n\n")):
                    shape = "print-appends-newline" if got["out"] == plus_nl else "other"
                    ctx.fail({"clause": "one-newline", "shape": shape, "cmd": c.cmd}, inp,
                             f"input ends in exactly one newline, the library edit too, the emitted bytes do not: {got['out'][-12:]!r}",
                             observed=fmt(got))
                if chan == "stdin":
                    followups.append((c, libtext, got["out"], plus_nl))
            else:
                ctx.count("library_changed_final_newline(C04,not-C16)")
    # channel independence: same bytes, same arguments => same stdout and exit status
    a, b = c.res["stdin"], c.res["file"]
    ctx.count("channel_pairs")
    if (a["out"], a["rc"]) != (b["out"], b["rc"]):
        raw = decode_raw(c.data, "file", pr)
        shape = "other"
        if raw[0] == "ok" and "\r" in raw[1]:
            shape = "file-newline-translation"
        ctx.fail({"clause": "channel-independence", "shape": shape, "cmd": c.cmd}, c.rep(),
                 f"`nima {c.cmd}`: stdin gives stdout={a['out']!r} exit={a['rc']}, -f FILE gives stdout={b['out']!r} exit={b['rc']}",
                 observed={"stdin": fmt(a), "file": fmt(b)})


def _matches_translated(out: bytes, translated: str, c: Case, enc: str) -> bool:
    e = expected_edit(translated, c.cmd, c.args, enc)
    return e[0] == "ok" and out in (e[1], (e[2] + "\n").encode(enc, "surrogateescape"))


def fmt(got: dict) -> dict:
    return {"stdout": got["out"].decode("utf-8", "replace"), "exit": got["rc"], "exception": got["exc"],
            "stderr_tail": got["err"][-200:]}


def observe_followups(ctx, followups: list, tmp: str, env: dict):
    """redirect the output of a successful edit over the file, then `nima test` it"""
    with concurrent.futures.ThreadPoolExecutor(max_workers=JOBS) as ex:
        futs = [(f, ex.submit(run_cli, ["test"], f[2], tmp, env)) for f in followups]
        for (c, libtext, out, plus_nl), fut in futs:
            got = fut.result()
            ctx.count("subprocess_runs")
            ctx.count("redirect_then_test")
            if (got["out"], got["rc"]) == (b"OK\n", 0):
                continue
            lib_good, _ = good(libtext)
            if not lib_good:
                # the library's own edit text is not a fixed point of its round trip: C06's business, not the CLI's
                ctx.count("library_edit_not_fixed_point(C06,not-C16)")
                continue
            shape = "print-appends-newline" if out == plus_nl else "other"
            ctx.fail({"clause": "redirect-then-test", "shape": shape, "cmd": c.cmd}, c.rep("stdin"),
                     f"`nima test` rejects the bytes `nima {c.cmd}` emitted ({out!r}) although it accepts the library's edit text",
                     observed=fmt(got))


def configuration_probe(ctx, tmp: str, env: dict):
    """Informational (not part of the verdict): under a non-UTF-8 stdio encoding stdin is decoded with that encoding
    while -f FILE is forced to UTF-8, so the two channels emit different bytes for non-ASCII input. The sandbox has only
    C/POSIX/C.utf8 locales (all UTF-8 in CPython), so this is reachable through PYTHONIOENCODING only."""
    env2 = dict(env, PYTHONIOENCODING="latin-1")
    data = '{ a = "é"; }\n'.encode("utf-8")
    path = os.path.join(tmp, "cfg.nix")
    with open(path, "wb") as fh:
        fh.write(data)
    a = run_cli(["set", "b", "1"], data, tmp, env2)
    b = run_cli(["set", "b", "1", "-f", path], None, tmp, env2)
    ctx.count("subprocess_runs", 2)
    ctx.extra["configuration_probe"] = {
        "setting": "PYTHONIOENCODING=latin-1", "input": data.decode(), "stdin": {"stdout_hex": a["out"].hex(), "exit": a["rc"]},
        "file": {"stdout_hex": b["out"].hex(), "exit": b["rc"]}, "channels_agree": (a["out"], a["rc"]) == (b["out"], b["rc"]),
        "note": "outside the modelled default environment (see assumptions); reported to the lead, not a verdict",
    }


def observe_argv(ctx, tmp: str, env: dict):
    for argv, label in ARGV_CASES:
        got = run_cli(argv, b"{ a = 1; }\n", tmp, env)
        ctx.count("subprocess_runs")
        ctx.case({"argv": argv, "label": label})
        if got["out"] != b"" or got["rc"] in (0, None):
            ctx.fail({"clause": "error-silent", "shape": "usage-error", "label": label}, {"argv": argv},
                     f"`nima {' '.join(argv)}`: stdout={got['out']!r} exit={got['rc']}", observed=fmt(got))
        yield argv, label, got


# ---------------------------------------------------------------- correspondence with the Lean model
def correspond(ctx, cases: list[Case], pr: dict, argv_results: list):
    reqs, meta = [], []
    # the model of what read() yields on each channel (newline translation) against the real streams
    for c in cases:
        if len(c.args) != ARITY[c.cmd]:
            continue
        for chan in ("stdin", "file"):
            raw = decode_raw(c.data, chan, pr)
            if raw[0] == "ok" and has_surrogates(raw[1]):
                ctx.count("unmodelled:surrogate-escaped-stdin")
                continue
            content = content_in_process(c, chan, pr)
            reqs.append(["cli-content", chan, sx_outcome(raw)])
            meta.append(("content", c, chan, sx_outcome(content)))
    for c in cases:
        for chan in ("stdin", "file"):
            raw = decode_raw(c.data, chan, pr)
            if raw[0] == "ok" and has_surrogates(raw[1]):
                continue
            lib = {"parse": "na", "rebuild": "na", "set": "na", "rm": "na"}
            if len(c.args) == ARITY[c.cmd]:
                content = content_in_process(c, chan, pr)
                if content[0] == "ok":
                    lib = lib_eval(content[1], c.cmd, c.args)
            reqs.append(["cli", c.cmd, chan, sx_outcome(raw), [hx(a) for a in c.args], sx_outcome(lib["parse"]),
                         sx_outcome(lib["rebuild"]), sx_outcome(lib["set"]), sx_outcome(lib["rm"])])
            meta.append(("cli", c, chan, None))
    for argv, label, got in argv_results:
        reqs.append(["cli-none"] if label == "no-command" else ["cli-usage"])
        meta.append(("argv", (argv, label), None, got))
    replies = ctx.driver.ask_many(reqs)
    ctx.corr_checked = len(reqs)
    bad = 0
    for rq, (what, c, chan, extra), rep in zip(reqs, meta, replies):
        if what == "content":
            ok = rep == extra or (rep[0] == "err" and extra[0] == "err")
            impl, desc = extra, f"read() on {chan}"
            where = c.rep(chan)
        else:
            got = extra if what == "argv" else c.res[chan]
            where = {"argv": c[0]} if what == "argv" else c.rep(chan)
            if rep[0] != "res":
                ok, impl = False, fmt(got)
            else:
                m_out = unhx(rep[1]).encode(pr["out_enc"], "surrogateescape")
                m_exc = None if rep[3] == "none" else rep[3]
                impl_help = "tool for manipulating Nix expressions" in got["err"]   # full help text on stderr
                ok = (m_out == got["out"] and int(rep[2]) == got["rc"] and m_exc == got["exc"]
                      and (rep[4] == "t") == impl_help)
                impl = fmt(got)
            desc = f"nima {where.get('cmd', where.get('argv'))} on {chan}"
        if not ok:
            bad += 1
            if bad <= 5:
                ctx.tie_break("correspondence", f"model and command line disagree: {desc}", request=rq,
                              input=where, implementation=impl, model=rep)
    ctx.count("correspondence_requests", len(reqs))
    ctx.count("correspondence_disagreements", bad)


# ---------------------------------------------------------------- entry points
def check_cases(ctx, cases: list[Case], correspondence: bool):
    use_repo_in_process()
    env = child_env()
    pr = probe(env)
    ctx.extra["environment"] = {k: pr[k] for k in ("enc", "errors", "out_enc", "stdin_translates_newlines", "file")}
    tmp = tempfile.mkdtemp(prefix="c16-")
    try:
        run_all(ctx, cases, tmp, env)
        argv_results = list(observe_argv(ctx, tmp, env))
        if correspondence:
            configuration_probe(ctx, tmp, env)
        if correspondence:
            correspond(ctx, cases, pr, argv_results)
        followups: list = []
        for c in cases:
            observe_case(ctx, c, pr, followups)
        observe_followups(ctx, followups, tmp, env)
    finally:
        shutil.rmtree(tmp, ignore_errors=True)


def run(ctx: fw.Ctx):
    ctx.extra["rule"] = (
        "cases = (sub-command, positionals, input bytes) x both channels (stdin, -f FILE), each one subprocess run of "
        "`python -m nix_manipulator`; fixed cases (one per input kind the property names x test/set/rm, the witnesses of "
        "the cex_* theorems, failing arguments, usage errors) + seeded random documents (canonical, non-canonical, "
        "erroneous, empty/blank, no/two final newlines, non-ASCII, CRLF, lone CR, unsupported construct, invalid UTF-8) with "
        "succeeding and failing arguments; non-trivial = everything except `test` on a canonical or empty input; "
        "distinct by (command, arguments, bytes, channel)")
    ctx.trusted_base = [
        "Lean 4 kernel; axioms propext, Classical.choice, Quot.sound only",
        "translator harness/translate/gen_cli.py (A-normal-form compiler of the match cases; argparse wiring reader)",
        "correspondence harness (this file): subprocess runner, in-process library calls, driver line protocol",
        "tree-sitter-nix as the independent judge of 'free of syntax errors'",
        "CPython: print, text streams (sys.stdin newline handling is probed per run), argparse, SystemExit codes",
        "SPEC definitions Good / ensureNewline / endsInOneNewline / libEdit (Model/Cli.lean)",
    ]
    ctx.assumptions = [
        "stdin and stdout use UTF-8 (the sandbox default; probed and recorded under coverage.environment); under another "
        "locale encoding stdin is decoded differently from -f FILE (forced UTF-8) and the channels can differ",
        "POSIX: sys.stdin does not translate line ends (probed per run; -f FILE is opened with newline='' to match)",
        "inputs are not lone-surrogate text (surrogate-escaped stdin bytes are exercised by the oracle, not by the model)",
    ]
    n = 45 if ctx.quick else 960
    cases = fixed_cases() + gen_cases(ctx, n)
    check_cases(ctx, cases, correspondence=True)


def search(ctx: fw.Ctx):
    """Broken tie: explore a wider stream with the oracle only."""
    check_cases(ctx, gen_cases(ctx, 120 if ctx.quick else 1500), correspondence=False)


def replay(payload: dict) -> int:
    inp = payload.get("input", {})
    print("replaying", json.dumps(inp, ensure_ascii=True)[:400])
    ctx = fw.Ctx("C16", "quick", int(payload.get("seed", 0)))
    use_repo_in_process()
    env = child_env()
    if "argv" in inp:
        got = run_cli(inp["argv"], b"{ a = 1; }\n", tempfile.gettempdir(), env)
        print("observed:", fmt(got))
        return 1 if (got["out"] != b"" or got["rc"] == 0) else 0
    if "cmd" not in inp:
        print("nothing to replay (tie-broken replay files name the theorem / extractor instead)")
        return 0
    c = Case(inp["cmd"], list(inp["args"]), bytes.fromhex(inp["data_hex"]), inp.get("kind", "?"),
             opt_first=inp.get("opt_first", True))
    check_cases(ctx, [c], correspondence=False)
    for chan in ("stdin", "file"):
        print(f"{chan}: argv={argv_for(c, chan, 'FILE')} ->", fmt(c.res[chan]))
    open_known, _ = fw.load_known("C16")
    fresh = 0
    for f in ctx.failures:
        hit = next((k for k in open_known if fw.key_matches(k["key"], f["key"])), None)
        print("KNOWN-FINDING" if hit else "FAILS", json.dumps(f["key"]), f["what"])
        fresh += hit is None
    return 1 if fresh else 0
