import NimaVerif.Model.Cost
/-!
Metatheorems about the cost recurrence `calls m e` (C20), for an arbitrary multiplicity function `m`
and arbitrary (unbounded) skeletons: linear upper bound when no edge is doubled, the general upper
bound `size * B ^ ddepth`, monotonicity in `m`, and the exponential lower bound on nested cycles of
edges whose multiplicities multiply to ≥ 2.
-/
namespace Nima.Cost

/-! ### linear bound -/
mutual
  theorem calls_le_size (m : String → String → Nat) :
      ∀ e, allEdges (fun k f => decide (m k f ≤ 1)) e = true → calls m e ≤ size e
    | .node k cs => by
      intro h
      simp only [allEdges] at h
      simp only [calls, size]
      have := callsL_le_sizeL m k cs h
      omega
  theorem callsL_le_sizeL (m : String → String → Nat) (k : String) :
      ∀ cs, allEdgesL (fun k f => decide (m k f ≤ 1)) k cs = true → callsL m k cs ≤ sizeL cs
    | [] => by intro _; simp [callsL, sizeL]
    | (f, c) :: rest => by
      intro h
      simp only [allEdgesL, Bool.and_eq_true, decide_eq_true_eq] at h
      obtain ⟨⟨h1, h2⟩, h3⟩ := h
      simp only [callsL, sizeL]
      have a := calls_le_size m c h2
      have b := callsL_le_sizeL m k rest h3
      have : m k f * calls m c ≤ 1 * calls m c := Nat.mul_le_mul_right _ h1
      omega
end

mutual
  theorem allEdges_of_forall (p : String → String → Bool) (h : ∀ k f, p k f = true) :
      ∀ e, allEdges p e = true
    | .node k cs => by simpa [allEdges] using allEdgesL_of_forall p h k cs
  theorem allEdgesL_of_forall (p : String → String → Bool) (h : ∀ k f, p k f = true) (k : String) :
      ∀ cs, allEdgesL p k cs = true
    | [] => by simp [allEdgesL]
    | (f, c) :: rest => by
      simp only [allEdgesL, Bool.and_eq_true]
      exact ⟨⟨h k f, allEdges_of_forall p h c⟩, allEdgesL_of_forall p h k rest⟩
end

/-! ### size and calls are positive; monotonicity -/
theorem size_pos : ∀ e, 1 ≤ size e
  | .node _ _ => by simp [size]

theorem calls_pos (m : String → String → Nat) : ∀ e, 1 ≤ calls m e
  | .node _ _ => by simp [calls]

mutual
  theorem calls_mono (m m' : String → String → Nat) (hm : ∀ k f, m k f ≤ m' k f) :
      ∀ e, calls m e ≤ calls m' e
    | .node k cs => by
      simp only [calls]
      have := callsL_mono m m' hm k cs
      omega
  theorem callsL_mono (m m' : String → String → Nat) (hm : ∀ k f, m k f ≤ m' k f) (k : String) :
      ∀ cs, callsL m k cs ≤ callsL m' k cs
    | [] => by simp [callsL]
    | (f, c) :: rest => by
      simp only [callsL]
      have a := calls_mono m m' hm c
      have b := callsL_mono m m' hm k rest
      have : m k f * calls m c ≤ m' k f * calls m' c := Nat.mul_le_mul (hm k f) a
      omega
end

/-! ### general upper bound: each doubled edge on a path costs at most a factor `B` -/
mutual
  theorem calls_le_size_pow (m : String → String → Nat) (B : Nat) (hB : 1 ≤ B)
      (hm : ∀ k f, m k f ≤ B) : ∀ e, calls m e ≤ size e * B ^ ddepth m e
    | .node k cs => by
      simp only [calls, size, ddepth]
      have h := callsL_le_sizeL_pow m B hB hm k cs
      have hp : 1 ≤ B ^ ddepthL m k cs := Nat.pow_pos (by omega)
      calc 1 + callsL m k cs ≤ 1 * B ^ ddepthL m k cs + sizeL cs * B ^ ddepthL m k cs := by omega
        _ = (1 + sizeL cs) * B ^ ddepthL m k cs := by rw [Nat.add_mul]
  theorem callsL_le_sizeL_pow (m : String → String → Nat) (B : Nat) (hB : 1 ≤ B)
      (hm : ∀ k f, m k f ≤ B) (k : String) :
      ∀ cs, callsL m k cs ≤ sizeL cs * B ^ ddepthL m k cs
    | [] => by simp [callsL, sizeL]
    | (f, c) :: rest => by
      simp only [callsL, sizeL, ddepthL]
      have a := calls_le_size_pow m B hB hm c
      have b := callsL_le_sizeL_pow m B hB hm k rest
      -- D is the doubled depth of the whole child list
      generalize hD : max ((if 2 ≤ m k f then 1 else 0) + ddepth m c) (ddepthL m k rest) = D
      have hD1 : (if 2 ≤ m k f then 1 else 0) + ddepth m c ≤ D := by omega
      have hD2 : ddepthL m k rest ≤ D := by omega
      have hBpos : 0 < B := by omega
      have t2 : callsL m k rest ≤ sizeL rest * B ^ D :=
        Nat.le_trans b (Nat.mul_le_mul_left _ (Nat.pow_le_pow_right hBpos hD2))
      have t1 : m k f * calls m c ≤ size c * B ^ D := by
        by_cases h2 : 2 ≤ m k f
        · simp only [h2, if_true] at hD1
          calc m k f * calls m c ≤ B * (size c * B ^ ddepth m c) := Nat.mul_le_mul (hm k f) a
            _ = size c * B ^ (ddepth m c + 1) := by rw [Nat.pow_succ]; ac_rfl
            _ ≤ size c * B ^ D := Nat.mul_le_mul_left _ (Nat.pow_le_pow_right hBpos (by omega))
        · simp only [h2, if_false] at hD1
          have h1 : m k f ≤ 1 := by omega
          calc m k f * calls m c ≤ 1 * (size c * B ^ ddepth m c) := Nat.mul_le_mul h1 a
            _ = size c * B ^ ddepth m c := Nat.one_mul _
            _ ≤ size c * B ^ D := Nat.mul_le_mul_left _ (Nat.pow_le_pow_right hBpos (by omega))
      calc m k f * calls m c + callsL m k rest ≤ size c * B ^ D + sizeL rest * B ^ D := by omega
        _ = (size c + sizeL rest) * B ^ D := by rw [Nat.add_mul]
end

/-! ### exponential lower bound on nested cycles -/
theorem calls_wrap_ge (m : String → String → Nat) :
    ∀ (path : List (String × String)) (e : Skel), pathMult m path * calls m e ≤ calls m (wrap path e)
  | [], e => by simp [pathMult, wrap]
  | (k, f) :: rest, e => by
    simp only [pathMult, wrap, calls, callsL]
    have ih := calls_wrap_ge m rest e
    have : m k f * (pathMult m rest * calls m e) ≤ m k f * calls m (wrap rest e) :=
      Nat.mul_le_mul_left _ ih
    rw [Nat.mul_assoc]
    omega

theorem calls_nest_ge (m : String → String → Nat) (path : List (String × String)) (e : Skel) :
    ∀ n, pathMult m path ^ n ≤ calls m (nest path n e)
  | 0 => by simpa [nest] using calls_pos m e
  | n + 1 => by
    simp only [nest]
    have ih := calls_nest_ge m path e n
    have h := calls_wrap_ge m path (nest path n e)
    calc pathMult m path ^ (n + 1) = pathMult m path * pathMult m path ^ n := by
          rw [Nat.pow_succ, Nat.mul_comm]
      _ ≤ pathMult m path * calls m (nest path n e) := Nat.mul_le_mul_left _ ih
      _ ≤ _ := h

/-- the form used for findings: a cycle of edges whose multiplicities multiply to at least 2 -/
theorem exp_of_double (m : String → String → Nat) (path : List (String × String)) (e : Skel)
    (h : 2 ≤ pathMult m path) (n : Nat) : 2 ^ n ≤ calls m (nest path n e) :=
  Nat.le_trans (Nat.pow_le_pow_left h n) (calls_nest_ge m path e n)

/-- size of a nested cycle is linear in the depth: the exponential is in the depth, not hidden in size -/
theorem size_wrap : ∀ (path : List (String × String)) (e : Skel), size (wrap path e) = path.length + size e
  | [], e => by simp [wrap]
  | (k, f) :: rest, e => by
    simp only [wrap, size, sizeL, List.length_cons]
    have := size_wrap rest e
    omega

theorem size_nest (path : List (String × String)) (e : Skel) :
    ∀ n, size (nest path n e) = n * path.length + size e
  | 0 => by simp [nest]
  | n + 1 => by
    simp only [nest, size_wrap, size_nest path e n]
    rw [Nat.add_mul]; omega

/-! ### tables -/
theorem mult_le_of_all (t : Table) (B : Nat) (hB : 1 ≤ B) (h : t.all (fun e => decide (e.2.2 ≤ B)) = true) :
    ∀ k f, mult t k f ≤ B := by
  intro k f
  unfold mult
  split
  · rename_i e he
    have hmem := List.mem_of_find?_eq_some he
    have := List.all_eq_true.mp h e hmem
    simpa using this
  · exact hB

end Nima.Cost
