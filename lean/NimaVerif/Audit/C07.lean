import NimaVerif.Props.C07
open Nima.C07
#print axioms tie_gate
#print axioms passthrough
#print axioms flagged
#print axioms set_refused
#print axioms rm_refused
#print axioms bad_value_refused
#print axioms erroneous_text
#print axioms cli_test_fails
#print axioms cli_set_refused
#print axioms cli_rm_refused
#print axioms cli_bad_value_refused
#print axioms cli_erroneous_text
#print axioms tie_cli_test
#print axioms tie_cli_set
#print axioms tie_cli_rm
