"""Gen/ProcState.lean (C15b, C15c): facts about the process-wide state of nix_manipulator.

  * where the parser and the two source context variables live (`schedCfg`), and whether the
    context managers reset their token in a `finally` (`ctxResetInFinally`);
  * how `_CONTEXTS` is keyed and guarded (`registryKeyedById`, `registryWeakrefGuard`);
  * every module-level / class-level object written from inside a function (`writtenGlobals`),
    every memoising decorator (`memoized`);
  * ambient reads (cwd, environment, time, randomness) and identity reads (`id`, `hash`) and set
    iterations in code reachable by name from `parse` and from `rebuild`.
"""
from __future__ import annotations

import ast

from . import effects_ir as E
from .translate import PKG, ExtractError, Result, lean_str, run_table

AMBIENT = {"getcwd", "cwd", "environ", "getenv", "resolve", "absolute", "expanduser", "expandvars", "time",
           "time_ns", "monotonic", "perf_counter", "now", "today", "random", "randint", "choice", "shuffle",
           "urandom", "uuid4", "uuid1", "getpid", "gethostname", "get_ident", "current_thread", "home"}
IDENTITY = {"id", "hash"}
MEMO = {"lru_cache", "cache", "cached_property", "functools.lru_cache", "functools.cache", "functools.cached_property"}

_pkg_cache: dict = {}


def package() -> E.Package:
    key = str(PKG)
    if key not in _pkg_cache:
        _pkg_cache.clear()
        _pkg_cache[key] = E.Package(PKG)
    return _pkg_cache[key]


def _module_assign(mod: ast.Module, name: str):
    for st in mod.body:
        if isinstance(st, ast.Assign) and any(isinstance(t, ast.Name) and t.id == name for t in st.targets):
            return st.value
        if isinstance(st, ast.AnnAssign) and isinstance(st.target, ast.Name) and st.target.id == name:
            return st.value
    return None


def _call_name(v) -> str:
    if isinstance(v, ast.Call):
        f = v.func
        return f.id if isinstance(f, ast.Name) else (f.attr if isinstance(f, ast.Attribute) else "")
    return ""


# ------------------------------------------------------------------ storage of parser / context vars
def extract_sched_cfg() -> dict:
    pkg = package()
    # -- parser: the function parse_to_ast obtains its parser from
    pmod = pkg.mods.get("parser.py")
    if pmod is None:
        raise ExtractError("parser.py missing")
    getter = None
    for q, info in pkg.fns.items():
        if info.rel == "parser.py" and info.node.name == "parse_to_ast":
            for n in ast.walk(info.node):
                if isinstance(n, ast.Assign) and isinstance(n.value, ast.Call) and isinstance(n.value.func, ast.Name):
                    if n.value.func.id in pkg.by_name and "parser" in n.value.func.id.lower():
                        getter = n.value.func.id
    getter = getter or "_get_parser"
    gq = next((q for q in pkg.by_name.get(getter, []) if pkg.fns[q].rel == "parser.py"), None)
    if gq is None:
        raise ExtractError(f"parser getter {getter} not found")
    gfn = pkg.fns[gq].node
    if any(isinstance(n, (ast.Global, ast.Nonlocal)) for n in ast.walk(gfn)):
        parser_local = False
    else:
        holders = set()
        for n in ast.walk(gfn):
            if isinstance(n, ast.Attribute) and isinstance(n.value, ast.Name) and isinstance(n.ctx, ast.Store):
                holders.add(n.value.id)
            if _call_name(n) in ("getattr", "setattr") and n.args and isinstance(n.args[0], ast.Name):
                holders.add(n.args[0].id)
        holders = {h for h in holders if h in pkg.module_names["parser.py"]}
        if len(holders) != 1:
            raise ExtractError(f"{getter}: cannot identify the object holding the parser ({sorted(holders)})")
        holder = holders.pop()
        val = _module_assign(pmod, holder)
        parser_local = _call_name(val) == "local"
        # a parser created per call (no caching) is also per-thread; anything else is shared
    # -- context variables: `token = V.set(x) … V.reset(token)` in a generator function
    out = {"parserLocal": parser_local}
    for key, rel, fname in (("bytesLocal", "expressions/trivia.py", "source_bytes_context"),
                            ("pathLocal", "expressions/path.py", "source_path_context")):
        q = next((q for q in pkg.by_name.get(fname, []) if pkg.fns[q].rel == rel), None)
        if q is None:
            raise ExtractError(f"{fname} not found in {rel}")
        fn = pkg.fns[q].node
        if any(isinstance(n, (ast.Global, ast.Nonlocal)) for n in ast.walk(fn)):
            out[key] = False
            out[key + "Finally"] = False
            continue
        setters = [n for n in ast.walk(fn) if isinstance(n, ast.Call) and isinstance(n.func, ast.Attribute)
                   and n.func.attr == "set" and isinstance(n.func.value, ast.Name)]
        if len(setters) != 1:
            raise ExtractError(f"{fname}: expected exactly one V.set(..)")
        v = setters[0].func.value.id
        val = _module_assign(pkg.mods[rel], v)
        out[key] = _call_name(val) == "ContextVar"
        # reset(token) in the finally of the try around the yield
        ok = False
        for n in ast.walk(fn):
            if isinstance(n, ast.Try) and n.finalbody:
                has_yield = any(isinstance(x, (ast.Yield, ast.YieldFrom)) for b in n.body for x in ast.walk(b))
                resets = [x for b in n.finalbody for x in ast.walk(b)
                          if isinstance(x, ast.Call) and isinstance(x.func, ast.Attribute) and x.func.attr == "reset"
                          and isinstance(x.func.value, ast.Name) and x.func.value.id == v]
                if has_yield and resets:
                    ok = True
        out[key + "Finally"] = ok
    return out


# ------------------------------------------------------------------ the registry
def extract_registry() -> dict:
    pkg = package()
    rel = "resolution.py"
    mod = pkg.mods.get(rel)
    if mod is None:
        raise ExtractError("resolution.py missing")
    reg = None
    for st in mod.body:
        tgt = st.target if isinstance(st, ast.AnnAssign) else (st.targets[0] if isinstance(st, ast.Assign) else None)
        if isinstance(tgt, ast.Name) and isinstance(getattr(st, "value", None), ast.Dict) and tgt.id.isupper() \
                or (isinstance(tgt, ast.Name) and tgt.id == "_CONTEXTS"):
            reg = tgt.id
    if reg is None:
        raise ExtractError("no module-level registry dict in resolution.py")
    keyed = True
    guard_store = guard_get = False
    for q, info in pkg.fns.items():
        if info.rel != rel:
            continue
        fn = info.node
        # names bound to id(..) in this function or an enclosing one
        idnames = set()
        scope = [fn]
        par = info.parent
        while par:
            scope.append(pkg.fns[par].node)
            par = pkg.fns[par].parent
        for f in scope:
            for n in ast.walk(f):
                if isinstance(n, ast.Assign) and _call_name(n.value) == "id" and isinstance(n.targets[0], ast.Name):
                    idnames.add(n.targets[0].id)

        def key_ok(k):
            return _call_name(k) == "id" or (isinstance(k, ast.Name) and k.id in idnames)

        for n in E.own_nodes(fn):
            if isinstance(n, ast.Subscript) and isinstance(n.value, ast.Name) and n.value.id == reg:
                if not key_ok(n.slice):
                    keyed = False
                if isinstance(n.ctx, ast.Store):
                    # what is stored: (ref(expr, callback), context)
                    pass
            if isinstance(n, ast.Call) and isinstance(n.func, ast.Attribute) and isinstance(n.func.value, ast.Name) \
                    and n.func.value.id == reg:
                if n.func.attr in ("get", "pop", "setdefault", "__getitem__", "__setitem__"):
                    if not n.args or not key_ok(n.args[0]):
                        keyed = False
                else:
                    keyed = False
            if isinstance(n, ast.Assign) and isinstance(n.targets[0], ast.Subscript) \
                    and isinstance(n.targets[0].value, ast.Name) and n.targets[0].value.id == reg:
                v = n.value
                if isinstance(v, ast.Tuple) and v.elts and _call_name(v.elts[0]) == "ref" and len(v.elts[0].args) == 2:
                    guard_store = True
            if isinstance(n, ast.Compare) and len(n.ops) == 1 and isinstance(n.ops[0], ast.Is) \
                    and isinstance(n.left, ast.Call) and not n.left.args and isinstance(n.left.func, ast.Name):
                guard_get = True
    return {"name": reg, "keyedById": keyed, "weakrefGuard": guard_store and guard_get}


# ------------------------------------------------------------------ written globals, memoisation
def extract_written_globals() -> dict:
    pkg = package()
    written: set[str] = set()
    memo: set[str] = set()
    for q, info in pkg.fns.items():
        fn = info.node
        for d in info.deco:
            if d.split("(")[0] in MEMO:
                memo.add(q)
        locs = E.local_names(fn)
        par = info.parent
        outer_locals: set[str] = set()
        while par:
            outer_locals |= E.local_names(pkg.fns[par].node)
            par = pkg.fns[par].parent
        modnames = pkg.module_names[info.rel]
        declared_global: set[str] = set()
        for n in E.own_nodes(fn):
            if isinstance(n, ast.Global):
                declared_global.update(n.names)

        def is_global(name: str) -> bool:
            return (name in declared_global) or (name not in locs and name not in outer_locals and name in modnames)

        def base_name(e):
            while isinstance(e, (ast.Attribute, ast.Subscript)):
                e = e.value
            return e.id if isinstance(e, ast.Name) else None

        for n in E.own_nodes(fn):
            targets = []
            if isinstance(n, ast.Assign):
                targets = n.targets
            elif isinstance(n, (ast.AugAssign, ast.AnnAssign)):
                targets = [n.target]
            elif isinstance(n, ast.Delete):
                targets = n.targets
            for t in targets:
                for tt in (t.elts if isinstance(t, (ast.Tuple, ast.List)) else [t]):
                    if isinstance(tt, ast.Name) and tt.id in declared_global:
                        written.add(f"{info.rel}:{tt.id}")
                    elif isinstance(tt, (ast.Attribute, ast.Subscript)):
                        b = base_name(tt)
                        if b is None:
                            continue
                        if is_global(b):
                            written.add(f"{info.rel}:{b}")
                        elif b == "cls" or (b in pkg.classes and b not in locs):
                            attr = tt.attr if isinstance(tt, ast.Attribute) else ast.unparse(tt.value)
                            written.add(f"{info.rel}:{info.cls if b == 'cls' else b}.{attr}")
            if isinstance(n, ast.Call) and isinstance(n.func, ast.Attribute):
                m = n.func.attr
                if m in E.MUTATORS or m in ("set", "reset"):
                    b = base_name(n.func.value)
                    if b is None:
                        continue
                    if is_global(b):
                        written.add(f"{info.rel}:{b}")
                    elif (b == "cls" or (b in pkg.classes and b not in locs)) and isinstance(n.func.value, ast.Attribute):
                        written.add(f"{info.rel}:{info.cls if b == 'cls' else b}.{n.func.value.attr}")
            if isinstance(n, ast.Call) and isinstance(n.func, ast.Name) and n.func.id == "setattr" and n.args:
                b = base_name(n.args[0])
                if b and is_global(b):
                    written.add(f"{info.rel}:{b}")
    return {"written": sorted(written), "memoized": sorted(memo)}


# ------------------------------------------------------------------ ambient / identity reads, set iteration
def extract_ambient() -> dict:
    pkg = package()
    roots = E.rebuild_roots(pkg) + E.parse_roots(pkg)
    if not E.parse_roots(pkg):
        raise ExtractError("parse entry points not found in parser.py")
    tr = E.make_translator(pkg, roots)
    tr.run()
    reach = sorted(q for q, c in tr.ctxs.items() if c.done)
    ambient, identity = [], []
    for q in reach:
        fn = pkg.fns[q].node
        for n in E.own_nodes(fn):
            name = None
            if isinstance(n, ast.Call):
                name = _call_name(n)
            elif isinstance(n, ast.Attribute) and n.attr == "environ":
                name = "environ"
            if name in AMBIENT:
                # str.resolve etc. do not exist; Path.resolve()/absolute() read the cwd
                ambient.append(f"{q}: {name}")
            if name in IDENTITY and isinstance(n, ast.Call) and isinstance(n.func, ast.Name):
                identity.append(f"{q}: {name}")
    return {"ambient": sorted(set(ambient)), "identity": sorted(set(identity)),
            "set_iterations": list(tr.set_iterations), "reach": reach}


def _opt_list(name: str, xs) -> str:
    if xs is None:
        return f"def {name} : Option (List String) := none"
    return f"def {name} : Option (List String) := some [" + ", ".join(lean_str(x) for x in xs) + "]"


def _opt_bool(name: str, b) -> str:
    if b is None:
        return f"def {name} : Option Bool := none"
    return f"def {name} : Option Bool := some {'true' if b else 'false'}"


def emit(res: Result) -> dict[str, str]:
    _pkg_cache.clear()
    out = [
        "/- GENERATED by harness/translate/translate.py from /repo on every run. Do not edit. -/",
        "import NimaVerif.Model.Sched",
        "namespace Nima.Gen.ProcState",
        "",
    ]
    cfg = run_table(res, "sched_cfg", extract_sched_cfg)
    if cfg is None:
        out += ["def schedCfg : Option Nima.Sched.Cfg := none", _opt_bool("ctxResetInFinally", None)]
    else:
        b = lambda x: "true" if x else "false"  # noqa: E731
        out += [f"def schedCfg : Option Nima.Sched.Cfg := some ⟨{b(cfg['parserLocal'])}, {b(cfg['bytesLocal'])}, "
                f"{b(cfg['pathLocal'])}⟩",
                _opt_bool("ctxResetInFinally", cfg["bytesLocalFinally"] and cfg["pathLocalFinally"])]
    reg = run_table(res, "registry", extract_registry)
    out += [_opt_bool("registryKeyedById", None if reg is None else reg["keyedById"]),
            _opt_bool("registryWeakrefGuard", None if reg is None else reg["weakrefGuard"])]
    wg = run_table(res, "written_globals", extract_written_globals)
    out += [_opt_list("writtenGlobals", None if wg is None else wg["written"]),
            _opt_list("memoized", None if wg is None else wg["memoized"])]
    amb = run_table(res, "ambient", extract_ambient)
    out += [_opt_list("ambientReads", None if amb is None else amb["ambient"]),
            _opt_list("identityReads", None if amb is None else amb["identity"]),
            _opt_list("setIterations", None if amb is None else amb["set_iterations"])]
    out += ["", "end Nima.Gen.ProcState", ""]
    return {"ProcState.lean": "\n".join(out)}
