"""C08 — a rejected edit is loud and leaves the document exactly as it was."""
from __future__ import annotations

import os
import subprocess
import sys
import tempfile

from .. import editcorr as ec
from .. import editprops as ep
from .. import framework as fw

GEN_TABLES = ("cli_set", "cli_rm")


def run(ctx: fw.Ctx):
    ctx.extra["rule"] = (
        "histories: deterministic slice of wrapper x body x let-layers x single operation, plus random documents with "
        "random set/rm histories (plain, nested, attrpath, quoted, scoped, malformed paths; valid and invalid values); "
        "non-trivial = the history contains at least one rejected operation"
    )
    ctx.trusted_base = [
        "Lean 4 kernel; axioms propext, Classical.choice, Quot.sound only",
        "edit model Model/Edit.lean tied by correspondence of the object graph after every operation",
        "harness/docmodel.py snapshot of the real objects (identity by id(), trivia as opaque tokens)",
    ]
    ctx.assumptions = [
        "side effects on the resolution-context registry are not document state",
        "values are opaque unless attribute sets or identifiers; FunctionCall-valued bindings (the "
        "_resolve_inherited_binding fallback) are outside the model",
    ]
    stride, nrand, maxops = (3, 700, 8) if ctx.quick else (1, 12000, 30)
    hists = ep.build_stream(ctx, stride, nrand, maxops)
    ec.correspond(ctx, hists)
    observe(ctx, hists)
    cli_runs(ctx, 24 if ctx.quick else 200)


def observe(ctx: fw.Ctx, hists):
    from nix_manipulator import parse
    from nix_manipulator.cli import manipulations as M

    for h in hists:
        if h.parse_error:
            continue
        failed = [r for r in h.recs if r.result != "ok"]
        ctx.case({"doc": h.text, "ops": [list(r.op) for r in h.recs]}, bool(failed))
        for r in failed:
            shape = {"doc": h.info.get("class", "editable"), "wrapper": h.info.get("wrapper"),
                     "path": ep.shape_of_path(r.op[1]), "op": r.op[0]}
            if r.result not in ("key", "value"):
                ctx.fail({"clause": "exception-class", "class": r.result, **cls_key(h, r)},
                         {"doc": h.text, "ops": [list(x.op) for x in h.recs], "at": list(r.op)},
                         f"{r.op!r} on {h.text!r} raised {r.exc} (neither KeyError nor ValueError)", **shape)
            if r.after_text != r.before_text or fw.sexp_dump(r.snap_after) != fw.sexp_dump(r.snap_before):
                ctx.fail({"clause": "mutated", **shape},
                         {"doc": h.text, "ops": [list(x.op) for x in h.recs], "at": list(r.op),
                          "before": r.before_text, "after": r.after_text},
                         f"rejected {r.op!r} changed the document: {r.before_text!r} -> {r.after_text!r}")
        # operations that cannot be applied must not be accepted
        for r in h.recs:
            if r.result != "ok":
                continue
            inp = {"doc": h.text, "ops": [list(x.op) for x in h.recs], "at": list(r.op), "before": r.before_text,
                   "output": r.out}
            why = must_reject(r, first=r is h.recs[0])
            if why:
                ctx.fail({"clause": "accepted", "why": why, "op": r.op[0]}, inp,
                         f"{r.op!r} on {r.before_text!r} cannot be applied ({why}) but succeeded: {r.out!r}")
        # later edits behave as if the failed ones had never happened
        if failed and len(failed) < len(h.recs):
            src = parse(h.text)
            for r in h.recs:
                if r.result != "ok":
                    continue
                try:
                    out = M.set_value(src, r.op[1], r.op[2]) if r.op[0] == "set" else M.remove_value(src, r.op[1])
                except Exception as exc:  # noqa: BLE001
                    out = "<raised " + type(exc).__name__ + ">"
                if out != r.out:
                    ctx.fail({"clause": "later-edits-differ", "op": r.op[0]},
                             {"doc": h.text, "ops": [list(x.op) for x in h.recs], "at": list(r.op)},
                             f"with the rejected operations left out, {r.op!r} yields {out!r} instead of {r.out!r}")
                    break


def must_reject(r, first: bool = True) -> str | None:
    """why the operation cannot be applied, judged without the implementation: malformed path,
    invalid value, overwrite/removal of an attrpath root"""
    from ..oracle import cstread

    path = r.op[1]
    if not ep.path_wellformed(path):
        return "malformed-path"
    if r.op[0] == "set":
        v = r.op[2]
        root = cstread.ts_parse(v)
        if root.has_error or len([c for c in root.named_children if c.type != "comment"]) != 1:
            return "invalid-value"
    if path.startswith("@"):
        # a selector that names more let layers than enclose the target (counted on the text by
        # tree-sitter, wrappers looked through: an upper bound on the addressable layers) cannot be applied
        depth = len(path) - len(path.lstrip("@"))
        chain = None if cstread.ts_parse(r.before_text).has_error else cstread.let_chain(r.before_text)
        if chain and depth > len(chain):
            return "missing-scope-layer"
        return None
    if first and cstread.ts_parse(r.before_text).has_error:
        return "erroneous-source"  # (only the text that was parsed counts; a later text is C05's output-parses)
    try:
        names = tuple(ep.split_path(path))
    except Exception:  # noqa: BLE001
        return None
    if r.op[0] == "set" and names in ep.attrpath_prefixes_of(r.before_text):
        return "attrpath-root"  # (removing a whole attrpath family is not in the property's list)
    return None


def cls_key(h, r):
    where = "target-resolution" if h.doc0 and h.doc0[1] in ("resolution",) else "operation"
    return {"where": where}


def cli_runs(ctx: fw.Ctx, n: int):
    """CLI half: a rejected edit exits non-zero and prints nothing on stdout."""
    env = dict(os.environ)
    if os.environ.get("NIMA_REPO"):
        env["PYTHONPATH"] = os.environ["NIMA_REPO"]
    cases = [
        ("{ a = 1; }\n", ["rm", "zz"]), ("{ a = 1; }\n", ["set", "a..b", "1"]), ("{ a = 1; }\n", ["set", "a.b", "1"]),
        ("{ a.b = 1; }\n", ["set", "a", "1"]), ("{ a = 1; }\n", ["set", "@@x", "1"]), ("[ 1 ]\n", ["set", "a", "1"]),
        ("{ a = 1; }\n", ["set", "a", "1 +"]), ("{ a = 1; }\n", ["set", "a", ""]), ("{ a = 1; \n", ["set", "a", "2"]),
        ("{ a = 1; \n", ["rm", "a"]), ("", ["set", "a", "1"]), ("{ a = 1; }\n", ["rm", "@x"]),
    ]
    tmp = tempfile.mkdtemp(prefix="nima-c08-")
    try:
        for i in range(n):
            text, args = cases[i % len(cases)]
            use_file = (i // len(cases)) % 2 == 1
            cmd = [sys.executable, "-m", "nix_manipulator", *args]
            inp = text
            if use_file:
                p = os.path.join(tmp, f"in{i}.nix")
                with open(p, "w", encoding="utf-8") as f:
                    f.write(text)
                cmd += ["-f", p]
                inp = ""
            r = subprocess.run(cmd, input=inp, capture_output=True, text=True, timeout=60, env=env, cwd=tmp)
            ctx.case({"cli": args, "doc": text, "file": use_file})
            ctx.count("cli_runs")
            if r.returncode == 0 or r.stdout != "":
                ctx.fail({"clause": "cli", "args": args[0]},
                         {"doc": text, "args": args, "file": use_file, "stdout": r.stdout, "exit": r.returncode},
                         f"nima {' '.join(args)} on {text!r}: exit {r.returncode}, stdout {r.stdout!r}")
    finally:
        import shutil

        shutil.rmtree(tmp, ignore_errors=True)


def search(ctx: fw.Ctx):
    hists = ep.build_stream(ctx, 1, 3000, 12, enum_offset=1)
    observe(ctx, hists)


def replay(payload: dict) -> int:
    from nix_manipulator import parse

    inp = payload["input"]
    h = ec.run_real(inp["doc"], [tuple(o) for o in inp.get("ops", [])], {})
    bad = 0
    for r in h.recs:
        print(r.op, "->", r.result, r.exc)
        if r.result != "ok":
            if r.result not in ("key", "value"):
                bad = 1
            if r.before_text != r.after_text:
                print("  document changed:", repr(r.before_text), "->", repr(r.after_text))
                bad = 1
    return bad
