import NimaVerif.Lemmas.ScopedEdit
import NimaVerif.Lemmas.Mapping
/-! Creation of the innermost layer (`@name` on a document without layers), the documented
shortcut, and the missing-layer refusals. -/
namespace Nima
-- name tokens are compared by spelling in this file (see `NameCmp` in Model/Edit.lean)
attribute [local instance] NameCmp.spelled

open Node EditM

/-! ### missing layer -/

theorem setValue_missing_layer (d : Doc) (k : Nat) (name : Text) (v : Node) (hn : d.noTarget = none)
    (hk : 1 ≤ k) (hne : name ≠ []) (hh : name.head? ≠ some '@')
    (hkn : (collectScopeLayers d).length < k)
    (hnot : ¬ ((collectScopeLayers d).length = 0 ∧ k = 1)) :
    setValue (atSigns k ++ name) (.one v) d = (.error .value, d) := by
  unfold setValue
  simp only [hn, splitScopeNpath_ats k name hk hne hh, resolveTarget]
  have hc : ((collectScopeLayers d).isEmpty && k == 1) = false := by
    cases h : collectScopeLayers d with
    | nil =>
      have : k ≠ 1 := fun e => hnot ⟨by simp [h], e⟩
      simp [this]
    | cons _ _ => rfl
  simp only [hc, Bool.false_eq_true, if_false]
  have : k > (collectScopeLayers d).length := hkn
  simp only [this, if_true]

theorem removeValue_missing_layer (d : Doc) (k : Nat) (name : Text) (hn : d.noTarget = none)
    (hk : 1 ≤ k) (hne : name ≠ []) (hh : name.head? ≠ some '@')
    (hkn : (collectScopeLayers d).length < k) :
    removeValue (atSigns k ++ name) d = (.error .value, d) := by
  unfold removeValue
  have : k > (collectScopeLayers d).length := hkn
  simp only [hn, splitScopeNpath_ats k name hk hne hh, resolveTarget, this, if_true]

/-! ### the shortcut and the creation branch -/

/-- the layer `set_value` creates: empty scope, the set's own trivia as body trivia -/
def newLayerOf (d : Doc) : Layer :=
  { scope := [], order := [], bodyBefore := d.tBefore, bodyAfter := d.tAfter, afterLet := none }
/-- `target_expr.before = []; target_expr.after = []` -/
def clearBody (d : Doc) : Doc := { d with tBefore := [], tAfter := [] }
@[simp] theorem clearBody_next (d : Doc) : (clearBody d).next = d.next := rfl

theorem setValue_no_layers (d : Doc) (name : Text) (v : Node) (hn : d.noTarget = none)
    (hne : name ≠ []) (hh : name.head? ≠ some '@') (h0 : collectScopeLayers d = []) :
    setValue (atSigns 1 ++ name) (.one v) d =
      match formatNPath currentAnchor name with
      | .error e => (.error e, d)
      | .ok segs =>
        if pathExistsInAttrset d.target segs then setValueInAttrset d.target true name v d
        else
          match onLayer [newLayerOf d] false 0 (fun s => setValueInAttrset s false name v)
              (clearBody d) with
          | (.ok layers', d') => (.ok (), writeScopeLayers layers' none d')
          | (.error e, d') => (.error e, d') := by
  unfold setValue
  simp only [hn, splitScopeNpath_ats 1 name (Nat.le_refl 1) hne hh, resolveTarget, h0,
    List.isEmpty_nil, beq_self_eq_true, Bool.and_self, if_true]
  cases formatNPath currentAnchor name with
  | error e => rfl
  | ok segs =>
    simp only
    by_cases hp : pathExistsInAttrset d.target segs = true
    · simp only [hp, if_true]
    · simp only [hp, Bool.false_eq_true, if_false, List.length_cons, List.length_nil, Nat.zero_add,
        gt_iff_lt, Nat.lt_irrefl, Nat.sub_self]
      have hdoc : ({ d with noTarget := none, tBefore := [], tAfter := [] } : Doc) = clearBody d := by
        cases d; simp only at hn; subst hn; rfl
      exact congrArg (fun x : Doc =>
        match onLayer [newLayerOf d] false 0 (fun s => setValueInAttrset s false name v) x with
        | (.ok layers', d') => (Except.ok (), writeScopeLayers layers' none d')
        | (.error e, d') => (Except.error e, d')) hdoc

theorem setValue_plain (d : Doc) (name : Text) (v : Node) (hn : d.noTarget = none)
    (hh : name.head? ≠ some '@') :
    setValue name (.one v) d = setValueInAttrset d.target true name v d := by
  unfold setValue
  simp only [hn, splitScopeNpath_plain name hh, resolveTarget]

/-! ### a successful `set` on an empty set leaves it non-empty -/

theorem findAttrpathLeaf_emptyset (sid : Nat) (m r : Bool) (segs : List Text) :
    findAttrpathLeaf (.set sid [] [] m r) segs = none := by
  unfold findAttrpathLeaf walkAttrpathStack
  cases segs with
  | nil => rfl
  | cons a rest =>
    cases rest with
    | nil => rfl
    | cons b more => simp [findAttrpathRoot_spelled, setValues]

theorem setGetItem_emptyset (sid : Nat) (m r : Bool) (key : Text) :
    ∃ e, setGetItem (.set sid [] [] m r) key = .error e := by
  unfold setGetItem
  simp only [findBinding, setValues, List.find?_nil, inheritMentions, List.any_nil,
    Bool.false_eq_true, if_false]
  split
  · exact ⟨_, rfl⟩
  · rename_i segs _
    split
    · exact ⟨_, rfl⟩
    · cases segs with
      | nil => exact ⟨_, rfl⟩
      | cons a rest =>
        cases rest with
        | nil => simp [setGetItem.walk, findBinding_spelled, setValues]
        | cons b more => simp [setGetItem.walk, findBinding_spelled, setValues]

theorem scratch_updSet_self (d : Doc) (sid : Nat) (f : Node → Node) (n : Node)
    (hs : d.scratch = some n) (hn : n.setSid? = some sid) :
    (d.updSet sid f).scratch = some (f n) := by
  simp [Doc.updSet, hs, updSet_of_sid hn]

theorem findBinding_nil (k : Text) : findBinding [] k = none := rfl
theorem findAttrpathRoot_nil (k : Text) : findAttrpathRoot [] k = none := rfl
theorem setValues_set (s : Nat) (vs o : List Node) (m r : Bool) :
    (Node.set s vs o m r).setValues = vs := rfl

/-- first step of `_resolve_npath_parent(create_missing=True)` on an empty set: the missing parent
    is created and appended -/
theorem rpw_empty_cons (sid : Nat) (m r : Bool) (seg0 : Text) (rest : List Text) (d0 : Doc) :
    resolveParentWalk true (.set sid [] [] m r) (seg0 :: rest) d0 =
      resolveParentWalk true (.set d0.next [] [] m false) rest
        (({ d0 with next := d0.next + 1 + 1 } : Doc).updSet sid
          (appendOrderFn (.bind (d0.next + 1) seg0 false (.set d0.next [] [] m false) [] []) ∘
           appendValueFn (.bind (d0.next + 1) seg0 false (.set d0.next [] [] m false) [] []))) := by
  obtain ⟨e, he⟩ := setGetItem_emptyset sid m r seg0
  have hnew := setSetItem_new (s := .set sid [] [] m r) (k := seg0) (sid := sid)
    (.set d0.next [] [] m false) ({ d0 with next := d0.next + 1 } : Doc)
    (by rw [setValues_set]; rfl) rfl
  rw [resolveParentWalk]
  simp only [he, Bool.not_true, Bool.false_eq_true, if_false, setSid?, setMultiline,
    EditM.bind_apply, fresh_apply, hnew]

theorem bind_congr_apply {α β} (m m' : EditM α) (f : α → EditM β) (d d' : Doc) (h : m d = m' d') :
    (m >>= f) d = (m' >>= f) d' := by
  simp only [EditM.bind_apply, h]

theorem grow_scratch_nonempty {A S : Nat → Prop} {N : Nat} (m' : EditM Unit)
    (htr : Traced true A S N m' (fun _ => True)) (d : Doc) (hN : N ≤ d.next) (Sm : Node)
    (hs1 : d.scratch = some Sm) (hs2 : Sm.isSet = true) (hs3 : 0 < Sm.setValues.length) :
    ∃ S', (m' d).2.scratch = some S' ∧ S'.isSet = true ∧ S'.setValues ≠ [] := by
  obtain ⟨us, t1, t2, _⟩ := htr d hN
  rw [t1, applyAll_scratch, hs1]
  have hg := applyAllNode_grows us t2 Sm hs2
  exact ⟨_, rfl, hg.1, List.length_pos_iff.1 (Nat.lt_of_lt_of_le hs3 hg.2)⟩

theorem set_on_empty_nonempty (sid : Nat) (m r : Bool) (name : Text) (v : Node) (d0 : Doc)
    (hsc : d0.scratch = some (.set sid [] [] m r)) (hN : sid < d0.next)
    (hok : (setValueInAttrset (.set sid [] [] m r) false name v d0).1 = .ok ()) :
    ∃ S', (setValueInAttrset (.set sid [] [] m r) false name v d0).2.scratch = some S' ∧
      S'.isSet = true ∧ S'.setValues ≠ [] := by
  unfold setValueInAttrset at hok ⊢
  cases hf : formatNPath currentAnchor name with
  | error e => rw [hf] at hok; cases hok
  | ok segs =>
    cases segs with
    | nil => rw [hf] at hok; cases hok
    | cons seg0 segRest =>
      rw [hf] at hok
      simp only [setSid?, findAttrpathLeaf_emptyset, setValues_set, findAttrpathRoot_nil,
        findBinding_nil, Option.isSome_none, Bool.false_eq_true, if_false] at hok ⊢
      cases segRest with
      | nil =>
        simp only [List.isEmpty_nil, if_true] at hok ⊢
        have hnew := setSetItem_new (s := .set sid [] [] m r) (k := seg0) (sid := sid) v d0
          (by rw [setValues_set]; rfl) rfl
        rw [hnew]
        refine ⟨_, scratch_updSet_self _ sid _ _ hsc rfl, ?_, ?_⟩
        · simp [Function.comp, appendValueFn, appendOrderFn, isSet]
        · simp [Function.comp, appendValueFn, appendOrderFn, setValues]
      | cons s1 more =>
        simp only [List.isEmpty_cons, Bool.false_eq_true, if_false] at hok ⊢
        have hdl : (seg0 :: s1 :: more).dropLast = seg0 :: (s1 :: more).dropLast := rfl
        rw [hdl] at hok ⊢
        generalize hmid : (({ d0 with next := d0.next + 1 + 1 } : Doc).updSet sid
          (appendOrderFn (.bind (d0.next + 1) seg0 false (.set d0.next [] [] m false) [] []) ∘
           appendValueFn (.bind (d0.next + 1) seg0 false (.set d0.next [] [] m false) [] []))) = dmid
        have hstep := rpw_empty_cons sid m r seg0 (s1 :: more).dropLast d0
        rw [hmid] at hstep
        have hmsc : ∃ Sm, dmid.scratch = some Sm ∧ Sm.isSet = true ∧ 0 < Sm.setValues.length := by
          rw [← hmid]
          refine ⟨_, scratch_updSet_self _ sid _ _ hsc rfl, ?_, ?_⟩
          · simp [Function.comp, appendValueFn, appendOrderFn, isSet]
          · simp [Function.comp, appendValueFn, appendOrderFn, setValues]
        have hmnext : sid ≤ dmid.next := by
          rw [← hmid]; simp only [Doc.updSet]; omega
        rw [bind_congr_apply _ _ _ _ _ hstep]
        -- the rest of the run is a growing trace from `dmid`
        obtain ⟨Sm, hs1, hs2, hs3⟩ := hmsc
        refine grow_scratch_nonempty (A := fun _ => False) (S := fun s => sid ≤ s) (N := sid) _ ?_
          dmid hmnext Sm hs1 hs2 hs3
        refine Traced.bind (traced_resolveParentWalk (ni := true) (fun i h => h) true _ _
          (within_empty_set (by omega))) fun parent hp => ?_
        split
        · exact Traced.throw
        · split
          · rename_i b hb
            exact traced_assignExisting (Or.inl rfl) _ parent false (within_findBinding hp hb) v
          · exact traced_setSetItem hp _ _

/-! ### the creation branch, assembled -/

theorem scoped_create_core (d : Doc) (name : Text) (v : Node) (hn : d.noTarget = none)
    (hne : name ≠ []) (hh : name.head? ≠ some '@') (h0 : collectScopeLayers d = [])
    (segs : List Text) (hfmt : formatNPath currentAnchor name = .ok segs)
    (hnp : pathExistsInAttrset d.target segs = false) :
    ∃ us, (∀ u ∈ us, u.Allowed true (fun _ => False) (fun s => d.next ≤ s)) ∧
      (setValueInAttrset (layerAsSet d.next (newLayerOf d)) false name v
          (scratchDoc (clearBody d) (newLayerOf d))).2 =
        applyAll us (scratchDoc (clearBody d) (newLayerOf d)) ∧
      (setValue (atSigns 1 ++ name) (.one v) d).1 =
        (setValueInAttrset (layerAsSet d.next (newLayerOf d)) false name v
          (scratchDoc (clearBody d) (newLayerOf d))).1 ∧
      ((setValue (atSigns 1 ++ name) (.one v) d).1 = .ok () →
        let d' := (setValue (atSigns 1 ++ name) (.one v) d).2
        let S' := applyAllNode us (layerAsSet d.next (newLayerOf d))
        S'.setValues ≠ [] ∧
        collectScopeLayers d' = [{ newLayerOf d with scope := S'.setValues, order := S'.setOrder }] ∧
        d'.stack = [] ∧ d'.tBefore = [] ∧ d'.tAfter = [] ∧ d'.target = applyAllNode us d.target ∧
        d'.noTarget = d.noTarget ∧ d'.trailing = d.trailing ∧ d'.scratch = none) := by
  have hddn : (clearBody d).next = d.next := rfl
  obtain ⟨us, h1, h2, _⟩ := traced_setValueInAttrset (grow := true) (N := d.next)
    (A := fun _ => False) (S := fun s => d.next ≤ s) (ni := true) (fun _ h => h) (Or.inl rfl)
    (ts := layerAsSet d.next (newLayerOf d)) (within_empty_set (Nat.le_refl _)) false name v
    (scratchDoc (clearBody d) (newLayerOf d)) (by simp)
  refine ⟨us, h2, h1, ?_⟩
  rw [setValue_no_layers d name v hn hne hh h0]
  simp only [hfmt, hnp, Bool.false_eq_true, if_false]
  have hl : [newLayerOf d][0]? = some (newLayerOf d) := rfl
  have hrun := onLayer_run [newLayerOf d] false 0 (fun s => setValueInAttrset s false name v) (clearBody d) hl
    (us := us) h1
  simp only [hddn] at hrun
  rw [hrun]
  simp only [Bool.false_eq_true, if_false]
  cases hr : (setValueInAttrset (layerAsSet d.next (newLayerOf d)) false name v
      (scratchDoc (clearBody d) (newLayerOf d))).1 with
  | error e => exact ⟨rfl, fun h => by cases h⟩
  | ok u =>
    cases u
    refine ⟨rfl, fun _ => ?_⟩
    simp only
    have hfr := applyAll_frame us (scratchDoc (clearBody d) (newLayerOf d))
    obtain ⟨S'', hs1, _, hs3⟩ := set_on_empty_nonempty d.next true false name v
      (scratchDoc (clearBody d) (newLayerOf d)) rfl (by simp) hr
    have hS : S'' = applyAllNode us (layerAsSet d.next (newLayerOf d)) := by
      have hs1' : (setValueInAttrset (layerAsSet d.next (newLayerOf d)) false name v
          (scratchDoc (clearBody d) (newLayerOf d))).2.scratch = some S'' := hs1
      rw [h1, applyAll_scratch] at hs1'
      simpa [scratchDoc] using hs1'.symm
    rw [hS] at hs3
    have hne1 : (setLayerFrom (newLayerOf d) (applyAllNode us (layerAsSet d.next (newLayerOf d)))).nonEmpty
        = true := by
      simp only [Layer.nonEmpty, setLayerFrom, Bool.not_eq_eq_eq_not, Bool.not_true,
        List.isEmpty_eq_false_iff]
      exact hs3
    refine ⟨hs3, ?_, rfl, hfr.tBefore, hfr.tAfter, ?_, hfr.noTarget, hfr.trailing, rfl⟩
    · rw [collect_write_filter]
      simp only [listSet, List.getElem?_cons_zero, Option.getD_some, List.set_cons_zero,
        List.filter_cons, hne1, if_true, List.filter_nil]
      rfl
    · show (applyAll us (scratchDoc (clearBody d) (newLayerOf d))).target = _
      rw [applyAll_target]; rfl

/-- single-segment path: the layer holds exactly the new binding -/
theorem scoped_create_single (d : Doc) (name : Text) (v : Node) (seg : Text)
    (hfmt : formatNPath currentAnchor name = .ok [seg]) :
    (setValueInAttrset (layerAsSet d.next (newLayerOf d)) false name v (scratchDoc (clearBody d) (newLayerOf d))).1
        = .ok () ∧
    (setValueInAttrset (layerAsSet d.next (newLayerOf d)) false name v
        (scratchDoc (clearBody d) (newLayerOf d))).2.scratch =
      some (.set d.next [.bind (d.next + 1) seg false v [] []] [] true false) := by
  have hop : setValueInAttrset (layerAsSet d.next (newLayerOf d)) false name v
      (scratchDoc (clearBody d) (newLayerOf d)) =
      setSetItem (layerAsSet d.next (newLayerOf d)) seg v (scratchDoc (clearBody d) (newLayerOf d)) := by
    unfold setValueInAttrset
    simp only [hfmt, layerAsSet, newLayerOf, setSid?, findAttrpathLeaf_emptyset, setValues_set,
      findAttrpathRoot_nil, findBinding_nil, Option.isSome_none, Bool.false_eq_true, if_false,
      List.isEmpty_nil, if_true]
  have hnew := setSetItem_new (s := layerAsSet d.next (newLayerOf d)) (k := seg) (sid := d.next) v
    (scratchDoc (clearBody d) (newLayerOf d)) rfl rfl
  rw [hop, hnew]
  refine ⟨rfl, ?_⟩
  rw [scratch_updSet_self _ d.next _ (layerAsSet d.next (newLayerOf d)) rfl rfl]
  simp [Function.comp, appendValueFn, appendOrderFn, layerAsSet, newLayerOf, scratchDoc]

/-- the documented shortcut: with no layer present, `@path` for a path that exists in the set is
    the plain `set path` — and no layer appears -/
theorem scoped_shortcut_core (d : Doc) (name : Text) (v : Node) (hn : d.noTarget = none)
    (hne : name ≠ []) (hh : name.head? ≠ some '@') (h0 : collectScopeLayers d = [])
    (segs : List Text) (hfmt : formatNPath currentAnchor name = .ok segs)
    (hp : pathExistsInAttrset d.target segs = true) :
    setValue (atSigns 1 ++ name) (.one v) d = setValue name (.one v) d ∧
    collectScopeLayers (setValue (atSigns 1 ++ name) (.one v) d).2 = [] := by
  have h1 : setValue (atSigns 1 ++ name) (.one v) d = setValueInAttrset d.target true name v d := by
    rw [setValue_no_layers d name v hn hne hh h0]
    simp only [hfmt, hp, if_true]
  refine ⟨by rw [h1, setValue_plain d name v hn hh], ?_⟩
  rw [h1]
  obtain ⟨us, t1, _, _⟩ := traced_setValueInAttrset (grow := false) (N := 0)
    (A := fun _ => True) (S := fun _ => True) (ni := false) (fun _ _ => trivial)
    (Or.inr fun _ => trivial) (within_top d.target) true name v d (Nat.zero_le _)
  rw [t1, collect_applyAll, h0]
  rfl

end Nima
