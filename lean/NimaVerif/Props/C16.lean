import NimaVerif.Lemmas.CliEdit
import NimaVerif.Gen.Cli
/-!
# C16 — the command line reports and emits exactly what the library computes

All statements quantify over EVERY library behaviour (`lib : Lib σ`, any type `σ` of parsed sources,
any functions, raising or not), every input text (`Text = List Char`, unbounded), both channels and
all argument values. `cli lib cmd inv` is the interpreter of Model/Cli.lean run on the program of the
sub-command; the programs and the argparse wiring are re-extracted from `/repo` on every run and
proved equal to the model's (`tie_*`).

Every clause of the property is now proved at full strength for the current code
(`test_verdict_full`, `line_terminator_full`, `one_newline_full`, `channel_independence_full`, the
error/exit-status theorems). Three clauses were false of earlier code; the defective programs and
wiring are kept under `old*` names with their counterexamples, as documentation and so that a
regression is recognised (the check's oracle replays the witnesses on the real command line):

* line terminator, until /repo 9670208: `print(x)` always appended `\n` (`oldSetProg`/`oldRmProg`,
  `cex_line_terminator`, `cex_one_newline`);
* verdict wording, until /repo 1526c34: when the library raised, `nima test` showed a traceback
  instead of `Fail` (`oldTestProg`, `cex_test_verdict_traceback`);
* channel independence, until /repo 1fe47da: `-f FILE` was opened with universal-newline
  translation, stdin is not, so a text containing `\r` was a different text on the two channels
  (`oldFileOpt`, `cex_channel_cr`), and `nima test -f` said OK for a CRLF file the round trip
  changes (`cex_test_verdict_crlf_file`).
-/
set_option linter.unusedSimpArgs false
namespace Nima.C16
open Nima Nima.Cli

variable {σ : Type}

/-! ## Translator tie: the programs and the wiring the model has are those of the Python source now. -/

theorem tie_test : Gen.cliTest = some testProg := by decide
theorem tie_set : Gen.cliSet = some setProg := by decide
theorem tie_rm : Gen.cliRm = some rmProg := by decide
theorem tie_default : Gen.cliDefault = some defaultProg := by decide
theorem tie_entry : Gen.cliEntryExitsWithMain = some true := by decide
theorem tie_argspec : Gen.cliArgSpec = some argSpec := by decide
theorem tie_fileopt : Gen.cliFileOpt = some fileOpt := by decide

/-! ## 1. `nima test`: verdict and exit status -/

/-- `nima test` never shows a traceback: its result is `OK`/0 or `Fail`/1, nothing else. -/
theorem test_stdout_cases (lib : Lib σ) (inv : Inv) :
    cli lib .test inv = okRes ∨ cli lib .test inv = failRes := by
  rw [cli_test_eq]
  unfold testClosed
  repeat' split
  all_goals first | exact Or.inl rfl | exact Or.inr rfl

/-- `OK`/0 exactly when the text is free of syntax errors and rebuilds to itself — for every
    library, raising or not. -/
theorem test_ok_iff (lib : Lib σ) (inv : Inv) (t : Text) (hc : inv.content = .ok t) :
    cli lib .test inv = okRes ↔ Good lib t := by
  rw [cli_test_eq, hc]
  unfold testClosed Good
  cases hp : lib.parse t with
  | error e => simp [hp, okRes, failRes, sOK, sFail]
  | ok s =>
    cases he : lib.containsError s with
    | true => simp [hp, he, okRes, failRes, sOK, sFail]
    | false =>
      cases hr : lib.rebuild s with
      | error e => simp [hp, he, hr, okRes, failRes, sOK, sFail]
      | ok r =>
        by_cases h : r = t
        · subst h; simp [hp, he, hr]
        · simp [hp, he, hr, h, okRes, failRes, sOK, sFail]

theorem test_exit_zero_iff (lib : Lib σ) (inv : Inv) (t : Text) (hc : inv.content = .ok t) :
    (cli lib .test inv).exit = 0 ↔ Good lib t := by
  rw [← test_ok_iff lib inv t hc]
  rcases test_stdout_cases lib inv with h | h <;> rw [h] <;> simp [okRes, failRes, sOK, sFail]

/-- `Fail`/1 in every other case: not good, or the input cannot even be decoded. -/
theorem test_fail_otherwise (lib : Lib σ) (inv : Inv)
    (h : ∀ t, inv.content = .ok t → ¬ Good lib t) : cli lib .test inv = failRes := by
  rcases test_stdout_cases lib inv with h' | h'
  · exfalso
    cases hc : inv.content with
    | error e => rw [cli_test_eq, hc] at h'; revert h'; simp [testClosed, okRes, failRes, sOK, sFail]
    | ok t => exact h t hc ((test_ok_iff lib inv t hc).mp h')
  · exact h'

/-- FULL statement of the verdict clause, for any command-line function: for the text that is on
    the channel (`inv.raw`), `OK`/0 when it is good, `Fail`/1 otherwise. -/
def TestVerdictFullOf (cliF : ∀ {σ : Type}, Lib σ → Cmd → Inv → Res) : Prop :=
  ∀ (σ : Type) (lib : Lib σ) (inv : Inv) (t : Text), inv.raw = .ok t →
    (Good lib t → cliF lib .test inv = okRes) ∧ (¬ Good lib t → cliF lib .test inv = failRes)

def TestVerdictFull : Prop := TestVerdictFullOf @cli

/-- The clause holds of the current code (since /repo 1526c34 and 1fe47da) with `Good` as the
    only condition: any library, both channels, any text. -/
theorem test_verdict_full : TestVerdictFull := by
  intro σ lib inv t hraw
  have hc : inv.content = .ok t := by rw [content_eq_raw, hraw]
  refine ⟨(test_ok_iff lib inv t hc).mpr, fun hg => test_fail_otherwise lib inv ?_⟩
  intro t' hc' hg'
  rw [hc] at hc'
  injection hc' with hc'
  subst hc'
  exact hg hg'

/-- the same restricted to libraries that answer (the statement that was refuted by the CRLF
    witness under the old wiring) -/
def TestVerdictWhenAnsweredOf (cliF : ∀ {σ : Type}, Lib σ → Cmd → Inv → Res) : Prop :=
  ∀ (σ : Type) (lib : Lib σ) (inv : Inv) (t : Text), inv.raw = .ok t → libAnswers lib t = true →
    (Good lib t → cliF lib .test inv = okRes) ∧ (¬ Good lib t → cliF lib .test inv = failRes)

def TestVerdictWhenAnswered : Prop := TestVerdictWhenAnsweredOf @cli

theorem test_verdict_when_answered : TestVerdictWhenAnswered :=
  fun σ lib inv t hraw _ => test_verdict_full σ lib inv t hraw

/-- input that cannot be decoded is `Fail`/1 too, on either channel -/
theorem test_undecodable_fails (lib : Lib σ) (inv : Inv) (e : Err) (h : inv.raw = .error e) :
    cli lib .test inv = failRes := by
  apply test_fail_otherwise
  intro t hc
  rw [content_eq_raw, h] at hc
  cases hc

/-! ### The fixed defect C16-test-traceback (code before /repo 1526c34): exceptions escaped. -/

/-- a library whose `parse` raises (the real one does on `uri_expression`, on deep nesting, …) -/
def raisingLib : Lib Unit :=
  { parse := fun _ => .error .value, containsError := fun _ => false, rebuild := fun _ => .ok [],
    setValue := fun _ _ _ => .ok [], removeValue := fun _ _ => .ok [] }

/-- Counterexample for the old `test`: the library raises, `nima test` printed nothing on stdout
    (traceback, status 1) instead of `Fail`. -/
theorem cex_test_verdict_traceback : ¬ TestVerdictFullOf @oldCli := by
  intro h
  have h2 := (h Unit raisingLib { chan := .stdin, raw := .ok ['x'] } ['x'] rfl).2
    (by rintro ⟨s, hp, _⟩; cases hp)
  revert h2
  decide

/-- the old `test` had the right exit status all the same -/
theorem old_test_exit_zero_iff (lib : Lib σ) (inv : Inv) (t : Text) (hc : inv.content = .ok t) :
    (oldCli lib .test inv).exit = 0 ↔ Good lib t := by
  rw [oldCli_test_eq, hc]
  unfold oldTestClosed Good
  cases hp : lib.parse t with
  | error e => simp [hp, tracebackRes]
  | ok s =>
    cases he : lib.containsError s with
    | true => simp [hp, failRes, he]
    | false =>
      cases hr : lib.rebuild s with
      | error e => simp [hp, tracebackRes, he, hr]
      | ok r =>
        by_cases h : t = r
        · subst h; simp [hp, okRes, he, hr]
        · have h' : ¬ r = t := fun x => h x.symm
          simp [hp, failRes, he, hr, h, h']

/-! ### The fixed defect C16-file-newline-translation (wiring before /repo 1fe47da), verdict part -/

/-- a library that keeps the text and normalises line ends when rebuilding (as the real one does) -/
def normalisingLib : Lib Text :=
  { parse := fun t => .ok t, containsError := fun _ => false, rebuild := fun s => .ok (translateNewlines s),
    setValue := fun s _ _ => .ok s, removeValue := fun s _ => .ok s }

/-- Counterexample for the old wiring: the file holds `a\r\n`, which does not rebuild to identical
    bytes, but `nima test -f FILE` read `a\n` and printed `OK`. -/
theorem cex_test_verdict_crlf_file : ¬ TestVerdictWhenAnsweredOf (cliWith oldFileOpt) := by
  intro h
  have h2 := (h Text normalisingLib { chan := .file, raw := .ok ['a', '\r', '\n'] } ['a', '\r', '\n'] rfl
    (by decide)).2 (by
      rintro ⟨s, hp, _, hr⟩
      simp only [normalisingLib] at hp hr
      injection hp with hp
      subst hp
      revert hr
      decide)
  revert h2
  decide

/-! ## 2. `nima set` / `nima rm`: what is emitted, exit status, silence on error -/

/-- The emitted bytes are the text of the library edit with a line terminator added only when
    it lacks one, status 0. -/
theorem edit_emits_ensureNewline (lib : Lib σ) (cmd : Cmd) (hcmd : cmd ≠ .test) (inv : Inv) (t text : Text)
    (hc : inv.content = .ok t) (he : libEdit lib cmd inv.npath inv.value t = .ok text) :
    cli lib cmd inv = ⟨ensureNewline text, 0, none, false⟩ := by
  rw [cli_edit_eq lib cmd hcmd]
  simp [editClosed, hc, he]

/-- the library rejects the edit (or cannot parse): nothing on stdout, traceback, status 1 -/
theorem edit_error_silent (lib : Lib σ) (cmd : Cmd) (hcmd : cmd ≠ .test) (inv : Inv) (t : Text) (e : Err)
    (hc : inv.content = .ok t) (he : libEdit lib cmd inv.npath inv.value t = .error e) :
    cli lib cmd inv = tracebackRes e := by
  rw [cli_edit_eq lib cmd hcmd]
  simp [editClosed, hc, he]

/-- the input cannot be read (undecodable bytes): nothing on stdout, status 1 -/
theorem edit_read_error_silent (lib : Lib σ) (cmd : Cmd) (hcmd : cmd ≠ .test) (inv : Inv) (e : Err)
    (hc : inv.content = .error e) : cli lib cmd inv = tracebackRes e := by
  rw [cli_edit_eq lib cmd hcmd]
  simp [editClosed, hc]

/-- exit 0 only on success, and always on success -/
theorem edit_exit_zero_iff (lib : Lib σ) (cmd : Cmd) (hcmd : cmd ≠ .test) (inv : Inv) :
    (cli lib cmd inv).exit = 0 ↔
      ∃ t text, inv.content = .ok t ∧ libEdit lib cmd inv.npath inv.value t = .ok text := by
  rw [cli_edit_eq lib cmd hcmd]
  unfold editClosed
  cases hc : inv.content with
  | error e => simp [tracebackRes]
  | ok t =>
    cases he : libEdit lib cmd inv.npath inv.value t with
    | error e => simp [tracebackRes, he]
    | ok text => simp [he]

/-- "on any error stdout stays empty and the exit status is non-zero" -/
theorem edit_nonzero_silent (lib : Lib σ) (cmd : Cmd) (hcmd : cmd ≠ .test) (inv : Inv)
    (h : (cli lib cmd inv).exit ≠ 0) : (cli lib cmd inv).stdout = [] ∧ (cli lib cmd inv).exit = 1 := by
  rw [cli_edit_eq lib cmd hcmd] at h ⊢
  unfold editClosed at h ⊢
  cases hc : inv.content with
  | error e => exact ⟨rfl, rfl⟩
  | ok t =>
    simp only [hc] at h ⊢
    cases he : libEdit lib cmd inv.npath inv.value t with
    | error e => exact ⟨rfl, rfl⟩
    | ok text => simp [he] at h

/-- FULL statement of the line-terminator clause: "adding a line terminator only when that text
    lacks one", for any command-line function `cliF` (the current one, or the one before the repair). -/
def LineTerminatorFullOf (cliF : ∀ {σ : Type}, Lib σ → Cmd → Inv → Res) : Prop :=
  ∀ (σ : Type) (lib : Lib σ) (cmd : Cmd) (inv : Inv) (t text : Text), cmd ≠ .test →
    inv.content = .ok t → libEdit lib cmd inv.npath inv.value t = .ok text →
    (cliF lib cmd inv).stdout = ensureNewline text

def LineTerminatorFull : Prop := LineTerminatorFullOf @cli

/-- The clause holds of the current code (since /repo 9670208), at full strength. -/
theorem line_terminator_full : LineTerminatorFull := by
  intro σ lib cmd inv t text hcmd hc he
  rw [edit_emits_ensureNewline lib cmd hcmd inv t text hc he]

/-- FULL statement of the consequence the property names: an edit text that ends in exactly one
    newline is emitted ending in exactly one newline. -/
def OneNewlineFullOf (cliF : ∀ {σ : Type}, Lib σ → Cmd → Inv → Res) : Prop :=
  ∀ (σ : Type) (lib : Lib σ) (cmd : Cmd) (inv : Inv) (t text : Text), cmd ≠ .test →
    inv.content = .ok t → libEdit lib cmd inv.npath inv.value t = .ok text →
    endsInOneNewline text = true → endsInOneNewline (cliF lib cmd inv).stdout = true

def OneNewlineFull : Prop := OneNewlineFullOf @cli

theorem one_newline_full : OneNewlineFull := by
  intro σ lib cmd inv t text hcmd hc he h1
  rw [edit_emits_ensureNewline lib cmd hcmd inv t text hc he,
    ensureNewline_of_endsWith text (endsInOneNewline_getLast text h1)]
  exact h1

/-- Emitting is idempotent at the file level: whatever the edit text, the emitted bytes end in a
    newline, and an edit text that already does is emitted byte for byte. -/
theorem edit_output_terminated (lib : Lib σ) (cmd : Cmd) (hcmd : cmd ≠ .test) (inv : Inv) (t text : Text)
    (hc : inv.content = .ok t) (he : libEdit lib cmd inv.npath inv.value t = .ok text) :
    (cli lib cmd inv).stdout.getLast? = some '\n' ∧
      (text.getLast? = some '\n' → (cli lib cmd inv).stdout = text) := by
  rw [edit_emits_ensureNewline lib cmd hcmd inv t text hc he]
  exact ⟨ensureNewline_endsWith text, ensureNewline_of_endsWith text⟩

/-- SPEC sanity: `ensureNewline` is what the property describes. -/
theorem ensureNewline_spec (t : Text) :
    (t.getLast? = some '\n' → ensureNewline t = t) ∧
    (t.getLast? ≠ some '\n' → ensureNewline t = t ++ ['\n']) ∧
    ensureNewline (ensureNewline t) = ensureNewline t ∧
    (endsInOneNewline t = true → endsInOneNewline (ensureNewline t) = true) := by
  refine ⟨ensureNewline_of_endsWith t, ensureNewline_of_not t, ensureNewline_idem t, ?_⟩
  intro h
  rw [ensureNewline_of_endsWith t (endsInOneNewline_getLast t h)]
  exact h

/-! ### The fixed defect C16-print-newline (code before /repo 9670208): `print(x)` always appends `\n`.
Kept as documentation, and so that a regression is recognised: `oldSetProg`/`oldRmProg` are the
print-based programs, `oldCli` runs them. -/

/-- a library whose edits return the source text unchanged -/
def identityLib : Lib Text :=
  { parse := fun t => .ok t, containsError := fun _ => false, rebuild := fun s => .ok s,
    setValue := fun s _ _ => .ok s, removeValue := fun s _ => .ok s }

theorem old_edit_emits_text_newline (lib : Lib σ) (cmd : Cmd) (hcmd : cmd ≠ .test) (inv : Inv) (t text : Text)
    (hc : inv.content = .ok t) (he : libEdit lib cmd inv.npath inv.value t = .ok text) :
    oldCli lib cmd inv = ⟨text ++ ['\n'], 0, none, false⟩ := by
  rw [oldCli_edit_eq lib cmd hcmd]
  simp [oldEditClosed, hc, he]

/-- Counterexample for the old code: the edit returns `x\n`; `nima set` emitted `x\n\n`. -/
theorem cex_line_terminator : ¬ LineTerminatorFullOf @oldCli := by
  intro h
  have h2 := h Text identityLib .set { chan := .stdin, raw := .ok ['x', '\n'] } ['x', '\n'] ['x', '\n']
    (by decide) rfl rfl
  revert h2
  decide

theorem cex_one_newline : ¬ OneNewlineFullOf @oldCli := by
  intro h
  have h2 := h Text identityLib .rm { chan := .stdin, raw := .ok ['x', '\n'] } ['x', '\n'] ['x', '\n']
    (by decide) rfl rfl (by decide)
  revert h2
  decide

/-- The old code met the clause exactly for edit texts that lack the terminator … -/
theorem old_line_terminator_partial (lib : Lib σ) (cmd : Cmd) (hcmd : cmd ≠ .test) (inv : Inv) (t text : Text)
    (hc : inv.content = .ok t) (he : libEdit lib cmd inv.npath inv.value t = .ok text)
    (hn : text.getLast? ≠ some '\n') : (oldCli lib cmd inv).stdout = ensureNewline text := by
  rw [old_edit_emits_text_newline lib cmd hcmd inv t text hc he, ensureNewline_of_not text hn]

/-- … and failed for every edit text that has it: one newline too many, on every invocation. -/
theorem old_line_terminator_fails_exactly (lib : Lib σ) (cmd : Cmd) (hcmd : cmd ≠ .test) (inv : Inv) (t text : Text)
    (hc : inv.content = .ok t) (he : libEdit lib cmd inv.npath inv.value t = .ok text)
    (hn : text.getLast? = some '\n') :
    (oldCli lib cmd inv).stdout = ensureNewline text ++ ['\n'] ∧ (oldCli lib cmd inv).stdout ≠ ensureNewline text := by
  rw [old_edit_emits_text_newline lib cmd hcmd inv t text hc he, ensureNewline_of_endsWith text hn]
  exact ⟨rfl, by simp⟩

theorem old_one_newline_never_preserved (lib : Lib σ) (cmd : Cmd) (hcmd : cmd ≠ .test) (inv : Inv) (t text : Text)
    (hc : inv.content = .ok t) (he : libEdit lib cmd inv.npath inv.value t = .ok text)
    (h1 : endsInOneNewline text = true) : endsInOneNewline (oldCli lib cmd inv).stdout = false := by
  rw [old_edit_emits_text_newline lib cmd hcmd inv t text hc he]
  exact endsInOneNewline_append text (endsInOneNewline_getLast text h1)

/-- the repair 9670208 changed nothing but the terminator: same exit status, same silence on error -/
theorem old_and_new_agree_elsewhere (lib : Lib σ) (cmd : Cmd) (hcmd : cmd ≠ .test) (inv : Inv) :
    (oldCli lib cmd inv).exit = (cli lib cmd inv).exit ∧ (oldCli lib cmd inv).raised = (cli lib cmd inv).raised ∧
      ((cli lib cmd inv).exit ≠ 0 → (oldCli lib cmd inv).stdout = (cli lib cmd inv).stdout) := by
  rw [oldCli_edit_eq lib cmd hcmd, cli_edit_eq lib cmd hcmd]
  unfold oldEditClosed editClosed
  repeat' split
  all_goals simp [tracebackRes]

/-- the repair 1526c34 of `test` changed nothing but the traceback: same exit status always, same
    result whenever the old code did not raise -/
theorem old_and_new_test_agree (lib : Lib σ) (inv : Inv) :
    (oldCli lib .test inv).exit = (cli lib .test inv).exit ∧
      ((oldCli lib .test inv).raised = none → oldCli lib .test inv = cli lib .test inv) := by
  rw [oldCli_test_eq, cli_test_eq]
  unfold oldTestClosed testClosed
  cases hc : inv.content with
  | error e => simp [tracebackRes, failRes]
  | ok t =>
    cases hp : lib.parse t with
    | error e => simp [hp, tracebackRes, failRes]
    | ok s =>
      cases he : lib.containsError s with
      | true => simp [hp, he]
      | false =>
        cases hr : lib.rebuild s with
        | error e => simp [hp, he, hr, tracebackRes, failRes]
        | ok r =>
          by_cases h : t = r
          · subst h; simp [hp, he, hr]
          · have h' : ¬ r = t := fun x => h x.symm
            simp [hp, he, hr, h, h']

/-! ## 3. Channel independence -/

/-- The result is a function of the text `read()` delivers, the arguments and the library only:
    which channel delivered it is never consulted. -/
theorem channel_independent_content (lib : Lib σ) (cmd : Cmd) (i1 i2 : Inv)
    (hc : i1.content = i2.content) (hn : i1.npath = i2.npath) (hv : i1.value = i2.value) :
    cli lib cmd i1 = cli lib cmd i2 := by
  unfold cli runProg
  rw [hc, hn, hv]
  apply run_chanFree
  cases cmd <;> decide

/-- FULL statement, for any command-line function: the same bytes give the same result on stdin
    and through `-f FILE`. -/
def ChannelIndependenceFullOf (cliF : ∀ {σ : Type}, Lib σ → Cmd → Inv → Res) : Prop :=
  ∀ (σ : Type) (lib : Lib σ) (cmd : Cmd) (raw : Except Err Text) (np v : Text),
    cliF lib cmd ⟨.stdin, raw, np, v⟩ = cliF lib cmd ⟨.file, raw, np, v⟩

def ChannelIndependenceFull : Prop := ChannelIndependenceFullOf @cli

/-- The clause holds of the current code (since /repo 1fe47da): every command, every library, every
    input (also undecodable ones), all arguments. -/
theorem channel_independence_full : ChannelIndependenceFull := by
  intro σ lib cmd raw np v
  apply channel_independent_content lib cmd ⟨.stdin, raw, np, v⟩ ⟨.file, raw, np, v⟩ ?_ rfl rfl
  rw [content_eq_raw, content_eq_raw]

/-! ### The fixed defect C16-file-newline-translation (wiring before /repo 1fe47da):
`argparse.FileType("r")` translated `\r\n` and `\r` to `\n`, POSIX stdin does not. -/

/-- Counterexample for the old wiring: the text `x\r` was emitted as `x\r\n` from stdin and as
    `x\n` from `-f FILE`. -/
theorem cex_channel_cr : ¬ ChannelIndependenceFullOf (cliWith oldFileOpt) := by
  intro h
  have h2 := h Text identityLib .set (.ok ['x', '\r']) [] []
  revert h2
  decide

/-- Under the old wiring the channels agreed exactly on texts without `\r` (and unreadable inputs). -/
theorem old_channel_independent_partial (lib : Lib σ) (cmd : Cmd) (raw : Except Err Text) (np v : Text)
    (h : match raw with | .ok t => hasCR t = false | .error _ => True) :
    cliWith oldFileOpt lib cmd ⟨.stdin, raw, np, v⟩ = cliWith oldFileOpt lib cmd ⟨.file, raw, np, v⟩ := by
  unfold cliWith runProgWith
  have hc : contentWith oldFileOpt .stdin raw = contentWith oldFileOpt .file raw := by
    cases raw with
    | error e => simp [contentWith_error]
    | ok t => simp only at h; simp [contentWith_of_noCR _ _ _ h]
  simp only [hc]
  apply run_chanFree
  cases cmd <;> decide

/-- the current wiring is the old one without the translation: nothing else changed -/
theorem cliWith_fileOpt (lib : Lib σ) (cmd : Cmd) (inv : Inv) : cliWith fileOpt lib cmd inv = cli lib cmd inv := rfl

/-! ## 4. Errors of every kind: stdout empty, status non-zero -/

/-- an uncaught exception in any of the three commands: stdout empty, status 1 -/
theorem raise_exit_one_silent (lib : Lib σ) (cmd : Cmd) (inv : Inv) (e : Err)
    (h : (cli lib cmd inv).raised = some e) : (cli lib cmd inv).stdout = [] ∧ (cli lib cmd inv).exit = 1 := by
  constructor
  · have hp : (progOf cmd).emitsLast = true := by cases cmd <;> decide
    exact run_emitsLast_silent lib _ _ _ _ (progOf cmd) hp {} (by unfold cli runProg at h; rw [h]; simp)
  · exact run_raised_exit lib _ _ _ _ (progOf cmd) {} e h

/-- argparse errors (unknown command, missing or extra positional, unreadable FILE): status 2, stdout
    empty; no sub-command: help on stderr, status 2, stdout empty. -/
theorem usage_silent (lib : Lib σ) :
    cliMain lib .usage = ⟨[], 2, none, false⟩ ∧ cliMain lib .noCommand = ⟨[], 2, none, true⟩ := by
  constructor <;> rfl

/-- number of positionals of each sub-command -/
def arity : Cmd → Nat
  | .test => 0 | .set => 2 | .rm => 1

/-- a wrong number of positionals never reaches the library -/
theorem wrong_arity_is_usage (cmd : Cmd) (chan : Channel) (raw : Except Err Text) (vals : List Text)
    (h : vals.length ≠ arity cmd) : cliMain raisingLib (argOutcome cmd chan raw vals) = usageRes := by
  have hb : bindPositionals argSpec cmd vals = none := by
    cases cmd <;> simp [bindPositionals, argSpec, Cmd.name, List.lookup, arity] at h ⊢
    · intro hv; exact h (List.length_eq_zero_iff.mp hv.symm)
    · omega
    · omega
  simp [argOutcome, hb, cliMain]

/-- `set P V` binds `npath := P`, `value := V` (positional order of cli/parser.py) -/
theorem set_binds_in_order (chan : Channel) (raw : Except Err Text) (p v : Text) :
    ∃ inv, argOutcome .set chan raw [p, v] = .parsed .set inv ∧ inv.npath = p ∧ inv.value = v ∧
      inv.chan = chan := by
  exact ⟨_, rfl, rfl, rfl, rfl⟩

/-! ## 5. Facts about every command-line program (unbounded: induction over `Prog`) -/

/-- any program that never tests `args.file is sys.stdin` is channel independent -/
theorem generic_channel_irrelevant (lib : Lib σ) (content : Except Err Text) (c1 c2 : Channel) (np v : Text)
    (p : Prog) (h : p.chanFree = true) (st : St σ) :
    run lib content c1 np v p st = run lib content c2 np v p st :=
  run_chanFree lib content c1 c2 np v p h st

/-- any program whose emits come after everything that can raise is silent on error -/
theorem generic_error_silent (lib : Lib σ) (content : Except Err Text) (c : Channel) (np v : Text)
    (p : Prog) (h : p.emitsLast = true) (st : St σ) (hr : (run lib content c np v p st).raised ≠ none) :
    (run lib content c np v p st).stdout = st.out ∧ (run lib content c np v p st).exit = 1 := by
  refine ⟨run_emitsLast_silent lib content c np v p h st hr, ?_⟩
  cases hx : (run lib content c np v p st).raised with
  | none => exact absurd hx hr
  | some e => exact run_raised_exit lib content c np v p st e hx

/-! ## Non-vacuity: the hypotheses above are met. -/

example : Good identityLib ['{', '}', '\n'] := ⟨_, rfl, rfl, rfl⟩
example : libAnswers identityLib ['{', '}', '\n'] = true := by decide
example : libAnswers normalisingLib ['a', '\r', '\n'] = true ∧ hasCR ['a', '\r', '\n'] = true := by decide
example : cli identityLib .test { chan := .file, raw := .ok ['{', '}', '\n'] } = okRes := by decide
example : cli raisingLib .test { chan := .stdin, raw := .ok ['x'] } = failRes := by decide
example : oldCli raisingLib .test { chan := .stdin, raw := .ok ['x'] } = tracebackRes .value := by decide
example : cli normalisingLib .test { chan := .file, raw := .ok ['a', '\r', '\n'] } = failRes := by decide
example : cliWith oldFileOpt normalisingLib .test { chan := .file, raw := .ok ['a', '\r', '\n'] } = okRes := by decide
example : cli identityLib .set { chan := .stdin, raw := .ok ['x'] } = ⟨['x', '\n'], 0, none, false⟩ := by decide
example : cli identityLib .set { chan := .stdin, raw := .ok ['x', '\n'] } = ⟨['x', '\n'], 0, none, false⟩ := by decide
example : oldCli identityLib .set { chan := .stdin, raw := .ok ['x', '\n'] } = ⟨['x', '\n', '\n'], 0, none, false⟩ := by decide
example : libEdit identityLib .set [] [] ['x'] = .ok ['x'] ∧ (['x'] : Text).getLast? ≠ some '\n' := by decide
example : endsInOneNewline ['x', '\n'] = true ∧ endsInOneNewline ['x', '\n', '\n'] = false := by decide
example : translateNewlines ['a', '\r', '\n', 'b', '\r', 'c', '\n'] = ['a', '\n', 'b', '\n', 'c', '\n'] := by decide

/-! ## 6. Over the edit model: what the shell shows IS the model's edit

`Cli.editLib` (`Lemmas/CliEdit.lean`) is any library whose `set_value` / `remove_value` are the
modelled ones (any comparison of name tokens, any `parse`, reading of VALUE and rendering). -/

/-- An accepted `set`: stdout is exactly the rendering of the document the MODEL edit produced,
    terminated by one newline if it lacks one, exit status 0. -/
theorem cli_set_emits_model_edit (inst : NameCmp) (base : Lib σ) (docOf : σ → Doc)
    (classify : Text → ValueArg) (render : Doc → Except Err Text) (inv : Inv) (t : Text) (s : σ)
    (u : Unit) (d' : Doc) (text : Text) (hc : inv.content = .ok t) (hp : base.parse t = .ok s)
    (h : @setValue inst inv.npath (classify inv.value) (docOf s) = (.ok u, d'))
    (hr : render d' = .ok text) :
    cli (@editLib σ inst base docOf classify render) .set inv = ⟨ensureNewline text, 0, none, false⟩ := by
  rw [@cli_set_model σ inst base docOf classify render inv t s hc hp, h]
  simp [shown, hr]

theorem cli_rm_emits_model_edit (inst : NameCmp) (base : Lib σ) (docOf : σ → Doc)
    (classify : Text → ValueArg) (render : Doc → Except Err Text) (inv : Inv) (t : Text) (s : σ)
    (u : Unit) (d' : Doc) (text : Text) (hc : inv.content = .ok t) (hp : base.parse t = .ok s)
    (h : @removeValue inst inv.npath (docOf s) = (.ok u, d'))
    (hr : render d' = .ok text) :
    cli (@editLib σ inst base docOf classify render) .rm inv = ⟨ensureNewline text, 0, none, false⟩ := by
  rw [@cli_rm_model σ inst base docOf classify render inv t s hc hp, h]
  simp [shown, hr]

/-- The model edit does not see the channel: the same text, path and value give the same result on
    stdin and through `-f FILE`. -/
theorem cli_set_channel_free (inst : NameCmp) (base : Lib σ) (docOf : σ → Doc)
    (classify : Text → ValueArg) (render : Doc → Except Err Text) (i1 i2 : Inv) (t : Text) (s : σ)
    (h1 : i1.content = .ok t) (h2 : i2.content = .ok t) (hp : base.parse t = .ok s)
    (hn : i1.npath = i2.npath) (hv : i1.value = i2.value) :
    cli (@editLib σ inst base docOf classify render) .set i1 =
    cli (@editLib σ inst base docOf classify render) .set i2 := by
  rw [@cli_set_model σ inst base docOf classify render i1 t s h1 hp,
      @cli_set_model σ inst base docOf classify render i2 t s h2 hp, hn, hv]

/-- Non-vacuity of section 6: an accepted `set a 1` on the empty set in the model (the code's own
    name comparison), rendered as `x` — the shell shows `x\n`, status 0. -/
def unitLib : Lib Unit := ⟨fun _ => .ok (), fun _ => false, fun _ => .ok [], fun _ _ _ => .ok [], fun _ _ => .ok []⟩
example : (@setValue NameCmp.model ['a'] (.one (.atom ['1'])) ({} : Doc)).1 = .ok () := by decide
example : cli (@editLib Unit NameCmp.model unitLib (fun _ => ({} : Doc)) (fun _ => .one (.atom ['1'])) (fun _ => .ok ['x']))
    .set { chan := .stdin, raw := .ok [], npath := ['a'], value := ['1'] } = ⟨['x', '\n'], 0, none, false⟩ := by decide

end Nima.C16
