#!/usr/bin/env python3
"""Offline triage helper (run by hand, output reviewed, then committed): lists the failing
classification keys of the layout sweep on the current tree, grouped per property."""
import collections
import json
import sys
from pathlib import Path

sys.path.insert(0, str(Path(__file__).resolve().parent.parent))
from harness import framework as fw  # noqa: E402
from harness import layoutprops as lp  # noqa: E402

out = {}
for pid in ("C01", "C03", "C06", "C18"):
    ctx = fw.Ctx(pid, "thorough" if "--thorough" in sys.argv else "quick", 0)
    ctx.quick = "--thorough" not in sys.argv
    if ctx.quick:
        # full enumeration, no random part
        from harness.gen import prog
        from harness import layout
        for info, text in prog.enumerate_injections():
            res = layout.evaluate(text)
            for cl, det in lp.failures_of(res, lp.CLAUSES[pid]):
                ctx.fail({"clause": cl, "detail": det, "parent": info["parent"], "before": info["before"], "after": info["after"]},
                         {"text": text, "output": res["output"]}, "")
    else:
        lp.sweep(ctx, pid)
    groups = collections.OrderedDict()
    for f in ctx.failures:
        k = json.dumps(f["key"], sort_keys=True)
        groups.setdefault(k, f)
    out[pid] = [{"key": json.loads(k), "input": {"text": f["input"]["text"]}, "output": f["input"].get("output")} for k, f in groups.items()]
    print(pid, len(groups), "distinct keys", file=sys.stderr)
json.dump(out, sys.stdout, indent=1, ensure_ascii=True)
