import NimaVerif.Model.Edit
/-! # C08 — placeholder until the theorems are in (see below). -/
namespace Nima.C08
theorem invalid_value_rejected_unchanged (p : Text) (d : Doc) :
    setValue p .invalid d = (.error .value, d) ∧ setValue p .empty d = (.error .value, d) := by
  constructor <;> rfl
end Nima.C08
