"""Seeded generator of Nix documents (token lists joined with a choice of whitespace/comment gaps).

Small on purpose: nested sets / lists / let / with / lambdas / application / select / binary chains /
unary / if / assert / inherit / attrpaths / strings / paths, with trivia injected in every gap.
Texts the bundled grammar rejects are produced too (they exercise the pass-through mode); callers
count them.  All randomness comes from the `random.Random` passed in."""
from __future__ import annotations

import random

IDENTS = ["a", "b", "c", "x", "y", "pkgs", "lib", "name", "version", "src"]
ATOMS = ["1", "42", "true", "false", "null", "1.5", '"s"', '"a ${b} c"', "./foo.nix", "/etc/x", "../up/y.nix",
         "''\n  foo\n  bar\n''", '""', "<nixpkgs>"]

# (gap text, weight).  A line comment always ends with a newline.
GAPS = [
    (" ", 60), ("\n", 10), ("\n\n", 4), ("\n  ", 6), (" # c\n", 5), ("\n# c\n", 4), (" /* c */ ", 5),
    ("\n/* multi\n   line */\n", 2), ("\n\n# c\n\n", 2), ("\t", 1), ("  ", 1), ("\n    # d\n    # e\n  ", 2),
    (" /** doc */ ", 1), (" # é ü\n", 1), ("\n\n\n", 1),
]
_GAP_TEXT = [g for g, _ in GAPS]
_GAP_W = [w for _, w in GAPS]


class Gen:
    def __init__(self, rng: random.Random, max_depth: int = 4, trivia: float = 1.0):
        self.rng = rng
        self.max_depth = max_depth
        self.trivia = trivia
        self.constructs: dict[str, int] = {}

    def note(self, c: str):
        self.constructs[c] = self.constructs.get(c, 0) + 1

    def ident(self) -> str:
        return self.rng.choice(IDENTS)

    def atom(self) -> list[str]:
        r = self.rng.random()
        if r < 0.45:
            return [self.ident()]
        self.note("atom")
        return [self.rng.choice(ATOMS)]

    def expr(self, d: int) -> list[str]:  # noqa: C901
        rng = self.rng
        if d >= self.max_depth:
            return self.atom()
        k = rng.choices(
            ["atom", "set", "list", "let", "with", "lambda", "apply", "select", "binary", "chain", "unary", "if",
             "assert", "hasattr", "paren"],
            [10, 22, 10, 9, 5, 8, 7, 6, 7, 6, 2, 4, 3, 2, 5],
        )[0]
        self.note(k)
        if k == "atom":
            return self.atom()
        if k == "set":
            toks = (["rec"] if rng.random() < 0.15 else []) + ["{"]
            for _ in range(rng.choice([0, 1, 1, 2, 2, 3, 4])):
                toks += self.binding(d + 1)
            return toks + ["}"]
        if k == "list":
            toks = ["["]
            for _ in range(rng.choice([0, 1, 2, 3, 5])):
                toks += self.simple(d + 1)
            return toks + ["]"]
        if k == "let":
            toks = ["let"]
            for _ in range(rng.choice([0, 1, 1, 2, 3])):
                toks += self.binding(d + 1)
            return toks + ["in"] + self.expr(d + 1)
        if k == "with":
            return ["with"] + self.simple(d + 1) + [";"] + self.expr(d + 1)
        if k == "lambda":
            r = rng.random()
            if r < 0.4:
                return [self.ident(), ":"] + self.expr(d + 1)
            names = rng.sample(IDENTS, rng.choice([0, 1, 2, 3]))
            formals: list[str] = ["{"]
            for i, n in enumerate(names):
                formals.append(n)
                if rng.random() < 0.3:
                    formals += ["?"] + self.simple(d + 2)
                if i < len(names) - 1:
                    formals.append(",")
            if rng.random() < 0.4:
                formals += ([","] if names else []) + ["..."]
            formals.append("}")
            if r > 0.85:
                formals = ["args", "@"] + formals
            return formals + [":"] + self.expr(d + 1)
        if k == "apply":
            return self.simple(d + 1) + self.simple(d + 1)
        if k == "select":
            base = self.ident()
            path = ".".join(rng.sample(IDENTS, rng.choice([1, 2])))
            toks = [f"{base}.{path}"]
            if rng.random() < 0.25:
                toks += ["or"] + self.simple(d + 1)
            return toks
        if k == "binary":
            op = rng.choice(["+", "-", "*", "==", "!=", "&&", "||", "->", "<", "++", "//"])
            return self.simple(d + 1) + [op] + self.simple(d + 1)
        if k == "chain":
            op = rng.choice(["++", "//", "+"])
            toks = self.simple(d + 1)
            for _ in range(rng.choice([2, 3, 4])):
                toks += [op] + self.simple(d + 1)
            return toks
        if k == "unary":
            return [rng.choice(["!", "-"])] + self.simple(d + 1)
        if k == "if":
            return ["if"] + self.expr(d + 1) + ["then"] + self.expr(d + 1) + ["else"] + self.expr(d + 1)
        if k == "assert":
            return ["assert"] + self.simple(d + 1) + [";"] + self.expr(d + 1)
        if k == "hasattr":
            return [self.ident(), "?", self.ident()]
        return ["("] + self.expr(d + 1) + [")"]

    def simple(self, d: int) -> list[str]:
        """an operand that needs no parentheses"""
        r = self.rng.random()
        if d >= self.max_depth or r < 0.5:
            return self.atom()
        if r < 0.7:
            return ["("] + self.expr(d + 1) + [")"]
        if r < 0.85:
            self.note("set")
            toks = ["{"]
            for _ in range(self.rng.choice([0, 1, 2])):
                toks += self.binding(d + 1)
            return toks + ["}"]
        self.note("list")
        toks = ["["]
        for _ in range(self.rng.choice([0, 1, 2, 3])):
            toks += self.atom()
        return toks + ["]"]

    def binding(self, d: int) -> list[str]:
        r = self.rng.random()
        if r < 0.12:
            self.note("inherit")
            return ["inherit"] + self.rng.sample(IDENTS, self.rng.choice([1, 2, 3])) + [";"]
        if r < 0.2:
            self.note("inherit-from")
            return ["inherit", "(", self.ident(), ")"] + self.rng.sample(IDENTS, self.rng.choice([1, 2])) + [";"]
        if r < 0.4:
            self.note("attrpath")
            name = ".".join(self.rng.sample(IDENTS, self.rng.choice([2, 3])))
        elif r < 0.46:
            name = '"q r"'
        else:
            name = self.ident()
        return [name, "="] + self.expr(d) + [";"]

    def gap(self) -> str:
        if self.rng.random() > self.trivia:
            return " "
        return self.rng.choices(_GAP_TEXT, _GAP_W)[0]

    def join(self, toks: list[str]) -> str:
        out = []
        for i, t in enumerate(toks):
            if i:
                out.append(self.gap())
            out.append(t)
        lead = self.rng.choice(["", "", "", "\n", "# head\n", "/* h */\n", "\n\n"])
        trail = self.rng.choice(["", "\n", "\n", "\n", "\n# tail\n", " # t\n", "\n\n"])
        return lead + "".join(out) + trail

    def document(self) -> str:
        self.trivia = self.rng.choice([0.15, 0.3, 0.5, 1.0])
        return self.join(self.expr(0))


# hand-written documents that are always run first (one per construct / trivia position that the
# rebuild code treats specially; the first ones are the witnesses of the known findings)
TEMPLATES = [
    "{ a = 1 # c\n; }",
    "{ y = let a = 1; in let b = 2; in { x = a; } # t\n; }",
    "{ y = let a = 1; in { x = a; } # t\n; }",
    "{ a.b = 1; }",
    "{ a.b.c = 1; a.b.d = 2; e = 3; }",
    "{\n  a = 1;\n  # c\n  b = 2;\n}\n",
    "{ a = [ 1 2 ] # c\n; b = { c = 1; } /* d */ ; }",
    "let a = 1; in a",
    "let\n  a = 1; # c\n  b.c = 2;\nin\n{ inherit a; x = b; }\n",
    "let a = 1; in let b = 2; in let c = 3; in [ a b c ]",
    "with pkgs; [ a b ]",
    "with pkgs; # c\n[ a b ]",
    "{ pkgs, lib ? 1, ... }: { a = pkgs; }",
    "args@{ a, ... }: a",
    "x: y: x + y",
    "f { a = 1; } [ 1 ]",
    "a ++ b ++ c",
    "a ++ # c\n b ++ c",
    "a\n++ b\n++ c",
    "a\n// /* k */ b\n// c",
    "[ 1 ] ++ [ 2 ] # t\n ++ [ 3 ]",
    "a + b # c\n",
    "a # c\n + b",
    "a && b || !c",
    "-a",
    "if a then b else c",
    "if a # c\nthen b\nelse # d\n c",
    "assert a; b",
    "assert a; # c\n b",
    "assert a /* k */ ; let x = 1; in x",
    "a ? b",
    "a.b.c or d",
    "( a )",
    "( # c\n a )",
    "[ ]",
    "[ # c\n ]",
    "[\n  1 # one\n  2\n\n  3\n]",
    "{ }",
    "{ # c\n }",
    "rec { a = b; b = 1; }",
    "{ inherit a b; inherit (x) c d; }",
    "{ inherit # c\n a; }",
    "{ \"q r\" = 1; ${a} = 2; }",
    "''\n  foo ${a}\n''",
    "\"s ${a} t\"",
    "./foo.nix",
    "import ./foo.nix { }",
    "{ a = import ./x.nix; }",
    "# only a comment\n",
    "",
    "\n\n{ a = 1; }\n\n",
    "/* h */ { a = 1; } # t\n",
    "{ a = let b = 1; in b; c = with x; y; }",
    "{ f = x: # c\n x; }",
    "{ a = 1; } // { b = 2; } // { c = 3; }",
    "{ a = if b then { c = 1 # k\n; } else [ ]; }",
    "let f = { a, b }: a; in f { a = 1; b = 2; }",
    "{ a = 1; # t\n}",
    "{ a = (let b = 1; in b) # c\n; }",
    "{ a = { b = { c = { d = 1 /* deep */ ; }; }; }; }",
    "{ a = @; }",  # syntax error: pass-through
]


def stream(rng: random.Random, n_random: int, max_depth: int = 4):
    """templates first, then n_random generated documents; yields (text, kind)"""
    for t in TEMPLATES:
        yield t, "template"
    g = Gen(rng, max_depth=max_depth)
    seen = set(TEMPLATES)
    produced = 0
    attempts = 0
    while produced < n_random and attempts < n_random * 20:
        attempts += 1
        text = g.document()
        if text in seen or len(text) > 4000:
            continue
        seen.add(text)
        produced += 1
        yield text, "random"
    stream.constructs = dict(g.constructs)


stream.constructs = {}
