"""C06 — layout property decided on the shared G-prog stream (see harness/layoutprops.py, harness/layout.py)."""
from __future__ import annotations

from .. import framework as fw
from .. import layout
from .. import layoutprops as lp

GEN_TABLES = ("trivia",)
PID = "C06"


def run(ctx: fw.Ctx):
    lp.common(ctx, PID)
    lp.trivia_correspondence(ctx)
    lp.fragment_correspondence(ctx)
    lp.sweep(ctx, PID)
    extra(ctx)


def extra(ctx: fw.Ctx):
    """the text emitted by any successful set/rm is a fixed point as well"""
    from nix_manipulator import parse

    from .. import editprops as ep
    from ..oracle import cstread

    stride, nrand, maxops = (9, 300, 6) if ctx.quick else (1, 6000, 20)
    for h in ep.build_stream(ctx, stride, nrand, maxops, enum_offset=4):
        for r in h.recs:
            if r.result != "ok" or not cstread.error_free(r.out) or cstread.ts_parse(r.out).has_error:
                continue
            if not layout.line_level_comments(r.out):
                continue
            ctx.case({"doc": h.text, "op": list(r.op)}, True)
            try:
                again = parse(r.out).rebuild()
            except Exception as exc:  # noqa: BLE001
                again = "<raises " + type(exc).__name__ + ">"
            if again != r.out:
                scoped = r.op[1].startswith("@")
                key = {"clause": "edit-output-fixed-point", "op": r.op[0], "scoped": scoped,
                       "wrapper": h.info.get("wrapper"), "kind": "raises" if again.startswith("<raises") else "drift"}
                if r.op[0] == "set" and ("#" in r.op[2] or "/*" in r.op[2]):
                    key["value_comment"] = True  # the VALUE itself carries a comment
                ctx.fail(key,
                         {"text": r.out, "doc": h.text, "ops": [list(x.op) for x in h.recs], "at": list(r.op)},
                         f"output of {r.op!r} is not a fixed point: {r.out!r} -> {again!r}")


def search(ctx: fw.Ctx):
    ctx.quick = False
    lp.sweep(ctx, PID)


def replay(payload: dict) -> int:
    t = payload["input"]["text"]
    res = layout.evaluate(t)
    fs = lp.failures_of(res, lp.CLAUSES[PID])
    print("input :", repr(t))
    print("output:", repr(res["output"]))
    print("fails :", fs)
    return 1 if fs else 0
