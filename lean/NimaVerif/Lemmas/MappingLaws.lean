import NimaVerif.Lemmas.Mapping
/-! Helper lemmas for the dictionary laws of C14 (list level: `values` of a set, `target.scope`). -/
namespace Nima
-- name tokens are compared by spelling in this file (see `NameCmp` in Model/Edit.lean)
attribute [local instance] NameCmp.spelled

open Node EditM

/-! ### lookups and names -/

theorem itemKeys_of_bind {b : Node} {k : Text} (hb : b.isBind = true) (hn : b.bindName? = some k) :
    b.itemKeys = [k] := by
  cases b <;> simp_all [isBind, bindName?, itemKeys]

theorem mem_keysOf {k : Text} {xs : List Node} : k ∈ keysOf xs ↔ ∃ x ∈ xs, k ∈ x.itemKeys := by
  simp [keysOf, List.mem_flatMap]

theorem keysOf_append (xs ys : List Node) : keysOf (xs ++ ys) = keysOf xs ++ keysOf ys := by
  simp [keysOf]

theorem keysOf_cons (x : Node) (xs : List Node) : keysOf (x :: xs) = x.itemKeys ++ keysOf xs := by
  simp [keysOf]

theorem mem_keysOf_of_findBinding {vs : List Node} {k : Text} {b : Node}
    (h : findBinding vs k = some b) : k ∈ keysOf vs := by
  obtain ⟨hm, hb, hn⟩ := findBinding_some h
  exact mem_keysOf.2 ⟨b, hm, by simp [itemKeys_of_bind hb hn]⟩

theorem mem_keysOf_of_inherit {vs : List Node} {k : Text} (h : inheritMentions vs k = true) :
    k ∈ keysOf vs := by
  simp only [inheritMentions, List.any_eq_true] at h
  obtain ⟨x, hx, hk⟩ := h
  refine mem_keysOf.2 ⟨x, hx, ?_⟩
  cases x <;> simp_all [itemKeys]

theorem findBinding_none_of_not_mem {vs : List Node} {k : Text} (h : k ∉ keysOf vs) :
    findBinding vs k = none := by
  cases hf : findBinding vs k with
  | none => rfl
  | some b => exact absurd (mem_keysOf_of_findBinding hf) h

theorem inheritMentions_false_of_not_mem {vs : List Node} {k : Text} (h : k ∉ keysOf vs) :
    inheritMentions vs k = false := by
  cases hf : inheritMentions vs k with
  | false => rfl
  | true => exact absurd (mem_keysOf_of_inherit hf) h

/-- a name of `keysMap` is answered by one of the first two branches of `__getitem__`
    (for lists without `_AttrpathEntry` items, which `values` never holds) -/
theorem mem_keysOf_iff_top {vs : List Node} (hne : noEntriesL vs = true) (k : Text) :
    k ∈ keysOf vs ↔ (findBinding vs k).isSome = true ∨ inheritMentions vs k = true := by
  constructor
  · intro h
    obtain ⟨x, hx, hk⟩ := mem_keysOf.1 h
    simp only [noEntriesL, List.all_eq_true] at hne
    have hxe := hne x hx
    cases x with
    | bind i n ne v b a =>
      left
      simp only [itemKeys, List.mem_singleton] at hk
      subst hk
      simp only [findBinding_spelled, List.find?_isSome]
      exact ⟨_, hx, by simp [isBind, bindName?]⟩
    | inherit i ns =>
      right
      simp only [itemKeys] at hk
      simp only [inheritMentions, List.any_eq_true]
      exact ⟨_, hx, by simpa using hk⟩
    | entry segs l b a => simp [isEntry] at hxe
    | atom t => simp [itemKeys] at hk
    | ident t => simp [itemKeys] at hk
    | set sid vs o m r => simp [itemKeys] at hk
  · rintro (h | h)
    · cases hf : findBinding vs k with
      | none => simp [hf] at h
      | some b => exact mem_keysOf_of_findBinding hf
    · exact mem_keysOf_of_inherit h

/-- `__getitem__` for a plain (non-dotted) key -/
theorem setGetItem_plain (s : Node) (k : Text) (hp : PlainKey k = true) :
    setGetItem s k =
      match findBinding s.setValues k with
      | some b => (match b.bindValue? with | some v => .ok v | none => .error .key)
      | none => if inheritMentions s.setValues k then .ok (.ident k) else .error .key := by
  unfold setGetItem
  cases findBinding s.setValues k with
  | some b => rfl
  | none =>
    simp only
    split
    · rfl
    · unfold PlainKey at hp
      split
      · rfl
      · rename_i segs hs
        simp only [hs, decide_eq_true_eq] at hp
        simp [hp]

/-! ### assignment to an existing binding -/

theorem findBinding_updBindL_value {vs : List Node} {k : Text} {b : Node} {bid : Nat} (v : Node)
    (hb : findBinding vs k = some b) (hid : b.bindId? = some bid) :
    ∃ b', findBinding (updBindL bid v vs) k = some b' ∧ b'.bindValue? = some v := by
  refine ⟨updBind bid v b, by rw [findBinding_updBindL, hb]; rfl, ?_⟩
  rw [updBind_bindValue, if_pos hid]

mutual
  theorem updBind_of_not_occurs (id : Nat) (v : Node) :
      ∀ n : Node, occursBind id n = false → updBind id v n = n
    | .atom _, _ => rfl
    | .ident _, _ => rfl
    | .set s vs o m r, h => by
        simp only [occursBind, Bool.or_eq_false_iff] at h
        simp only [updBind]
        rw [updBindL_of_not_occurs id v vs h.1, updBindL_of_not_occurs id v o h.2]
    | .bind i n ne val b a, h => by
        simp only [occursBind, Bool.or_eq_false_iff, beq_eq_false_iff_ne, ne_eq] at h
        simp only [updBind, h.1, if_false]
        rw [updBind_of_not_occurs id v val h.2]
    | .inherit _ _, _ => rfl
    | .entry segs leaf b a, h => by
        simp only [occursBind] at h
        simp only [updBind]
        rw [updBind_of_not_occurs id v leaf h]
  theorem updBindL_of_not_occurs (id : Nat) (v : Node) :
      ∀ xs : List Node, occursBindL id xs = false → updBindL id v xs = xs
    | [], _ => rfl
    | x :: xs, h => by
        simp only [occursBindL, Bool.or_eq_false_iff] at h
        simp only [updBindL]
        rw [updBind_of_not_occurs id v x h.1, updBindL_of_not_occurs id v xs h.2]
end

theorem mem_topIds {vs : List Node} {b : Node} {i : Nat} (hb : b ∈ vs) (hi : b.bindId? = some i) :
    i ∈ topIds vs := by
  simp only [topIds, List.mem_filterMap]
  exact ⟨b, hb, hi⟩

/-- items with the same identity are the same item -/
theorem eq_of_topIds_nodup {vs : List Node} (hn : (topIds vs).Nodup) {a b : Node} {i : Nat}
    (ha : a ∈ vs) (hb : b ∈ vs) (hai : a.bindId? = some i) (hbi : b.bindId? = some i) : a = b := by
  induction vs with
  | nil => cases ha
  | cons x xs ih =>
    cases hx : x.bindId? with
    | none =>
      have hn' : (topIds xs).Nodup := by simpa [topIds, List.filterMap_cons, hx] using hn
      rcases List.mem_cons.1 ha with rfl | ha'
      · rw [hx] at hai; cases hai
      · rcases List.mem_cons.1 hb with rfl | hb'
        · rw [hx] at hbi; cases hbi
        · exact ih hn' ha' hb'
    | some j =>
      have hn' : j ∉ topIds xs ∧ (topIds xs).Nodup := by
        simpa [topIds, List.filterMap_cons, hx, List.nodup_cons] using hn
      rcases List.mem_cons.1 ha with rfl | ha'
      · rcases List.mem_cons.1 hb with rfl | hb'
        · rfl
        · rw [hx] at hai; injection hai with hai; subst hai
          exact absurd (mem_topIds hb' hbi) hn'.1
      · rcases List.mem_cons.1 hb with rfl | hb'
        · rw [hx] at hbi; injection hbi with hbi; subst hbi
          exact absurd (mem_topIds ha' hai) hn'.1
        · exact ih hn'.2 ha' hb'

theorem distinctItems_iff (vs : List Node) :
    DistinctItems vs = true ↔ (topIds vs).Nodup ∧
      ∀ n ∈ vs, ∀ i ∈ topIds vs, n.bindId? = some i ∨ occursBind i n = false := by
  simp [DistinctItems, List.all_eq_true]

/-- an assignment to the Binding object `bid` leaves the other items of a well-formed list alone -/
theorem updBind_other_item {vs : List Node} (hd : DistinctItems vs = true) {b b' : Node} {bid : Nat}
    (v : Node) (hb : b ∈ vs) (hid : b.bindId? = some bid) (hb' : b' ∈ vs) (hne : b' ≠ b) :
    updBind bid v b' = b' := by
  obtain ⟨hn, ho⟩ := (distinctItems_iff vs).1 hd
  apply updBind_of_not_occurs
  rcases ho b' hb' bid (mem_topIds hb hid) with h | h
  · exact absurd (eq_of_topIds_nodup hn hb' hb h hid) hne
  · exact h

theorem findBinding_updBindL_other {vs : List Node} (hd : DistinctItems vs = true) {k k' : Text}
    {b : Node} {bid : Nat} (v : Node) (hb : findBinding vs k = some b) (hid : b.bindId? = some bid)
    (hk : k' ≠ k) : findBinding (updBindL bid v vs) k' = findBinding vs k' := by
  rw [findBinding_updBindL]
  cases hf : findBinding vs k' with
  | none => rfl
  | some b' =>
    obtain ⟨hm', _, hn'⟩ := findBinding_some hf
    obtain ⟨hm, _, hn⟩ := findBinding_some hb
    have hne : b' ≠ b := by
      intro h; subst h; rw [hn] at hn'; injection hn' with hn'; exact hk hn'.symm
    simp [updBind_other_item hd v hm hid hm' hne]

/-! ### deletion -/

/-- in a well-formed list, erasing "the first item that is the Binding object `bid`" erases the
    binding that was found by name -/
theorem eraseP_found {vs : List Node} (hd : DistinctItems vs = true) {k : Text} {b : Node}
    {bid : Nat} (hb : findBinding vs k = some b) (hid : b.bindId? = some bid) :
    ∃ l₁ l₂, vs = l₁ ++ b :: l₂ ∧ (vs.eraseP fun n => n.bindId? == some bid) = l₁ ++ l₂ := by
  obtain ⟨hm, _, _⟩ := findBinding_some hb
  obtain ⟨a, l₁, l₂, _, hpa, hvs, he⟩ :=
    List.exists_of_eraseP (p := fun n => n.bindId? == some bid) hm (by simp [hid])
  have hab : a = b := by
    have ha : a ∈ vs := by rw [hvs]; simp
    exact eq_of_topIds_nodup ((distinctItems_iff vs).1 hd).1 ha hm (by simpa using hpa) hid
  subst hab
  exact ⟨l₁, l₂, hvs, he⟩

theorem findBinding_remove_other (l₁ l₂ : List Node) {b : Node} {k k' : Text}
    (hn : b.bindName? = some k) (hk : k' ≠ k) :
    findBinding (l₁ ++ l₂) k' = findBinding (l₁ ++ b :: l₂) k' := by
  have : (some k == some k') = false := by
    simp only [beq_eq_false_iff_ne, ne_eq, Option.some.injEq]; exact fun h => hk h.symm
  simp [findBinding_spelled, List.find?_append, hn, this]

theorem inheritMentions_remove_bind (l₁ l₂ : List Node) {b : Node} (k' : Text)
    (hb : b.isBind = true) :
    inheritMentions (l₁ ++ l₂) k' = inheritMentions (l₁ ++ b :: l₂) k' := by
  cases b <;> simp_all [isBind, inheritMentions]

theorem inheritMentions_append_bind (vs : List Node) {b : Node} (k' : Text)
    (hb : b.isBind = true) : inheritMentions (vs ++ [b]) k' = inheritMentions vs k' := by
  cases b <;> simp_all [isBind, inheritMentions]

theorem keysOf_split (l₁ l₂ : List Node) {b : Node} {k : Text} (hb : b.isBind = true)
    (hn : b.bindName? = some k) : keysOf (l₁ ++ b :: l₂) = keysOf l₁ ++ k :: keysOf l₂ := by
  simp [keysOf_append, keysOf_cons, itemKeys_of_bind hb hn]

/-! ### plain keys -/

theorem splitGo_simple (k : Text) (h : ∀ c ∈ k, c ≠ '.' ∧ c ≠ '"' ∧ c ≠ '$') :
    ∀ st : SplitSt, st.depth = 0 → st.inQuotes = false →
      splitGo st k = .ok { st with buf := st.buf ++ k } := by
  induction k with
  | nil => intro st _ _; simp [splitGo]
  | cons c cs ih =>
    intro st h0 hq
    obtain ⟨h1, h2, h3⟩ := h c (by simp)
    rw [splitGo]
    simp only [h0, hq, h1, h2, h3, Nat.lt_irrefl, if_false, Bool.false_eq_true, decide_false, Bool.false_and]
    have := ih (fun d hd => h d (by simp [hd])) { st with buf := st.buf ++ [c] } h0 hq
    simp only [h0, hq] at this
    rw [this]
    simp

theorem plainKey_of_simple (k : Text) (h : ∀ c ∈ k, c ≠ '.' ∧ c ≠ '"' ∧ c ≠ '$') :
    PlainKey k = true := by
  unfold PlainKey splitAttrpath
  rw [splitGo_simple k h {} rfl rfl]
  simp only [Nat.lt_irrefl, if_false, Bool.false_eq_true]
  unfold splitFlush
  simp only [List.nil_append, List.isEmpty_iff]
  by_cases he : strip k = [] <;> simp [he]

/-! ### shape of the target / the scope after an operation -/

theorem target_set {d : Doc} (hs : d.target.isSet = true) :
    ∃ sid vs o m r, d.target = .set sid vs o m r := by
  cases h : d.target <;> simp_all [isSet]

theorem appendBoth_values (nb : Node) (sid : Nat) (vs o : List Node) (m r : Bool) :
    ((appendOrderFn nb ∘ appendValueFn nb) (.set sid vs o m r)).setValues = vs ++ [nb] := by
  simp only [Function.comp, appendValueFn, appendOrderFn]
  split <;> rfl

theorem set_existing_values {d : Doc} {k : Text} {b : Node} {bid : Nat} (v : Node)
    (hb : findBinding d.target.setValues k = some b) (hid : b.bindId? = some bid) :
    (setSetItem d.target k v d).2.target.setValues = updBindL bid v d.target.setValues := by
  rw [setSetItem_existing v d hb hid]
  simp only [Doc.updBind]
  cases d.target with
  | bind i nm ne val b a => by_cases h : i = bid <;> simp [updBind, h, setValues]
  | _ => simp [updBind, setValues]

theorem set_new_values {d : Doc} {k : Text} {sid : Nat} {vs o : List Node} {m r : Bool}
    (v : Node) (ht : d.target = .set sid vs o m r) (hb : findBinding d.target.setValues k = none) :
    (setSetItem d.target k v d).2.target.setValues = vs ++ [.bind d.next k false v [] []] := by
  rw [setSetItem_new v d hb (sid := sid) (by simp [ht, setSid?])]
  simp only [Doc.updSet, ht, updSet, if_true]
  exact appendBoth_values _ sid vs o m r

theorem del_shape {d : Doc} {k : Text} (hok : (setDelItem d.target k d).1 = .ok ())
    (hd : DistinctItems d.target.setValues = true) :
    ∃ sid o m r b bid l₁ l₂, d.target = .set sid (l₁ ++ b :: l₂) o m r ∧
      b.isBind = true ∧ b.bindName? = some k ∧ b.bindId? = some bid ∧
      (setDelItem d.target k d).2.target.setValues = l₁ ++ l₂ := by
  cases hb : findBinding d.target.setValues k with
  | none => rw [setDelItem_missing d hb] at hok; cases hok
  | some b =>
    obtain ⟨hm, hbb, hbn⟩ := findBinding_some hb
    obtain ⟨bid, hid⟩ := isBind_bindId hbb
    cases ht : d.target with
    | set sid vs o m r =>
      rw [ht] at hb hd
      simp only [setValues] at hb hd
      obtain ⟨l₁, l₂, hvs, he⟩ := eraseP_found hd hb hid
      refine ⟨sid, o, m, r, b, bid, l₁, l₂, by rw [hvs], hbb, hbn, hid, ?_⟩
      rw [← ht, setDelItem_existing d (by rw [ht]; exact hb) hid (sid := sid) (by simp [ht, setSid?])]
      simp [Doc.updSet, ht, updSet, delItemFn, setValues, he]
    | _ => simp [ht, setValues, findBinding_spelled] at hb

theorem scope_del_shape {d : Doc} {k : Text} (hok : (scopeDelItem k d).1 = .ok ())
    (hd : DistinctItems d.scope = true) :
    ∃ b l₁ l₂, d.scope = l₁ ++ b :: l₂ ∧ b.isBind = true ∧ b.bindName? = some k ∧
      (scopeDelItem k d).2.scope = l₁ ++ l₂ := by
  cases hb : findBinding d.scope k with
  | none => rw [scopeDelItem_missing d hb] at hok; cases hok
  | some b =>
    obtain ⟨hm, hbb, hbn⟩ := findBinding_some hb
    obtain ⟨bid, hid⟩ := isBind_bindId hbb
    obtain ⟨l₁, l₂, hvs, he⟩ := eraseP_found hd hb hid
    refine ⟨b, l₁, l₂, hvs, hbb, hbn, ?_⟩
    rw [scopeDelItem_existing d hb hid]
    simp only [eraseP_bindId_eq, he]

end Nima
