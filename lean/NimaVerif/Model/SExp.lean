import NimaVerif.Model.Basic
/-!
Line protocol of the driver: S-expressions; text travels as `x` + hex of its UTF-8 bytes.
Not part of any theorem; part of the correspondence harness (trusted base).
-/
namespace Nima

inductive SExp where
  | atom (s : String)
  | list (xs : List SExp)
deriving Repr, Inhabited

namespace SExp

partial def toStr : SExp → String
  | atom s => s
  | list xs => "(" ++ " ".intercalate (xs.map toStr) ++ ")"

/-- tokenizer: parens and atoms separated by blanks -/
def tokenize (s : String) : List String := Id.run do
  let mut toks : Array String := #[]
  let mut cur : String := ""
  for c in s.toList do
    if c = '(' ∨ c = ')' then
      if cur ≠ "" then toks := toks.push cur; cur := ""
      toks := toks.push (String.singleton c)
    else if c = ' ' ∨ c = '\n' ∨ c = '\t' ∨ c = '\r' then
      if cur ≠ "" then toks := toks.push cur; cur := ""
    else cur := cur.push c
  if cur ≠ "" then toks := toks.push cur
  return toks.toList

partial def parseToks : List String → Option (SExp × List String)
  | [] => none
  | "(" :: rest =>
    let rec loop (acc : Array SExp) (ts : List String) : Option (SExp × List String) :=
      match ts with
      | [] => none
      | ")" :: rest' => some (list acc.toList, rest')
      | _ => match parseToks ts with
        | some (e, rest') => loop (acc.push e) rest'
        | none => none
    loop #[] rest
  | ")" :: _ => none
  | t :: rest => some (atom t, rest)

def parse (s : String) : Option SExp :=
  match parseToks (tokenize s) with
  | some (e, []) => some e
  | _ => none

end SExp

def hexDigit (n : Nat) : Char :=
  if n < 10 then Char.ofNat (48 + n) else Char.ofNat (87 + n)

def hexVal (c : Char) : Option Nat :=
  if '0' ≤ c ∧ c ≤ '9' then some (c.toNat - 48)
  else if 'a' ≤ c ∧ c ≤ 'f' then some (c.toNat - 87)
  else none

/-- Text → `x…` hex atom -/
def encText (t : Text) : String :=
  let bytes := (String.ofList t).toUTF8
  "x" ++ String.ofList (bytes.toList.flatMap fun b => [hexDigit (b.toNat / 16), hexDigit (b.toNat % 16)])

def decText (s : String) : Option Text :=
  match s.toList with
  | 'x' :: hs =>
    let rec go (acc : ByteArray) : List Char → Option ByteArray
      | [] => some acc
      | a :: b :: rest => do
          let x ← hexVal a; let y ← hexVal b
          go (acc.push (UInt8.ofNat (x * 16 + y))) rest
      | _ => none
    match go ByteArray.empty hs with
    | some ba => (String.fromUTF8? ba).map String.toList
    | none => none
  | _ => none

def sText (t : Text) : SExp := .atom (encText t)
def sBool (b : Bool) : SExp := .atom (if b then "t" else "f")
def sNat (n : Nat) : SExp := .atom (toString n)
def sErr (e : Err) : SExp := .list [.atom "err", .atom e.cls]

end Nima
