import NimaVerif.Lemmas.Sched
open Nima.Sched
#print axioms non_interference
#print axioms proj_valid
#print axioms obsOf_proj
#print axioms cex_shared_parser
#print axioms cex_shared_bytes
#print axioms cex_shared_path
#print axioms cex_id_collision
#check @non_interference
#check @proj_valid
#check @obsOf_proj
#check @cex_shared_parser
#check @cex_shared_bytes
#check @cex_shared_path
#check @cex_id_collision
