import NimaVerif.Model.Rebuild
import NimaVerif.Model.FragSpec
import NimaVerif.Model.SExp
/-!
Driver requests for L3–L5 (container fragment):

    (roundtrip (F (item…) <endGap>))  →  (ok <text>) | (err <class>) | (uncovered <why>)
    (pieces    (F (item…) <endGap>))  →  (ok (t|c|w <text>)…) | (err <class>) | (uncovered <why>)
    (flatten   (F (item…) <endGap>))  →  (ok <text>)
    (facts     (F …))                 →  (ok <orderOk> <beforeFlatB> <safe> <spacing nf> <tokens kept> <basic>)
    (norm      (F …))                 →  (ok <text> <cst>) for comment-free files: `File.norm`

    cst   ::= (l <kind> <text>) | (L (item…) <closeGap>) | (S <t|f> <recGap> (item…) <closeGap>)
            | (P (item…) <closeGap>) | (A cst (gc…) <gap> cst)
            | (K <w|a> (gc…) <g1> cst (gc…) <g2> (gc…) <g3> cst)      (`with` / `assert`)
            | (D cst (gc…) <g1> <gd> (<attr>…))                       (select `e.a.b`, no default)
            | (O cst (gc…) <g1> <gd> (<attr>…) (gc…) <g2> <g3> cst)    (select with `or` default)
            | (F1 <name> (gc…) <g1> (gc…) <g2> cst)                   (lambda `x: body`)
            | (U <op> (gc…) <g> cst)                                  (unary operator)
            | (B cst (gc…) <g1> <op> (gc…) <g2> cst)                  (binary operator)
            | (I (gc…) <g1> cst (gc…) <g2> (gc…) <g3> cst (gc…) <g4> (gc…) <g5> cst)   (`if` / `then` / `else`)
            | (H cst (gc…) <g1> (gc…) <g2> (<attr>…))                 (has-attr `e ? a.b`)
    item  ::= (c <gap> <text>) | (e <gap> cst)
            | (b <gap> <name> (gc…) <g1> (gc…) <g2> cst (gc…) <g3>)
    gc    ::= (<gap> <text>)
    kind  ::= i | n | f | s | p          (ident, int, float, string, path)

texts are `x`+hex(UTF-8) atoms.
-/
namespace Nima.Drv.Layout
open Nima Nima.Frag

def decKind : String → Option LeafKind
  | "i" => some .ident | "n" => some .int | "f" => some .float | "s" => some .str | "p" => some .path
  | _ => none

def decTexts : List SExp → Option (List Text)
  | [] => some []
  | .atom t :: rest => do
      let t ← decText t; let r ← decTexts rest
      pure (t :: r)
  | _ => none

def decGC : List SExp → Option GC
  | [] => some []
  | .list [.atom g, .atom t] :: rest => do
      let g ← decText g; let t ← decText t; let r ← decGC rest
      pure ((g, t) :: r)
  | _ => none

mutual
partial def decCst : SExp → Option Cst
  | .list [.atom "l", .atom k, .atom t] => do pure (.leaf (← decKind k) (← decText t))
  | .list [.atom "L", .list its, .atom cg] => do pure (.list (← decItems its) (← decText cg))
  | .list [.atom "S", .atom r, .atom rg, .list its, .atom cg] => do
      pure (.set (r == "t") (← decText rg) (← decItems its) (← decText cg))
  | .list [.atom "P", .list its, .atom cg] => do pure (.paren (← decItems its) (← decText cg))
  | .list [.atom "A", f, .list cs, .atom g, a] => do
      pure (.app (← decCst f) (← decGC cs) (← decText g) (← decCst a))
  | .list [.atom "K", .atom w, .list c1, .atom g1, h, .list c2, .atom g2, .list c3, .atom g3, b] => do
      pure (.kw (w == "w") (← decGC c1) (← decText g1) (← decCst h) (← decGC c2) (← decText g2) (← decGC c3)
              (← decText g3) (← decCst b))
  | .list [.atom "D", e, .list c1, .atom g1, .atom gd, .list attrs] => do
      pure (.sel (← decCst e) (← decGC c1) (← decText g1) (← decText gd) (← decTexts attrs))
  | .list [.atom "B", l, .list c1, .atom g1, .atom op, .list c2, .atom g2, r] => do
      pure (.bin (← decCst l) (← decGC c1) (← decText g1) (← decText op) (← decGC c2) (← decText g2) (← decCst r))
  | .list [.atom "I", .list c1, .atom g1, c, .list c2, .atom g2, .list c3, .atom g3, t, .list c4, .atom g4, .list c5,
      .atom g5, e] => do
      pure (.ite (← decGC c1) (← decText g1) (← decCst c) (← decGC c2) (← decText g2) (← decGC c3) (← decText g3)
              (← decCst t) (← decGC c4) (← decText g4) (← decGC c5) (← decText g5) (← decCst e))
  | .list [.atom "H", e, .list c1, .atom g1, .list c2, .atom g2, .list attrs] => do
      pure (.has (← decCst e) (← decGC c1) (← decText g1) (← decGC c2) (← decText g2) (← decTexts attrs))
  | .list [.atom "U", .atom op, .list c, .atom g, e] => do
      pure (.un (← decText op) (← decGC c) (← decText g) (← decCst e))
  | .list [.atom "F1", .atom n, .list c1, .atom g1, .list c2, .atom g2, b] => do
      pure (.lam (← decText n) (← decGC c1) (← decText g1) (← decGC c2) (← decText g2) (← decCst b))
  | .list [.atom "O", e, .list c1, .atom g1, .atom gd, .list attrs, .list c2, .atom g2, .atom g3, d] => do
      pure (.selOr (← decCst e) (← decGC c1) (← decText g1) (← decText gd) (← decTexts attrs) (← decGC c2)
              (← decText g2) (← decText g3) (← decCst d))
  | _ => none
partial def decItems : List SExp → Option Items
  | [] => some .nil
  | .list [.atom "c", .atom g, .atom t] :: rest => do
      pure (.cmt (← decText g) (← decText t) (← decItems rest))
  | .list [.atom "e", .atom g, c] :: rest => do
      pure (.elem (← decText g) (← decCst c) (← decItems rest))
  | .list [.atom "b", .atom g, .atom n, .list c1, .atom g1, .list c2, .atom g2, v, .list c3, .atom g3] :: rest => do
      pure (.bind (← decText g) (← decText n) (← decGC c1) (← decText g1) (← decGC c2) (← decText g2)
              (← decCst v) (← decGC c3) (← decText g3) (← decItems rest))
  | _ => none
end

def encKind : LeafKind → String
  | .ident => "i" | .int => "n" | .float => "f" | .str => "s" | .path => "p"

def encGC (cs : GC) : SExp := .list (cs.map fun p => .list [sText p.1, sText p.2])

mutual
partial def encCst : Cst → SExp
  | .leaf k t => .list [.atom "l", .atom (encKind k), sText t]
  | .list its cg => .list [.atom "L", .list (encItems its), sText cg]
  | .set r rg its cg => .list [.atom "S", sBool r, sText rg, .list (encItems its), sText cg]
  | .paren its cg => .list [.atom "P", .list (encItems its), sText cg]
  | .app f cs g a => .list [.atom "A", encCst f, encGC cs, sText g, encCst a]
  | .kw w c1 g1 h c2 g2 c3 g3 b =>
    .list [.atom "K", .atom (if w then "w" else "a"), encGC c1, sText g1, encCst h, encGC c2, sText g2, encGC c3,
      sText g3, encCst b]
  | .sel e c1 g1 gd attrs => .list [.atom "D", encCst e, encGC c1, sText g1, sText gd, .list (attrs.map sText)]
  | .bin l c1 g1 op c2 g2 r => .list [.atom "B", encCst l, encGC c1, sText g1, sText op, encGC c2, sText g2, encCst r]
  | .un op c g e => .list [.atom "U", sText op, encGC c, sText g, encCst e]
  | .ite c1 g1 c c2 g2 c3 g3 t c4 g4 c5 g5 e =>
    .list [.atom "I", encGC c1, sText g1, encCst c, encGC c2, sText g2, encGC c3, sText g3, encCst t, encGC c4, sText g4,
      encGC c5, sText g5, encCst e]
  | .has e c1 g1 c2 g2 attrs => .list [.atom "H", encCst e, encGC c1, sText g1, encGC c2, sText g2, .list (attrs.map sText)]
  | .lam n c1 g1 c2 g2 b => .list [.atom "F1", sText n, encGC c1, sText g1, encGC c2, sText g2, encCst b]
  | .selOr e c1 g1 gd attrs c2 g2 g3 d =>
    .list [.atom "O", encCst e, encGC c1, sText g1, sText gd, .list (attrs.map sText), encGC c2, sText g2, sText g3,
      encCst d]
partial def encItems : Items → List SExp
  | .nil => []
  | .cmt g t rest => .list [.atom "c", sText g, sText t] :: encItems rest
  | .elem g c rest => .list [.atom "e", sText g, encCst c] :: encItems rest
  | .bind g n c1 g1 c2 g2 v c3 g3 rest =>
    .list [.atom "b", sText g, sText n, encGC c1, sText g1, encGC c2, sText g2, encCst v, encGC c3, sText g3] :: encItems rest
end

def encFile (f : File) : SExp := .list [.atom "F", .list (encItems f.items), sText f.endGap]

def decFile : SExp → Option File
  | .list [.atom "F", .list its, .atom eg] => do pure { items := ← decItems its, endGap := ← decText eg }
  | _ => none

def handle (req : SExp) : Option SExp :=
  match req with
  | .list [.atom "roundtrip", f] =>
    match decFile f with
    | none => some (.list [.atom "bad-arg"])
    | some f =>
      -- the string-level model is compared with the implementation on `File.modelled`, a superset of the
      -- theorems' fragment `File.covered` (`assert`, comments in the inner gaps of `with` / `assert`)
      if !(f.items.modelled .file f.endGap && f.items.countElems == 1 && isGap f.endGap) then
        some (.list [.atom "uncovered", .atom "wf"])
      else if !f.noLeadingWs then some (.list [.atom "uncovered", .atom "leading-ws"])
      else match f.roundtrip with
        | .ok t => some (.list [.atom "ok", sText t])
        | .error e => some (sErr e)
  | .list [.atom "pieces", f] =>
    -- the piece-level renderer: (ok (t|c|w <text>)…)
    match decFile f with
    | none => some (.list [.atom "bad-arg"])
    | some f =>
      if !f.wf then some (.list [.atom "uncovered", .atom "wf"])
      else if !f.noLeadingWs then some (.list [.atom "uncovered", .atom "leading-ws"])
      else match f.parse with
        | .ok s => some (.list (.atom "ok" :: s.rebuildP.map fun p => match p with
            | .tok t => .list [.atom "t", sText t]
            | .cmt t => .list [.atom "c", sText t]
            | .ws t => .list [.atom "w", sText t]))
        | .error e => some (sErr e)
  | .list [.atom "facts", f] =>
    -- which theorem hypotheses hold for this input, and the decidable conclusions on its output:
    -- (ok <orderOk> <beforeFlatB> <safe> <spacing normal form> <tokens preserved>)
    match decFile f with
    | none => some (.list [.atom "bad-arg"])
    | some f =>
      if !f.wf then some (.list [.atom "uncovered", .atom "wf"])
      else if !f.noLeadingWs then some (.list [.atom "uncovered", .atom "leading-ws"])
      else match f.parse with
        | .ok s => some (.list [.atom "ok", sBool f.orderOk, sBool s.beforeFlatB,
            sBool (safeGo false s.rebuildP), sBool (summ s.rebuildP).fileOk,
            sBool (decide (toks s.rebuildP = f.codeTokens)), sBool f.basic])
        | .error e => some (sErr e)
  | .list [.atom "norm", f] =>
    -- comment-free files: the tree of the output as the fixed-point theorem names it
    match decFile f with
    | none => some (.list [.atom "bad-arg"])
    | some f =>
      if !f.covered then some (.list [.atom "uncovered", .atom "wf"])
      else if !f.items.cf then some (.list [.atom "uncovered", .atom "comments"])
      else some (.list [.atom "ok", sText f.norm.flatten, encFile f.norm])
  | .list [.atom "flatten", f] =>
    match decFile f with
    | none => some (.list [.atom "bad-arg"])
    | some f => some (.list [.atom "ok", sText f.flatten])
  | _ => none

end Nima.Drv.Layout
