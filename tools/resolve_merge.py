#!/usr/bin/env python3
"""Resolve the routine conflicts of merging an engineer's branch: known_findings.json (union by id),
lean/Driver.lean (union of handler imports and registrations), MANIFEST.json (regenerated),
evidence/*.json (theirs)."""
import json
import re
import subprocess
import sys
from pathlib import Path

ROOT = Path(__file__).resolve().parent.parent
br = sys.argv[1]


def show(ref, path):
    r = subprocess.run(["git", "show", f"{ref}:{path}"], cwd=ROOT, capture_output=True, text=True)
    return r.stdout if r.returncode == 0 else None


# known findings
ours = json.loads(show("HEAD", "known_findings.json"))
theirs_txt = show(br, "known_findings.json")
if theirs_txt:
    theirs = json.loads(theirs_txt)
    ids = {f["id"] for f in ours["findings"]}
    for f in theirs["findings"]:
        if f["id"] not in ids:
            ours["findings"].append(f)
(ROOT / "known_findings.json").write_text(json.dumps(ours, indent=1))

# Driver.lean
o = show("HEAD", "lean/Driver.lean")
t = show(br, "lean/Driver.lean") or ""
imps = re.findall(r"^import NimaVerif\.Drv\.(\w+)$", o, re.M)
for m in re.findall(r"^import NimaVerif\.Drv\.(\w+)$", t, re.M):
    if m not in imps:
        imps.append(m)
head = "import NimaVerif.Model.SExp\n" + "".join(f"import NimaVerif.Drv.{m}\n" for m in imps)
body = o[o.index("/-!"):]
handlers = ",\n".join(f"  Nima.Drv.{m}.handle" for m in imps)
body = re.sub(r"def handlers : List \(SExp → Option SExp\) := \[\n.*?\n\]", 
              "def handlers : List (SExp → Option SExp) := [\n" + handlers + "\n]", body, flags=re.S)
(ROOT / "lean" / "Driver.lean").write_text(head + body)

subprocess.run(["git", "checkout", "--theirs", "--", "evidence"], cwd=ROOT, capture_output=True)
subprocess.run(["git", "checkout", "--ours", "--", "MANIFEST.json"], cwd=ROOT, capture_output=True)
subprocess.run([sys.executable, str(ROOT / "tools" / "gen_manifest.py")], cwd=ROOT)
print("resolved; review and commit")
