import NimaVerif.Model.Paths
import NimaVerif.Model.SExp
/-!
Driver requests for C17 (paths, filesystems, import chains).

```
(fslookup <mode> <files> <dirs> <cwd> <entry> (<key> …))
   mode  := (impl <hex-home>) | (spec <hex-home>)      home: the text of `os.path.expanduser("~")`
   files := ((<hex-abs-path> <content>) …)        content := (attrs (<hex-key> <val>) …) | (notset)
   dirs  := (<hex-abs-path> …)
   val   := (lit <nat>) | (imp <arg>) | (set (<hex-key> <val>) …)
   arg   := (path <hex>) | (paren <arg>) | (other)
   reply := (ok <val>) | (err <class>)
(fslocate <files> <dirs> <cwd> <entry>)  -> (ok <hex-abs-path>) | (err os)
(pathops <hex>)                          -> (ok <abs:t|f> (<hex-comp> …) (<hex-parent-comp> …))
(resolved <hex-literal> <hex-src>|none <hex-home>)  -> (ok <abs> (<hex-comp> …)) | (err <class>)   [via the Recipe interpreter]
```
Absolute paths are sent as text (`/a/b/c`, already canonical) and split with `parsePath`.
-/
namespace Nima.Drv.Paths
open Nima

def absComps (s : String) : Option (List Comp) := (decText s).map fun t => (parsePath t).comps

partial def decArg : SExp → Option Arg
  | .list [.atom "path", .atom h] => (decText h).map Arg.path
  | .list [.atom "paren", a] => (decArg a).map Arg.paren
  | .list [.atom "other"] => some .other
  | _ => none

mutual
partial def decVal : SExp → Option Val
  | .list [.atom "lit", .atom n] => n.toNat?.map Val.lit
  | .list [.atom "imp", a] => (decArg a).map Val.imp
  | .list (.atom "set" :: bs) => (decBindings bs).map Val.set
  | _ => none
partial def decBindings : List SExp → Option (List (Text × Val))
  | [] => some []
  | .list [.atom k, v] :: rest => do
    let k ← decText k
    let v ← decVal v
    let r ← decBindings rest
    pure ((k, v) :: r)
  | _ => none
end

def decContent : SExp → Option Content
  | .list (.atom "attrs" :: bs) => (decBindings bs).map Content.attrs
  | .list [.atom "notset"] => some .notSet
  | _ => none

def decFiles : List SExp → Option (List (List Comp × Content))
  | [] => some []
  | .list [.atom p, c] :: rest => do
    let p ← absComps p
    let c ← decContent c
    let r ← decFiles rest
    pure ((p, c) :: r)
  | _ => none

def decAtoms (f : String → Option α) : List SExp → Option (List α)
  | [] => some []
  | .atom a :: rest => do
    let x ← f a
    let r ← decAtoms f rest
    pure (x :: r)
  | _ => none

def encArg : Arg → SExp
  | .path t => .list [.atom "path", sText t]
  | .paren a => .list [.atom "paren", encArg a]
  | .other => .list [.atom "other"]

partial def encVal : Val → SExp
  | .lit n => .list [.atom "lit", sNat n]
  | .imp a => .list [.atom "imp", encArg a]
  | .set bs => .list (.atom "set" :: bs.map fun (k, v) => .list [sText k, encVal v])

def encOutcome : Except Err Val → SExp
  | .ok v => .list [.atom "ok", encVal v]
  | .error e => sErr e

def encAbs (p : List Comp) : SExp :=
  sText (p.foldl (fun acc c => acc ++ ['/'] ++ c) ([] : Text))

def bad : SExp := .list [.atom "bad-arg"]

def handle' (req : SExp) : SExp :=
  match req with
  | .list [.atom "fslookup", mode, .list files, .list dirs, .atom cwd, .atom entry, .list keys] =>
    match decFiles files, decAtoms absComps dirs, absComps cwd, decText entry, decAtoms decText keys with
    | some files, some dirs, some cwd, some entry, some (k :: ks) =>
      let fs : FS := ⟨files, dirs⟩
      match mode with
      | .list [.atom "impl", .atom h] =>
        match decText h with
        | some h => encOutcome (implLookup fs (parsePath h) cwd entry k ks)
        | none => bad
      | .list [.atom "spec", .atom h] =>
        match decText h with
        | some h => encOutcome (specFrom fs (parsePath h) cwd entry k ks)
        | none => bad
      | _ => bad
    | _, _, _, _, _ => bad
  | .list [.atom "fslocate", .list files, .list dirs, .atom cwd, .atom entry] =>
    match decFiles files, decAtoms absComps dirs, absComps cwd, decText entry with
    | some files, some dirs, some cwd, some entry =>
      match (FS.mk files dirs).locate cwd (parsePath entry) with
      | .ok n => .list [.atom "ok", encAbs n]
      | .error e => sErr e
    | _, _, _, _ => bad
  | .list [.atom "pathops", .atom h] =>
    match decText h with
    | some t =>
      let p := parsePath t
      .list [.atom "ok", sBool p.abs, .list (p.comps.map sText), .list (p.parent.comps.map sText)]
    | none => bad
  | .list [.atom "resolved", .atom lit, .atom src, .atom home] =>
    match decText lit, (if src == "none" then some none else (decText src).map (fun t => some (parsePath t))),
        decText home with
    | some t, some src, some home =>
      match recipeModel.eval t src (parsePath home) ⟨true, []⟩ with
      | .ok p => .list [.atom "ok", sBool p.abs, .list (p.comps.map sText)]
      | .error e => sErr e
    | _, _, _ => bad
  | _ => .list [.atom "bad-op"]

def ops : List String := ["fslookup", "fslocate", "pathops", "resolved"]

def handle (req : SExp) : Option SExp :=
  match req with
  | .list (.atom op :: _) => if ops.contains op then some (handle' req) else none
  | _ => none

end Nima.Drv.Paths
