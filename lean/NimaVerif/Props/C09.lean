import NimaVerif.Lemmas.NameAgree
import NimaVerif.Lemmas.ScopedSingle
/-!
# C09 — scope selectors address exactly the intended let layer

Model: `splitScopeNpath`, `collectScopeLayers`, `writeScopeLayers`, `onLayer`, and the scoped
branches of `setValue` / `removeValue` (`Model/Edit.lean`). SPEC (`Model/LayerSpec.lean`): `pyNeg`
(Python's `xs[-k]`), `atSigns`, `Layer.nonEmpty`, `LayersNormal`, the write vocabulary `Upd` /
`applyAll` / `Upd.Allowed` (what an edit may touch), `Layer.fpBind` / `Layer.fpSet` (the footprint
of an edit addressed at a layer), and the decidable side conditions `Layer.plain`,
`layerSeparated`.

Reading of the statements: the layers of a document are `collectScopeLayers d`, outermost first,
`n` of them; the selector `@ᵏname` is `atSigns k ++ name` with `name` non-empty and not starting
with `@`. A scoped edit runs the attrset-level operation on the scratch set
`layerAsSet d.next l` (`AttributeSet(values=l.scope, attrpath_order=l.order)`) in the state
`scratchDoc d l`; its run is a list `us` of in-place writes; `applyAllLayer us` / `applyAllNode us`
is what those writes do to the other places that hold the same objects.

Hypotheses and why they are satisfiable (`ex3` below satisfies all of them, for every layer):
* `d.noTarget = none`: the document has an edit target (C07/C08 cover the others).
* `Layer.plain l` (decidable): no binding of the addressed layer has an identifier as value —
  otherwise `set` deliberately writes through the reference (C11) and may land in another layer
  (`cex_reference_crosses_layers`).
* `layerSeparated d idx` (decidable): the other layers and the target share no Binding /
  AttributeSet object with layer `idx`, and their set identities are below `next`. True of every
  parsed document (objects are distinct, `next` is above every identity in use).
-/
namespace Nima.C09
-- name tokens are compared by spelling in this file (see `NameCmp` in Model/Edit.lean)
attribute [local instance] NameCmp.spelled

open Node

/-! ## 1. Selector syntax -/

theorem split_scope_ats (k : Nat) (name : Text) (hk : 1 ≤ k) (hne : name ≠ [])
    (hh : name.head? ≠ some '@') :
    splitScopeNpath (atSigns k ++ name) = .ok (some (k, name)) :=
  splitScopeNpath_ats k name hk hne hh

theorem split_scope_plain (name : Text) (hh : name.head? ≠ some '@') :
    splitScopeNpath name = .ok none := splitScopeNpath_plain name hh

theorem split_scope_none : splitScopeNpath "a".toList = .ok none := by decide

/-! ## 2. Layer storage: `collect ∘ write = id` on non-empty layers, idempotence, indexing -/

/-- whatever is written, what is collected back are the layers with a non-empty scope -/
theorem collect_write_general (ls : List Layer) (r : Option Layer) (d : Doc) :
    collectScopeLayers (writeScopeLayers ls r d) = ls.filter Layer.nonEmpty :=
  collect_write_filter ls r d

theorem collect_write (ls : List Layer) (d : Doc) (h : ∀ l ∈ ls, l.scope ≠ []) :
    collectScopeLayers (writeScopeLayers ls none d) = ls := by
  rw [collect_write_filter]
  apply filter_nonEmpty_of_all
  intro l hl
  simpa [Layer.nonEmpty] using h l hl

/-- every collected layer has a non-empty scope (so `collect_write` applies to what was collected) -/
theorem collected_nonEmpty (d : Doc) : ∀ l ∈ collectScopeLayers d, l.scope ≠ [] := by
  intro l hl
  simpa [Layer.nonEmpty] using collect_nonEmpty d l hl

/-- writing establishes the normal form, and on it `write ∘ collect = id` -/
theorem write_establishes_normal (ls : List Layer) (r : Option Layer) (d : Doc)
    (h : ∀ l ∈ ls, l.scope ≠ []) : LayersNormal (writeScopeLayers ls r d) :=
  write_normal ls r d fun l hl => by simpa [Layer.nonEmpty] using h l hl

theorem write_collect (d : Doc) (h : LayersNormal d) :
    writeScopeLayers (collectScopeLayers d) none d = d := write_collect_normal d h

/-- idempotence: collecting and writing again changes nothing more -/
theorem write_collect_idem (ls : List Layer) (d : Doc) (h : ∀ l ∈ ls, l.scope ≠ []) :
    let d' := writeScopeLayers ls none d
    writeScopeLayers (collectScopeLayers d') none d' = d' := by
  intro d'
  exact write_collect_normal d' (write_establishes_normal ls none d h)

/-- indexing: Python's `layers[-k]` is element `n - k` of the outermost-first list, i.e. the
    `k`-th layer counted from the innermost -/
theorem neg_index {α} (xs : List α) (k : Nat) (hk : 1 ≤ k) (hkn : k ≤ xs.length) :
    pyNeg xs k = xs[xs.length - k]? ∧ pyNeg xs k = xs.reverse[k - 1]? :=
  ⟨pyNeg_eq_getElem xs k hk hkn, pyNeg_eq_reverse xs k hk hkn⟩

theorem neg_index_out_of_range {α} (xs : List α) (k : Nat) (h : k = 0 ∨ xs.length < k) :
    pyNeg xs k = none := by
  unfold pyNeg
  rcases h with h | h
  · simp [h]
  · have : ¬ (1 ≤ k ∧ k ≤ xs.length) := by omega
    simp [this]

/-! ## 3. `set @ᵏname` with `1 ≤ k ≤ n`: exactly layer `n - k` -/

/-- FULL STRENGTH, no side condition. The attrset-level `set` runs on the scratch set built from
    layer `layers[-k]`; its run is a list `us` of writes that only *add* to AttributeSet objects,
    all of them objects of that layer or fresh (Binding objects may be assigned anywhere: that is
    the write through an identifier reference). Afterwards layer `n - k` holds the scratch set's
    `values` / `attrpath_order`; every other layer, and the target, are what they were up to those
    by-identity writes; layer trivia, the set's own trivia and the trailing trivia are untouched. -/
theorem scoped_set_existing_layer (d : Doc) (k : Nat) (name : Text) (v : Node)
    (hn : d.noTarget = none) (hk : 1 ≤ k) (hne : name ≠ []) (hh : name.head? ≠ some '@')
    (hkn : k ≤ (collectScopeLayers d).length) :
    ∃ l us, pyNeg (collectScopeLayers d) k = some l ∧
      (∀ u ∈ us, u.Allowed true (fun _ => True) (l.fpSet d.next)) ∧
      (setValueInAttrset (layerAsSet d.next l) false name v (scratchDoc d l)).2 =
        applyAll us (scratchDoc d l) ∧
      (setValue (atSigns k ++ name) (.one v) d).1 =
        (setValueInAttrset (layerAsSet d.next l) false name v (scratchDoc d l)).1 ∧
      ((setValue (atSigns k ++ name) (.one v) d).1 = .ok () →
        let d' := (setValue (atSigns k ++ name) (.one v) d).2
        let S' := applyAllNode us (layerAsSet d.next l)
        collectScopeLayers d' =
          listSet ((collectScopeLayers d).map (applyAllLayer us)) ((collectScopeLayers d).length - k)
            { applyAllLayer us l with scope := S'.setValues, order := S'.setOrder } ∧
        d'.target = applyAllNode us d.target ∧ d'.noTarget = d.noTarget ∧ d'.tBefore = d.tBefore ∧
        d'.tAfter = d.tAfter ∧ d'.trailing = d.trailing ∧ d'.scratch = none) := by
  have hidx : (collectScopeLayers d).length - k < (collectScopeLayers d).length := by omega
  obtain ⟨l, hl⟩ : ∃ l, (collectScopeLayers d)[(collectScopeLayers d).length - k]? = some l :=
    ⟨_, List.getElem?_eq_getElem hidx⟩
  obtain ⟨us, h⟩ := scoped_set_core d k name v hn hk hne hh hkn false (fun _ => True) hl
    (Or.inr fun _ => trivial) (fun _ _ => trivial) (fun h => by cases h)
  exact ⟨l, us, by rw [pyNeg_eq_getElem _ k hk hkn, hl], h⟩

/-- the by-identity writes keep every layer's trivia and never empty a layer -/
theorem writes_keep_layer_trivia (us : List Upd) (l : Layer) :
    (applyAllLayer us l).bodyBefore = l.bodyBefore ∧ (applyAllLayer us l).bodyAfter = l.bodyAfter ∧
    (applyAllLayer us l).afterLet = l.afterLet ∧ (applyAllLayer us l).nonEmpty = l.nonEmpty :=
  applyAllLayer_frame us l

/-- FULL statement of "no other layer nor the body changes", without the `plain` side condition. -/
def scoped_set_frame_full : Prop :=
  ∀ (d : Doc) (k : Nat) (name : Text) (v : Node) (l : Layer),
    d.noTarget = none → 1 ≤ k → name ≠ [] → name.head? ≠ some '@' →
    k ≤ (collectScopeLayers d).length →
    (collectScopeLayers d)[(collectScopeLayers d).length - k]? = some l →
    layerSeparated d ((collectScopeLayers d).length - k) = true →
    (setValue (atSigns k ++ name) (.one v) d).1 = .ok () →
    ∀ j, j ≠ (collectScopeLayers d).length - k →
      (collectScopeLayers (setValue (atSigns k ++ name) (.one v) d).2)[j]? = (collectScopeLayers d)[j]?

/-- `let x = 1; in let y = x; in { }`: the innermost layer's `y` is a reference to `x`. -/
def refDoc : Doc :=
  { target := .set 1 [] [] false false,
    scope := [.bind 2 "x".toList false (.atom "1".toList) [] []],
    stOrder := [.bind 2 "x".toList false (.atom "1".toList) [] []],
    stack := [{ scope := [.bind 3 "y".toList false (.ident "x".toList) [] []],
                order := [.bind 3 "y".toList false (.ident "x".toList) [] []],
                bodyBefore := [], bodyAfter := [], afterLet := none }],
    next := 4 }

/-- `set @y 7` addresses the innermost layer, finds `y = x` and writes through the reference:
    the OUTER layer's `x` becomes 7 (intended: C11 decides reference edits). So the literal frame
    needs the `plain` side condition. -/
theorem cex_reference_crosses_layers :
    (setValue "@y".toList (.one (.atom "7".toList)) refDoc).1 = .ok () ∧
    layerSeparated refDoc 1 = true ∧
    (collectScopeLayers (setValue "@y".toList (.one (.atom "7".toList)) refDoc).2)[0]? ≠
      (collectScopeLayers refDoc)[0]? := by decide

theorem scoped_set_frame_full_false : ¬ scoped_set_frame_full := by
  intro h
  have := h refDoc 1 "y".toList (.atom "7".toList)
    { scope := [.bind 3 "y".toList false (.ident "x".toList) [] []],
      order := [.bind 3 "y".toList false (.ident "x".toList) [] []],
      bodyBefore := [], bodyAfter := [], afterLet := none }
    rfl (by decide) (by decide) (by decide) (by decide) (by decide) (by decide) (by decide) 0
    (by decide)
  exact cex_reference_crosses_layers.2.2 this

/-- PARTIAL (decidable side condition `Layer.plain` excludes exactly the reference class): every
    other layer and the body — the target set with its trivia, the trailing trivia — are literally
    unchanged; the addressed layer keeps its trivia and does not shrink. -/
theorem scoped_set_frame_partial (d : Doc) (k : Nat) (name : Text) (v : Node)
    (hn : d.noTarget = none) (hk : 1 ≤ k) (hne : name ≠ []) (hh : name.head? ≠ some '@')
    (hkn : k ≤ (collectScopeLayers d).length) {l : Layer}
    (hl : (collectScopeLayers d)[(collectScopeLayers d).length - k]? = some l)
    (hplain : l.plain = true)
    (hsep : layerSeparated d ((collectScopeLayers d).length - k) = true)
    (hok : (setValue (atSigns k ++ name) (.one v) d).1 = .ok ()) :
    let d' := (setValue (atSigns k ++ name) (.one v) d).2
    (∀ j, j ≠ (collectScopeLayers d).length - k →
      (collectScopeLayers d')[j]? = (collectScopeLayers d)[j]?) ∧
    (collectScopeLayers d').length = (collectScopeLayers d).length ∧
    (∃ l', (collectScopeLayers d')[(collectScopeLayers d).length - k]? = some l' ∧
      l'.bodyBefore = l.bodyBefore ∧ l'.bodyAfter = l.bodyAfter ∧ l'.afterLet = l.afterLet ∧
      l'.scope.length ≥ l.scope.length) ∧
    d'.target = d.target ∧ d'.tBefore = d.tBefore ∧ d'.tAfter = d.tAfter ∧
    d'.trailing = d.trailing :=
  scoped_set_frame d k name v hn hk hne hh hkn hl hplain hsep hok

/-- "updates / inserts in `L_{n-k}`", at lookup level, for a one-segment name on a plain layer:
    afterwards layer `n - k` binds the name to `v`, and its names are the old ones (the name
    appended if it was not bound) — whatever other layers bind the same name to. -/
theorem scoped_set_binds_in_layer (d : Doc) (k : Nat) (name seg : Text) (v : Node)
    (hn : d.noTarget = none) (hk : 1 ≤ k) (hne : name ≠ []) (hh : name.head? ≠ some '@')
    (hkn : k ≤ (collectScopeLayers d).length) {l : Layer}
    (hl : (collectScopeLayers d)[(collectScopeLayers d).length - k]? = some l)
    (hfmt : formatNPath currentAnchor name = .ok [seg]) (hplain : l.plain = true)
    (hok : (setValue (atSigns k ++ name) (.one v) d).1 = .ok ()) :
    ∃ l' b, (collectScopeLayers (setValue (atSigns k ++ name) (.one v) d).2)[
        (collectScopeLayers d).length - k]? = some l' ∧
      findBinding l'.scope seg = some b ∧ b.bindValue? = some v ∧
      keysOf l'.scope =
        if (findBinding l.scope seg).isSome then keysOf l.scope else keysOf l.scope ++ [seg] := by
  obtain ⟨us, _, h1, h2, hres⟩ := scoped_set_core d k name v hn hk hne hh hkn true l.fpBind hl
    (Or.inl rfl) (fun _ h => h) (fun _ => hplain)
  obtain ⟨c1, _⟩ := hres hok
  obtain ⟨S', s1, ⟨b, s2, s3⟩, s4⟩ := set_single_scratch d l v hfmt hplain (by rw [← h2]; exact hok)
  have hS : applyAllNode us (layerAsSet d.next l) = S' := by
    rw [h1, applyAll_scratch] at s1
    simpa [scratchDoc] using s1
  have hidx : (collectScopeLayers d).length - k < (collectScopeLayers d).length := by omega
  refine ⟨{ applyAllLayer us l with scope := S'.setValues, order := S'.setOrder }, b, ?_, s2, s3, s4⟩
  rw [c1, hS]
  exact listSet_getElem?_self _ _ _ (by simpa using hidx)

/-! ## 4. `set @name` with no layer: one layer is created — unless the path exists in the set -/

/-- `n = 0`, `k = 1`, path not in the set: exactly one layer appears; its scope is the scratch
    set's (non-empty) `values`; its body trivia are the set's old trivia, which the set loses;
    the run consists of additions to FRESH set objects only (no Binding object is assigned). -/
theorem scoped_set_creates_one_layer (d : Doc) (name : Text) (v : Node) (hn : d.noTarget = none)
    (hne : name ≠ []) (hh : name.head? ≠ some '@') (h0 : collectScopeLayers d = [])
    (segs : List Text) (hfmt : formatNPath currentAnchor name = .ok segs)
    (hnp : pathExistsInAttrset d.target segs = false)
    (hok : (setValue (atSigns 1 ++ name) (.one v) d).1 = .ok ()) :
    let d' := (setValue (atSigns 1 ++ name) (.one v) d).2
    ∃ l', collectScopeLayers d' = [l'] ∧ l'.scope ≠ [] ∧ l'.bodyBefore = d.tBefore ∧
      l'.bodyAfter = d.tAfter ∧ l'.afterLet = none ∧ d'.stack = [] ∧ d'.tBefore = [] ∧
      d'.tAfter = [] ∧ d'.noTarget = d.noTarget ∧ d'.trailing = d.trailing ∧
      ((∀ s ∈ setIdList d.target, s < d.next) → d'.target = d.target) := by
  obtain ⟨us, hus, _, _, hres⟩ := scoped_create_core d name v hn hne hh h0 segs hfmt hnp
  obtain ⟨c0, c1, c2, c3, c4, c5, c6, c7, _⟩ := hres hok
  refine ⟨_, c1, c0, rfl, rfl, rfl, c2, c3, c4, c6, c7, fun hfresh => ?_⟩
  rw [c5]
  apply applyAllNode_of_disjoint us hus
  · exact fun _ _ h => h
  · intro s hs hle
    have := hfresh s hs
    omega

/-- … and for a one-segment path that layer holds exactly the new binding -/
theorem scoped_set_creates_binding (d : Doc) (name : Text) (v : Node) (hn : d.noTarget = none)
    (hne : name ≠ []) (hh : name.head? ≠ some '@') (h0 : collectScopeLayers d = [])
    (seg : Text) (hfmt : formatNPath currentAnchor name = .ok [seg])
    (hnp : pathExistsInAttrset d.target [seg] = false) :
    (setValue (atSigns 1 ++ name) (.one v) d).1 = .ok () ∧
    collectScopeLayers (setValue (atSigns 1 ++ name) (.one v) d).2 =
      [{ scope := [.bind (d.next + 1) seg false v [] []], order := [], bodyBefore := d.tBefore,
         bodyAfter := d.tAfter, afterLet := none }] := by
  obtain ⟨us, _, h1, h2, hres⟩ := scoped_create_core d name v hn hne hh h0 [seg] hfmt hnp
  obtain ⟨s1, s2⟩ := scoped_create_single d name v seg hfmt
  have hok : (setValue (atSigns 1 ++ name) (.one v) d).1 = .ok () := by rw [h2, s1]
  obtain ⟨_, c1, _⟩ := hres hok
  refine ⟨hok, ?_⟩
  rw [c1]
  have hS : applyAllNode us (layerAsSet d.next (newLayerOf d)) =
      .set d.next [.bind (d.next + 1) seg false v [] []] [] true false := by
    rw [h1, applyAll_scratch] at s2
    simpa [scratchDoc] using s2
  rw [hS]
  rfl

/-- the documented shortcut (`test_set_scope_path_updates_existing_attrset_body`): with no layer
    present, `@path` for a path that exists in the set edits the set's binding exactly as the
    unscoped `set path` does, and no layer is created -/
theorem scoped_shortcut (d : Doc) (name : Text) (v : Node) (hn : d.noTarget = none)
    (hne : name ≠ []) (hh : name.head? ≠ some '@') (h0 : collectScopeLayers d = [])
    (segs : List Text) (hfmt : formatNPath currentAnchor name = .ok segs)
    (hp : pathExistsInAttrset d.target segs = true) :
    setValue (atSigns 1 ++ name) (.one v) d = setValue name (.one v) d ∧
    collectScopeLayers (setValue (atSigns 1 ++ name) (.one v) d).2 = [] :=
  scoped_shortcut_core d name v hn hne hh h0 segs hfmt hp

/-! ## 5. A layer that does not exist: ValueError, document unchanged -/

theorem scoped_missing_layer_set (d : Doc) (k : Nat) (name : Text) (v : Node)
    (hn : d.noTarget = none) (hk : 1 ≤ k) (hne : name ≠ []) (hh : name.head? ≠ some '@')
    (hkn : (collectScopeLayers d).length < k)
    (hnot : ¬ ((collectScopeLayers d).length = 0 ∧ k = 1)) :
    setValue (atSigns k ++ name) (.one v) d = (.error .value, d) :=
  setValue_missing_layer d k name v hn hk hne hh hkn hnot

theorem scoped_missing_layer_rm (d : Doc) (k : Nat) (name : Text) (hn : d.noTarget = none)
    (hk : 1 ≤ k) (hne : name ≠ []) (hh : name.head? ≠ some '@')
    (hkn : (collectScopeLayers d).length < k) :
    removeValue (atSigns k ++ name) d = (.error .value, d) :=
  removeValue_missing_layer d k name hn hk hne hh hkn

/-! ## 6. `rm @ᵏname`: exactly layer `n - k`; it disappears exactly when its last binding went -/

/-- FULL STRENGTH, no side condition: the attrset-level `rm` runs on the scratch set of
    `layers[-k]`; its writes stay within the objects of that layer (or fresh ones). If the scratch
    set ends up empty the layer is deleted from the list and nothing else is; when it was the only
    layer, the set gets the layer's body trivia back. Otherwise the layer holds what is left. -/
theorem scoped_rm_layer (d : Doc) (k : Nat) (name : Text) (hn : d.noTarget = none)
    (hk : 1 ≤ k) (hne : name ≠ []) (hh : name.head? ≠ some '@')
    (hkn : k ≤ (collectScopeLayers d).length) :
    ∃ l us, pyNeg (collectScopeLayers d) k = some l ∧
      (∀ u ∈ us, u.Allowed false l.fpBind (l.fpSet d.next)) ∧
      (removeValueInAttrset (layerAsSet d.next l) name (scratchDoc d l)).2 =
        applyAll us (scratchDoc d l) ∧
      (removeValue (atSigns k ++ name) d).1 =
        (removeValueInAttrset (layerAsSet d.next l) name (scratchDoc d l)).1 ∧
      ((removeValue (atSigns k ++ name) d).1 = .ok () →
        let d' := (removeValue (atSigns k ++ name) d).2
        let S' := applyAllNode us (layerAsSet d.next l)
        let L' := (collectScopeLayers d).map (applyAllLayer us)
        let idx := (collectScopeLayers d).length - k
        (S'.setValues = [] → collectScopeLayers d' = L'.eraseIdx idx ∧
          ((collectScopeLayers d).length ≠ 1 → d'.tBefore = d.tBefore ∧ d'.tAfter = d.tAfter) ∧
          ((collectScopeLayers d).length = 1 →
            d'.tBefore = (if l.bodyBefore.isEmpty then d.tBefore else l.bodyBefore) ∧
            d'.tAfter = l.bodyAfter ++ d.tAfter.filter (!l.bodyAfter.contains ·))) ∧
        (S'.setValues ≠ [] → collectScopeLayers d' =
            listSet L' idx { applyAllLayer us l with scope := S'.setValues, order := S'.setOrder } ∧
          d'.tBefore = d.tBefore ∧ d'.tAfter = d.tAfter) ∧
        d'.target = applyAllNode us d.target ∧ d'.noTarget = d.noTarget ∧ d'.scratch = none) := by
  have hidx : (collectScopeLayers d).length - k < (collectScopeLayers d).length := by omega
  obtain ⟨l, hl⟩ : ∃ l, (collectScopeLayers d)[(collectScopeLayers d).length - k]? = some l :=
    ⟨_, List.getElem?_eq_getElem hidx⟩
  obtain ⟨us, h⟩ := scoped_rm_core d k name hn hk hne hh hkn hl
  exact ⟨l, us, by rw [pyNeg_eq_getElem _ k hk hkn, hl], h⟩

/-- On a separated document: the target is literally unchanged, and either layer `n - k` is gone
    and the list is otherwise literally the old one, or every other layer is literally unchanged
    and layer `n - k` is still there, non-empty, with its trivia. (`rm` never writes through
    references, so no `plain` condition is needed.) -/
theorem scoped_rm_prunes_exactly (d : Doc) (k : Nat) (name : Text) (hn : d.noTarget = none)
    (hk : 1 ≤ k) (hne : name ≠ []) (hh : name.head? ≠ some '@')
    (hkn : k ≤ (collectScopeLayers d).length) {l : Layer}
    (hl : (collectScopeLayers d)[(collectScopeLayers d).length - k]? = some l)
    (hsep : layerSeparated d ((collectScopeLayers d).length - k) = true)
    (hok : (removeValue (atSigns k ++ name) d).1 = .ok ()) :
    let d' := (removeValue (atSigns k ++ name) d).2
    let idx := (collectScopeLayers d).length - k
    d'.target = d.target ∧
    (collectScopeLayers d' = (collectScopeLayers d).eraseIdx idx ∨
      ((∀ j, j ≠ idx → (collectScopeLayers d')[j]? = (collectScopeLayers d)[j]?) ∧
       (collectScopeLayers d').length = (collectScopeLayers d).length ∧
       ∃ l', (collectScopeLayers d')[idx]? = some l' ∧ l'.scope ≠ [] ∧
         l'.bodyBefore = l.bodyBefore ∧ l'.bodyAfter = l.bodyAfter ∧ l'.afterLet = l.afterLet ∧
         d'.tBefore = d.tBefore ∧ d'.tAfter = d.tAfter)) :=
  scoped_rm_frame d k name hn hk hne hh hkn hl hsep hok

/-- "removes from `L_{n-k}`", at lookup level, for a one-segment name: the scratch set of layer
    `n - k` loses exactly the binding found under that name (so a name defined once is unbound
    afterwards); if that was its last binding the layer is pruned (`scoped_rm_layer` says which
    list remains). `DistinctItems` (decidable): the layer's bindings are distinct objects. -/
theorem scoped_rm_unbinds_in_layer (d : Doc) (k : Nat) (name seg : Text)
    (hn : d.noTarget = none) (hk : 1 ≤ k) (hne : name ≠ []) (hh : name.head? ≠ some '@')
    (hkn : k ≤ (collectScopeLayers d).length) {l : Layer}
    (hl : (collectScopeLayers d)[(collectScopeLayers d).length - k]? = some l)
    (hfmt : formatNPath currentAnchor name = .ok [seg]) (hdist : DistinctItems l.scope = true)
    (hok : (removeValue (atSigns k ++ name) d).1 = .ok ()) :
    ∃ b l₁ l₂, l.scope = l₁ ++ b :: l₂ ∧ b.isBind = true ∧ b.bindName? = some seg ∧
      (l₁ ++ l₂ ≠ [] →
        ∃ l', (collectScopeLayers (removeValue (atSigns k ++ name) d).2)[
            (collectScopeLayers d).length - k]? = some l' ∧ l'.scope = l₁ ++ l₂ ∧
          ((keysOf l.scope).count seg ≤ 1 → findBinding l'.scope seg = none)) ∧
      (l₁ ++ l₂ = [] →
        (collectScopeLayers (removeValue (atSigns k ++ name) d).2).length =
          (collectScopeLayers d).length - 1) := by
  obtain ⟨us, _, h1, h2, hres⟩ := scoped_rm_core d k name hn hk hne hh hkn hl
  obtain ⟨c1, c2, _⟩ := hres hok
  obtain ⟨S', b, l₁, l₂, s1, s2, s3, s4, s5⟩ :=
    rm_single_scratch d l hfmt hdist (by rw [← h2]; exact hok)
  have hS : applyAllNode us (layerAsSet d.next l) = S' := by
    rw [h1, applyAll_scratch] at s1
    simpa [scratchDoc] using s1
  have hidx : (collectScopeLayers d).length - k < (collectScopeLayers d).length := by omega
  refine ⟨b, l₁, l₂, s2, s3, s4, fun hne' => ?_, fun he => ?_⟩
  · have hne'' : (applyAllNode us (layerAsSet d.next l)).setValues ≠ [] := by rw [hS, s5]; exact hne'
    obtain ⟨e1, _⟩ := c2 hne''
    refine ⟨{ applyAllLayer us l with scope := S'.setValues, order := S'.setOrder }, ?_, s5, ?_⟩
    · rw [e1, hS]
      exact listSet_getElem?_self _ _ _ (by simpa using hidx)
    · intro hu
      apply findBinding_none_of_not_mem
      simp only [s5]
      rw [s2, keysOf_split l₁ l₂ s3 s4, List.count_append, List.count_cons_self] at hu
      rw [keysOf_append, List.mem_append]
      rintro (h | h)
      · exact absurd (List.count_pos_iff.2 h) (by omega)
      · exact absurd (List.count_pos_iff.2 h) (by omega)
  · have he' : (applyAllNode us (layerAsSet d.next l)).setValues = [] := by rw [hS, s5]; exact he
    rw [(c1 he').1, List.length_eraseIdx_of_lt (by simpa using hidx), List.length_map]

/-! ## Non-vacuity: three layers, the name `x` in two of them -/

/-- `let x = 1; in let x = 2; y = 3; in let z = 1; in { a = 1; }` -/
def ex3 : Doc :=
  { target := .set 1 [.bind 2 "a".toList false (.atom "1".toList) [] []]
                     [.bind 2 "a".toList false (.atom "1".toList) [] []] false false,
    scope := [.bind 3 "x".toList false (.atom "1".toList) [] []],
    stOrder := [.bind 3 "x".toList false (.atom "1".toList) [] []],
    stack := [
      { scope := [.bind 4 "x".toList false (.atom "2".toList) [] [],
                  .bind 5 "y".toList false (.atom "3".toList) [0] []],
        order := [.bind 4 "x".toList false (.atom "2".toList) [] [],
                  .bind 5 "y".toList false (.atom "3".toList) [0] []],
        bodyBefore := [], bodyAfter := [], afterLet := none },
      { scope := [.bind 6 "z".toList false (.atom "1".toList) [] []],
        order := [.bind 6 "z".toList false (.atom "1".toList) [] []],
        bodyBefore := [7], bodyAfter := [], afterLet := none }],
    next := 7 }

example : (collectScopeLayers ex3).length = 3 ∧ LayersNormal ex3 := by
  refine ⟨by decide, ?_, fun h => by cases h⟩
  intro l hl
  have : l ∈ ex3.stack := hl
  simp only [ex3, List.mem_cons, List.not_mem_nil, or_false] at this
  rcases this with rfl | rfl <;> rfl
example : ∀ i, i < 3 → layerSeparated ex3 i = true ∧
    ((collectScopeLayers ex3)[i]?.map Layer.plain) = some true := by decide
/-- `@@x` edits the middle layer's `x` and nothing else; `@@@x` the outermost one -/
example :
    (setValue "@@x".toList (.one (.atom "9".toList)) ex3).1 = .ok () ∧
    (collectScopeLayers (setValue "@@x".toList (.one (.atom "9".toList)) ex3).2).map Layer.scope =
      [[.bind 3 "x".toList false (.atom "1".toList) [] []],
       [.bind 4 "x".toList false (.atom "9".toList) [] [],
        .bind 5 "y".toList false (.atom "3".toList) [0] []],
       [.bind 6 "z".toList false (.atom "1".toList) [] []]] ∧
    (collectScopeLayers (setValue "@@@x".toList (.one (.atom "9".toList)) ex3).2).map Layer.scope =
      [[.bind 3 "x".toList false (.atom "9".toList) [] []],
       [.bind 4 "x".toList false (.atom "2".toList) [] [],
        .bind 5 "y".toList false (.atom "3".toList) [0] []],
       [.bind 6 "z".toList false (.atom "1".toList) [] []]] := by decide
/-- `rm @z` deletes the innermost layer and only it; `@@@@x` names no layer -/
example :
    (removeValue "@z".toList ex3).1 = .ok () ∧
    collectScopeLayers (removeValue "@z".toList ex3).2 = (collectScopeLayers ex3).eraseIdx 2 ∧
    (removeValue "@z".toList ex3).2.target = ex3.target ∧
    setValue "@@@@x".toList (.one (.atom "9".toList)) ex3 = (.error .value, ex3) := by decide
/-- creation on a document without layers -/
example :
    collectScopeLayers (setValue "@n".toList (.one (.atom "1".toList))
      { target := ex3.target, tBefore := [5], next := 7 }).2 =
      [{ scope := [.bind 8 "n".toList false (.atom "1".toList) [] []], order := [],
         bodyBefore := [5], bodyAfter := [], afterLet := none }] := by decide

/-! ## For the repaired code (`NameCmp.model`, i.e. lookups through `_same_attr_name`)

Everything above is stated for the name comparison by spelling (`NameCmp.spelled`, declared at the head
of this file). `setValue_model_eq_spelled` / `removeValue_model_eq_spelled` (Lemmas/NameAgree.lean) make
it a statement about the model of the repaired code under the decidable side condition
`NameAgree.noSpellingClash d p`: among the name tokens of the document and the keys of the path no two are
different spellings of one Nix name. The single-operation theorems restated that way (hypotheses about
lookups keep the comparison by spelling, which is the code's on such inputs): -/

theorem repaired_set_is_spelled (p : Text) (v : ValueArg) (d : Doc) (hns : NameAgree.noSpellingClash d p) :
    @setValue NameCmp.model p v d = setValue p v d := NameAgree.setValue_model_eq_spelled p v d hns

theorem repaired_rm_is_spelled (p : Text) (d : Doc) (hns : NameAgree.noSpellingClash d p) :
    @removeValue NameCmp.model p d = removeValue p d := NameAgree.removeValue_model_eq_spelled p d hns

theorem scoped_set_existing_layer_repaired (d : Doc) (k : Nat) (name : Text) (v : Node)
    (hn : d.noTarget = none) (hk : 1 ≤ k) (hne : name ≠ []) (hh : name.head? ≠ some '@')
    (hkn : k ≤ (collectScopeLayers d).length)
    (hns : NameAgree.noSpellingClash d (atSigns k ++ name)) :
    ∃ l us, pyNeg (collectScopeLayers d) k = some l ∧
      (∀ u ∈ us, u.Allowed true (fun _ => True) (l.fpSet d.next)) ∧
      (setValueInAttrset (layerAsSet d.next l) false name v (scratchDoc d l)).2 =
        applyAll us (scratchDoc d l) ∧
      (@setValue NameCmp.model (atSigns k ++ name) (.one v) d).1 =
        (setValueInAttrset (layerAsSet d.next l) false name v (scratchDoc d l)).1 ∧
      ((@setValue NameCmp.model (atSigns k ++ name) (.one v) d).1 = .ok () →
        let d' := (@setValue NameCmp.model (atSigns k ++ name) (.one v) d).2
        let S' := applyAllNode us (layerAsSet d.next l)
        collectScopeLayers d' =
          listSet ((collectScopeLayers d).map (applyAllLayer us)) ((collectScopeLayers d).length - k)
            { applyAllLayer us l with scope := S'.setValues, order := S'.setOrder } ∧
        d'.target = applyAllNode us d.target ∧ d'.noTarget = d.noTarget ∧ d'.tBefore = d.tBefore ∧
        d'.tAfter = d.tAfter ∧ d'.trailing = d.trailing ∧ d'.scratch = none) := by
  simp only [NameAgree.setValue_model_eq_spelled (atSigns k ++ name) _ d hns, NameAgree.removeValue_model_eq_spelled (atSigns k ++ name) d hns] at *
  exact scoped_set_existing_layer d k name v hn hk hne hh hkn

theorem scoped_set_frame_partial_repaired (d : Doc) (k : Nat) (name : Text) (v : Node)
    (hn : d.noTarget = none) (hk : 1 ≤ k) (hne : name ≠ []) (hh : name.head? ≠ some '@')
    (hkn : k ≤ (collectScopeLayers d).length) {l : Layer}
    (hl : (collectScopeLayers d)[(collectScopeLayers d).length - k]? = some l)
    (hplain : l.plain = true)
    (hsep : layerSeparated d ((collectScopeLayers d).length - k) = true)
    (hok : (@setValue NameCmp.model (atSigns k ++ name) (.one v) d).1 = .ok ())
    (hns : NameAgree.noSpellingClash d (atSigns k ++ name)) :
    let d' := (@setValue NameCmp.model (atSigns k ++ name) (.one v) d).2
    (∀ j, j ≠ (collectScopeLayers d).length - k →
      (collectScopeLayers d')[j]? = (collectScopeLayers d)[j]?) ∧
    (collectScopeLayers d').length = (collectScopeLayers d).length ∧
    (∃ l', (collectScopeLayers d')[(collectScopeLayers d).length - k]? = some l' ∧
      l'.bodyBefore = l.bodyBefore ∧ l'.bodyAfter = l.bodyAfter ∧ l'.afterLet = l.afterLet ∧
      l'.scope.length ≥ l.scope.length) ∧
    d'.target = d.target ∧ d'.tBefore = d.tBefore ∧ d'.tAfter = d.tAfter ∧
    d'.trailing = d.trailing := by
  simp only [NameAgree.setValue_model_eq_spelled (atSigns k ++ name) _ d hns, NameAgree.removeValue_model_eq_spelled (atSigns k ++ name) d hns] at *
  exact scoped_set_frame_partial d k name v hn hk hne hh hkn hl hplain hsep hok

theorem scoped_set_binds_in_layer_repaired (d : Doc) (k : Nat) (name seg : Text) (v : Node)
    (hn : d.noTarget = none) (hk : 1 ≤ k) (hne : name ≠ []) (hh : name.head? ≠ some '@')
    (hkn : k ≤ (collectScopeLayers d).length) {l : Layer}
    (hl : (collectScopeLayers d)[(collectScopeLayers d).length - k]? = some l)
    (hfmt : formatNPath currentAnchor name = .ok [seg]) (hplain : l.plain = true)
    (hok : (@setValue NameCmp.model (atSigns k ++ name) (.one v) d).1 = .ok ())
    (hns : NameAgree.noSpellingClash d (atSigns k ++ name)) :
    ∃ l' b, (collectScopeLayers (@setValue NameCmp.model (atSigns k ++ name) (.one v) d).2)[
        (collectScopeLayers d).length - k]? = some l' ∧
      findBinding l'.scope seg = some b ∧ b.bindValue? = some v ∧
      keysOf l'.scope =
        if (findBinding l.scope seg).isSome then keysOf l.scope else keysOf l.scope ++ [seg] := by
  simp only [NameAgree.setValue_model_eq_spelled (atSigns k ++ name) _ d hns, NameAgree.removeValue_model_eq_spelled (atSigns k ++ name) d hns] at *
  exact scoped_set_binds_in_layer d k name seg v hn hk hne hh hkn hl hfmt hplain hok

theorem scoped_missing_layer_set_repaired (d : Doc) (k : Nat) (name : Text) (v : Node)
    (hn : d.noTarget = none) (hk : 1 ≤ k) (hne : name ≠ []) (hh : name.head? ≠ some '@')
    (hkn : (collectScopeLayers d).length < k)
    (hnot : ¬ ((collectScopeLayers d).length = 0 ∧ k = 1))
    (hns : NameAgree.noSpellingClash d (atSigns k ++ name)) :
    @setValue NameCmp.model (atSigns k ++ name) (.one v) d = (.error .value, d) := by
  simp only [NameAgree.setValue_model_eq_spelled (atSigns k ++ name) _ d hns, NameAgree.removeValue_model_eq_spelled (atSigns k ++ name) d hns] at *
  exact scoped_missing_layer_set d k name v hn hk hne hh hkn hnot

theorem scoped_missing_layer_rm_repaired (d : Doc) (k : Nat) (name : Text) (hn : d.noTarget = none)
    (hk : 1 ≤ k) (hne : name ≠ []) (hh : name.head? ≠ some '@')
    (hkn : (collectScopeLayers d).length < k)
    (hns : NameAgree.noSpellingClash d (atSigns k ++ name)) :
    @removeValue NameCmp.model (atSigns k ++ name) d = (.error .value, d) := by
  simp only [NameAgree.setValue_model_eq_spelled (atSigns k ++ name) _ d hns, NameAgree.removeValue_model_eq_spelled (atSigns k ++ name) d hns] at *
  exact scoped_missing_layer_rm d k name hn hk hne hh hkn

theorem scoped_rm_layer_repaired (d : Doc) (k : Nat) (name : Text) (hn : d.noTarget = none)
    (hk : 1 ≤ k) (hne : name ≠ []) (hh : name.head? ≠ some '@')
    (hkn : k ≤ (collectScopeLayers d).length)
    (hns : NameAgree.noSpellingClash d (atSigns k ++ name)) :
    ∃ l us, pyNeg (collectScopeLayers d) k = some l ∧
      (∀ u ∈ us, u.Allowed false l.fpBind (l.fpSet d.next)) ∧
      (removeValueInAttrset (layerAsSet d.next l) name (scratchDoc d l)).2 =
        applyAll us (scratchDoc d l) ∧
      (@removeValue NameCmp.model (atSigns k ++ name) d).1 =
        (removeValueInAttrset (layerAsSet d.next l) name (scratchDoc d l)).1 ∧
      ((@removeValue NameCmp.model (atSigns k ++ name) d).1 = .ok () →
        let d' := (@removeValue NameCmp.model (atSigns k ++ name) d).2
        let S' := applyAllNode us (layerAsSet d.next l)
        let L' := (collectScopeLayers d).map (applyAllLayer us)
        let idx := (collectScopeLayers d).length - k
        (S'.setValues = [] → collectScopeLayers d' = L'.eraseIdx idx ∧
          ((collectScopeLayers d).length ≠ 1 → d'.tBefore = d.tBefore ∧ d'.tAfter = d.tAfter) ∧
          ((collectScopeLayers d).length = 1 →
            d'.tBefore = (if l.bodyBefore.isEmpty then d.tBefore else l.bodyBefore) ∧
            d'.tAfter = l.bodyAfter ++ d.tAfter.filter (!l.bodyAfter.contains ·))) ∧
        (S'.setValues ≠ [] → collectScopeLayers d' =
            listSet L' idx { applyAllLayer us l with scope := S'.setValues, order := S'.setOrder } ∧
          d'.tBefore = d.tBefore ∧ d'.tAfter = d.tAfter) ∧
        d'.target = applyAllNode us d.target ∧ d'.noTarget = d.noTarget ∧ d'.scratch = none) := by
  simp only [NameAgree.setValue_model_eq_spelled (atSigns k ++ name) _ d hns, NameAgree.removeValue_model_eq_spelled (atSigns k ++ name) d hns] at *
  exact scoped_rm_layer d k name hn hk hne hh hkn

theorem scoped_rm_prunes_exactly_repaired (d : Doc) (k : Nat) (name : Text) (hn : d.noTarget = none)
    (hk : 1 ≤ k) (hne : name ≠ []) (hh : name.head? ≠ some '@')
    (hkn : k ≤ (collectScopeLayers d).length) {l : Layer}
    (hl : (collectScopeLayers d)[(collectScopeLayers d).length - k]? = some l)
    (hsep : layerSeparated d ((collectScopeLayers d).length - k) = true)
    (hok : (@removeValue NameCmp.model (atSigns k ++ name) d).1 = .ok ())
    (hns : NameAgree.noSpellingClash d (atSigns k ++ name)) :
    let d' := (@removeValue NameCmp.model (atSigns k ++ name) d).2
    let idx := (collectScopeLayers d).length - k
    d'.target = d.target ∧
    (collectScopeLayers d' = (collectScopeLayers d).eraseIdx idx ∨
      ((∀ j, j ≠ idx → (collectScopeLayers d')[j]? = (collectScopeLayers d)[j]?) ∧
       (collectScopeLayers d').length = (collectScopeLayers d).length ∧
       ∃ l', (collectScopeLayers d')[idx]? = some l' ∧ l'.scope ≠ [] ∧
         l'.bodyBefore = l.bodyBefore ∧ l'.bodyAfter = l.bodyAfter ∧ l'.afterLet = l.afterLet ∧
         d'.tBefore = d.tBefore ∧ d'.tAfter = d.tAfter)) := by
  simp only [NameAgree.setValue_model_eq_spelled (atSigns k ++ name) _ d hns, NameAgree.removeValue_model_eq_spelled (atSigns k ++ name) d hns] at *
  exact scoped_rm_prunes_exactly d k name hn hk hne hh hkn hl hsep hok

theorem scoped_rm_unbinds_in_layer_repaired (d : Doc) (k : Nat) (name seg : Text)
    (hn : d.noTarget = none) (hk : 1 ≤ k) (hne : name ≠ []) (hh : name.head? ≠ some '@')
    (hkn : k ≤ (collectScopeLayers d).length) {l : Layer}
    (hl : (collectScopeLayers d)[(collectScopeLayers d).length - k]? = some l)
    (hfmt : formatNPath currentAnchor name = .ok [seg]) (hdist : DistinctItems l.scope = true)
    (hok : (@removeValue NameCmp.model (atSigns k ++ name) d).1 = .ok ())
    (hns : NameAgree.noSpellingClash d (atSigns k ++ name)) :
    ∃ b l₁ l₂, l.scope = l₁ ++ b :: l₂ ∧ b.isBind = true ∧ b.bindName? = some seg ∧
      (l₁ ++ l₂ ≠ [] →
        ∃ l', (collectScopeLayers (@removeValue NameCmp.model (atSigns k ++ name) d).2)[
            (collectScopeLayers d).length - k]? = some l' ∧ l'.scope = l₁ ++ l₂ ∧
          ((keysOf l.scope).count seg ≤ 1 → findBinding l'.scope seg = none)) ∧
      (l₁ ++ l₂ = [] →
        (collectScopeLayers (@removeValue NameCmp.model (atSigns k ++ name) d).2).length =
          (collectScopeLayers d).length - 1) := by
  simp only [NameAgree.setValue_model_eq_spelled (atSigns k ++ name) _ d hns, NameAgree.removeValue_model_eq_spelled (atSigns k ++ name) d hns] at *
  exact scoped_rm_unbinds_in_layer d k name seg hn hk hne hh hkn hl hfmt hdist hok

end Nima.C09
