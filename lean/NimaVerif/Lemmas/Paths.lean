import NimaVerif.Model.Paths
/-!
Helper lemmas for C17: path resolution is compositional (a walk can be cut anywhere), a located
regular file sits directly inside the directory the walk reached before its last component, and
the two consequences for import hops.
-/
namespace Nima

/-! ## Directories -/

theorem isPrefixOf_dropLast {α} [BEq α] [LawfulBEq α] (d p : List α) (h : d.isPrefixOf p = true) :
    d.dropLast.isPrefixOf p = true := by
  rw [List.isPrefixOf_iff_prefix] at *
  exact List.IsPrefix.trans (List.dropLast_prefix d) h

theorem FS.isDir_dropLast (fs : FS) (d : List Comp) (h : fs.isDir d = true) :
    fs.isDir d.dropLast = true := by
  unfold FS.isDir at *
  simp only [Bool.or_eq_true, List.any_eq_true, Bool.and_eq_true, decide_eq_true_eq] at *
  rcases h with (h | ⟨p, hp, hpre⟩) | ⟨e, he, hpre, hlen⟩
  · left; left
    cases d with
    | nil => rfl
    | cons a as => simp at h
  · left; right
    exact ⟨p, hp, isPrefixOf_dropLast d p hpre⟩
  · right
    refine ⟨e, he, isPrefixOf_dropLast d e.1 hpre, ?_⟩
    have := List.length_dropLast (xs := d)
    omega

theorem FS.isFile_not_isDir (fs : FS) (p : List Comp) (h : fs.isFile p = true) : fs.isDir p = false := by
  unfold FS.isFile at h
  simp only [Bool.and_eq_true, Bool.not_eq_eq_eq_not, Bool.not_true] at h
  exact h.1

/-! ## Walks -/

theorem FS.walk_append (fs : FS) (cur : List Comp) (a b : List Comp) :
    fs.walk cur (a ++ b) = match fs.walk cur a with
      | .ok n => fs.walk n b
      | .error e => .error e := by
  induction a generalizing cur with
  | nil => simp [FS.walk]
  | cons c cs ih =>
    simp only [List.cons_append, FS.walk]
    cases fs.step cur c with
    | error e => rfl
    | ok n => exact ih n

theorem FS.walk_snoc (fs : FS) (cur : List Comp) (init : List Comp) (last : Comp) :
    fs.walk cur (init ++ [last]) = match fs.walk cur init with
      | .ok d => fs.step d last
      | .error e => .error e := by
  rw [FS.walk_append]
  cases fs.walk cur init with
  | error e => rfl
  | ok d =>
    simp only [FS.walk]
    cases fs.step d last <;> rfl

/-- Every error of the OS view is an `OSError`. -/
theorem FS.step_error (fs : FS) (cur : List Comp) (c : Comp) (e : Err)
    (h : fs.step cur c = .error e) : e = .os := by
  unfold FS.step at h
  split at h
  · injection h with h; exact h.symm
  · split at h
    · cases h
    · split at h
      · cases h
      · split at h
        · cases h
        · injection h with h; exact h.symm

theorem FS.walk_error (fs : FS) (cur : List Comp) (cs : List Comp) (e : Err)
    (h : fs.walk cur cs = .error e) : e = .os := by
  induction cs generalizing cur with
  | nil => simp [FS.walk] at h
  | cons c cs ih =>
    simp only [FS.walk] at h
    cases hs : fs.step cur c with
    | error e' =>
      rw [hs] at h
      injection h with h
      subst h
      exact fs.step_error cur c _ hs
    | ok n =>
      rw [hs] at h
      exact ih n h

theorem FS.locateFrom_error (fs : FS) (start cs : List Comp) (e : Err)
    (h : fs.locateFrom start cs = .error e) : e = .os := by
  unfold FS.locateFrom at h
  split at h
  · injection h with h; exact h.symm
  · split at h
    · split at h
      · cases h
      · injection h with h; exact h.symm
    · rename_i e' hw
      injection h with h
      subst h
      exact fs.walk_error start cs _ hw

/-- What a successful step from a directory to a regular file looks like: the file is a child of
    that directory (`.` and `..` lead to directories, never to files). -/
theorem FS.step_to_file (fs : FS) (d : List Comp) (c : Comp) (file : List Comp)
    (h : fs.step d c = .ok file) (hf : fs.isFile file = true) :
    fs.isDir d = true ∧ file.dropLast = d := by
  unfold FS.step at h
  split at h
  · cases h
  · rename_i hd
    have hd' : fs.isDir d = true := by simpa using hd
    split at h
    · injection h with h
      subst h
      rw [fs.isFile_not_isDir d hf] at hd'
      cases hd'
    · split at h
      · injection h with h
        subst h
        have := fs.isDir_dropLast d hd'
        rw [fs.isFile_not_isDir _ hf] at this
        cases this
      · split at h
        · injection h with h
          subst h
          exact ⟨hd', by simp⟩
        · cases h

/-- A located file: the components are `init ++ [last]`, the walk over `init` reaches the
    directory that contains the file. -/
theorem FS.locateFrom_ok (fs : FS) (start comps file : List Comp)
    (h : fs.locateFrom start comps = .ok file) :
    fs.isDir start = true ∧ fs.isFile file = true ∧
    ∃ d, fs.walk start comps.dropLast = .ok d ∧ fs.isDir d = true ∧ file.dropLast = d ∧
      comps ≠ [] := by
  unfold FS.locateFrom at h
  split at h
  · cases h
  · rename_i hs
    have hs' : fs.isDir start = true := by simpa using hs
    split at h
    · rename_i n hw
      split at h
      · rename_i hfile
        injection h with h
        subst h
        refine ⟨hs', hfile, ?_⟩
        rcases List.eq_nil_or_concat comps with rfl | ⟨init, last, rfl⟩
        · simp only [FS.walk] at hw
          injection hw with hw
          subst hw
          rw [fs.isFile_not_isDir _ hfile] at hs'
          cases hs'
        · simp only [List.concat_eq_append] at hw ⊢
          rw [FS.walk_snoc] at hw
          cases hwi : fs.walk start init with
          | error e => rw [hwi] at hw; cases hw
          | ok d =>
            rw [hwi] at hw
            simp only at hw
            obtain ⟨hd, hdrop⟩ := fs.step_to_file d last n hw hfile
            refine ⟨d, ?_, hd, hdrop, by simp⟩
            simpa using hwi
      · cases h
    · cases h

/-- THE hop lemma. If the OS locates `src` (as spelled, relative to `start`) at `file`, then any
    further components appended to the *lexical* parent of `src` are resolved exactly as if one
    started in the directory that really contains `file`. -/
theorem FS.hop (fs : FS) (start comps file : List Comp)
    (h : fs.locateFrom start comps = .ok file) (cs : List Comp) :
    fs.locateFrom start (comps.dropLast ++ cs) = fs.locateFrom file.dropLast cs := by
  obtain ⟨hs, _, d, hw, hd, hdrop, _⟩ := fs.locateFrom_ok start comps file h
  subst hdrop
  unfold FS.locateFrom
  simp only [hs, hd, Bool.not_true, Bool.false_eq_true, if_false]
  rw [FS.walk_append, hw]

/-! ## Lexical normalisation: whenever the OS walk succeeds (no symlinks), it ends where the
purely lexical collapse of `.`/`..` ends. -/

theorem FS.step_lex (fs : FS) (cur : List Comp) (c : Comp) (n : List Comp)
    (h : fs.step cur c = .ok n) : n = pathLexStep cur c := by
  unfold FS.step at h
  unfold pathLexStep
  split at h
  · cases h
  · split at h
    · rename_i hc
      injection h with h
      simp [hc, h]
    · rename_i hc
      split at h
      · rename_i hc2
        injection h with h
        simp [hc, hc2, h]
      · rename_i hc2
        split at h
        · injection h with h
          simp [hc, hc2, h]
        · cases h

theorem FS.walk_lex (fs : FS) (cur cs n : List Comp) (h : fs.walk cur cs = .ok n) :
    n = lexNorm cur cs := by
  induction cs generalizing cur with
  | nil =>
    simp only [FS.walk] at h
    injection h with h
    simp [lexNorm, h]
  | cons c cs ih =>
    simp only [FS.walk] at h
    cases hs : fs.step cur c with
    | error e => rw [hs] at h; cases h
    | ok m =>
      rw [hs] at h
      have := ih m h
      rw [this, fs.step_lex cur c m hs]
      simp [lexNorm]

theorem FS.locateFrom_lex (fs : FS) (start cs n : List Comp) (h : fs.locateFrom start cs = .ok n) :
    n = lexNorm start cs := by
  unfold FS.locateFrom at h
  split at h
  · cases h
  · split at h
    · rename_i m hw
      split at h
      · injection h with h
        subst h
        exact fs.walk_lex start cs m hw
      · cases h
    · cases h

/-! ## `~/` literals -/

theorem isHome_cases (t : Text) (h : isHome t = true) : ∃ rest, t = '~' :: '/' :: rest := by
  unfold isHome at h
  match t, h with
  | [], h => simp [List.isPrefixOf] at h
  | [a], h => simp [List.isPrefixOf] at h
  | a :: b :: rest, h =>
    simp only [List.isPrefixOf, Bool.and_eq_true, beq_iff_eq, Bool.and_true] at h
    exact ⟨rest, by rw [← h.1, ← h.2]⟩

theorem parsePath_home (rest : Text) :
    parsePath ('~' :: '/' :: rest) = ⟨false, ['~'] :: (parsePath rest).comps⟩ := by
  have hs : splitSlash ('~' :: '/' :: rest) = ['~'] :: splitSlash rest := by
    simp [splitSlash]
  unfold parsePath
  rw [hs]
  simp [List.filter]

/-- `Path("~/x").expanduser()` is the home path followed by the components of `x`. -/
theorem expanduser_home (home : PPath) (t : Text) (h : isHome t = true) :
    (parsePath t).expanduser home = .ok ⟨home.abs, home.comps ++ (parsePath (t.drop 2)).comps⟩ := by
  obtain ⟨rest, rfl⟩ := isHome_cases t h
  rw [parsePath_home]
  simp [PPath.expanduser]

/-- A literal that is neither `<…>` nor `~/…`: resolved from the directory of the importing file
    (from the root when absolute). -/
theorem specTarget_rel (fs : FS) (home : PPath) (cwd file : List Comp) (t : Text)
    (hang : isAngle t = false) (hh : isHome t = false) :
    specTarget fs home cwd file t =
      fs.locateFrom (if (parsePath t).abs then [] else file.dropLast) (parsePath t).comps := by
  simp [specTarget, hang, hh]

/-- A `~/x` literal: the OS's reading of `$HOME/x`. -/
theorem specTarget_home (fs : FS) (home : PPath) (cwd file : List Comp) (t : Text)
    (hang : isAngle t = false) (hh : isHome t = true) :
    specTarget fs home cwd file t =
      fs.locateFrom (if home.abs then [] else cwd) (home.comps ++ (parsePath (t.drop 2)).comps) := by
  simp [specTarget, hang, hh, FS.locate]

/-- Every error of `specTarget` on a literal that is not `<…>` is an `OSError`. -/
theorem specTarget_error (fs : FS) (home : PPath) (cwd file : List Comp) (t : Text) (e : Err)
    (hang : isAngle t = false) (h : specTarget fs home cwd file t = .error e) : e = .os := by
  cases hh : isHome t with
  | true =>
    rw [specTarget_home fs home cwd file t hang hh] at h
    exact fs.locateFrom_error _ _ _ h
  | false =>
    rw [specTarget_rel fs home cwd file t hang hh] at h
    exact fs.locateFrom_error _ _ _ h

/-! ## A canonical home directory: `$HOME/x` is `x` resolved from that directory. -/

theorem FS.isDir_prefix (fs : FS) (a b : List Comp) (h : fs.isDir (a ++ b) = true) :
    fs.isDir a = true := by
  unfold FS.isDir at *
  simp only [Bool.or_eq_true, List.any_eq_true, Bool.and_eq_true, decide_eq_true_eq,
    List.isPrefixOf_iff_prefix] at *
  have hpre : a <+: a ++ b := List.prefix_append a b
  rcases h with (h | ⟨p, hp, hpp⟩) | ⟨e, he, hpp, hlen⟩
  · left; left
    cases a with
    | nil => rfl
    | cons x xs => simp at h
  · left; right
    exact ⟨p, hp, hpre.trans hpp⟩
  · right
    refine ⟨e, he, hpre.trans hpp, ?_⟩
    simp only [List.length_append] at hlen
    omega

/-- Walking down existing directories by their names arrives where the names say. -/
theorem FS.walk_canonical (fs : FS) (cur cs : List Comp) (hd : fs.isDir (cur ++ cs) = true)
    (hc : canonical cs = true) : fs.walk cur cs = .ok (cur ++ cs) := by
  induction cs generalizing cur with
  | nil => simp [FS.walk]
  | cons c cs ih =>
    have hcur : fs.isDir cur = true := fs.isDir_prefix cur (c :: cs) hd
    have hnext : fs.isDir (cur ++ [c]) = true := by
      apply fs.isDir_prefix (cur ++ [c]) cs
      simpa using hd
    simp only [canonical, List.all_cons, Bool.and_eq_true, Bool.not_eq_eq_eq_not, Bool.not_true,
      Bool.or_eq_false_iff] at hc
    obtain ⟨⟨hdot, hdd⟩, hrest⟩ := hc
    have hstep : fs.step cur c = .ok (cur ++ [c]) := by
      simp [FS.step, hcur, hdot, hdd, hnext]
    simp only [FS.walk, hstep]
    have := ih (cur ++ [c]) (by simpa using hd) (by simpa [canonical] using hrest)
    simpa using this

/-- THE home lemma: for a canonical existing home directory `h`, the OS's reading of the absolute
    path `h/x` is `x` resolved from the directory `h`. -/
theorem FS.home_hop (fs : FS) (h cs : List Comp) (hd : fs.isDir h = true) (hc : canonical h = true) :
    fs.locateFrom [] (h ++ cs) = fs.locateFrom h cs := by
  have hw : fs.walk [] h = .ok h := by
    have := fs.walk_canonical [] h (by simpa using hd) hc
    simpa using this
  unfold FS.locateFrom
  have h0 : fs.isDir [] = true := by simp [FS.isDir]
  simp only [h0, hd, Bool.not_true, Bool.false_eq_true, if_false]
  rw [FS.walk_append, hw]

theorem noHomeL_lookup (bs : List (Text × Val)) (k : Text) (v : Val)
    (h : noHomeL bs = true) (hk : bs.lookup k = some v) : v.noHome = true := by
  induction bs with
  | nil => simp at hk
  | cons b bs ih =>
    obtain ⟨k', v'⟩ := b
    simp only [noHomeL, Bool.and_eq_true] at h
    simp only [List.lookup] at hk
    split at hk
    · injection hk with hk
      subst hk
      exact h.1
    · exact ih h.2 hk

theorem resolveArg_noHome (a : Arg) (t : Text) (h : a.noHome = true) (hr : resolveArg a = .path t) :
    isHome t = false := by
  induction a with
  | path t' =>
    simp only [resolveArg] at hr
    injection hr with hr
    subst hr
    simpa [Arg.noHome] using h
  | paren a ih =>
    simp only [resolveArg] at hr
    exact ih (by simpa [Arg.noHome] using h) hr
  | other => simp [resolveArg] at hr

theorem lookup_mem {α β} [BEq α] [LawfulBEq α] (l : List (α × β)) (k : α) (v : β)
    (h : l.lookup k = some v) : (k, v) ∈ l := by
  induction l with
  | nil => simp at h
  | cons b l ih =>
    obtain ⟨k', v'⟩ := b
    simp only [List.lookup] at h
    split at h
    · rename_i heq
      injection h with h
      subst h
      have : k = k' := by simpa using heq
      subst this
      simp
    · exact List.mem_cons_of_mem _ (ih h)

theorem FS.content_noHome (fs : FS) (h : fs.noHome = true) (n : List Comp) :
    (fs.content n).noHome = true := by
  unfold FS.content
  cases hl : fs.files.lookup n with
  | none => rfl
  | some c =>
    have hm := lookup_mem _ _ _ hl
    unfold FS.noHome at h
    rw [List.all_eq_true] at h
    exact h _ hm

/-! ## When the home path and the working directory cannot matter to the SPEC: an absolute home
path makes the working directory irrelevant; a filesystem without `~/` literals makes both
irrelevant. -/

theorem specGet_congr (fs : FS) (home₁ home₂ : PPath) (cwd₁ cwd₂ : List Comp)
    (hh : (home₁ = home₂ ∧ home₁.abs = true) ∨ fs.noHome = true) (ks : List Text) :
    ∀ (file : List Comp) (v : Val), (fs.noHome = true → v.noHome = true) →
      specGet fs home₁ cwd₁ file v ks = specGet fs home₂ cwd₂ file v ks := by
  induction ks with
  | nil => intro file v _; cases v <;> simp [specGet]
  | cons k ks ih =>
    intro file v hv
    cases v with
    | lit n => simp [specGet]
    | set bs =>
      simp only [specGet, getKey]
      cases hl : bs.lookup k with
      | none => rfl
      | some v =>
        simp only
        exact ih file v (fun hno => noHomeL_lookup bs k v (by simpa [Val.noHome] using hv hno) hl)
    | imp a =>
      simp only [specGet]
      cases hra : resolveArg a with
      | paren b => rfl
      | other => rfl
      | path t =>
        have hst : specTarget fs home₁ cwd₁ file t = specTarget fs home₂ cwd₂ file t := by
          rcases hh with ⟨rfl, habs⟩ | hno
          · simp [specTarget, FS.locate, habs]
          · have : isHome t = false :=
              resolveArg_noHome a t (by simpa [Val.noHome] using hv hno) hra
            simp [specTarget, this]
        simp only [hst]
        cases specTarget fs home₂ cwd₂ file t with
        | error e => rfl
        | ok n =>
          simp only [specEnter]
          cases hcn : fs.content n with
          | notSet => rfl
          | attrs bs =>
            simp only [topSet, getKey]
            cases hl : bs.lookup k with
            | none => rfl
            | some v =>
              simp only
              refine ih n v (fun hno => ?_)
              have hc := fs.content_noHome hno n
              rw [hcn] at hc
              exact noHomeL_lookup bs k v (by simpa [Content.noHome] using hc) hl

theorem specFrom_congr (fs : FS) (home₁ home₂ : PPath) (cwd₁ cwd₂ : List Comp) (e₁ e₂ k : Text)
    (ks : List Text) (hh : (home₁ = home₂ ∧ home₁.abs = true) ∨ fs.noHome = true)
    (h : fs.locate cwd₁ (parsePath e₁) = fs.locate cwd₂ (parsePath e₂)) :
    specFrom fs home₁ cwd₁ e₁ k ks = specFrom fs home₂ cwd₂ e₂ k ks := by
  unfold specFrom specLookup specEnter
  rw [h]
  cases fs.locate cwd₂ (parsePath e₂) with
  | error e => rfl
  | ok file =>
    simp only
    cases hcn : fs.content file with
    | notSet => rfl
    | attrs bs =>
      simp only [topSet, getKey]
      cases hl : bs.lookup k with
      | none => rfl
      | some v =>
        simp only
        refine specGet_congr fs home₁ home₂ cwd₁ cwd₂ hh ks file v (fun hno => ?_)
        have hc := fs.content_noHome hno file
        rw [hcn] at hc
        exact noHomeL_lookup bs k v (by simpa [Content.noHome] using hc) hl

end Nima
