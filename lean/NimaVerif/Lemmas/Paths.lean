import NimaVerif.Model.Paths
/-!
Helper lemmas for C17: path resolution is compositional (a walk can be cut anywhere), a located
regular file sits directly inside the directory the walk reached before its last component, and
the two consequences for import hops.
-/
namespace Nima

/-! ## Directories -/

theorem isPrefixOf_dropLast {α} [BEq α] [LawfulBEq α] (d p : List α) (h : d.isPrefixOf p = true) :
    d.dropLast.isPrefixOf p = true := by
  rw [List.isPrefixOf_iff_prefix] at *
  exact List.IsPrefix.trans (List.dropLast_prefix d) h

theorem FS.isDir_dropLast (fs : FS) (d : List Comp) (h : fs.isDir d = true) :
    fs.isDir d.dropLast = true := by
  unfold FS.isDir at *
  simp only [Bool.or_eq_true, List.any_eq_true, Bool.and_eq_true, decide_eq_true_eq] at *
  rcases h with (h | ⟨p, hp, hpre⟩) | ⟨e, he, hpre, hlen⟩
  · left; left
    cases d with
    | nil => rfl
    | cons a as => simp at h
  · left; right
    exact ⟨p, hp, isPrefixOf_dropLast d p hpre⟩
  · right
    refine ⟨e, he, isPrefixOf_dropLast d e.1 hpre, ?_⟩
    have := List.length_dropLast (xs := d)
    omega

theorem FS.isFile_not_isDir (fs : FS) (p : List Comp) (h : fs.isFile p = true) : fs.isDir p = false := by
  unfold FS.isFile at h
  simp only [Bool.and_eq_true, Bool.not_eq_eq_eq_not, Bool.not_true] at h
  exact h.1

/-! ## Walks -/

theorem FS.walk_append (fs : FS) (cur : List Comp) (a b : List Comp) :
    fs.walk cur (a ++ b) = match fs.walk cur a with
      | .ok n => fs.walk n b
      | .error e => .error e := by
  induction a generalizing cur with
  | nil => simp [FS.walk]
  | cons c cs ih =>
    simp only [List.cons_append, FS.walk]
    cases fs.step cur c with
    | error e => rfl
    | ok n => exact ih n

theorem FS.walk_snoc (fs : FS) (cur : List Comp) (init : List Comp) (last : Comp) :
    fs.walk cur (init ++ [last]) = match fs.walk cur init with
      | .ok d => fs.step d last
      | .error e => .error e := by
  rw [FS.walk_append]
  cases fs.walk cur init with
  | error e => rfl
  | ok d =>
    simp only [FS.walk]
    cases fs.step d last <;> rfl

/-- Every error of the OS view is an `OSError`. -/
theorem FS.step_error (fs : FS) (cur : List Comp) (c : Comp) (e : Err)
    (h : fs.step cur c = .error e) : e = .os := by
  unfold FS.step at h
  split at h
  · injection h with h; exact h.symm
  · split at h
    · cases h
    · split at h
      · cases h
      · split at h
        · cases h
        · injection h with h; exact h.symm

theorem FS.walk_error (fs : FS) (cur : List Comp) (cs : List Comp) (e : Err)
    (h : fs.walk cur cs = .error e) : e = .os := by
  induction cs generalizing cur with
  | nil => simp [FS.walk] at h
  | cons c cs ih =>
    simp only [FS.walk] at h
    cases hs : fs.step cur c with
    | error e' =>
      rw [hs] at h
      injection h with h
      subst h
      exact fs.step_error cur c _ hs
    | ok n =>
      rw [hs] at h
      exact ih n h

theorem FS.locateFrom_error (fs : FS) (start cs : List Comp) (e : Err)
    (h : fs.locateFrom start cs = .error e) : e = .os := by
  unfold FS.locateFrom at h
  split at h
  · injection h with h; exact h.symm
  · split at h
    · split at h
      · cases h
      · injection h with h; exact h.symm
    · rename_i e' hw
      injection h with h
      subst h
      exact fs.walk_error start cs _ hw

/-- What a successful step from a directory to a regular file looks like: the file is a child of
    that directory (`.` and `..` lead to directories, never to files). -/
theorem FS.step_to_file (fs : FS) (d : List Comp) (c : Comp) (file : List Comp)
    (h : fs.step d c = .ok file) (hf : fs.isFile file = true) :
    fs.isDir d = true ∧ file.dropLast = d := by
  unfold FS.step at h
  split at h
  · cases h
  · rename_i hd
    have hd' : fs.isDir d = true := by simpa using hd
    split at h
    · injection h with h
      subst h
      rw [fs.isFile_not_isDir d hf] at hd'
      cases hd'
    · split at h
      · injection h with h
        subst h
        have := fs.isDir_dropLast d hd'
        rw [fs.isFile_not_isDir _ hf] at this
        cases this
      · split at h
        · injection h with h
          subst h
          exact ⟨hd', by simp⟩
        · cases h

/-- A located file: the components are `init ++ [last]`, the walk over `init` reaches the
    directory that contains the file. -/
theorem FS.locateFrom_ok (fs : FS) (start comps file : List Comp)
    (h : fs.locateFrom start comps = .ok file) :
    fs.isDir start = true ∧ fs.isFile file = true ∧
    ∃ d, fs.walk start comps.dropLast = .ok d ∧ fs.isDir d = true ∧ file.dropLast = d ∧
      comps ≠ [] := by
  unfold FS.locateFrom at h
  split at h
  · cases h
  · rename_i hs
    have hs' : fs.isDir start = true := by simpa using hs
    split at h
    · rename_i n hw
      split at h
      · rename_i hfile
        injection h with h
        subst h
        refine ⟨hs', hfile, ?_⟩
        rcases List.eq_nil_or_concat comps with rfl | ⟨init, last, rfl⟩
        · simp only [FS.walk] at hw
          injection hw with hw
          subst hw
          rw [fs.isFile_not_isDir _ hfile] at hs'
          cases hs'
        · simp only [List.concat_eq_append] at hw ⊢
          rw [FS.walk_snoc] at hw
          cases hwi : fs.walk start init with
          | error e => rw [hwi] at hw; cases hw
          | ok d =>
            rw [hwi] at hw
            simp only at hw
            obtain ⟨hd, hdrop⟩ := fs.step_to_file d last n hw hfile
            refine ⟨d, ?_, hd, hdrop, by simp⟩
            simpa using hwi
      · cases h
    · cases h

/-- THE hop lemma. If the OS locates `src` (as spelled, relative to `start`) at `file`, then any
    further components appended to the *lexical* parent of `src` are resolved exactly as if one
    started in the directory that really contains `file`. -/
theorem FS.hop (fs : FS) (start comps file : List Comp)
    (h : fs.locateFrom start comps = .ok file) (cs : List Comp) :
    fs.locateFrom start (comps.dropLast ++ cs) = fs.locateFrom file.dropLast cs := by
  obtain ⟨hs, _, d, hw, hd, hdrop, _⟩ := fs.locateFrom_ok start comps file h
  subst hdrop
  unfold FS.locateFrom
  simp only [hs, hd, Bool.not_true, Bool.false_eq_true, if_false]
  rw [FS.walk_append, hw]

/-! ## Lexical normalisation: whenever the OS walk succeeds (no symlinks), it ends where the
purely lexical collapse of `.`/`..` ends. -/

theorem FS.step_lex (fs : FS) (cur : List Comp) (c : Comp) (n : List Comp)
    (h : fs.step cur c = .ok n) : n = pathLexStep cur c := by
  unfold FS.step at h
  unfold pathLexStep
  split at h
  · cases h
  · split at h
    · rename_i hc
      injection h with h
      simp [hc, h]
    · rename_i hc
      split at h
      · rename_i hc2
        injection h with h
        simp [hc, hc2, h]
      · rename_i hc2
        split at h
        · injection h with h
          simp [hc, hc2, h]
        · cases h

theorem FS.walk_lex (fs : FS) (cur cs n : List Comp) (h : fs.walk cur cs = .ok n) :
    n = lexNorm cur cs := by
  induction cs generalizing cur with
  | nil =>
    simp only [FS.walk] at h
    injection h with h
    simp [lexNorm, h]
  | cons c cs ih =>
    simp only [FS.walk] at h
    cases hs : fs.step cur c with
    | error e => rw [hs] at h; cases h
    | ok m =>
      rw [hs] at h
      have := ih m h
      rw [this, fs.step_lex cur c m hs]
      simp [lexNorm]

theorem FS.locateFrom_lex (fs : FS) (start cs n : List Comp) (h : fs.locateFrom start cs = .ok n) :
    n = lexNorm start cs := by
  unfold FS.locateFrom at h
  split at h
  · cases h
  · split at h
    · rename_i m hw
      split at h
      · injection h with h
        subst h
        exact fs.walk_lex start cs m hw
      · cases h
    · cases h

/-! ## `~/` literals -/

theorem specTarget_none (fs : FS) (file : List Comp) (t : Text) (hang : isAngle t = false) :
    specTarget fs none file t =
      fs.locateFrom (if (parsePath t).abs then [] else file.dropLast) (parsePath t).comps := by
  simp [specTarget, hang]

theorem noHomeL_lookup (bs : List (Text × Val)) (k : Text) (v : Val)
    (h : noHomeL bs = true) (hk : bs.lookup k = some v) : v.noHome = true := by
  induction bs with
  | nil => simp at hk
  | cons b bs ih =>
    obtain ⟨k', v'⟩ := b
    simp only [noHomeL, Bool.and_eq_true] at h
    simp only [List.lookup] at hk
    split at hk
    · injection hk with hk
      subst hk
      exact h.1
    · exact ih h.2 hk

theorem resolveArg_noHome (a : Arg) (t : Text) (h : a.noHome = true) (hr : resolveArg a = .path t) :
    isHome t = false := by
  induction a with
  | path t' =>
    simp only [resolveArg] at hr
    injection hr with hr
    subst hr
    simpa [Arg.noHome] using h
  | paren a ih =>
    simp only [resolveArg] at hr
    exact ih (by simpa [Arg.noHome] using h) hr
  | other => simp [resolveArg] at hr

theorem lookup_mem {α β} [BEq α] [LawfulBEq α] (l : List (α × β)) (k : α) (v : β)
    (h : l.lookup k = some v) : (k, v) ∈ l := by
  induction l with
  | nil => simp at h
  | cons b l ih =>
    obtain ⟨k', v'⟩ := b
    simp only [List.lookup] at h
    split at h
    · rename_i heq
      injection h with h
      subst h
      have : k = k' := by simpa using heq
      subst this
      simp
    · exact List.mem_cons_of_mem _ (ih h)

theorem FS.content_noHome (fs : FS) (h : fs.noHome = true) (n : List Comp) :
    (fs.content n).noHome = true := by
  unfold FS.content
  cases hl : fs.files.lookup n with
  | none => rfl
  | some c =>
    have hm := lookup_mem _ _ _ hl
    unfold FS.noHome at h
    rw [List.all_eq_true] at h
    exact h _ hm

end Nima
