#!/usr/bin/env python3
"""Triage helper, run by hand on the UNCHANGED tree (never by a registered command):

    /venv/bin/python tools/record_cases.py C18 [--tier thorough]

Runs the property's check in-process and records, for every open finding of known_findings.json,
the case ids of the enumerated inputs that fail because of it, in known_cases/<pid>.json. A later
run then accepts as "known" only those cases; a new failing case of a known call site is a violation.
The result is to be reviewed (git diff) and committed like known_findings.json itself."""
import importlib
import json
import sys
from pathlib import Path

ROOT = Path(__file__).resolve().parent.parent
sys.path.insert(0, str(ROOT))
from harness import framework as fw  # noqa: E402


def main():
    pid = sys.argv[1]
    tier = "thorough" if "--tier" in sys.argv and sys.argv[sys.argv.index("--tier") + 1] == "thorough" else "quick"
    out = ROOT / "known_cases" / f"{pid}.json"
    out.parent.mkdir(exist_ok=True)
    recorded = {k: set(v) for k, v in json.loads(out.read_text()).items()} if out.exists() else {}
    mod = importlib.import_module(f"harness.props.{pid.lower()}")
    ctx = fw.Ctx(pid, tier, 0)
    ctx.quick = tier == "quick"
    mod.run(ctx)
    open_known, _ = fw.load_known(pid)
    unmatched = 0
    dry = "--dry" in sys.argv
    newc: dict = {}
    for f in ctx.failures:
        if f.get("case") is None:
            continue
        hit = next((k for k in open_known if fw.key_matches(k["key"], f["key"])), None)
        if hit is None:
            unmatched += 1
            print("UNMATCHED", json.dumps(f["key"]), f["case"], file=sys.stderr)
            continue
        if f["case"] not in recorded.get(hit["id"], set()):
            newc.setdefault(hit["id"], []).append(f)
        recorded.setdefault(hit["id"], set()).add(f["case"])
    for fid, fs in newc.items():
        print(f"NEW {len(fs)} case(s) of {fid}: e.g. {fs[0]['case']}: {fs[0]['what'][:260]}", file=sys.stderr)
    if dry:
        return
    out.write_text(json.dumps({k: sorted(v) for k, v in sorted(recorded.items())}, indent=0) + "\n")
    print(pid, tier, {k: len(v) for k, v in recorded.items()}, "unmatched:", unmatched)


if __name__ == "__main__":
    main()
