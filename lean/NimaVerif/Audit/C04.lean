import NimaVerif.Props.C04
open Nima.C04
#print axioms updBind_other
