import NimaVerif.Lemmas.EditCompose
/-!
Scoped edits (`@name`) on a document without let layers: `set` creates the layer, `rm` of its only
binding prunes it again. Used by C19 (reversibility of scoped edits) and C04.
-/
namespace Nima
-- name tokens are compared by spelling in this file (see `NameCmp` in Model/Edit.lean)
attribute [local instance] NameCmp.spelled
open Node

/-- a set mutation that can only hit the scratch set -/
theorem Doc.updSet_only_scratch (sid : Nat) (f : Node → Node) (e : Doc)
    (h : ({ e with scratch := none } : Doc).hasSet sid = false) :
    e.updSet sid f = { e with scratch := e.scratch.map (Node.updSet sid f) } := by
  have := Doc.updSet_of_not_hasSet sid f _ h
  simp only [Doc.updSet, Option.map_none, Doc.mk.injEq, true_and, and_true] at this
  obtain ⟨h1, h2, h3, h4, h5⟩ := this
  simp only [Doc.updSet, h1, h2, h3, h4, h5]

theorem pathExists_single (ts : Node) (k : Text) :
    pathExistsInAttrset ts [k] = (findNamedBinding ts.setValues k (some false)).isSome := by
  simp [pathExistsInAttrset, findAttrpathLeaf_single, pathExistsInAttrset.go]

theorem onLayer_ok (layers : List Layer) (fromDoc : Bool) (idx : Nat) (op : Node → EditM Unit)
    (d : Doc) (l : Layer) (e' : Doc) (hl : layers[idx]? = some l)
    (hop : op (layerAsSet d.next l)
      { d with next := d.next + 1, scratch := some (layerAsSet d.next l) } = (.ok (), e')) :
    onLayer layers fromDoc idx op d =
      (.ok (listSet (if fromDoc then collectScopeLayers { e' with scratch := none } else layers) idx
          (setLayerFrom (((if fromDoc then collectScopeLayers { e' with scratch := none } else layers)[idx]?).getD l)
            (e'.scratch.getD (layerAsSet d.next l)))),
        { e' with scratch := none }) := by
  unfold onLayer
  simp only [hl, hop]

/-- the scratch-set run of `set @k v` on a freshly created layer -/
theorem scratch_set_fresh (e : Doc) (sid : Nat) (rest k : Text) (v : Node)
    (hf : formatNPath currentAnchor rest = .ok [k])
    (hsc : e.scratch = some (.set sid [] [] true false))
    (hns : ({ e with scratch := none } : Doc).hasSet sid = false) :
    setValueInAttrset (.set sid [] [] true false) false rest v e =
      (.ok (), { e with next := e.next + 1,
                        scratch := some (.set sid [.bind e.next k false v [] []] [] true false) }) := by
  rw [setValueInAttrset_single (.set sid [] [] true false) false rest v k sid hf rfl
    (by simp [setValues, findAttrpathRoot_spelled])]
  have hb : findBinding (Node.set sid [] [] true false).setValues k = none := by
    simp [setValues, findBinding_spelled]
  simp only [hb, setSetItem, setSid?]
  simp only [EditM.bind_apply, fresh_apply, appendValue_apply, appendOrderIfNonEmpty_apply]
  rw [Doc.updSet_fuse sid _ _ (appendValueF_sid _ sid), appendOrder_appendValue,
    Doc.updSet_only_scratch sid _ _ (by simpa [Doc.hasSet] using hns)]
  simp [hsc, updSet, appendBothF]


theorem Doc.hasSet_noScratch_of (d : Doc) (s : Nat) (h : d.hasSet s = false) (x : Option Node) :
    ({ d with scratch := x } : Doc).hasSet s = (x.map (Node.hasSet s)).getD false := by
  simp only [Doc.hasSet, Bool.or_eq_false_iff] at h
  obtain ⟨⟨⟨⟨⟨h1, h2⟩, h3⟩, h4⟩, h5⟩, _⟩ := h
  simp [Doc.hasSet, h1, h2, h3, h4, h5]

theorem set_scoped_newlayer (d : Doc) (p rest k : Text) (v : Node)
    (hnt : d.noTarget = none) (hsp : splitScopeNpath p = .ok (some (1, rest)))
    (hf : formatNPath currentAnchor rest = .ok [k])
    (hnl : d.NoLayers) (hpe : pathExistsInAttrset d.target [k] = false) (hfr : d.Fresh) :
    setValue p (.one v) d = (.ok (), { d with
      tBefore := [], tAfter := [], scope := [.bind (d.next + 1) k false v [] []],
      stBodyBefore := d.tBefore, stBodyAfter := d.tAfter, next := d.next + 2 }) := by
  obtain ⟨h1, h2, h3, h4, h5, h6⟩ := hnl
  have hns : d.hasSet d.next = false := (hfr.not_has d.next (Nat.le_refl _)).2
  have hop := scratch_set_fresh
    { d with tBefore := [], tAfter := [], next := d.next + 1, scratch := some (.set d.next [] [] true false) }
    d.next rest k v hf rfl (by
      have := Doc.hasSet_noScratch_of d d.next hns none
      simpa [Doc.hasSet] using this)
  dsimp only at hop
  let L : Layer := { scope := [], order := [], bodyBefore := d.tBefore, bodyAfter := d.tAfter, afterLet := none }
  have hon := onLayer_ok [L] false 0 (fun s => setValueInAttrset s false rest v)
      { d with tBefore := [], tAfter := [] } L _ rfl hop
  have hcl : collectScopeLayers d = [] := by simp [collectScopeLayers, h1, h6]
  simp only [setValue, hnt, hsp, resolveTarget, hcl, hf, hpe, List.isEmpty_nil, beq_self_eq_true,
    Bool.and_self, if_true, List.length_singleton, Nat.sub_self, Bool.false_eq_true, if_false,
    gt_iff_lt, Nat.lt_irrefl]
  simp only [hnt] at hon
  rw [hon]
  simp [L, writeScopeLayers, listSet, setLayerFrom, setValues, setOrder, h4, h5, h6, hfr.2]


/-- the scratch-set run of `rm @k` on a layer holding exactly the binding `k` -/
theorem scratch_rm_last (e : Doc) (sid j : Nat) (rest k : Text) (v : Node)
    (hf : formatNPath currentAnchor rest = .ok [k])
    (hsc : e.scratch = some (.set sid [.bind j k false v [] []] [] true false))
    (hns : ({ e with scratch := none } : Doc).hasSet sid = false) :
    removeValueInAttrset (.set sid [.bind j k false v [] []] [] true false) rest e =
      (.ok (), { e with scratch := some (.set sid [] [] true false) }) := by
  unfold removeValueInAttrset
  rw [hf]
  have hb : findBinding [Node.bind j k false v [] []] k = some (.bind j k false v [] []) := by
    simp [findBinding_spelled, isBind, bindName?]
  simp only [findAttrpathLeaf_single, setValues, findAttrpathRoot, List.find?, isBind, bindNested,
    Bool.and_false, Bool.false_and, Option.isSome_none, Bool.false_eq_true, if_false, List.isEmpty_nil, if_true, hb,
    Option.isNone_some]
  rw [setDelItem_apply _ _ sid j k false v [] [] rfl (by simpa [setValues] using hb),
    Doc.updSet_only_scratch sid _ _ hns]
  simp [hsc, updSet, eraseBothF, bindId?]


/-- `rm @k` on a document whose only let layer holds exactly the binding `k`: the layer is pruned -/
theorem rm_scoped_last (e : Doc) (p rest k : Text) (j : Nat) (v : Node)
    (hnt : e.noTarget = none) (hsp : splitScopeNpath p = .ok (some (1, rest)))
    (hf : formatNPath currentAnchor rest = .ok [k])
    (hscope : e.scope = [.bind j k false v [] []]) (hord : e.stOrder = []) (hstack : e.stack = [])
    (hscr : e.scratch = none) (hns : e.hasSet e.next = false) :
    removeValue p e = (.ok (), { e with
      scope := [], stBodyBefore := [], stBodyAfter := [], stOrder := [], stAfterLet := none, stack := [],
      tBefore := if e.stBodyBefore.isEmpty then e.tBefore else e.stBodyBefore,
      tAfter := e.stBodyAfter ++ e.tAfter.filter (!e.stBodyAfter.contains ·),
      trailing := restoredTrailing e.trailing e.stBodyAfter,
      next := e.next + 1, rstripped := !e.stBodyBefore.isEmpty }) := by
  let L : Layer := { scope := e.scope, order := e.stOrder, bodyBefore := e.stBodyBefore,
                     bodyAfter := e.stBodyAfter, afterLet := e.stAfterLet }
  have hcl : collectScopeLayers e = [L] := by simp [collectScopeLayers, hscope, hstack, L]
  have hop := scratch_rm_last
    { e with next := e.next + 1, scratch := some (.set e.next [.bind j k false v [] []] [] true false) }
    e.next j rest k v hf rfl (by
      have := Doc.hasSet_noScratch_of e e.next hns none
      simpa [Doc.hasSet] using this)
  dsimp only at hop
  have hon := onLayer_ok [L] true 0 (fun s => removeValueInAttrset s rest) e L _ rfl
    (by simpa [layerAsSet, L, hscope, hord] using hop)
  simp only [removeValue, hnt, hsp, resolveTarget, hcl, List.length_singleton, Nat.sub_self,
    gt_iff_lt, Nat.lt_irrefl, if_false]
  simp only [hnt] at hon
  rw [hon]
  by_cases hba : e.stBodyAfter = [] <;>
  by_cases ht1 : List.dropWhile (fun t => t == 0 || t == 1) e.trailing.reverse = [] <;>
  by_cases htr : e.trailing = [] <;>
  simp [collectScopeLayers, hscope, hstack, hord, listSet, setLayerFrom, setValues, setOrder,
    writeScopeLayers, restoredTrailing, stripLayoutTail, L, hba, ht1, htr, hscr]


/-- `set @k v` then `rm @k` on a document without let layers: the layer is created, then pruned.
    Everything is restored except `trailing` (see `restoredTrailing`), the `rstripped` flag and `next`. -/
theorem scoped_set_rm (d : Doc) (p rest k : Text) (v : Node)
    (hnt : d.noTarget = none) (hsp : splitScopeNpath p = .ok (some (1, rest)))
    (hf : formatNPath currentAnchor rest = .ok [k])
    (hnl : d.NoLayers) (hpe : pathExistsInAttrset d.target [k] = false) (hfr : d.Fresh)
    (hv : hasSet (d.next + 2) v = false) :
    removeValue p (setValue p (.one v) d).2 = (.ok (), { d with
      trailing := restoredTrailing d.trailing d.tAfter,
      rstripped := !d.tBefore.isEmpty, next := d.next + 3 }) := by
  rw [set_scoped_newlayer d p rest k v hnt hsp hf hnl hpe hfr]
  dsimp only
  obtain ⟨h1, h2, h3, h4, h5, h6⟩ := hnl
  have hns : d.hasSet (d.next + 2) = false := (hfr.not_has (d.next + 2) (by omega)).2
  have hns' := hns
  simp only [Doc.hasSet, Bool.or_eq_false_iff] at hns'
  obtain ⟨⟨⟨⟨⟨g1, g2⟩, g3⟩, g4⟩, g5⟩, g6⟩ := hns'
  have key := rm_scoped_last { d with
      tBefore := [], tAfter := [], scope := [.bind (d.next + 1) k false v [] []],
      stBodyBefore := d.tBefore, stBodyAfter := d.tAfter, next := d.next + 2 }
    p rest k (d.next + 1) v hnt hsp hf rfl h4 h6 hfr.2
    (by simp [Doc.hasSet, g1, g3, g4, g5, hfr.2, hasSetL, hasSet, hv])
  dsimp only at key
  rw [key]
  by_cases hb : d.tBefore = [] <;> simp [h1, h2, h3, h4, h5, h6, hb]


theorem dropWhile_eq_nil_of_all {α} (p : α → Bool) : ∀ (l : List α), (∀ x ∈ l, p x = true) → l.dropWhile p = []
  | [], _ => rfl
  | a :: as, h => by
    rw [List.dropWhile_cons, if_pos (h a (by simp))]
    exact dropWhile_eq_nil_of_all p as (fun x hx => h x (by simp [hx]))

/-- `trailing` made of layout tokens only (the usual "file ends with a newline") is restored -/
theorem restoredTrailing_layout (t : Payload) (h : ∀ x ∈ t, x = 0 ∨ x = 1) : restoredTrailing t [] = t := by
  have hd : List.dropWhile (fun t => t == 0 || t == 1) t.reverse = [] := by
    apply dropWhile_eq_nil_of_all
    intro x hx
    rcases h x (List.mem_reverse.1 hx) with rfl | rfl <;> rfl
  cases t with
  | nil => rfl
  | cons a as =>
    simp only [restoredTrailing, stripLayoutTail, hd]
    simp

/-- so is a `trailing` that does not end in a layout token (or is empty) -/
theorem restoredTrailing_no_layout_tail (t : Payload)
    (h : ∀ x, t.getLast? = some x → x ≠ 0 ∧ x ≠ 1) : restoredTrailing t [] = t := by
  have hd : List.dropWhile (fun t => t == 0 || t == 1) t.reverse = t.reverse := by
    cases hr : t.reverse with
    | nil => rfl
    | cons a as =>
      have : t.getLast? = some a := by
        rw [List.getLast?_eq_head?_reverse, hr]; rfl
      obtain ⟨h0, h1⟩ := h a this
      rw [List.dropWhile_cons]
      simp [h0, h1]
  simp only [restoredTrailing, stripLayoutTail, hd]
  simp

end Nima
