import NimaVerif.Lemmas.NameAgree
import NimaVerif.Lemmas.EditScoped
import NimaVerif.Lemmas.Hoare
/-!
# C04 — an edit touches only the binding it addresses

Statements about the edit model (`Model/Edit.lean`, a transliteration of `cli/manipulations.py` tied
to the code by object-graph correspondence on every run). Everything quantifies over **all**
documents, paths, values and histories; nothing is bounded.

* §1 frame of a write by identity: what `binding.value = v` leaves alone (`others`, `frames`,
  `wrappers`);
* §2 successful plain edits *are* such writes / one append / one erase — exact characterisations and
  the frame property derived from them;
* §3 every unscoped operation, whatever the path and whether it succeeds or fails, leaves the
  wrappers alone; the full statement (every operation) is false — a scoped `set` that has to create a
  let layer moves the target's leading/trailing trivia into the layer (by design, see DESIGN §8/C04
  *Partial*): `cex_wrappers_scoped`;
* §4 histories: no sequence of operations (scoped or not, succeeding or failing) ever fabricates or
  alters the name / nested flag / `before` / `after` of a binding: every frame of the final document
  is a frame of the initial document, a frame of a supplied value, or a fresh binding with empty
  trivia.

SPEC definitions used (`Model/Frame.lean`): `Doc.frames`, `Doc.allFrames`, `Doc.wrappers`, `Op`,
`run`, `Doc.Fresh`, `Doc.NoLayers`, `hole`, `Doc.sidElsewhere`; here: `others`.
-/
namespace Nima.C04
-- name tokens are compared by spelling in this file (see `NameCmp` in Model/Edit.lean)
attribute [local instance] NameCmp.spelled

open Node

/-! ## SPEC -/

/-- the document with the value of Binding object `b` masked: *everything* else — every other
    binding with its value, the order lists, all trivia, the layers — is still there -/
def others (b : Nat) (d : Doc) : Doc := d.updBind b hole

/-! ## 1. Frame of a write by identity -/

/-- A write to Binding object `id` leaves every other Binding object its identity, name, nested flag
    and trivia; its value changes only inside, by the same write. -/
theorem write_keeps_other_binding (id i : Nat) (n : Text) (ne : Bool) (v val : Node) (b a : Payload)
    (h : i ≠ id) :
    Node.updBind id v (.bind i n ne val b a) = .bind i n ne (Node.updBind id v val) b a :=
  updBind_frame id i n ne v val b a h

/-- The written object itself keeps identity, name, nested flag and trivia. -/
theorem write_keeps_own_frame (id : Nat) (n : Text) (ne : Bool) (v val : Node) (b a : Payload) :
    Node.updBind id v (.bind id n ne val b a) = .bind id n ne v b a :=
  updBind_self id n ne v val b a

/-- Masking the value of `b`, the document before and after a write to `b` are equal. -/
theorem write_others (b : Nat) (v : Node) (d : Doc) : others b (d.updBind b v) = others b d :=
  Doc.updBind_absorb b v hole d

/-- The frames (identity, name, nested, before, after; document order) of all bindings outside the
    written value are unchanged. -/
theorem write_frames (b : Nat) (v : Node) (d : Doc) : (d.updBind b v).frames b = d.frames b :=
  Doc.frames_updBind b v d

/-- Wrappers and the identity counter are not touched by a write. -/
theorem write_wrappers (b : Nat) (v : Node) (d : Doc) :
    (d.updBind b v).wrappers = d.wrappers ∧ (d.updBind b v).next = d.next := ⟨rfl, rfl⟩

/-- An in-place mutation of an AttributeSet object leaves every Binding object its frame … -/
theorem mutation_keeps_binding (sid i : Nat) (f : Node → Node) (n : Text) (ne : Bool) (val : Node)
    (b a : Payload) :
    Node.updSet sid f (.bind i n ne val b a) = .bind i n ne (Node.updSet sid f val) b a :=
  updSet_frame sid i f n ne val b a

/-- … and every other AttributeSet object its identity and flags. -/
theorem mutation_keeps_other_set (sid s : Nat) (f : Node → Node) (vs o : List Node) (m r : Bool)
    (h : s ≠ sid) :
    Node.updSet sid f (.set s vs o m r) = .set s (updSetL sid f vs) (updSetL sid f o) m r :=
  updSet_frame_set sid s f vs o m r h

/-- A mutation of an object that occurs only at the target changes the target alone. -/
theorem mutation_only_target (sid : Nat) (f : Node → Node) (d : Doc) (h : d.sidElsewhere sid = false) :
    d.updSet sid f = { d with target := Node.updSet sid f d.target } :=
  Nima.Doc.updSet_only_target sid f d h

/-! ## 2. Successful plain edits, characterised -/

/-- The two path hypotheses used throughout (`p` is unscoped and has exactly one segment) hold for the
    canonical spelling of **every** name, whatever characters it contains; `k` is then the token
    `set` itself writes for that name. -/
theorem plain_path_hyps (n : Text) :
    splitScopeNpath (renderSeg n) = .ok none ∧
    formatNPath currentAnchor (renderSeg n) = .ok [formatAttrName currentAnchor (segOf n)] :=
  ⟨splitScope_renderSeg n, formatNPath_renderSeg n⟩

/-- `set k v` on an existing, explicitly written binding `k` of the target whose current value is not
    an identifier reference (those are C11's) is exactly `binding.value = v`. -/
theorem set_existing_plain (d : Doc) (p k : Text) (v : Node) (bid : Nat) (nm : Text) (ne : Bool)
    (val : Node) (bf af : Payload)
    (hnt : d.noTarget = none) (hsp : splitScopeNpath p = .ok none)
    (hf : formatNPath currentAnchor p = .ok [k])
    (hr : findAttrpathRoot d.target.setValues k = none)
    (hb : findBinding d.target.setValues k = some (.bind bid nm ne val bf af))
    (hval : val.isIdent = false) :
    setValue p (.one v) d = (.ok (), d.updBind bid v) :=
  Nima.set_existing_plain d p k v bid nm ne val bf af hnt hsp hf hr hb hval

/-- Hence: all other bindings (with their values), the order lists, every payload, `tBefore`,
    `tAfter`, `trailing` and the layers are unchanged. -/
theorem set_existing_frame (d d' : Doc) (p k : Text) (v : Node) (bid : Nat) (nm : Text) (ne : Bool)
    (val : Node) (bf af : Payload)
    (hnt : d.noTarget = none) (hsp : splitScopeNpath p = .ok none)
    (hf : formatNPath currentAnchor p = .ok [k])
    (hr : findAttrpathRoot d.target.setValues k = none)
    (hb : findBinding d.target.setValues k = some (.bind bid nm ne val bf af))
    (hval : val.isIdent = false)
    (hset : setValue p (.one v) d = (.ok (), d')) :
    others bid d' = others bid d ∧ d'.frames bid = d.frames bid ∧ d'.wrappers = d.wrappers ∧
      d'.next = d.next := by
  rw [set_existing_plain d p k v bid nm ne val bf af hnt hsp hf hr hb hval] at hset
  cases hset
  exact ⟨write_others bid v d, write_frames bid v d, rfl, rfl⟩

/-- `set` on the leaf of an attrpath family (`a.b.c = …;`) is exactly `leaf.value = v`. -/
theorem set_attrpath_leaf (d : Doc) (p : Text) (segs : List Text) (v : Node) (lid : Nat) (nm : Text)
    (ne : Bool) (val : Node) (bf af : Payload)
    (hnt : d.noTarget = none) (hsp : splitScopeNpath p = .ok none)
    (hf : formatNPath currentAnchor p = .ok segs)
    (hl : findAttrpathLeaf d.target segs = some (.bind lid nm ne val bf af)) :
    setValue p (.one v) d = (.ok (), d.updBind lid v) :=
  Nima.set_attrpath_leaf d p segs v lid nm ne val bf af hnt hsp hf hl

theorem set_attrpath_leaf_frame (d d' : Doc) (p : Text) (segs : List Text) (v : Node) (lid : Nat)
    (nm : Text) (ne : Bool) (val : Node) (bf af : Payload)
    (hnt : d.noTarget = none) (hsp : splitScopeNpath p = .ok none)
    (hf : formatNPath currentAnchor p = .ok segs)
    (hl : findAttrpathLeaf d.target segs = some (.bind lid nm ne val bf af))
    (hset : setValue p (.one v) d = (.ok (), d')) :
    others lid d' = others lid d ∧ d'.frames lid = d.frames lid ∧ d'.wrappers = d.wrappers ∧
      d'.next = d.next := by
  rw [set_attrpath_leaf d p segs v lid nm ne val bf af hnt hsp hf hl] at hset
  cases hset
  exact ⟨write_others lid v d, write_frames lid v d, rfl, rfl⟩

/-- `set k v` for a fresh single segment `k`: ONE binding (fresh identity, empty trivia) is appended
    last to `values` of the target object, and to `attrpath_order` iff that was non-empty. -/
theorem set_fresh_plain (d : Doc) (p k : Text) (v : Node) (sid : Nat)
    (hnt : d.noTarget = none) (hsp : splitScopeNpath p = .ok none)
    (hf : formatNPath currentAnchor p = .ok [k])
    (hs : d.target.setSid? = some sid)
    (hr : findAttrpathRoot d.target.setValues k = none)
    (hb : findBinding d.target.setValues k = none) :
    setValue p (.one v) d =
      (.ok (), { d.updSet sid (appendBothF (.bind d.next k false v [] [])) with next := d.next + 1 }) :=
  Nima.set_fresh_plain d p k v sid hnt hsp hf hs hr hb

/-- Hence (target object referenced once): the result is `d` with the new binding appended to the
    target's `values` / non-empty `order`; nothing else differs but `next`. -/
theorem set_fresh_frame (d : Doc) (p k : Text) (v : Node) (sid : Nat) (vs o : List Node) (m r : Bool)
    (hnt : d.noTarget = none) (hsp : splitScopeNpath p = .ok none)
    (hf : formatNPath currentAnchor p = .ok [k])
    (ht : d.target = .set sid vs o m r)
    (hr : findAttrpathRoot vs k = none) (hb : findBinding vs k = none)
    (hone : d.sidElsewhere sid = false) :
    setValue p (.one v) d =
      (.ok (), { d with
        target := .set sid (vs ++ [.bind d.next k false v [] []])
          (if o.isEmpty then o else o ++ [.bind d.next k false v [] []]) m r
        next := d.next + 1 }) :=
  Nima.set_fresh_frame d p k v sid vs o m r hnt hsp hf ht hr hb hone

/-- `rm k` for an existing, explicitly written binding `k`: exactly that Binding object is erased
    from `values` and (as an item of its own) from a non-empty `attrpath_order`. -/
theorem rm_plain (d : Doc) (p k : Text) (bid : Nat) (nm : Text) (ne : Bool)
    (val : Node) (bf af : Payload) (sid : Nat)
    (hnt : d.noTarget = none) (hsp : splitScopeNpath p = .ok none)
    (hf : formatNPath currentAnchor p = .ok [k])
    (hs : d.target.setSid? = some sid)
    (hr : findAttrpathRoot d.target.setValues k = none)
    (hb : findBinding d.target.setValues k = some (.bind bid nm ne val bf af)) :
    removeValue p d = (.ok (), d.updSet sid (eraseBothF bid)) :=
  Nima.rm_plain d p k bid nm ne val bf af sid hnt hsp hf hs hr hb

theorem rm_frame (d : Doc) (p k : Text) (bid : Nat) (nm : Text) (ne : Bool)
    (val : Node) (bf af : Payload) (sid : Nat) (vs o : List Node) (m r : Bool)
    (hnt : d.noTarget = none) (hsp : splitScopeNpath p = .ok none)
    (hf : formatNPath currentAnchor p = .ok [k])
    (ht : d.target = .set sid vs o m r)
    (hr : findAttrpathRoot vs k = none)
    (hb : findBinding vs k = some (.bind bid nm ne val bf af))
    (hone : d.sidElsewhere sid = false) :
    removeValue p d =
      (.ok (), { d with
        target := .set sid (vs.eraseP fun n => n.bindId? == some bid)
          (if o.isEmpty then o else o.eraseP fun n => n.isBind && n.bindId? == some bid) m r }) :=
  Nima.rm_frame d p k bid nm ne val bf af sid vs o m r hnt hsp hf ht hr hb hone

/-- "erase the first item that is the Binding object `bid`" removes exactly one item, the first with
    that identity; everything before and after it stays, in order. -/
theorem rm_removes_exactly (vs : List Node) (k : Text) (bid : Nat) (nm : Text) (ne : Bool)
    (val : Node) (bf af : Payload)
    (hb : findBinding vs k = some (.bind bid nm ne val bf af)) :
    ∃ l₁ b l₂, vs = l₁ ++ b :: l₂ ∧ b.bindId? = some bid ∧ (∀ x ∈ l₁, x.bindId? ≠ some bid) ∧
      vs.eraseP (fun n => n.bindId? == some bid) = l₁ ++ l₂ := by
  have hm : Node.bind bid nm ne val bf af ∈ vs := List.mem_of_find?_eq_some hb
  obtain ⟨b, l₁, l₂, h1, h2, h3, h4⟩ :=
    List.exists_of_eraseP (p := fun n : Node => n.bindId? == some bid) hm (by simp [bindId?])
  exact ⟨l₁, b, l₂, h3, by simpa using h2, fun x hx => by simpa using h1 x hx, h4⟩

/-- FULL statement: a successful `rm` makes (at least) one Binding object unreachable. -/
def rm_unreachable_full : Prop :=
  ∀ (d : Doc) (p : Text), (removeValue p d).1 = .ok () →
    ∃ j, d.hasBind j = true ∧ (removeValue p d).2.hasBind j = false

/-- `{ b = { a.p = 1; a.q = 2; }; }` — an attrpath family inside an explicit nested set -/
def nestedFamilyDoc : Doc :=
  { target := .set 1
      [ .bind 2 "b".toList false
          (.set 3
            [ .bind 4 "a".toList true
                (.set 5 [.bind 6 "p".toList false (.atom "1".toList) [] [],
                         .bind 7 "q".toList false (.atom "2".toList) [] []] [] true false) [] [] ]
            [ .entry ["a".toList, "p".toList] (.bind 6 "p".toList false (.atom "1".toList) [] []) none none,
              .entry ["a".toList, "q".toList] (.bind 7 "q".toList false (.atom "2".toList) [] []) none none ]
            true false) [] [] ]
      [] true false
    next := 8 }

/-- Counterexample (open known findings C04-nested-attrpath-family-rm / C05-nested-attrpath-family):
    `rm b.a.p` on `{ b = { a.p = 1; a.q = 2; }; }` reports success and erases `p` from the `values` of
    the merged family `a`, but the `_AttrpathEntry` for `a.p` in the `attrpath_order` of `b` — which is
    what `b` is rendered from — still holds the binding: nothing became unreachable, the text is unchanged. -/
theorem cex_nested_family_rm : ¬ rm_unreachable_full := by
  intro h
  obtain ⟨j, h1, h2⟩ := h nestedFamilyDoc "b.a.p".toList (by decide)
  have hj : j ≤ 7 := by
    apply Nat.le_of_not_lt
    intro hlt
    have := (Doc.not_has_of_maxId_lt j nestedFamilyDoc (by
      have : nestedFamilyDoc.maxId = 7 := by decide
      omega)).1
    rw [this] at h1; cases h1
  have key : ∀ j, j ≤ 7 → nestedFamilyDoc.hasBind j = true →
      (removeValue "b.a.p".toList nestedFamilyDoc).2.hasBind j = true := by decide
  rw [key j hj h1] at h2; cases h2

/-- PARTIAL: for a plain `rm k` the object does become unreachable, provided it is referenced from the
    target only and — the decidable side condition that excludes exactly the defective class — no
    reference to it is left in what remains of `values` / `attrpath_order` once the item itself is
    erased (no `_AttrpathEntry` wrapping it, no second listing). -/
theorem rm_unreachable_partial (d : Doc) (p k : Text) (bid : Nat) (nm : Text) (ne : Bool)
    (val : Node) (bf af : Payload) (sid : Nat) (vs o : List Node) (m r : Bool)
    (hnt : d.noTarget = none) (hsp : splitScopeNpath p = .ok none)
    (hf : formatNPath currentAnchor p = .ok [k])
    (ht : d.target = .set sid vs o m r)
    (hr : findAttrpathRoot vs k = none)
    (hb : findBinding vs k = some (.bind bid nm ne val bf af))
    (hone : d.sidElsewhere sid = false)
    (hrest : ({ d with target := hole } : Doc).hasBind bid = false)
    (hvals : hasBindL bid (vs.eraseP fun n => n.bindId? == some bid) = false)
    (hord : hasBindL bid (if o.isEmpty then o else o.eraseP fun n => n.isBind && n.bindId? == some bid)
      = false) :
    d.hasBind bid = true ∧ (removeValue p d).2.hasBind bid = false := by
  constructor
  · have hm : Node.bind bid nm ne val bf af ∈ vs := List.mem_of_find?_eq_some hb
    have : hasBindL bid vs = true := hasBindL_of_mem hm (by simp [Node.hasBind])
    simp [Doc.hasBind, ht, Node.hasBind, this]
  · rw [rm_frame d p k bid nm ne val bf af sid vs o m r hnt hsp hf ht hr hb hone]
    dsimp only
    rw [Doc.hasBind_with_target]
    simp only [Node.hasBind, hvals, hord, Bool.or_self, Bool.false_or]
    exact hrest

/-- A scoped `set @k v` on a document without let layers (and `k` not an attribute of the target)
    creates the layer: the new binding is its only member, the target's leading / trailing trivia
    move to the layer body — and nothing else changes. -/
theorem set_scoped_creates_layer (d : Doc) (p rest k : Text) (v : Node)
    (hnt : d.noTarget = none) (hsp : splitScopeNpath p = .ok (some (1, rest)))
    (hf : formatNPath currentAnchor rest = .ok [k])
    (hnl : d.NoLayers) (hpe : pathExistsInAttrset d.target [k] = false) (hfr : d.Fresh) :
    setValue p (.one v) d = (.ok (), { d with
      tBefore := [], tAfter := [], scope := [.bind (d.next + 1) k false v [] []],
      stBodyBefore := d.tBefore, stBodyAfter := d.tAfter, next := d.next + 2 }) :=
  set_scoped_newlayer d p rest k v hnt hsp hf hnl hpe hfr

/-! ## 3. Wrappers -/

/-- FULL statement: a successful `set` leaves the wrappers alone. False: see `cex_wrappers_scoped`. -/
def wrappers_full : Prop :=
  ∀ (d d' : Doc) (p : Text) (v : Node), setValue p (.one v) d = (.ok (), d') → d'.wrappers = d.wrappers

/-- Counterexample: `set @x 1` on `# c⏎{ }` (a comment before the target, no let): the comment moves
    from `target.before` to the `body_before` of the created layer. The abstract model is right to
    show this — it is what DESIGN §8/C04 *Partial* excludes; at the text level the consequences are the
    known findings C19-with-body-newline / C19-lambda-with-body-newline. -/
theorem cex_wrappers_scoped : ¬ wrappers_full := by
  intro h
  have := h { tBefore := [2] } _ "@x".toList (.atom "1".toList)
    (set_scoped_newlayer _ _ "x".toList "x".toList _ rfl (by decide) (by decide) (by decide) rfl (by decide))
  simp [Doc.wrappers] at this

/-- What holds: every operation on an **unscoped** path — any path text, any value, successful or
    rejected — leaves the wrappers (and `noTarget`) exactly as they were. -/
theorem wrappers_partial_set (d : Doc) (p : Text) (v : ValueArg) (hsp : splitScopeNpath p = .ok none) :
    (setValue p v d).2.wrappers = d.wrappers := by
  cases v with
  | empty => rfl
  | invalid => rfl
  | one v =>
    exact (setValue_unscoped_triple
      (wrappers_prim d.wrappers Doc.wrappers (fun _ _ _ => rfl) (fun _ _ _ => rfl) (fun _ => rfl))
      p v trivial hsp d rfl).1

theorem wrappers_partial_rm (d : Doc) (p : Text) (hsp : splitScopeNpath p = .ok none) :
    (removeValue p d).2.wrappers = d.wrappers :=
  (removeValue_unscoped_triple
    (wrappers_prim d.wrappers Doc.wrappers (fun _ _ _ => rfl) (fun _ _ _ => rfl) (fun _ => rfl))
    p hsp d rfl).1

/-- Lifted to histories of unscoped operations. -/
theorem history_wrappers (ops : List Op) (d : Doc)
    (h : ∀ op ∈ ops, splitScopeNpath op.path = .ok none) : (run ops d).wrappers = d.wrappers := by
  induction ops generalizing d with
  | nil => rfl
  | cons op ops ih =>
    have h1 : (op.apply d).2.wrappers = d.wrappers := by
      have hp := h op (by simp)
      cases op with
      | set p v => exact wrappers_partial_set d p v hp
      | rm p => exact wrappers_partial_rm d p hp
    simp only [run]
    rw [ih _ (fun o ho => h o (by simp [ho])), h1]

/-! ## 4. Histories: no payload is ever fabricated or altered -/

/-- One operation, any path (scoped or not), any value, successful or rejected: if every binding of
    the document and of the supplied value has a frame satisfying `P`, and so does every fresh binding
    with empty trivia, then every binding of the resulting document has a frame satisfying `P`. -/
theorem op_frames (P : Frame → Prop) (N : Nat) (hP : ∀ i key ne, N ≤ i → P (i, key, ne, [], []))
    (op : Op) (hv : ∀ p v, op = .set p (.one v) → AllF P v) (d : Doc) (h : FInv P N d) :
    FInv P N (op.apply d).2 := by
  cases op with
  | set p v =>
    cases v with
    | empty => exact h
    | invalid => exact h
    | one v => exact setValue_inv hP p v (hv p v rfl) d h
  | rm p => exact removeValue_inv hP p d h

/-- Every history, by induction over the operation list. -/
theorem history_frames (P : Frame → Prop) (d : Doc) (ops : List Op)
    (hP : ∀ i key ne, d.next ≤ i → P (i, key, ne, [], []))
    (hv : ∀ p v, Op.set p (.one v) ∈ ops → AllF P v)
    (hd : ∀ n ∈ d.nodes, AllF P n) :
    ∀ n ∈ (run ops d).nodes, AllF P n := by
  suffices h : ∀ (ops : List Op) (e : Doc), (∀ p v, Op.set p (.one v) ∈ ops → AllF P v) →
      FInv P d.next e → FInv P d.next (run ops e) from (h ops d hv ⟨Nat.le_refl _, hd⟩).2
  intro ops
  induction ops with
  | nil => intro e _ he; exact he
  | cons op ops ih =>
    intro e hv he
    simp only [run]
    exact ih _ (fun p v hm => hv p v (by simp [hm]))
      (op_frames P d.next hP op (fun p v hop => hv p v (by simp [hop])) e he)

theorem mem_doc_allFrames {x : Frame} {d : Doc} :
    x ∈ d.allFrames ↔ ∃ n ∈ d.nodes, x ∈ Node.allFrames n := by
  simp [Doc.allFrames, List.mem_flatMap]

/-- The same in plain words: after any history, the frame (identity, name, nested flag, `before`,
    `after`) of every binding of the document is the unchanged frame of a binding of the initial
    document, or comes with one of the supplied values, or belongs to a binding created by the history
    (fresh identity, empty trivia). -/
theorem history_frames_mem (d : Doc) (ops : List Op) (x : Frame) (hx : x ∈ (run ops d).allFrames) :
    x ∈ d.allFrames ∨
    (∃ p v, Op.set p (.one v) ∈ ops ∧ x ∈ Node.allFrames v) ∨
    (d.next ≤ x.1 ∧ x.2.2.2 = ([], [])) := by
  obtain ⟨n, hn, hxn⟩ := mem_doc_allFrames.1 hx
  exact history_frames
    (fun x => x ∈ d.allFrames ∨ (∃ p v, Op.set p (.one v) ∈ ops ∧ x ∈ Node.allFrames v) ∨
      (d.next ≤ x.1 ∧ x.2.2.2 = ([], [])))
    d ops (fun i key ne hi => Or.inr (Or.inr ⟨hi, rfl⟩))
    (fun p v hm x hx => Or.inr (Or.inl ⟨p, v, hm, hx⟩))
    (fun n hn x hx => Or.inl (mem_doc_allFrames.2 ⟨n, hn, hx⟩)) n hn x hxn

/-! ## Non-vacuity: a document with three bindings, an attrpath family and a let layer -/

/-- `let x = 0; in { a = 1; b = 2; c = a; s.p = 1; s.q = 2; }` with some trivia tokens -/
def exDoc : Doc :=
  { target := .set 1
      [ .bind 2 "a".toList false (.atom "1".toList) [5] [6],
        .bind 3 "b".toList false (.atom "2".toList) [] [],
        .bind 4 "c".toList false (.ident "a".toList) [] [7],
        .bind 8 "s".toList true
          (.set 9 [.bind 10 "p".toList false (.atom "1".toList) [] [],
                   .bind 11 "q".toList false (.atom "2".toList) [] []] [] true false) [] [] ]
      [ .bind 2 "a".toList false (.atom "1".toList) [5] [6],
        .bind 3 "b".toList false (.atom "2".toList) [] [],
        .bind 4 "c".toList false (.ident "a".toList) [] [7],
        .entry ["s".toList, "p".toList] (.bind 10 "p".toList false (.atom "1".toList) [] []) none none,
        .entry ["s".toList, "q".toList] (.bind 11 "q".toList false (.atom "2".toList) [] []) none none ]
      true false
    scope := [.bind 12 "x".toList false (.atom "0".toList) [] []]
    stBodyBefore := [0]
    trailing := [0]
    next := 13 }

example : exDoc.Fresh := by decide
example : exDoc.sidElsewhere 1 = false := by decide

/-- replace: `set a 7` -/
example : setValue "a".toList (.one (.atom "7".toList)) exDoc =
    (.ok (), exDoc.updBind 2 (.atom "7".toList)) :=
  set_existing_plain exDoc _ "a".toList _ 2 _ _ _ _ _ rfl (by decide) (by decide) rfl rfl rfl

/-- insert: `set "z z" 7` appends one binding to `values` and to the (non-empty) order -/
example : ∃ d', setValue "\"z z\"".toList (.one (.atom "7".toList)) exDoc = (.ok (), d') ∧
    d'.target.setValues.length = 5 ∧ d'.target.setOrder.length = 6 ∧ d'.scope = exDoc.scope := by
  exact ⟨_, set_fresh_frame exDoc _ "\"z z\"".toList _ 1 _ _ _ _ rfl (by decide) (by decide) rfl rfl rfl
    (by decide), rfl, rfl, rfl⟩

/-- remove: `rm b` -/
example : ∃ d', removeValue "b".toList exDoc = (.ok (), d') ∧
    d'.target.setValues.length = 3 ∧ d'.target.setOrder.length = 4 :=
  ⟨_, rm_frame exDoc _ "b".toList 3 _ _ _ _ _ 1 _ _ _ _ rfl (by decide) (by decide) rfl rfl rfl (by decide),
    rfl, rfl⟩

/-- … and the object is unreachable afterwards -/
example : exDoc.hasBind 3 = true ∧ (removeValue "b".toList exDoc).2.hasBind 3 = false :=
  rm_unreachable_partial exDoc _ "b".toList 3 _ _ _ _ _ 1 _ _ _ _ rfl (by decide) (by decide) rfl rfl rfl
    (by decide) (by decide) (by decide) (by decide)

/-- attrpath leaf: `set s.p 7` is a write to Binding object 10 -/
example : setValue "s.p".toList (.one (.atom "7".toList)) exDoc =
    (.ok (), exDoc.updBind 10 (.atom "7".toList)) :=
  set_attrpath_leaf exDoc _ ["s".toList, "p".toList] _ 10 _ _ _ _ _ rfl (by decide) (by decide) rfl

/-- a history mixing scoped, unscoped, attrpath and rejected operations -/
example : ∀ x ∈ (run [.set "@y".toList (.one (.atom "1".toList)), .rm "s.q".toList, .rm "nope".toList,
      .set "b.k".toList (.one (.ident "a".toList)), .rm "@x".toList] exDoc).allFrames,
    x ∈ exDoc.allFrames ∨ (13 ≤ x.1 ∧ x.2.2.2 = ([], [])) := by
  intro x hx
  rcases history_frames_mem exDoc _ x hx with h | ⟨p, v, hm, hv⟩ | h
  · exact Or.inl h
  · simp only [List.mem_cons, Op.set.injEq, ValueArg.one.injEq, reduceCtorEq, List.not_mem_nil,
      or_false, false_or] at hm
    rcases hm with ⟨_, rfl⟩ | ⟨_, rfl⟩ <;> simp [Node.allFrames] at hv
  · exact Or.inr h

/-! ## For the repaired code (`NameCmp.model`, i.e. lookups through `_same_attr_name`)

Everything above is stated for the name comparison by spelling (`NameCmp.spelled`, declared at the head
of this file). `setValue_model_eq_spelled` / `removeValue_model_eq_spelled` (Lemmas/NameAgree.lean) make
it a statement about the model of the repaired code under the decidable side condition
`NameAgree.noSpellingClash d p`: among the name tokens of the document and the keys of the path no two are
different spellings of one Nix name. The single-operation theorems restated that way (hypotheses about
lookups keep the comparison by spelling, which is the code's on such inputs): -/

theorem repaired_set_is_spelled (p : Text) (v : ValueArg) (d : Doc) (hns : NameAgree.noSpellingClash d p) :
    @setValue NameCmp.model p v d = setValue p v d := NameAgree.setValue_model_eq_spelled p v d hns

theorem repaired_rm_is_spelled (p : Text) (d : Doc) (hns : NameAgree.noSpellingClash d p) :
    @removeValue NameCmp.model p d = removeValue p d := NameAgree.removeValue_model_eq_spelled p d hns

theorem set_existing_plain_repaired (d : Doc) (p k : Text) (v : Node) (bid : Nat) (nm : Text) (ne : Bool)
    (val : Node) (bf af : Payload)
    (hnt : d.noTarget = none) (hsp : splitScopeNpath p = .ok none)
    (hf : formatNPath currentAnchor p = .ok [k])
    (hr : findAttrpathRoot d.target.setValues k = none)
    (hb : findBinding d.target.setValues k = some (.bind bid nm ne val bf af))
    (hval : val.isIdent = false)
    (hns : NameAgree.noSpellingClash d p) :
    @setValue NameCmp.model p (.one v) d = (.ok (), d.updBind bid v) := by
  simp only [NameAgree.setValue_model_eq_spelled p _ d hns, NameAgree.removeValue_model_eq_spelled p d hns] at *
  exact set_existing_plain d p k v bid nm ne val bf af hnt hsp hf hr hb hval

theorem set_existing_frame_repaired (d d' : Doc) (p k : Text) (v : Node) (bid : Nat) (nm : Text) (ne : Bool)
    (val : Node) (bf af : Payload)
    (hnt : d.noTarget = none) (hsp : splitScopeNpath p = .ok none)
    (hf : formatNPath currentAnchor p = .ok [k])
    (hr : findAttrpathRoot d.target.setValues k = none)
    (hb : findBinding d.target.setValues k = some (.bind bid nm ne val bf af))
    (hval : val.isIdent = false)
    (hset : @setValue NameCmp.model p (.one v) d = (.ok (), d'))
    (hns : NameAgree.noSpellingClash d p) :
    others bid d' = others bid d ∧ d'.frames bid = d.frames bid ∧ d'.wrappers = d.wrappers ∧
      d'.next = d.next := by
  simp only [NameAgree.setValue_model_eq_spelled p _ d hns, NameAgree.removeValue_model_eq_spelled p d hns] at *
  exact set_existing_frame d d' p k v bid nm ne val bf af hnt hsp hf hr hb hval hset

theorem set_attrpath_leaf_repaired (d : Doc) (p : Text) (segs : List Text) (v : Node) (lid : Nat) (nm : Text)
    (ne : Bool) (val : Node) (bf af : Payload)
    (hnt : d.noTarget = none) (hsp : splitScopeNpath p = .ok none)
    (hf : formatNPath currentAnchor p = .ok segs)
    (hl : findAttrpathLeaf d.target segs = some (.bind lid nm ne val bf af))
    (hns : NameAgree.noSpellingClash d p) :
    @setValue NameCmp.model p (.one v) d = (.ok (), d.updBind lid v) := by
  simp only [NameAgree.setValue_model_eq_spelled p _ d hns, NameAgree.removeValue_model_eq_spelled p d hns] at *
  exact set_attrpath_leaf d p segs v lid nm ne val bf af hnt hsp hf hl

theorem set_attrpath_leaf_frame_repaired (d d' : Doc) (p : Text) (segs : List Text) (v : Node) (lid : Nat)
    (nm : Text) (ne : Bool) (val : Node) (bf af : Payload)
    (hnt : d.noTarget = none) (hsp : splitScopeNpath p = .ok none)
    (hf : formatNPath currentAnchor p = .ok segs)
    (hl : findAttrpathLeaf d.target segs = some (.bind lid nm ne val bf af))
    (hset : @setValue NameCmp.model p (.one v) d = (.ok (), d'))
    (hns : NameAgree.noSpellingClash d p) :
    others lid d' = others lid d ∧ d'.frames lid = d.frames lid ∧ d'.wrappers = d.wrappers ∧
      d'.next = d.next := by
  simp only [NameAgree.setValue_model_eq_spelled p _ d hns, NameAgree.removeValue_model_eq_spelled p d hns] at *
  exact set_attrpath_leaf_frame d d' p segs v lid nm ne val bf af hnt hsp hf hl hset

theorem set_fresh_plain_repaired (d : Doc) (p k : Text) (v : Node) (sid : Nat)
    (hnt : d.noTarget = none) (hsp : splitScopeNpath p = .ok none)
    (hf : formatNPath currentAnchor p = .ok [k])
    (hs : d.target.setSid? = some sid)
    (hr : findAttrpathRoot d.target.setValues k = none)
    (hb : findBinding d.target.setValues k = none)
    (hns : NameAgree.noSpellingClash d p) :
    @setValue NameCmp.model p (.one v) d =
      (.ok (), { d.updSet sid (appendBothF (.bind d.next k false v [] [])) with next := d.next + 1 }) := by
  simp only [NameAgree.setValue_model_eq_spelled p _ d hns, NameAgree.removeValue_model_eq_spelled p d hns] at *
  exact set_fresh_plain d p k v sid hnt hsp hf hs hr hb

theorem set_fresh_frame_repaired (d : Doc) (p k : Text) (v : Node) (sid : Nat) (vs o : List Node) (m r : Bool)
    (hnt : d.noTarget = none) (hsp : splitScopeNpath p = .ok none)
    (hf : formatNPath currentAnchor p = .ok [k])
    (ht : d.target = .set sid vs o m r)
    (hr : findAttrpathRoot vs k = none) (hb : findBinding vs k = none)
    (hone : d.sidElsewhere sid = false)
    (hns : NameAgree.noSpellingClash d p) :
    @setValue NameCmp.model p (.one v) d =
      (.ok (), { d with
        target := .set sid (vs ++ [.bind d.next k false v [] []])
          (if o.isEmpty then o else o ++ [.bind d.next k false v [] []]) m r
        next := d.next + 1 }) := by
  simp only [NameAgree.setValue_model_eq_spelled p _ d hns, NameAgree.removeValue_model_eq_spelled p d hns] at *
  exact set_fresh_frame d p k v sid vs o m r hnt hsp hf ht hr hb hone

theorem rm_plain_repaired (d : Doc) (p k : Text) (bid : Nat) (nm : Text) (ne : Bool)
    (val : Node) (bf af : Payload) (sid : Nat)
    (hnt : d.noTarget = none) (hsp : splitScopeNpath p = .ok none)
    (hf : formatNPath currentAnchor p = .ok [k])
    (hs : d.target.setSid? = some sid)
    (hr : findAttrpathRoot d.target.setValues k = none)
    (hb : findBinding d.target.setValues k = some (.bind bid nm ne val bf af))
    (hns : NameAgree.noSpellingClash d p) :
    @removeValue NameCmp.model p d = (.ok (), d.updSet sid (eraseBothF bid)) := by
  simp only [NameAgree.setValue_model_eq_spelled p _ d hns, NameAgree.removeValue_model_eq_spelled p d hns] at *
  exact rm_plain d p k bid nm ne val bf af sid hnt hsp hf hs hr hb

theorem rm_frame_repaired (d : Doc) (p k : Text) (bid : Nat) (nm : Text) (ne : Bool)
    (val : Node) (bf af : Payload) (sid : Nat) (vs o : List Node) (m r : Bool)
    (hnt : d.noTarget = none) (hsp : splitScopeNpath p = .ok none)
    (hf : formatNPath currentAnchor p = .ok [k])
    (ht : d.target = .set sid vs o m r)
    (hr : findAttrpathRoot vs k = none)
    (hb : findBinding vs k = some (.bind bid nm ne val bf af))
    (hone : d.sidElsewhere sid = false)
    (hns : NameAgree.noSpellingClash d p) :
    @removeValue NameCmp.model p d =
      (.ok (), { d with
        target := .set sid (vs.eraseP fun n => n.bindId? == some bid)
          (if o.isEmpty then o else o.eraseP fun n => n.isBind && n.bindId? == some bid) m r }) := by
  simp only [NameAgree.setValue_model_eq_spelled p _ d hns, NameAgree.removeValue_model_eq_spelled p d hns] at *
  exact rm_frame d p k bid nm ne val bf af sid vs o m r hnt hsp hf ht hr hb hone

theorem rm_unreachable_partial_repaired (d : Doc) (p k : Text) (bid : Nat) (nm : Text) (ne : Bool)
    (val : Node) (bf af : Payload) (sid : Nat) (vs o : List Node) (m r : Bool)
    (hnt : d.noTarget = none) (hsp : splitScopeNpath p = .ok none)
    (hf : formatNPath currentAnchor p = .ok [k])
    (ht : d.target = .set sid vs o m r)
    (hr : findAttrpathRoot vs k = none)
    (hb : findBinding vs k = some (.bind bid nm ne val bf af))
    (hone : d.sidElsewhere sid = false)
    (hrest : ({ d with target := hole } : Doc).hasBind bid = false)
    (hvals : hasBindL bid (vs.eraseP fun n => n.bindId? == some bid) = false)
    (hord : hasBindL bid (if o.isEmpty then o else o.eraseP fun n => n.isBind && n.bindId? == some bid)
      = false)
    (hns : NameAgree.noSpellingClash d p) :
    d.hasBind bid = true ∧ (@removeValue NameCmp.model p d).2.hasBind bid = false := by
  simp only [NameAgree.setValue_model_eq_spelled p _ d hns, NameAgree.removeValue_model_eq_spelled p d hns] at *
  exact rm_unreachable_partial d p k bid nm ne val bf af sid vs o m r hnt hsp hf ht hr hb hone hrest hvals hord

theorem set_scoped_creates_layer_repaired (d : Doc) (p rest k : Text) (v : Node)
    (hnt : d.noTarget = none) (hsp : splitScopeNpath p = .ok (some (1, rest)))
    (hf : formatNPath currentAnchor rest = .ok [k])
    (hnl : d.NoLayers) (hpe : pathExistsInAttrset d.target [k] = false) (hfr : d.Fresh)
    (hns : NameAgree.noSpellingClash d p) :
    @setValue NameCmp.model p (.one v) d = (.ok (), { d with
      tBefore := [], tAfter := [], scope := [.bind (d.next + 1) k false v [] []],
      stBodyBefore := d.tBefore, stBodyAfter := d.tAfter, next := d.next + 2 }) := by
  simp only [NameAgree.setValue_model_eq_spelled p _ d hns, NameAgree.removeValue_model_eq_spelled p d hns] at *
  exact set_scoped_creates_layer d p rest k v hnt hsp hf hnl hpe hfr

theorem wrappers_partial_set_repaired (d : Doc) (p : Text) (v : ValueArg) (hsp : splitScopeNpath p = .ok none)
    (hns : NameAgree.noSpellingClash d p) :
    (@setValue NameCmp.model p v d).2.wrappers = d.wrappers := by
  simp only [NameAgree.setValue_model_eq_spelled p _ d hns, NameAgree.removeValue_model_eq_spelled p d hns] at *
  exact wrappers_partial_set d p v hsp

theorem wrappers_partial_rm_repaired (d : Doc) (p : Text) (hsp : splitScopeNpath p = .ok none)
    (hns : NameAgree.noSpellingClash d p) :
    (@removeValue NameCmp.model p d).2.wrappers = d.wrappers := by
  simp only [NameAgree.setValue_model_eq_spelled p _ d hns, NameAgree.removeValue_model_eq_spelled p d hns] at *
  exact wrappers_partial_rm d p hsp

end Nima.C04
