"""Oracles for the layout properties (C01 C03 C06 C18) on the IMPLEMENTATION: everything is read
from tree-sitter CSTs of the input and of the output (independent tokenizer)."""
from __future__ import annotations

import re

from .oracle import cstread

INT = re.compile(r"\d+\Z")
DELIMITERS = {"{", "}", "[", "]", "(", ")", ";", ",", "=", ":"}


def leaves_of(text: str):
    root = cstread.ts_parse(text)
    b = text.encode("utf-8")
    out = []
    for n in cstread.leaves(root):
        if n.end_byte <= n.start_byte:
            continue
        out.append((n.type, b[n.start_byte:n.end_byte].decode("utf-8", "replace"), n.start_byte, n.end_byte))
    return out, b


def norm_tokens(toks: list[str]) -> list[str]:
    """value-preserving normalisations C01 allows: integer literals by value, a binding-less
    `let in` elided, a trailing comma before the `}` of a formals list"""
    out = []
    i = 0
    n = len(toks)
    while i < n:
        t = toks[i]
        if t == "let" and i + 1 < n and toks[i + 1] == "in":
            i += 2
            continue
        if t == "," and i + 2 < n and toks[i + 1] == "}" and toks[i + 2] in (":", "@"):
            i += 1
            continue
        if INT.match(t):
            t = str(int(t))
        out.append(t)
        i += 1
    return out


def cnorm(text: str) -> str:
    """what C03 allows to change in a comment: indentation of its lines and delimiter padding"""
    if text.startswith("/*"):
        inner = text[3:] if text.startswith("/**") and not text.startswith("/**/") else text[2:]
        if inner.endswith("*/"):
            inner = inner[:-2]
        lines = [ln.strip() for ln in inner.split("\n")]
        while lines and not lines[0]:
            lines.pop(0)
        while lines and not lines[-1]:
            lines.pop()
        return ("/**" if text.startswith("/**") and not text.startswith("/**/") else "/*") + "|" + "\n".join(lines)
    if text.startswith("#"):
        return "#|" + text[1:].strip()
    return text


def sequences(text: str):
    """(code tokens, interleaved tokens+comments) of an error-free text"""
    ls, _ = leaves_of(text)
    code = [t for (k, t, _, _) in ls if k != "comment"]
    inter = [("c", cnorm(t)) if k == "comment" else ("t", t) for (k, t, _, _) in ls]
    return code, inter


def norm_interleaved(inter):
    """apply norm_tokens to the token entries of an interleaved sequence, keeping comment positions
    relative to the surviving tokens"""
    toks = [x[1] for x in inter if x[0] == "t"]
    # positions of tokens that norm_tokens drops
    drop = set()
    n = len(toks)
    i = 0
    idx = [k for k, x in enumerate(inter) if x[0] == "t"]
    while i < n:
        if toks[i] == "let" and i + 1 < n and toks[i + 1] == "in":
            drop.update((idx[i], idx[i + 1]))
            i += 2
            continue
        if toks[i] == "," and i + 2 < n and toks[i + 1] == "}" and toks[i + 2] in (":", "@"):
            drop.add(idx[i])
        i += 1
    out = []
    for k, x in enumerate(inter):
        if k in drop:
            continue
        if x[0] == "t" and INT.match(x[1]):
            out.append(("t", str(int(x[1]))))
        else:
            out.append(x)
    return out


def line_level_comments(text: str) -> bool:
    """every comment sits alone on its line(s) or at the end of a line"""
    ls, b = leaves_of(text)
    for (k, t, s, e) in ls:
        if k != "comment":
            continue
        # rest of the line after the comment must be blank
        j = e
        while j < len(b) and b[j] in (32, 9, 13):
            j += 1
        if j < len(b) and b[j] != 10:
            return False
        if "\n" in t:
            # a multi-line comment must start its line
            i = s - 1
            while i >= 0 and b[i] in (32, 9):
                i -= 1
            if i >= 0 and b[i] != 10:
                return False
    return True


def spacing_nf(text: str) -> list[tuple[str, str]]:
    """violations of the formatter's spacing normal form (C18), as (rule, detail)"""
    ls, b = leaves_of(text)
    bad = []
    prev_end = 0
    line_starts = [0] + [i + 1 for i, c in enumerate(b) if c == 10]

    def line_of(off):
        import bisect

        return bisect.bisect_right(line_starts, off) - 1

    def col_of(off):
        return off - line_starts[line_of(off)]

    def line_indent(ln):
        i = line_starts[ln]
        while i < len(b) and b[i] == 32:
            i += 1
        return i - line_starts[ln]

    starts_line = {}
    for idx, (k, t, s, e) in enumerate(ls):
        gap = b[prev_end:s].decode("utf-8", "replace")
        first = idx == 0
        if "\t" in gap:
            bad.append(("tab", repr(gap)))
        if first:
            if gap != "":
                bad.append(("leading-whitespace", repr(gap)))
        elif "\n" in gap:
            parts = gap.split("\n")
            if parts[0].strip(" \t\r") == "" and parts[0] != "":
                bad.append(("trailing-whitespace", repr(gap)))
            if any(p != "" for p in parts[1:-1]):
                bad.append(("whitespace-on-blank-line", repr(gap)))
            if "\r" in gap:
                bad.append(("carriage-return", repr(gap)))
            if len(parts) - 1 > 2:
                bad.append(("blank-lines", repr(gap)))
        else:
            if gap not in ("", " "):
                bad.append(("space-run", repr(gap)))
            if t in (";", ":") and k in (";", ":") and gap != "":
                bad.append(("detached-" + t, repr(gap)))
        starts_line[idx] = first or "\n" in gap
        prev_end = e
    tail = b[prev_end:].decode("utf-8", "replace")
    if "\t" in tail or " " in tail or "\r" in tail:
        bad.append(("trailing-file-whitespace", repr(tail)))
    if tail.count("\n") > 2:
        bad.append(("blank-lines", repr(tail)))
    # closing delimiters that start a line are aligned with the line their opener is on
    stack = []
    pairs = {"}": "{", "]": "[", ")": "("}
    for idx, (k, t, s, e) in enumerate(ls):
        if k in ("{", "[", "("):
            stack.append((k, s))
        elif k in ("}", "]", ")"):
            op = None
            while stack:
                op = stack.pop()
                if op[0] == pairs[k]:
                    break
            if op is not None and starts_line.get(idx):
                ls0 = line_starts[line_of(op[1])]
                if any(ss < ls0 < ee for (_, _, ss, ee) in ls):
                    continue  # the opener's line begins inside a multi-line token: its indentation says nothing
                want = line_indent(line_of(op[1]))
                if col_of(s) != want:
                    bad.append(("closing-delimiter-indent", f"{t} at column {col_of(s)}, opener line indent {want}"))
    # own-line comments are indented with the structure they belong to: like the next line of code,
    # or one level deeper than a following closer (`}` `]` `)` `in` `then` `else`), or like the
    # previous line of code (a trailing comment of the item above)
    for idx, (k, t, s, e) in enumerate(ls):
        if k != "comment" or not starts_line.get(idx):
            continue
        nxt = next((j for j in range(idx + 1, len(ls)) if starts_line.get(j) and ls[j][0] != "comment"), None)
        prv = next((j for j in range(idx - 1, -1, -1) if starts_line.get(j) and ls[j][0] != "comment"), None)
        ok_cols = set()
        if nxt is not None:
            nk, nt, ns, ne = ls[nxt]
            ok_cols.add(col_of(ns))
            if nk in ("}", "]", ")", "in", "then", "else", ";"):
                ok_cols.add(col_of(ns) + 2)
        if prv is not None:
            ok_cols.add(col_of(ls[prv][2]))
        if nxt is None and prv is None:
            ok_cols.add(0)
        if col_of(s) not in ok_cols:
            bad.append(("comment-indent", f"comment at column {col_of(s)}, expected one of {sorted(ok_cols)}"))
    return bad


def evaluate(text: str):
    """Run the implementation on `text` and evaluate the C01/C03/C06/C18 clauses.
    Returns dict clause -> detail for the clauses that FAIL, plus 'output'."""
    from nix_manipulator import parse

    res = {"fails": {}, "output": None}
    try:
        src = parse(text)
        out = src.rebuild()
    except Exception as exc:  # noqa: BLE001
        res["fails"]["raises"] = f"{type(exc).__name__}: {exc}"
        return res
    res["output"] = out
    if src.contains_error:
        res["fails"]["input-flagged-erroneous"] = "library treats the input as erroneous"
        return res
    if not cstread.error_free(out):
        res["fails"]["output-parses"] = out
        # C03 can still be asked: do the comment tokens of the (unparsable) output carry the input's comment texts?
        try:
            ci = sorted(cnorm(x[1]) for x in norm_interleaved(sequences(text)[1]) if x[0] == "c")
            co = sorted(cnorm(x[1]) for x in norm_interleaved(sequences(out)[1]) if x[0] == "c")
            if ci != co:
                res["fails"]["comments"] = "comment-text"
        except Exception:  # noqa: BLE001
            pass
        return res
    out_cmp = cstread.strip_formals_trailing_commas(out)
    code_in, inter_in = sequences(text)
    code_out, inter_out = sequences(out_cmp)
    if norm_tokens(code_in) != norm_tokens(code_out):
        res["fails"]["tokens"] = f"{norm_tokens(code_in)} -> {norm_tokens(code_out)}"
    # C03 forbids a comment from crossing an identifier, literal, keyword or operator; delimiters
    # (`{ } [ ] ( ) ; , = :`) are not in that list, so they are left out of the interleaving
    ni = [x for x in norm_interleaved(inter_in) if not (x[0] == "t" and x[1] in DELIMITERS)]
    no = [x for x in norm_interleaved(inter_out) if not (x[0] == "t" and x[1] in DELIMITERS)]
    if ni != no:
        ci = [x[1] for x in ni if x[0] == "c"]
        co = [x[1] for x in no if x[0] == "c"]
        if sorted(ci) != sorted(co):
            kind = "comment-lost" if len(co) < len(ci) else ("comment-duplicated" if len(co) > len(ci) else "comment-text")
        elif ci != co:
            kind = "comment-order"
        else:
            kind = "comment-moved"
        if "tokens" not in res["fails"]:
            res["fails"]["comments"] = kind
    nf = spacing_nf(out)
    if nf:
        res["fails"]["spacing"] = sorted({r for r, _ in nf})
    # "the rebuilt text" is whatever rebuild() returns, also when the same parsed document is
    # rendered again (preview, then save): a later rendering that differs is judged as well
    try:
        again = src.rebuild()
        if again == out:
            again = src.rebuild()
    except Exception as exc:  # noqa: BLE001
        res["fails"].setdefault("raises", f"{type(exc).__name__} on repeated rebuild: {exc}")
        again = out
    if again != out:
        res["output_again"] = again
        if not cstread.error_free(again):
            res["fails"].setdefault("output-parses", again)
        else:
            code_again, inter_again = sequences(cstread.strip_formals_trailing_commas(again))
            if norm_tokens(code_in) != norm_tokens(code_again):
                res["fails"].setdefault("tokens", f"repeated rebuild: {norm_tokens(code_in)} -> {norm_tokens(code_again)}")
            na = [x for x in norm_interleaved(inter_again) if not (x[0] == "t" and x[1] in DELIMITERS)]
            if na != ni and "tokens" not in res["fails"]:
                res["fails"].setdefault("comments", "comment-changed-on-repeated-rebuild")
            nf2 = spacing_nf(again)
            if nf2:
                res["fails"]["spacing"] = sorted(set(res["fails"].get("spacing", [])) | {r + "@repeated-rebuild" for r, _ in nf2 if r not in {q for q, _ in nf}})
                if not res["fails"]["spacing"]:
                    del res["fails"]["spacing"]
    if line_level_comments(text):
        try:
            out2 = parse(out).rebuild()
            if out2 != out:
                res["fails"]["fixed-point"] = out2
        except Exception as exc:  # noqa: BLE001
            res["fails"]["fixed-point"] = f"raises {type(exc).__name__}"
    return res
