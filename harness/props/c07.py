"""C07 — sources with syntax errors are passed through untouched and never edited."""
from __future__ import annotations

import os
import subprocess
import sys
import tempfile

from .. import editcorr as ec
from .. import framework as fw
from ..gen import damage
from ..oracle import cstread

GEN_TABLES = ("gate", "cli_test", "cli_set", "cli_rm")


def run(ctx: fw.Ctx):
    ctx.extra["rule"] = (
        "texts obtained by deleting / duplicating / inserting a token or truncating at a byte in ~58 templates "
        "(every construct), with whitespace/comment wrappers, plus non-Nix text; each also used as the VALUE of a "
        "set; non-trivial = tree-sitter flags the text as erroneous"
    )
    ctx.trusted_base = [
        "Lean 4 kernel; axioms propext, Classical.choice, Quot.sound only",
        "tree-sitter-nix's has_error as the meaning of 'contains a syntax error'",
        "translator harness/translate/gen_gate.py (statement order of the gate) and the edit-model correspondence",
    ]
    ctx.assumptions = ["str -> UTF-8 -> str is the identity for texts without lone surrogates",
                       "a damaged text that is another valid program is out of scope (correctly)"]
    from nix_manipulator import parse
    from nix_manipulator.cli import manipulations as M

    hists = []
    cli_inputs = []
    n = 0
    for info, t in damage.stream(ctx.rng, ctx.quick):
        n += 1
        try:
            root = cstread.ts_parse(t)
        except Exception:  # noqa: BLE001
            continue
        err = root.has_error
        ctx.case({"text": t, **info}, err)
        ctx.count("kind:" + info["kind"] + (":erroneous" if err else ":valid"))
        inp = {"text": t, **info}
        if err:
            try:
                src = parse(t)
                rb = src.rebuild()
            except Exception as exc:  # noqa: BLE001
                ctx.fail({"clause": "parse-raises", "exc": type(exc).__name__}, inp,
                         f"parse/rebuild of erroneous text {t!r} raised {type(exc).__name__}: {exc}")
                continue
            if rb != t:
                ctx.fail({"clause": "passthrough", "kind": info["kind"]}, {**inp, "rebuilt": rb},
                         f"erroneous text {t!r} was rebuilt as {rb!r}")
            if not src.contains_error:
                ctx.fail({"clause": "not-flagged"}, inp, f"erroneous text {t!r} not flagged by the library")
            for op in (("set", "a", "1"), ("rm", "a"), ("set", "@x", "1"), ("rm", "a.b")):
                try:
                    out = M.set_value(src, op[1], op[2]) if op[0] == "set" else M.remove_value(src, op[1])
                    ctx.fail({"clause": "edited", "op": op[0]}, {**inp, "op": list(op), "output": out},
                             f"{op!r} on erroneous text {t!r} emitted {out!r}")
                except (ValueError, KeyError):
                    pass
                except Exception as exc:  # noqa: BLE001
                    ctx.fail({"clause": "edit-exception-class", "exc": type(exc).__name__}, {**inp, "op": list(op)},
                             f"{op!r} on erroneous text raised {type(exc).__name__}")
                if src.rebuild() != t:
                    ctx.fail({"clause": "edit-mutated"}, {**inp, "op": list(op)}, f"refused {op!r} changed the raw document")
            if n % 7 == 0:
                hists.append(ec.run_real(t, [("set", "a", "1"), ("rm", "a")], dict(info, cls="erroneous")))
            if n % 40 == 0 or info.get("template") == "non-nix":
                cli_inputs.append(t)
        # the same text as VALUE of a set
        kids = [c for c in root.named_children if c.type != "comment"]
        one_expr = (not err) and len(kids) == 1
        base = "{ a = 1; }\n"
        src = parse(base)
        try:
            out = M.set_value(src, "b", t)
            if not one_expr:
                ctx.fail({"clause": "bad-value-accepted", "kind": info["kind"]}, {"doc": base, "value": t, "output": out},
                         f"VALUE {t!r} (not exactly one well-formed expression) was accepted: {out!r}")
        except ValueError:
            if one_expr:
                # a single valid expression may still be of an unsupported node type: that is C20's business
                ctx.count("valid-value-refused")
            if src.rebuild() != base:
                ctx.fail({"clause": "bad-value-mutated"}, {"doc": base, "value": t}, "refused VALUE changed the document")
        except Exception as exc:  # noqa: BLE001
            ctx.fail({"clause": "value-exception-class", "exc": type(exc).__name__}, {"doc": base, "value": t},
                     f"VALUE {t!r} raised {type(exc).__name__}: {exc}")
    ec.correspond(ctx, hists)
    # texts the command line can carry (no NUL, no CR) with unusual characters first
    cli_inputs = [t for t in cli_inputs if "\x00" not in t and "\r" not in t]
    cli_inputs.sort(key=lambda t: 0 if any(ord(c) > 127 or ord(c) < 32 and c not in "\n\t" for c in t) else 1)
    cli_test(ctx, cli_inputs[: (40 if ctx.quick else 300)])


def cli_test(ctx: fw.Ctx, texts):
    env = dict(os.environ)
    if os.environ.get("NIMA_REPO"):
        env["PYTHONPATH"] = os.environ["NIMA_REPO"]
    tmp = tempfile.mkdtemp(prefix="nima-c07-")
    try:
        for i, t in enumerate(texts):
            if "\x00" in t or "\r" in t:
                continue  # NUL cannot travel as an argument; channel newline translation is C16's finding
            use_file = i % 2 == 1
            cmd = [sys.executable, "-m", "nix_manipulator", "test"]
            tail = []
            if use_file:
                p = os.path.join(tmp, f"in{i}.nix")
                with open(p, "w", encoding="utf-8", newline="") as f:
                    f.write(t)
                tail = ["-f", p]
            pr = subprocess.run(cmd + tail, input=None if use_file else t, capture_output=True, text=True, timeout=60,
                                env=env, cwd=tmp)
            ctx.count("cli_runs")
            if pr.stdout != "Fail\n" or pr.returncode != 1:
                ctx.fail({"clause": "cli-test"}, {"text": t, "file": use_file, "stdout": pr.stdout, "exit": pr.returncode},
                         f"nima test on erroneous {t!r}: stdout {pr.stdout!r} exit {pr.returncode}")
            for args in (["set", "a", "1"], ["rm", "a"]):
                cmd2 = [sys.executable, "-m", "nix_manipulator", *args] + tail
                pr = subprocess.run(cmd2, input=None if use_file else t, capture_output=True, text=True, timeout=60,
                                    env=env, cwd=tmp)
                if pr.stdout != "" or pr.returncode == 0:
                    ctx.fail({"clause": "cli-edit"}, {"text": t, "args": args, "stdout": pr.stdout, "exit": pr.returncode},
                             f"nima {args} on erroneous {t!r}: stdout {pr.stdout!r} exit {pr.returncode}")
                else:
                    # correspondence with C07.cli_set_refused / cli_rm_refused (model: `tracebackRes .value`,
                    # i.e. silence, exit status 1, ValueError on stderr); a difference is a broken tie, not
                    # by itself a violation (the property only asks for a loud refusal)
                    ctx.count("cli_edit_corr")
                    last = (pr.stderr.strip().splitlines() or [""])[-1]
                    if pr.returncode != 1 or not last.startswith("ValueError"):
                        ctx.tie_break("correspondence", "C07.cli_set_refused/cli_rm_refused: model says exit 1 + ValueError",
                                      request={"text": t, "args": args}, implementation={"exit": pr.returncode, "stderr_last": last[:200]},
                                      model={"exit": 1, "raised": "ValueError"})
        # a VALUE that is not exactly one well-formed expression is refused by the command line too
        for val in ["2;", "[ 1 2 ];", "\"2.0\";", " { a = 1; }; ", "1 +", "", "2;;", "a = 1;"]:
            for args in (["set", "a", val], ["set", "zz.k", val]):
                pr = subprocess.run([sys.executable, "-m", "nix_manipulator", *args], input="{ a = 1; }\n", capture_output=True,
                                    text=True, timeout=60, env=env, cwd=tmp)
                ctx.count("cli_value_runs")
                ctx.case({"cli": args}, True)
                if pr.stdout != "" or pr.returncode == 0:
                    ctx.fail({"clause": "cli-bad-value"}, {"args": args, "stdout": pr.stdout, "exit": pr.returncode},
                             f"nima {args} (VALUE is not one well-formed expression): stdout {pr.stdout!r} exit {pr.returncode}")
    finally:
        import shutil

        shutil.rmtree(tmp, ignore_errors=True)


def search(ctx: fw.Ctx):
    ctx.quick = False
    run(ctx)


def replay(payload: dict) -> int:
    from nix_manipulator import parse

    inp = payload["input"]
    if "text" in inp:
        t = inp["text"]
        rb = parse(t).rebuild()
        print("has_error:", cstread.ts_parse(t).has_error, "rebuild == text:", rb == t)
        return 0 if rb == t else 1
    return 0
