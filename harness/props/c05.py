"""C05 — a successful edit yields valid Nix with exactly the requested attribute change."""
from __future__ import annotations

import re

from .. import editcorr as ec
from .. import editprops as ep
from .. import framework as fw
from ..gen import docs
from ..oracle import cstread

GEN_TABLES = ()
IDENT = re.compile(r"^[A-Za-z_][A-Za-z0-9_'-]*\Z")


def run(ctx: fw.Ctx):
    ctx.extra["rule"] = (
        "histories over editable documents (11 wrapper shapes x let layers x plain/attrpath/nested/quoted/inherit "
        "bodies) with set/rm on plain, nested, attrpath-derived, quoted and scope-prefixed paths; non-trivial = at "
        "least one successful operation; oracle = attribute tree decoded from the OUTPUT CST by tree-sitter vs "
        "the documented semantics (spec_set/spec_rm)"
    )
    ctx.trusted_base = [
        "Lean 4 kernel; axioms propext, Classical.choice, Quot.sound only",
        "edit model Model/Edit.lean tied by correspondence of the object graph after every operation",
        "tree-sitter-nix as independent reader of output text; reference semantics harness/editprops.py spec_set/spec_rm",
    ]
    ctx.assumptions = ["values are compared as whitespace-normalised source text",
                       "edits through identifier references are decided by C11, not here"]
    stride, nrand, maxops = (2, 800, 8) if ctx.quick else (1, 12000, 30)
    hists = ep.build_stream(ctx, stride, nrand, maxops, enum_offset=2)
    ec.correspond(ctx, hists)
    observe(ctx, hists)


def is_ident_leaf(v) -> bool:
    return isinstance(v, str) and bool(IDENT.match(v)) and v not in ("true", "false", "null")


def observe(ctx: fw.Ctx, hists):
    for h in hists:
        if h.parse_error:
            continue
        ok_ops = [r for r in h.recs if r.result == "ok"]
        ctx.case({"doc": h.text, "ops": [list(r.op) for r in h.recs]}, bool(ok_ops))
        for r in h.recs:
            check_op(ctx, h, r)
        if any(r.op[1].startswith("@") and r.result == "ok" for r in h.recs):
            # a scoped edit must leave every other let binding / inherit and the body as they were:
            # same reference semantics as C09
            from . import c09

            c09.observe(ctx, [h], count_case=False)


def check_op(ctx, h, r):
    path = r.op[1]
    scoped = path.startswith("@")
    inp = {"doc": h.text, "ops": [list(x.op) for x in h.recs], "at": list(r.op), "before": r.before_text,
           "stream": h.info.get("stream")}
    base_key = {"op": r.op[0], "path": ep.shape_of_path(path), "wrapper": h.info.get("wrapper")}
    if ep.quoted_identifier_segment(path):
        base_key["quoted_ident"] = True
    mixed_roots = ep.attrpath_prefixes_of(r.before_text, "mixed") if not scoped else set()
    if mixed_roots:
        try:
            nm0 = tuple(ep.split_path(path))
        except Exception:  # noqa: BLE001
            nm0 = ()
        if any(nm0[:k] in mixed_roots for k in range(1, len(nm0) + 1)):
            base_key["mixed"] = True  # the path runs through a name defined both explicitly and by a dotted binding
    editable = cstread.find_target(cstread.ts_parse(r.before_text)) is not None and \
        not cstread.ts_parse(r.before_text).has_error
    if r.result == "ok":
        out = r.out
        if not cstread.error_free(out):
            ctx.fail({"clause": "output-parses", **base_key, "scoped": scoped, "cause": syntax_cause(h, r)},
                     {**inp, "output": out},
                     f"{r.op!r} on {r.before_text!r} emitted text with a syntax error: {out!r}")
            return
        if scoped:
            return  # layer semantics are C09's
        tb = ep.safe_tree(r.before_text)
        ta = ep.safe_tree(out)
        if isinstance(ta, tuple):
            if not isinstance(tb, tuple):
                try:
                    op_names = ep.split_path(path)
                except Exception:  # noqa: BLE001
                    op_names = []
                via = "inherit" if inherited_at(tb, ta[1].split(".")) or (op_names and inherited_at(tb, op_names)) else "binding"
                ctx.fail({"clause": "duplicate", "via": via, **base_key}, {**inp, "output": out},
                         f"{r.op!r} created a duplicate definition {ta[1]} in {out!r}")
            return
        if tb is None or isinstance(tb, tuple) or ta is None:
            return
        try:
            names = ep.split_path(path)
        except Exception:  # noqa: BLE001
            return
        existing = ep.tree_get(tb, names)
        if r.op[0] == "set":
            if is_ident_leaf(existing):
                # the value at the path is a name: which binding gets rewritten is C11's question; C05's is
                # that afterwards the path HOLDS the value: what its expression denotes under Nix scoping
                # in the OUTPUT (followed with the CST resolver) is the requested value
                from . import c11

                b, ref = c11.ref_of_path(out, names)
                want_v = ep.value_as_tree(r.op[2])
                if b is None or want_v is None:
                    ctx.count("skipped:reference")
                    return
                if ref is not None and ep.value_as_tree(ref.text.decode()) == want_v:
                    ctx.count("reference-overwritten-by-name")
                    return  # the requested value is itself a name and now stands at the path
                if ref is None:
                    val = b.child_by_field_name("expression")
                else:
                    res = c11.resolve(ref, ref.text.decode())
                    if res[0] != "binding":
                        ctx.count("skipped:reference-" + res[0])
                        return
                    val = res[1].child_by_field_name("expression")
                ctx.count("reference-followed")
                got_v = ep.value_as_tree(val.text.decode())
                if got_v != want_v:
                    sib = ref is not None and isinstance(tb, dict) and ref.text.decode() in tb
                    ctx.fail({"clause": "reference-holds-value", **base_key, "binder": c11.binder_kind(res) if ref is not None else "path",
                              "separated": c11.separated(res, out) if ref is not None else False, **({"sibling": True} if sib else {})},
                             {**inp, "output": out},
                             f"{r.op!r} on {r.before_text!r} succeeded, but in the output {'.'.join(names)} denotes "
                             f"{val.text.decode()!r}, not the requested value: {out!r}")
                return
            vt = ep.value_as_tree(r.op[2])
            want = ep.spec_set(tb, names, vt)
            if want is None:
                ctx.fail({"clause": "accepted-through-non-set", **base_key}, {**inp, "output": out},
                         f"{r.op!r} succeeded although the path runs through a non-set value")
                return
            if ta != want:
                ctx.fail({"clause": "reads-back", **base_key, "existing": kind_of(existing, tb, names, r.before_text),
                          "family": family_of(names, r.before_text)},
                         {**inp, "output": out, "tree": ta, "expected": want},
                         f"after {r.op!r} on {r.before_text!r} Nix reads {ta!r}, expected {want!r} (output {out!r})")
                return
            if existing is None:
                placement(ctx, r, names, out, base_key, inp)
        else:
            want = ep.spec_rm(tb, names, ep.attrpath_parents_of(r.before_text))
            if want is None:
                ctx.fail({"clause": "rm-accepted-missing", **base_key}, {**inp, "output": out},
                         f"{r.op!r} succeeded although the path does not exist")
                return
            if ta != want:
                ctx.fail({"clause": "reads-back", **base_key, "existing": kind_of(existing, tb, names, r.before_text),
                          "family": family_of(names, r.before_text)},
                         {**inp, "output": out, "tree": ta, "expected": want},
                         f"after {r.op!r} on {r.before_text!r} Nix reads {ta!r}, expected {want!r} (output {out!r})")
        return
    # refused: only for the documented reasons, never because of the wrappers
    if not editable or scoped:
        return
    if r.op[0] == "set" and ep.value_as_tree(r.op[2]) is None:
        return  # invalid value (C07)
    if not ep.path_wellformed(path):
        return  # malformed path (judged by the property's own grammar, not by the code under test)
    names = ep.split_path(path)
    tb = ep.safe_tree(r.before_text)
    if tb is None or isinstance(tb, tuple):
        return
    parents = ep.attrpath_parents_of(r.before_text)
    existing = ep.tree_get(tb, names)
    through_leaf = any(not isinstance(ep.tree_get(tb, names[:k]), (dict, type(None))) for k in range(1, len(names)))
    documented = (
        (r.op[0] == "rm" and (existing is None or isinstance(existing, (tuple, list))))  # inherited: no binding to remove
        or through_leaf
        or (r.op[0] == "set" and tuple(names) in parents)          # attrpath-root overwrite
        or (r.op[0] == "rm" and tuple(names) in parents)           # attrpath root cannot be removed as a whole
        or tuple(names) in mixed_roots                              # … also when an explicit binding of the root exists
        or any(tuple(names[:k]) in parents or isinstance(ep.tree_get(tb, names[:k]), dict) and mixed(tb, names, k, parents)
               for k in range(1, len(names)))
    )
    if not documented:
        ctx.fail({"clause": "refusal", **base_key, "class": r.result}, inp,
                 f"{r.op!r} on editable {r.before_text!r} was refused ({r.exc}) for no documented reason")


def family_of(names, before_text) -> str:
    """where the attrpath family the path runs through is rooted: 'top' (in the edited set itself),
    'nested' (inside an explicit nested set), 'none'"""
    parents = ep.attrpath_parents_of(before_text)
    lens = [k for k in range(1, len(names) + 1) if tuple(names[:k]) in parents]
    if not lens:
        return "none"
    return "top" if min(lens) == 1 else "nested"


def inherited_at(tree, names) -> bool:
    """is some prefix of the path defined by an `inherit` clause?"""
    cur = tree
    for n in names:
        if not isinstance(cur, dict) or n not in cur:
            return False
        cur = cur[n]
        if isinstance(cur, (tuple, list)) and cur and cur[0] == "inherit":
            return True
    return False


def syntax_cause(h, r) -> str:
    """why the output does not parse, as far as the document's shape tells"""
    snap = r.snap_after
    has_layers = isinstance(snap, list) and snap and snap[0] == "doc" and (snap[5] or snap[10])
    if has_layers and h.info.get("wrapper") in docs.CALL_WRAPPERS:
        return "let-in-call-argument"
    if r.op[0] == "set" and "#" in r.op[2]:
        cm = r.op[2][r.op[2].index("#"):].split("\n")[0].rstrip()
        if any(cm in ln and ln.split(cm, 1)[1].strip() != "" for ln in r.out.split("\n")):
            return "line-comment-value-in-one-line-set"  # code follows the VALUE's line comment on its line
    return "other"


def mixed(tb, names, k, parents) -> bool:
    """explicit binding inside an attrpath family (documented: 'Mixed explicit binding inside attrpath')"""
    return any(tuple(names[:j]) in parents for j in range(1, k + 1))


def kind_of(existing, tb, names, before_text) -> str:
    parents = ep.attrpath_parents_of(before_text)
    if existing is None:
        if any(tuple(names[:k]) in parents for k in range(1, len(names))):
            return "absent-in-attrpath-family"
        return "absent"
    if tuple(names) in parents:
        return "attrpath-parent"
    if any(tuple(names[:k]) in parents for k in range(1, len(names))):
        return "attrpath-leaf"
    return "set" if isinstance(existing, dict) else "leaf"


def placement(ctx, r, names, out, base_key, inp):
    """a new binding goes last; an existing attrpath family is extended in attrpath form"""
    root = cstread.ts_parse(out)
    tgt = cstread.find_target(root)
    if tgt is None:
        return
    parents_before = ep.attrpath_parents_of(r.before_text)
    bs = [c for c in tgt.named_children if c.type == "binding_set"]
    items = [b for b in (bs[0].named_children if bs else []) if b.type in ("binding", "inherit", "inherit_from")]
    if not items:
        return
    tb = ep.safe_tree(r.before_text)
    if (names[0],) in parents_before:
        # attrpath form: some binding's attrpath decodes to exactly `names`
        found = False
        for b in items:
            if b.type == "binding":
                ap = b.child_by_field_name("attrpath")
                dn = [cstread.attr_name(a) for a in ap.named_children if a.type != "comment"]
                if dn == names:
                    found = True
        if not found:
            ctx.fail({"clause": "attrpath-form", **base_key}, {**inp, "output": out},
                     f"{r.op!r}: the attrpath family {names[0]!r} was not extended in attrpath form: {out!r}")
    elif isinstance(tb, dict) and names[0] not in tb:
        last = items[-1]
        ok = False
        if last.type == "binding":
            ap = last.child_by_field_name("attrpath")
            dn = [cstread.attr_name(a) for a in ap.named_children if a.type != "comment"]
            ok = dn[:1] == names[:1]
        if not ok:
            ctx.fail({"clause": "new-binding-last", **base_key}, {**inp, "output": out},
                     f"{r.op!r}: the new binding is not the last one of the set: {out!r}")


def search(ctx: fw.Ctx):
    hists = ep.build_stream(ctx, 1, 3000, 12, enum_offset=1)
    observe(ctx, hists)


def replay(payload: dict) -> int:
    inp = payload["input"]
    h = ec.run_real(inp["doc"], [tuple(o) for o in inp.get("ops", [])], {})
    ctx = fw.Ctx("C05", "quick", 0)
    observe(ctx, [h])
    for r in h.recs:
        print(r.op, "->", r.result, r.exc, repr(r.out))
    for f in ctx.failures:
        print("FAIL", f["what"])
    return 1 if ctx.failures else 0
