import NimaVerif.Model.Cst
/-!
L5 (parse side): `fromCst` for the container fragment — a transliteration, bug-compatible, of

  * `expressions/trivia.py`      `parse_delimited_sequence`, `append_gap_trivia_from_offsets`,
                                 `append_comment_between`, `gap_has_empty_line_from_offsets`
  * `expressions/source_code.py` `NixSourceCode.from_cst`
  * `expressions/list.py`        `NixList.from_cst`, `process_list`
  * `expressions/set.py`         `AttributeSet.from_cst`, `binding_parser.parse_binding_sequence`
  * `expressions/binding.py`     `Binding.from_cst`
  * `expressions/primitive.py`, `identifier.py`, `float.py`, `path.py`  (leaf `from_cst`)
  * `expressions/parenthesis.py` `Parenthesis.from_cst`
  * `expressions/function/call.py` `FunctionCall.from_cst` (with `collect_comments_between_with_gap`,
                                 `_collect_comment_trivia` of `trivia.py`)
  * `expressions/with_statement.py` `WithStatement.from_cst`, `expressions/assertion.py` `Assertion.from_cst`
  * `expressions/select.py`      `Select.from_cst`
  * `expressions/unary.py`       `UnaryExpression.from_cst`
  * `expressions/binary.py`      `BinaryExpression.from_cst` (without comments around the operator)
  * `expressions/if_expression.py` `IfExpression.from_cst`
  * `expressions/has_attr.py`    `HasAttrExpression.from_cst`
  * `expressions/function/definition.py` `FunctionDefinition.from_cst` (identifier argument, `_collect_colon_trivia`)
                                 (with `split_inline_comments`, `append_gap_trivia`)

`Expr` has one constructor per Python class with the fields the fragment uses (`Binding` is an
expression with `before`/`after` exactly as in Python). Everything the Python reads from node
positions is computed from the gaps of the `Cst`:

  * `gap_from_offsets(a.end_byte, b.start_byte)` for neighbouring nodes = the gap between them
    (exact because the file does not start with whitespace: `File.noLeadingWs`);
  * `comment.start_point.row == prev.end_point.row`  ⇔  that gap contains no `\n`;
  * `b"\n" in node.text` = the flattened node contains `\n`;
  * `node.start_point.column` is read by `Comment.from_cst` only for block comments whose text
    contains a line break, which the fragment excludes (`isCommentTok`), so it is not needed.

`attrpath_order` is not a field: for single-segment names `_split_attrpath` returns one segment,
so `Binding.from_cst` builds no nested binding, `_collect_attrpath_order` appends every binding
itself (the list is `values`, same objects, same order) and `_merge_attrpath_bindings` keeps every
non-nested binding (duplicates included); `rebuild` renders `attrpath_order` when it is non-empty,
i.e. `values`.  A name with several segments is answered `uncovered`.
Core Lean only.
-/
namespace Nima.Frag

inductive Expr where
  /-- Identifier / Boolean / Null / Integer / Float / String primitive, NixPath: token text -/
  | leaf (k : LeafKind) (text : Text) (before after : List Trivia)
  /-- `NixList(value, multiline, inner_trivia)` -/
  | list (value : List Expr) (multiline : Bool) (inner before after : List Trivia)
  /-- `AttributeSet(values, multiline, recursive, inner_trivia)` -/
  | set (values : List Expr) (multiline recursive : Bool) (inner before after : List Trivia)
  /-- `Binding(name, value, value_gap)` -/
  | binding (name : Text) (value : Expr) (valueGap : Text) (before after : List Trivia)
  /-- `Parenthesis(value, leading_gap, trailing_gap, leading_blank_line, trailing_blank_line)` -/
  | paren (value : Expr) (leadingGap trailingGap : Text) (leadingBlank trailingBlank : Bool)
      (before after : List Trivia)
  /-- `FunctionCall(name, argument, argument_gap, function_after)`. `recursive` is not a field:
      `from_cst` sets it exactly when the argument node is a `rec { }`, whose expression is an
      `AttributeSet(recursive=True)`, and for those `rebuild` writes no extra `rec`. `argument_gap` is
      a `Text`: `from_cst` always sets it (the `None` branch of `rebuild` is for calls built by hand). -/
  | app (name arg : Expr) (argGap : Text) (fnAfter : List Comment) (before after : List Trivia)
  /-- `WithStatement(environment, body, after_with_comments, after_with_gap, after_semicolon_comments)` -/
  | wth (env body : Expr) (awc : List Trivia) (awGap : Text) (asc : List Comment) (before after : List Trivia)
  /-- `Assertion(expression, body, after_assert_comments, before_semicolon_comments)`. `between` is not
      a field: `rebuild` renders the body as a copy with `before = between + body.before`, and nothing
      else reads it; the model writes that into the body where `from_cst` computes it (`asrtFromCst`). -/
  | asrt (cond body : Expr) (aac bsc : List Trivia) (before after : List Trivia)
  /-- `Select(expression, attribute, default=None, attr_gap, attr_before)`; `attribute` is kept as its
      `.`-separated segments (`attrText attrs` is the Python string) -/
  | sel (expr : Expr) (attrs : List Text) (attrGap : Text) (attrBefore : List Trivia) (before after : List Trivia)
  /-- `Select(expression, attribute, default, attr_gap, attr_before, default_gap, default_before)` -/
  | selOr (expr : Expr) (attrs : List Text) (attrGap : Text) (attrBefore : List Trivia) (dflt : Expr)
      (dfltGap : Text) (dfltBefore : List Trivia) (before after : List Trivia)
  /-- `FunctionDefinition(argument_set=Identifier(name), before_colon_comments, before_colon_gap,
      breaks_after_semicolon, output)` — `argument_set_is_multiline = False`, no named attribute set, no
      comment after the colon -/
  | lam (name : Text) (bcc : List Trivia) (bcGap : Text) (breaks : Nat) (body : Expr) (before after : List Trivia)
  /-- `UnaryExpression(operator, expression, operand_gap, between)` -/
  | un (op : Text) (expr : Expr) (gap : Text) (between : List Trivia) (before after : List Trivia)
  /-- `BinaryExpression(operator=Operator(name), left, right, operator_gap_lines, right_gap_lines)`; the
      operator carries no trivia (no comments around it in the fragment) -/
  | bin (op : Text) (left right : Expr) (opGapLines rightGapLines : Nat) (before after : List Trivia)
  /-- `IfExpression(condition, consequence, alternative, condition_gap, after_if_comments, after_if_gap,
      before_then_comments, before_then_gap, after_then_comments, then_gap, before_else_comments, before_else_gap,
      after_else_comments, else_gap)` -/
  | ite (cond thn els : Expr) (condGap : Text) (aic : List Trivia) (aiGap : Text) (btc : List Trivia) (btGap : Text)
      (atc : List Comment) (thenGap : Text) (bec : List Trivia) (beGap : Text) (aec : List Comment) (elseGap : Text)
      (before after : List Trivia)
  /-- `HasAttrExpression(expression, attrpath, left_gap, right_gap, before_question_comments,
      after_question_comments)`; `attrpath` is kept as its `.`-separated segments -/
  | has (expr : Expr) (attrs : List Text) (leftGap rightGap : Text) (bqc aqc : List Trivia) (before after : List Trivia)

/-- `NixSourceCode(expressions, trailing)` -/
structure Src where
  exprs : List Expr
  trailing : List Trivia

def Expr.before : Expr → List Trivia
  | .ite _ _ _ _ _ _ _ _ _ _ _ _ _ _ b _ => b
  | .has _ _ _ _ _ _ b _ => b
  | .bin _ _ _ _ _ b _ => b
  | .un _ _ _ _ b _ => b
  | .lam _ _ _ _ _ b _ => b
  | .leaf _ _ b _ => b
  | .list _ _ _ b _ => b
  | .set _ _ _ _ b _ => b
  | .binding _ _ _ b _ => b
  | .paren _ _ _ _ _ b _ => b
  | .app _ _ _ _ b _ => b
  | .wth _ _ _ _ _ b _ => b
  | .asrt _ _ _ _ b _ => b
  | .sel _ _ _ _ b _ => b
  | .selOr _ _ _ _ _ _ _ b _ => b

def Expr.after : Expr → List Trivia
  | .ite _ _ _ _ _ _ _ _ _ _ _ _ _ _ _ a => a
  | .has _ _ _ _ _ _ _ a => a
  | .bin _ _ _ _ _ _ a => a
  | .un _ _ _ _ _ a => a
  | .lam _ _ _ _ _ _ a => a
  | .leaf _ _ _ a => a
  | .list _ _ _ _ a => a
  | .set _ _ _ _ _ a => a
  | .binding _ _ _ _ a => a
  | .paren _ _ _ _ _ _ a => a
  | .app _ _ _ _ _ a => a
  | .wth _ _ _ _ _ _ a => a
  | .asrt _ _ _ _ _ a => a
  | .sel _ _ _ _ _ a => a
  | .selOr _ _ _ _ _ _ _ _ a => a

def Expr.setBefore : Expr → List Trivia → Expr
  | .ite c t e cg aic aig btc btg atc tg bec beg aec eg _ a, b => .ite c t e cg aic aig btc btg atc tg bec beg aec eg b a
  | .has e ats lg rg bq aq _ a, b => .has e ats lg rg bq aq b a
  | .bin o l r x y _ a, b => .bin o l r x y b a
  | .un o e g bt _ a, b => .un o e g bt b a
  | .lam n c g k bd _ a, b => .lam n c g k bd b a
  | .leaf k t _ a, b => .leaf k t b a
  | .list v m i _ a, b => .list v m i b a
  | .set v m r i _ a, b => .set v m r i b a
  | .binding n v g _ a, b => .binding n v g b a
  | .paren v lg tg lb tb _ a, b => .paren v lg tg lb tb b a
  | .app n x g fa _ a, b => .app n x g fa b a
  | .wth e bd c g s _ a, b => .wth e bd c g s b a
  | .asrt c bd x y _ a, b => .asrt c bd x y b a
  | .sel e ats g ab _ a, b => .sel e ats g ab b a
  | .selOr e ats g ab d dg db _ a, b => .selOr e ats g ab d dg db b a

def Expr.setAfter : Expr → List Trivia → Expr
  | .ite c t e cg aic aig btc btg atc tg bec beg aec eg b _, a => .ite c t e cg aic aig btc btg atc tg bec beg aec eg b a
  | .has e ats lg rg bq aq b _, a => .has e ats lg rg bq aq b a
  | .bin o l r x y b _, a => .bin o l r x y b a
  | .un o e g bt b _, a => .un o e g bt b a
  | .lam n c g k bd b _, a => .lam n c g k bd b a
  | .leaf k t b _, a => .leaf k t b a
  | .list v m i b _, a => .list v m i b a
  | .set v m r i b _, a => .set v m r i b a
  | .binding n v g b _, a => .binding n v g b a
  | .paren v lg tg lb tb b _, a => .paren v lg tg lb tb b a
  | .app n x g fa b _, a => .app n x g fa b a
  | .wth e bd c g s b _, a => .wth e bd c g s b a
  | .asrt c bd x y b _, a => .asrt c bd x y b a
  | .sel e ats g ab b _, a => .sel e ats g ab b a
  | .selOr e ats g ab d dg db b _, a => .selOr e ats g ab d dg db b a

/-- `expr.after.extend(ts)` -/
def Expr.addAfter (e : Expr) (ts : List Trivia) : Expr := e.setAfter (e.after ++ ts)

/-- apply `f` to `items[-1]` -/
def modifyLast {α : Type} (f : α → α) : List α → List α
  | [] => []
  | [x] => [f x]
  | x :: y :: rest => x :: modifyLast f (y :: rest)

/-- `append_gap_trivia_from_offsets(trivia, parent, a, b, include_linebreak=…)` on the gap text -/
def appendGapTriviaOff (ts : List Trivia) (gap : Text) (includeLinebreak : Bool := true) : List Trivia :=
  if !containsNL gap then ts
  else if gapHasEmptyLineOffsets gap then ts ++ [.emptyLine]
  else if includeLinebreak then ts ++ [.linebreak]
  else ts

/-- `Comment.from_cst(node)` (+ the `inline` flag the caller sets). The start column is read by the
    Python only when the comment text contains a line break. -/
def mkComment (t : Text) (inline : Bool) : Comment := { Comment.fromText 0 t with inline := inline }

/-- `str(int(text))`: leading zeros dropped -/
def normInt (t : Text) : Text :=
  match t.dropWhile (· == '0') with
  | [] => ['0']
  | r => r

/-- `StringPrimitive(raw_string=True)`: the surrounding quotes are removed by `from_cst` when both
    are there and written back by `_render_value` -/
def strRender (t : Text) : Text :=
  if t.head? == some '"' && t.getLast? == some '"' then '"' :: (t.drop 1).dropLast ++ ['"']
  else '"' :: t ++ ['"']

/-- leaf `from_cst` -/
def leafFromCst (k : LeafKind) (t : Text) : Except Err Expr :=
  match k with
  | .int => if t.length > maxIntDigits then .error .value else .ok (.leaf .int (normInt t) [] [])
  | .str => .ok (.leaf .str (strRender t) [] [])
  | k => .ok (.leaf k t [] [])

/-- what `prev_content` is in the loop of `parse_delimited_sequence` -/
inductive Prev where
  | none | cmt | item
deriving DecidableEq, Repr

/-- loop state of `parse_delimited_sequence`: `items`, `before`, `prev_content` -/
structure SeqSt where
  items : List Expr := []
  before : List Trivia := []
  prev : Prev := .none

/-- `can_inline_comment(prev, comment_node, items)` of the three callers; `gap` is the text between
    `prev` and the comment, so "same row" is "no line break in it" -/
def prevAllowsInline (m : Mode) (prev : Prev) : Bool :=
  match m with
  | .set => prev == .item      -- prev.type in ("binding", "inherit", "inherit_from")
  | _ => prev != .none         -- prev is not None

def canInline (m : Mode) (st : SeqSt) (gap : Text) : Bool :=
  prevAllowsInline m st.prev && !containsNL gap && !st.items.isEmpty

/-- `push_gap(prev, cur)` -/
def pushGap (st : SeqSt) (gap : Text) : List Trivia :=
  if st.prev == .none then st.before else appendGapTriviaOff st.before gap

/-- one comment child in the loop of `parse_delimited_sequence` -/
def seqComment (m : Mode) (st : SeqSt) (gap t : Text) : SeqSt :=
  if canInline m st gap then
    { items := modifyLast (fun e => e.addAfter [.comment (mkComment t true)]) st.items,
      before := pushGap st gap, prev := .cmt }
  else
    -- append_comment_between(before, parent, prev_content, child)
    { items := st.items, before := pushGap st gap ++ [.comment (mkComment t false)], prev := .cmt }

/-- the comments of a binding in front of the value: `push_gap` + `before_value.append(comment)` -/
def gcTrivia (acc : List Trivia) : GC → List Trivia
  | [] => acc
  | p :: rest => gcTrivia (appendGapTriviaOff acc p.1 ++ [.comment (mkComment p.2 false)]) rest

/-- `Binding.from_cst(node, before=…)` given the parsed value -/
def bindingFromCst (name : Text) (c1 c2 : GC) (g2 : Text) (ve : Expr) (c3 : GC)
    (before : List Trivia) : Except Err Expr :=
  let bv := appendGapTriviaOff (gcTrivia (gcTrivia [] c1) c2) g2
  let ve := ve.setBefore (bv ++ ve.before)
  -- the first comment after the value is inline when it starts on the row the value ends on
  let (ve, rest3) : Expr × GC :=
    match c3 with
    | p :: rest => if !containsNL p.1 then (ve.addAfter [.comment (mkComment p.2 true)], rest) else (ve, c3)
    | [] => (ve, [])
  let ve := ve.addAfter (gcTrivia [] rest3)
  let valueGap := flattenGC c2 ++ g2          -- gap_between(node, equals_token, value_node)
  match splitAttrpathF name with
  | .error e => .error e
  | .ok [_] => .ok (.binding name ve valueGap before [])
  | .ok _ => .error (.internal "uncovered:attrpath")

/-- after the loop: left-over `before` goes to the last item or becomes `inner_trivia`; a blank
    line before the closing token is recorded -/
def finishSeq (st : SeqSt) (closeGap : Option Text) (hasContent : Bool) : List Expr × List Trivia :=
  let (items, inner) : List Expr × List Trivia :=
    if st.before.isEmpty then (st.items, [])
    else if st.items.isEmpty then ([], st.before)
    else (modifyLast (fun e => e.addAfter st.before) st.items, [])
  match closeGap with
  | some cg =>
    if hasContent && gapHasEmptyLineOffsets cg then
      if items.isEmpty then (items, inner ++ [.emptyLine])
      else (modifyLast (fun e => e.addAfter [.emptyLine]) items, inner)
    else (items, inner)
  | none => (items, inner)

/-- `before` at loop start: a blank line right after the opening token -/
def openBefore (its : Items) : List Trivia :=
  match its.firstGap with
  | some g => if gapHasEmptyLineOffsets g then [.emptyLine] else []
  | none => []

def Items.isNil : Items → Bool
  | .nil => true
  | _ => false

/-- `if not value and not inner_trivia:` — a blank line between the delimiters of an empty container -/
def emptyInner (items : List Expr) (inner : List Trivia) (between : Text) : List Trivia :=
  if items.isEmpty && inner.isEmpty then
    (if gapHasEmptyLineOffsets between then [.emptyLine] else [])
  else inner

/-- the comments between the function and the argument of a call, split the way
    `FunctionCall.from_cst` does: `inl` — those on the row the function ends on that do not touch it
    (`start_byte > function_node.end_byte and start_point.row == function_node.end_point.row`), in
    order; `rest` — the others, each with the source text between the end of the previous selected
    node (the function, or the previous comment of `rest`) and its start (the text
    `append_gap_between_offsets` scans: it may hold inline comments); `tail` — the text after the
    last comment of `rest` up to the end of the last comment. -/
structure AppSplit where
  inl : List Text := []
  rest : GC := []
  tail : Text := []

/-- `first`: no comment seen yet; `sameRow`: no line break since the function; `pend`: text since
    the previous selected node -/
def appSplit : GC → Bool → Bool → Text → AppSplit
  | [], _, _, pend => { tail := pend }
  | p :: cs, first, sameRow, pend =>
    let sameRow' := sameRow && !containsNL p.1
    if sameRow' && !(first && p.1.isEmpty) then
      let r := appSplit cs false sameRow' (pend ++ p.1 ++ p.2)
      { r with inl := p.2 :: r.inl }
    else
      let r := appSplit cs false sameRow' []
      { r with rest := (pend ++ p.1, p.2) :: r.rest }

/-- `before_argument`: `collect_comments_between_with_gap(node, comment_nodes, function_node,
    argument_node, allow_inline=False)[0]` for the comments that are not inline — gap markers and
    comments, then `empty_line` when a blank line separates the last comment from the argument -/
def appBeforeArg (sp : AppSplit) (g : Text) : List Trivia :=
  if sp.rest.isEmpty then []
  else gcTrivia [] sp.rest ++ (if gapHasEmptyLineOffsets (sp.tail ++ g) then [.emptyLine] else [])

/-- `FunctionCall.from_cst(node)` given the parsed function and argument. DEVIATION (kept explicit):
    `FunctionCall.rebuild` renders the argument as
    `argument.model_copy(update={"before": trim_leading_layout_trivia(argument.before)})` when
    `layout_from_gap(argument_gap).on_newline`; the model applies that trim here, where the field is
    written (same condition, same function; nothing reads `argument.before` in between), because the
    structurally recursive renderer cannot recurse on a modified copy. -/
def appFromCst (fe ae : Expr) (cs : GC) (g : Text) : Expr :=
  let sp := appSplit cs true true []
  let argGap := flattenGC cs ++ g                       -- gap_between(node, function_node, argument_node)
  let bf := appBeforeArg sp g ++ ae.before
  let bf := if (Layout.fromGap argGap).onNewline then trimLeadingLayoutTrivia bf else bf
  .app fe (ae.setBefore bf) argGap (sp.inl.map fun t => mkComment t true) [] []

/-- `_collect_comment_trivia(parent, selected, start=…, end=…, allow_inline=True, include_linebreak=True,
    inline_requires_gap=False, include_empty_line=True)`: each comment with the source text between the
    previous selected node (or `start`) and it; a comment that starts on the row the previous node ends
    on is `inline`; `tail` is the text between the last comment and `end` -/
def collectGo (acc : List Trivia) : GC → List Trivia
  | [] => acc
  | p :: rest => collectGo (appendGapTriviaOff acc p.1 ++ [.comment (mkComment p.2 (!containsNL p.1))]) rest

def collectTrivia (cs : GC) (tail : Text) : List Trivia :=
  let body := collectGo [] cs
  if !cs.isEmpty && gapHasEmptyLineOffsets tail then body ++ [.emptyLine] else body

/-- the comments between the head expression and the body of `with … ; …`, both sides of `;`, as
    `_select_comment_nodes_between(comments, environment_node, body_node)` returns them, each with the
    source text in front of it (the text of the first comment after `;` contains the `;`), and the
    text after the last of them -/
def semiSeq (c2 : GC) (g2 : Text) (c3 : GC) (g3 : Text) : GC × Text :=
  match c3 with
  | [] => (c2, g2 ++ ';' :: g3)
  | p :: r => (c2 ++ (g2 ++ ';' :: p.1, p.2) :: r, g3)

/-- `split_inline_comments(items)`: (remaining, inline comments) -/
def splitInline : List Trivia → List Trivia × List Comment
  | [] => ([], [])
  | .comment c :: rest =>
    let r := splitInline rest
    if c.inline then (r.1, c :: r.2) else (.comment c :: r.1, r.2)
  | t :: rest => let r := splitInline rest; (t :: r.1, r.2)

/-- `WithStatement.from_cst(node)` given the parsed environment and body -/
def withFromCst (env body : Expr) (c1 : GC) (g1 : Text) (c2 : GC) (g2 : Text) (c3 : GC) (g3 : Text) : Expr :=
  let awc := collectTrivia c1 g1                      -- after_with_comments; after_with_gap = g1
  let sq := semiSeq c2 g2 c3 g3
  let between := collectTrivia sq.1 sq.2              -- trailing_gap = sq.2
  let between := if between.isEmpty then appendGapTrivia [] sq.2 else between
  let sp := splitInline between
  let body := if sp.1.isEmpty then body else body.setBefore (sp.1 ++ body.before)
  .wth env body awc g1 sp.2 [] []

/-- `Assertion.from_cst(node)` given the parsed condition and body. DEVIATION (kept explicit):
    `between` is written into `body.before` here (see `Expr.asrt`). -/
def asrtFromCst (cond body : Expr) (c1 : GC) (g1 : Text) (c2 : GC) (g2 : Text) (c3 : GC) (g3 : Text) : Expr :=
  let aac0 := collectTrivia c1 g1
  let aac :=
    if aac0.isEmpty then appendGapTrivia [] g1
    else if containsNL g1 && !gapHasEmptyLine g1 then aac0 ++ [.linebreak] else aac0
  let bsc := collectTrivia c2 g2
  let between0 := collectTrivia c3 g3
  let between1 := if between0.isEmpty && gapHasEmptyLine g3 then [.emptyLine] else between0
  let sp : List Trivia × List Comment := if between1.isEmpty then (between1, []) else splitInline between1
  let body := if sp.1.isEmpty then body else body.setBefore (sp.1 ++ body.before)
  .asrt cond body aac bsc [] (sp.2.map Trivia.comment)

/-- `FunctionDefinition.from_cst(node)` for `name c1 g1 : g2 body`, given the parsed body:
    `_collect_colon_trivia` counts the line breaks between the colon and the body; the first one is
    `breaks_after_semicolon`, every further one a blank-line marker in front of the body -/
def lamFromCst (name : Text) (c1 : GC) (g1 g2 : Text) (body : Expr) : Expr :=
  let n := g2.count '\n'
  let trivia : List Trivia := List.replicate (n - 1) .emptyLine
  let body := if trivia.isEmpty then body else body.setBefore (trivia ++ body.before)
  .lam name (collectTrivia c1 g1) g1 (if n > 0 then 1 else 0) body [] []

/-- the comments between `then` / `else` and the branch: `collect_comments_between_with_gap(…, allow_inline=True)`,
    then `split_inline_comments`: the inline ones stay behind the keyword, the others go in front of the branch -/
def branchFromCst (e : Expr) (c : GC) (g : Text) : Expr × List Comment :=
  let cs := collectTrivia c g
  if cs.isEmpty then (e, [])
  else
    let sp := splitInline cs
    (if sp.1.isEmpty then e else e.setBefore (sp.1 ++ e.before), sp.2)

/-- `IfExpression.from_cst(node)` given the parsed condition, consequence and alternative -/
def iteFromCst (ce te ee : Expr) (c1 : GC) (g1 : Text) (c2 : GC) (g2 : Text) (c3 : GC) (g3 : Text) (c4 : GC) (g4 : Text)
    (c5 : GC) (g5 : Text) : Expr :=
  let t := branchFromCst te c3 g3
  let e := branchFromCst ee c5 g5
  .ite ce t.1 e.1 (flattenGC c1 ++ g1) (collectTrivia c1 g1) g1 (collectTrivia c2 g2) g2 t.2 (flattenGC c3 ++ g3)
    (collectTrivia c4 g4) g4 e.2 (flattenGC c5 ++ g5) [] []

mutual
/-- `tree_sitter_node_to_expression(node)` on the fragment -/
def Cst.parse : Cst → Except Err Expr
  | .leaf k t => leafFromCst k t
  | .list its cg =>
    match its.parseSeq .list { before := openBefore its } with
    | .error e => .error e
    | .ok st =>
      let r := finishSeq st (some cg) (!its.isNil)
      .ok (.list r.1 (containsNL ('[' :: its.flatten ++ cg ++ [']']))
            (emptyInner r.1 r.2 (its.flatten ++ cg)) [] [])
  | .set isRec rg its cg =>
    match its.parseSeq .set { before := openBefore its } with
    | .error e => .error e
    | .ok st =>
      let r := finishSeq st (some cg) (!its.isNil)
      .ok (.set r.1 (containsNL (Cst.flatten (.set isRec rg its cg))) isRec
            (emptyInner r.1 r.2 (its.flatten ++ cg)) [] [])
  | .paren its cg =>
    -- parse_delimited_sequence(node, content_nodes, …) without open/close token; `parse_item` raises
    -- ValueError on a second expression, "contains no expression" without one (checked after the loop:
    -- the grammar puts exactly one expression between the parentheses)
    match its.parseSeq .paren {} with
    | .error e => .error e
    | .ok st =>
      match (finishSeq st none (!its.isNil)).1 with
      | [v] =>
        .ok (.paren v its.preElem (its.postElem ++ cg)
              (gapHasEmptyLineOffsets (its.firstGap.getD [])) (gapHasEmptyLineOffsets cg) [] [])
      | _ => .error .value
  | .app f cs g a =>
    match f.parse with
    | .error e => .error e
    | .ok fe =>
      match a.parse with
      | .error e => .error e
      | .ok ae => .ok (appFromCst fe ae cs g)
  | .kw w c1 g1 h c2 g2 c3 g3 b =>
    match h.parse with
    | .error e => .error e
    | .ok he =>
      match b.parse with
      | .error e => .error e
      | .ok be => .ok (if w then withFromCst he be c1 g1 c2 g2 c3 g3 else asrtFromCst he be c1 g1 c2 g2 c3 g3)
  | .sel e c1 g1 _ attrs =>
    -- `Select.from_cst`: attr_before, attr_gap = collect_comments_between_with_gap(node, comments,
    -- expression_node, dot_node, allow_inline=True); no default
    match e.parse with
    | .error err => .error err
    | .ok ee => .ok (.sel ee attrs g1 (collectTrivia c1 g1) [] [])
  | .selOr e c1 g1 _ attrs c2 g2 _ d =>
    -- default_before, default_gap = collect_comments_between_with_gap(node, comments, attrpath_node, or_node,
    -- allow_inline=True)
    match e.parse with
    | .error err => .error err
    | .ok ee =>
      match d.parse with
      | .error err => .error err
      | .ok de => .ok (.selOr ee attrs g1 (collectTrivia c1 g1) de g2 (collectTrivia c2 g2) [] [])
  | .lam n c1 g1 _ g2 b =>
    match b.parse with
    | .error err => .error err
    | .ok be => .ok (lamFromCst n c1 g1 g2 be)
  | .un op c g e =>
    -- `UnaryExpression.from_cst`: between = collect_comment_trivia_between(node, comments, operator_node,
    -- expression_node, allow_inline=True); operand_gap = the gap in front of the operand
    match e.parse with
    | .error err => .error err
    | .ok ee => .ok (.un op ee g (collectTrivia c g) [] [])
  | .bin l _ g1 op _ g2 r =>
    -- `BinaryExpression.from_cst` without comments: the line breaks in the two gaps are counted (`gap_line_info`)
    match l.parse with
    | .error err => .error err
    | .ok le =>
      match r.parse with
      | .error err => .error err
      | .ok re => .ok (.bin op le re (g1.count '\n') (g2.count '\n') [] [])
  | .ite c1 g1 c c2 g2 c3 g3 t c4 g4 c5 g5 e =>
    -- (the consequence and the alternative are converted first, the condition last)
    match t.parse with
    | .error err => .error err
    | .ok te =>
      match e.parse with
      | .error err => .error err
      | .ok ee =>
        match c.parse with
        | .error err => .error err
        | .ok ce => .ok (iteFromCst ce te ee c1 g1 c2 g2 c3 g3 c4 g4 c5 g5)
  | .has e c1 g1 c2 g2 attrs =>
    -- `HasAttrExpression.from_cst`: before_question_comments, left_gap / after_question_comments, right_gap =
    -- collect_comments_between_with_gap(…, allow_inline=True) on both sides of `?`
    match e.parse with
    | .error err => .error err
    | .ok ee => .ok (.has ee attrs g1 g2 (collectTrivia c1 g1) (collectTrivia c2 g2) [] [])
/-- the loop of `parse_delimited_sequence` -/
def Items.parseSeq : Items → Mode → SeqSt → Except Err SeqSt
  | .nil, _, st => .ok st
  | .cmt g t rest, m, st => rest.parseSeq m (seqComment m st g t)
  | .elem g c rest, m, st =>
    match c.parse with
    | .error e => .error e
    | .ok e =>
      let before := pushGap st g
      match m with
      | .file =>   -- parse_item of NixSourceCode.from_cst: expression.before = before + expression.before
        rest.parseSeq m { items := st.items ++ [e.setBefore (before ++ e.before)], before := [], prev := .item }
      | .paren =>  -- parse_item of Parenthesis.from_cst: value.before = before_trivia + value.before
        rest.parseSeq m { items := st.items ++ [e.setBefore (before ++ e.before)], before := [], prev := .item }
      | .list =>   -- parse_item of process_list: child_expression.before = before
        rest.parseSeq m { items := st.items ++ [e.setBefore before], before := [], prev := .item }
      | .set => .error .value   -- parse_binding_sequence: "Unsupported child node"
  | .bind g n c1 _ c2 g2 v c3 _ rest, m, st =>
    match v.parse with
    | .error e => .error e
    | .ok ve =>
      match m with
      | .set =>
        match bindingFromCst n c1 c2 g2 ve c3 (pushGap st g) with
        | .error e => .error e
        | .ok b => rest.parseSeq m { items := st.items ++ [b], before := [], prev := .item }
      | _ => .error (.internal "uncovered:shape")
end

/-- `NixSourceCode.from_cst(node)` for an error-free tree. `leading_gap` is always empty (the node
    starts at its first child), so `initial_trivia` is `[]`. -/
def File.parse (f : File) : Except Err Src :=
  match f.items.parseSeq .file {} with
  | .error e => .error e
  | .ok st =>
    let r := finishSeq st none (!f.items.isNil)
    .ok { exprs := r.1, trailing := appendGapTriviaOff r.2 f.endGap }

end Nima.Frag
