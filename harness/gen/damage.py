"""G-damage: texts obtained by damaging a valid program (token deletion / duplication / insertion,
truncation at every byte, surrounding whitespace variants) and non-Nix text."""
from __future__ import annotations

from ..oracle import cstread
from .templates import TEMPLATES

INSERT = ["{", "}", "(", ")", "[", "]", ";", "=", ":", "in", "let", "then", "@", ",", "\"", "''", "${", "."]
NON_NIX = ["", " ", "\n", "hello world", "<html>", "{ a = 1 }", "let", "a = 1;", "1 +", "}{", ")", "[ 1", "\"abc",
           "''abc", "${", "#", "/* open", "a.b.", "{ inherit; }}", "if a then b", "{ a, b }", "x: ", "@", "\x00", "é = 1;",
           # string-shaped texts that are not well-formed strings; whitespace Python strips and Nix rejects
           '"x\\"', '"\\"', '"a\\\\"b"', '"C:\\dir\\"', "\u00a0", "  \u2028\n", "\x1f", "\x85", "\u3000", "\n\x1c\n", "\ufeff",
           "\x0b", "\x0c"]
WRAP = [("", ""), ("\n", ""), ("", "\n"), ("  ", "  \n\n"), ("\n\n# c\n", "\n"), ("\n", "\r\n"), ("\r\n", "\n"), ("# c\r\n", "")]


def token_spans(text: str):
    root = cstread.ts_parse(text)
    return [(n.start_byte, n.end_byte) for n in cstread.leaves(root) if n.end_byte > n.start_byte]


def damaged(text: str, every: int = 1):
    """yields (kind, damaged_text)"""
    b = text.encode("utf-8")
    spans = token_spans(text)
    for i, (s, e) in enumerate(spans):
        if i % every:
            continue
        yield "delete", (b[:s] + b[e:]).decode("utf-8", "replace")
        yield "duplicate", (b[:e] + b" " + b[s:e] + b[e:]).decode("utf-8", "replace")
    for i, (s, e) in enumerate(spans):
        if i % (every * 2):
            continue
        for tok in INSERT[i % 3 :: 3]:
            yield "insert", (b[:s] + tok.encode() + b" " + b[s:]).decode("utf-8", "replace")
    step = max(1, every)
    for k in range(0, len(b), step):
        try:
            yield "truncate", b[:k].decode("utf-8")
        except UnicodeDecodeError:
            continue


def stream(rng, quick: bool):
    every = 2 if quick else 1
    for name, t in TEMPLATES:
        if quick and len(t) > 200:
            ev = every * 3
        else:
            ev = every
        for kind, d in damaged(t, ev):
            pre, post = WRAP[rng.randrange(len(WRAP))]
            yield {"template": name, "kind": kind}, pre + d + post
    for t in NON_NIX:
        yield {"template": "non-nix", "kind": "text"}, t
    # erroneous sources with CRLF and mixed line endings
    for t in ["{\r\n a = 1;\r\n b = 2;\r\n", "\n{\r\n a = 1;\r\n b = 2;\r\n", "{\r\n a = 1;\n b = ;\r\n}\r\n", "{ a = 1;\r b = ; }\n",
              "# c\r\n{\n  a = 1\n}\n", "{\n  a = 1;\r\n\r\n  b = [ 1\n}\r\n"]:
        yield {"template": "line-endings", "kind": "text"}, t
    if not quick:
        # two damages
        for name, t in TEMPLATES:
            ds = [d for _, d in damaged(t, 4)]
            for d in ds[:: 5]:
                for kind, d2 in list(damaged(d, 6))[:8]:
                    yield {"template": name, "kind": "double"}, d2
