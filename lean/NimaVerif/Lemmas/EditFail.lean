import NimaVerif.Model.EditSpec
import NimaVerif.Lemmas.NPath
import NimaVerif.Lemmas.Edit
/-!
Helper lemmas for C08 ("a rejected edit is loud and leaves the document exactly as it was").

The obligation is "no write precedes a reachable throw" in the state-returning model `EditM`:
every function of `Model/Edit.lean` is shown to return the *input* state whenever it fails, and the
exception classes that can escape are enumerated (`.key` / `.value` on well-formed inputs).
-/
namespace Nima.EditFail
-- name tokens are compared by spelling in this file (see `NameCmp` in Model/Edit.lean)
attribute [local instance] NameCmp.spelled

open Nima.Node Nima.EditM

/-! ### the `EditM` monad, unfolded -/
section
variable {α β : Type}

@[simp] theorem pure_apply (a : α) (d : Doc) : (pure a : EditM α) d = (.ok a, d) := rfl

@[simp] theorem bind_apply (m : EditM α) (f : α → EditM β) (d : Doc) :
    (m >>= f) d = (match m d with
      | (.ok a, d') => f a d'
      | (.error e, d') => (.error e, d')) := rfl

@[simp] theorem throw_apply (e : Err) (d : Doc) : (EditM.throw e : EditM α) d = (.error e, d) := rfl
@[simp] theorem get_apply (d : Doc) : EditM.get d = (.ok d, d) := rfl
@[simp] theorem modify_apply (f : Doc → Doc) (d : Doc) : EditM.modify f d = (.ok (), f d) := rfl
@[simp] theorem lift_apply (x : Except Err α) (d : Doc) : EditM.lift x d = (x, d) := rfl

/-- `bind` when the first computation succeeds -/
theorem bind_ok {m : EditM α} {f : α → EditM β} {d d1 : Doc} {a : α} (h : m d = (.ok a, d1)) :
    (m >>= f) d = f a d1 := by simp [h]

/-- `bind` when the first computation fails -/
theorem bind_error {m : EditM α} {f : α → EditM β} {d d1 : Doc} {e : Err} (h : m d = (.error e, d1)) :
    (m >>= f) d = (.error e, d1) := by simp [h]
end

open Nima.EditM

@[simp] theorem fresh_apply (d : Doc) : fresh d = (.ok d.next, { d with next := d.next + 1 }) := rfl

/-! ### lookups on the empty list -/

@[simp] theorem findBinding_nil (k : Text) : findBinding [] k = none := rfl
@[simp] theorem findNamedBinding_nil (k : Text) (n : Option Bool) : findNamedBinding [] k n = none := rfl
@[simp] theorem findAttrpathRoot_nil (k : Text) : findAttrpathRoot [] k = none := rfl
@[simp] theorem inheritMentions_nil (k : Text) : inheritMentions [] k = false := rfl

theorem isBind_bindId (b : Node) (h : b.isBind = true) : ∃ i, b.bindId? = some i := by
  cases b <;> simp_all [isBind, bindId?]

theorem isBind_bindValue (b : Node) (h : b.isBind = true) : ∃ v, b.bindValue? = some v := by
  cases b <;> simp_all [isBind, bindValue?]

theorem isSet_setSid (s : Node) (h : s.isSet = true) : ∃ i, s.setSid? = some i := by
  cases s <;> simp_all [isSet, setSid?]

theorem setSid_isSet (s : Node) (i : Nat) (h : s.setSid? = some i) : s.isSet = true := by
  cases s <;> simp_all [isSet, setSid?]

theorem findBinding_isBind {vs : List Node} {k : Text} {b : Node} (h : findBinding vs k = some b) :
    b.isBind = true := by
  have := List.find?_some h
  simp only [Bool.and_eq_true] at this
  exact this.1

theorem findNamedBinding_isBind {vs : List Node} {k : Text} {n : Option Bool} {b : Node}
    (h : findNamedBinding vs k n = some b) : b.isBind = true := by
  have := List.find?_some h
  simp only [Bool.and_eq_true] at this
  exact this.1.1

theorem findAttrpathRoot_isBind {vs : List Node} {k : Text} {b : Node}
    (h : findAttrpathRoot vs k = some b) : b.isBind = true := by
  have := List.find?_some h
  simp only [Bool.and_eq_true] at this
  exact this.1.1

theorem assign_apply (bid : Nat) (v : Node) (d : Doc) : assign bid v d = (.ok (), d.updBind bid v) := rfl
theorem appendValue_ok (sid : Nat) (b : Node) (d : Doc) : ∃ d', appendValue sid b d = (.ok (), d') := ⟨_, rfl⟩
theorem appendOrderIfNonEmpty_ok (sid : Nat) (b : Node) (d : Doc) : ∃ d', appendOrderIfNonEmpty sid b d = (.ok (), d') := ⟨_, rfl⟩
theorem removeValueById_ok (sid bid : Nat) (d : Doc) : ∃ d', removeValueById sid bid d = (.ok (), d') := ⟨_, rfl⟩

/-- `AttributeSet.__setitem__` fails only on a non-set, and then before any write. -/
theorem setSetItem_error {s : Node} {key : Text} {v : Node} {d d' : Doc} {e : Err}
    (h : setSetItem s key v d = (.error e, d')) :
    d' = d ∧ s.setSid? = none ∧ findBinding s.setValues key = none := by
  cases hb : findBinding s.setValues key with
  | some b =>
    cases hi : b.bindId? <;> simp [setSetItem, hb, hi, assign] at h
  | none =>
    cases hs : s.setSid? with
    | some sid => simp [setSetItem, hb, hs, appendValue, appendOrderIfNonEmpty] at h
    | none =>
      simp [setSetItem, hb, hs] at h
      exact ⟨h.2.symm, rfl, rfl⟩

theorem setDelItem_error {s : Node} {key : Text} {d d' : Doc} {e : Err}
    (h : setDelItem s key d = (.error e, d')) : d' = d ∧ e = .key := by
  cases hb : findBinding s.setValues key with
  | some b =>
    cases hs : s.setSid? with
    | some sid => cases hi : b.bindId? <;> simp [setDelItem, hb, hs, hi] at h
    | none => simp [setDelItem, hb, hs] at h; exact ⟨h.2.symm, h.1.symm⟩
  | none =>
    simp [setDelItem, hb] at h; exact ⟨h.2.symm, h.1.symm⟩

theorem scopeSetItem_ok (key : Text) (v : Node) (d : Doc) : ∃ d', scopeSetItem key v d = (.ok (), d') := by
  unfold scopeSetItem
  split
  · split
    · exact ⟨_, rfl⟩
    · exact ⟨_, rfl⟩
  · exact ⟨_, rfl⟩

theorem scopeDelItem_error {key : Text} {d d' : Doc} {e : Err}
    (h : scopeDelItem key d = (.error e, d')) : d' = d ∧ e = .key := by
  unfold scopeDelItem at h
  split at h
  · simp at h; exact ⟨h.2.symm, h.1.symm⟩
  · split at h <;> cases h

theorem setGetItem_walk_error (cur : Node) (segs : List Text) (e : Err)
    (h : setGetItem.walk cur segs = .error e) : e = .key := by
  fun_induction setGetItem.walk cur segs <;> simp_all

theorem setGetItem_error {s : Node} {key : Text} {e : Err} (h : setGetItem s key = .error e) :
    e = .key ∧ findBinding s.setValues key = none := by
  unfold setGetItem at h
  split at h
  · rename_i b hb
    obtain ⟨v, hv⟩ := isBind_bindValue b (findBinding_isBind hb)
    simp [hv] at h
  · rename_i hb
    refine ⟨?_, hb⟩
    split at h
    · cases h
    · split at h
      · cases h; rfl
      · split at h
        · cases h; rfl
        · exact setGetItem_walk_error _ _ _ h

theorem setGetItem_walk_empty (cur : Node) (segs : List Text) (hc : cur.setValues = []) :
    setGetItem.walk cur segs = .error .key := by
  cases segs with
  | nil => rfl
  | cons a t => cases t <;> simp [setGetItem.walk, hc]

theorem setGetItem_empty (s : Node) (key : Text) (hs : s.setValues = []) :
    setGetItem s key = .error .key := by
  unfold setGetItem
  simp only [hs, findBinding_nil, inheritMentions_nil, Bool.false_eq_true, if_false]
  split
  · rfl
  · split
    · rfl
    · exact setGetItem_walk_empty _ _ hs

/-- Once a segment is missing the rest of `_set_attrpath_value`'s walk runs on a fresh empty set:
    it cannot fail, and it ends on a (fresh) empty set. -/
theorem setAttrpathWalk_empty (segs : List Text) : ∀ (cur : Node) (d : Doc),
    cur.isSet = true → cur.setValues = [] →
    ∃ c d', setAttrpathWalk cur segs d = (.ok c, d') ∧ c.isSet = true ∧ c.setValues = [] := by
  induction segs with
  | nil => intro cur d hs he; exact ⟨cur, d, rfl, hs, he⟩
  | cons seg more ih =>
    intro cur d hs he
    obtain ⟨csid, hc⟩ := isSet_setSid cur hs
    rw [setAttrpathWalk.eq_2]
    simp only [he, findNamedBinding_nil, Option.isSome_none, Bool.false_eq_true, if_false, hc,
      bind_apply, fresh_apply, appendValue, modify_apply]
    exact ih _ _ rfl rfl

/-- Outcome of a parent walk started on `cur` in state `d`: a failure happens before the first
    write (and is a `KeyError`/`ValueError` when the walk started on a set); a success either
    wrote nothing or ends on a set created by this walk, which is empty. -/
def WalkPost (cur : Node) (d : Doc) (r : Except Err Node) (d' : Doc) : Prop :=
  (∀ e, r = .error e → d' = d ∧ (cur.isSet = true → e = .key ∨ e = .value)) ∧
  (∀ c, r = .ok c → (cur.isSet = true → c.isSet = true) ∧
      (d' = d ∨ (c.isSet = true ∧ c.setValues = [])))

theorem WalkPost.throw_value (cur : Node) (d : Doc) : WalkPost cur d (.error .value) d :=
  ⟨fun _ h => by cases h; exact ⟨rfl, fun _ => Or.inr rfl⟩, fun _ h => by cases h⟩

theorem WalkPost.throw_key (cur : Node) (d : Doc) : WalkPost cur d (.error .key) d :=
  ⟨fun _ h => by cases h; exact ⟨rfl, fun _ => Or.inl rfl⟩, fun _ h => by cases h⟩

theorem WalkPost.not_a_set (cur : Node) (d : Doc) (e : Err) (h : cur.setSid? = none) :
    WalkPost cur d (.error e) d := by
  refine ⟨fun _ he => ⟨rfl, fun hs => ?_⟩, fun _ h => by cases h⟩
  obtain ⟨i, hi⟩ := isSet_setSid cur hs
  rw [hi] at h; cases h

theorem WalkPost.here (cur : Node) (d : Doc) : WalkPost cur d (.ok cur) d :=
  ⟨fun _ h => (nomatch h), fun _ h => by cases h; exact ⟨id, Or.inl rfl⟩⟩

theorem WalkPost.fresh (cur : Node) (d d' : Doc) (c : Node) (h1 : c.isSet = true)
    (h2 : c.setValues = []) : WalkPost cur d (.ok c) d' :=
  ⟨fun _ h => (nomatch h), fun _ h => by cases h; exact ⟨fun _ => h1, Or.inr ⟨h1, h2⟩⟩⟩

/-- descending into an existing set `v` -/
theorem WalkPost.descend {cur v : Node} {d d' : Doc} {r : Except Err Node} (hv : v.isSet = true)
    (h : WalkPost v d r d') : WalkPost cur d r d' :=
  ⟨fun e he => ⟨(h.1 e he).1, fun _ => (h.1 e he).2 hv⟩,
   fun c hc => ⟨fun _ => (h.2 c hc).1 hv, (h.2 c hc).2⟩⟩

theorem setAttrpathWalk_spec (segs : List Text) : ∀ (cur : Node) (d : Doc) (r : Except Err Node) (d' : Doc),
    setAttrpathWalk cur segs d = (r, d') → WalkPost cur d r d' := by
  induction segs with
  | nil =>
    intro cur d r d' h
    simp only [setAttrpathWalk, pure_apply, Prod.mk.injEq] at h
    obtain ⟨rfl, rfl⟩ := h
    exact WalkPost.here _ _
  | cons seg more ih =>
    intro cur d r d' h
    rw [setAttrpathWalk.eq_2] at h
    cases hb : findNamedBinding cur.setValues seg (some true) with
    | some b =>
      simp only [hb] at h
      cases hv : b.bindValue? with
      | none =>
        simp only [hv, throw_apply, Prod.mk.injEq] at h
        obtain ⟨rfl, rfl⟩ := h
        exact WalkPost.throw_value _ _
      | some v =>
        cases v with
        | set sid vs o m rc =>
          simp only [hv] at h
          exact WalkPost.descend rfl (ih _ _ _ _ h)
        | _ =>
          simp only [hv, throw_apply, Prod.mk.injEq] at h
          obtain ⟨rfl, rfl⟩ := h
          exact WalkPost.throw_value _ _
    | none =>
      simp only [hb] at h
      cases hm : (findNamedBinding cur.setValues seg (some false)).isSome with
      | true =>
        simp only [hm, if_true, throw_apply, Prod.mk.injEq] at h
        obtain ⟨rfl, rfl⟩ := h
        exact WalkPost.throw_value _ _
      | false =>
        simp only [hm, Bool.false_eq_true, if_false] at h
        cases hc : cur.setSid? with
        | none =>
          simp only [hc, throw_apply, Prod.mk.injEq] at h
          obtain ⟨rfl, rfl⟩ := h
          exact WalkPost.not_a_set _ _ _ hc
        | some csid =>
          simp only [hc, bind_apply, fresh_apply, appendValue, modify_apply] at h
          obtain ⟨c, d1, hw, hcs, hce⟩ := setAttrpathWalk_empty more
            (Node.set d.next [] [] cur.setMultiline false) _ rfl rfl
          rw [hw] at h
          simp only [Prod.mk.injEq] at h
          obtain ⟨rfl, rfl⟩ := h
          exact WalkPost.fresh _ _ _ _ hcs hce

/-- `_resolve_npath_parent(create_missing=True)` on an empty set cannot fail and ends on an
    empty set. -/
theorem resolveParentWalk_empty (segs : List Text) : ∀ (cur : Node) (d : Doc),
    cur.isSet = true → cur.setValues = [] →
    ∃ c d', resolveParentWalk true cur segs d = (.ok c, d') ∧ c.isSet = true ∧ c.setValues = [] := by
  induction segs with
  | nil => intro cur d hs he; exact ⟨cur, d, rfl, hs, he⟩
  | cons key more ih =>
    intro cur d hs he
    obtain ⟨csid, hc⟩ := isSet_setSid cur hs
    rw [resolveParentWalk.eq_2]
    simp only [setGetItem_empty cur key he, Bool.not_true, Bool.false_eq_true, if_false, hc,
      bind_apply, fresh_apply, setSetItem, he, findBinding_nil, appendValue, appendOrderIfNonEmpty,
      modify_apply]
    exact ih _ _ rfl rfl

theorem resolveParentWalk_spec (cm : Bool) (segs : List Text) :
    ∀ (cur : Node) (d : Doc) (r : Except Err Node) (d' : Doc),
    resolveParentWalk cm cur segs d = (r, d') → WalkPost cur d r d' := by
  induction segs with
  | nil =>
    intro cur d r d' h
    simp only [resolveParentWalk, pure_apply, Prod.mk.injEq] at h
    obtain ⟨rfl, rfl⟩ := h
    exact WalkPost.here _ _
  | cons key more ih =>
    intro cur d r d' h
    rw [resolveParentWalk.eq_2] at h
    cases hg : setGetItem cur key with
    | ok v =>
      cases v with
      | set sid vs o m rc =>
        simp only [hg] at h
        exact WalkPost.descend rfl (ih _ _ _ _ h)
      | _ =>
        simp only [hg, throw_apply, Prod.mk.injEq] at h
        obtain ⟨rfl, rfl⟩ := h
        exact WalkPost.throw_value _ _
    | error e0 =>
      simp only [hg] at h
      cases cm with
      | false =>
        simp only [Bool.not_false, if_true, throw_apply, Prod.mk.injEq] at h
        obtain ⟨rfl, rfl⟩ := h
        exact WalkPost.throw_key _ _
      | true =>
        simp only [Bool.not_true, Bool.false_eq_true, if_false] at h
        cases hc : cur.setSid? with
        | none =>
          simp only [hc, throw_apply, Prod.mk.injEq] at h
          obtain ⟨rfl, rfl⟩ := h
          exact WalkPost.not_a_set _ _ _ hc
        | some csid =>
          have hb := (setGetItem_error hg).2
          simp only [hc, bind_apply, fresh_apply, setSetItem, hb, appendValue,
            appendOrderIfNonEmpty, modify_apply] at h
          obtain ⟨c, d1, hw, hcs, hce⟩ := resolveParentWalk_empty more
            (Node.set d.next [] [] cur.setMultiline false) _ rfl rfl
          rw [hw] at h
          simp only [Prod.mk.injEq] at h
          obtain ⟨rfl, rfl⟩ := h
          exact WalkPost.fresh _ _ _ _ hcs hce

/-! ### computations that cannot fail -/

/-- the computation succeeds in every state -/
def NoFail {α : Type} (m : EditM α) : Prop := ∀ d, ∃ a d', m d = (.ok a, d')

theorem NoFail.pure {α : Type} (a : α) : NoFail (pure a : EditM α) := fun d => ⟨a, d, rfl⟩
theorem NoFail.get : NoFail EditM.get := fun d => ⟨d, d, rfl⟩
theorem NoFail.modify (f : Doc → Doc) : NoFail (EditM.modify f) := fun d => ⟨(), f d, rfl⟩
theorem NoFail.fresh : NoFail fresh := fun _ => ⟨_, _, rfl⟩
theorem NoFail.assign (bid : Nat) (v : Node) : NoFail (assign bid v) := fun _ => ⟨_, _, rfl⟩
theorem NoFail.appendValue (sid : Nat) (b : Node) : NoFail (appendValue sid b) := fun _ => ⟨_, _, rfl⟩
theorem NoFail.appendOrderIfNonEmpty (sid : Nat) (b : Node) : NoFail (appendOrderIfNonEmpty sid b) :=
  fun _ => ⟨_, _, rfl⟩
theorem NoFail.removeValueById (sid bid : Nat) : NoFail (removeValueById sid bid) := fun _ => ⟨_, _, rfl⟩

theorem NoFail.bind {α β : Type} {m : EditM α} {f : α → EditM β} (hm : NoFail m)
    (hf : ∀ a, NoFail (f a)) : NoFail (m >>= f) := by
  intro d
  obtain ⟨a, d1, h1⟩ := hm d
  obtain ⟨b, d2, h2⟩ := hf a d1
  exact ⟨b, d2, by simp [h1, h2]⟩

theorem NoFail.ite {α : Type} {c : Prop} [Decidable c] {m n : EditM α} (hm : NoFail m) (hn : NoFail n) :
    NoFail (if c then m else n) := by
  split <;> assumption

theorem NoFail.not_error {α : Type} {m : EditM α} (h : NoFail m) {d d' : Doc} {e : Err}
    (he : m d = (.error e, d')) : False := by
  obtain ⟨a, d1, h1⟩ := h d
  rw [h1] at he; cases he

theorem NoFail.assignThrough (ts : Node) (wl : Bool) (name : Text) (v : Node) :
    NoFail (assignThrough ts wl name v) := by
  unfold Nima.assignThrough
  refine NoFail.bind NoFail.get fun d => ?_
  refine NoFail.ite (NoFail.pure _) ?_
  split
  · exact NoFail.bind (NoFail.assign _ _) fun _ => NoFail.pure _
  · exact NoFail.pure _

theorem NoFail.assignExisting (ts parent : Node) (wl : Bool) (b v : Node) :
    NoFail (assignExisting ts parent wl b v) := by
  unfold Nima.assignExisting
  split
  · refine NoFail.bind (NoFail.assignThrough _ _ _ _) fun r => ?_
    refine NoFail.ite (NoFail.pure _) ?_
    refine NoFail.bind NoFail.get fun d => ?_
    dsimp only
    split
    · split
      · exact NoFail.assign _ _
      · exact NoFail.pure _
    · split
      · split
        · exact NoFail.assign _ _
        · exact NoFail.pure _
      · exact NoFail.assign _ _
  · exact NoFail.assign _ _
  · exact NoFail.pure _

theorem NoFail.pruneParents (st : List (Node × Node)) : NoFail (pruneParents st) := by
  induction st with
  | nil => exact NoFail.pure _
  | cons pb rest ih =>
    obtain ⟨parent, b⟩ := pb
    rw [Nima.pruneParents.eq_2]
    refine NoFail.bind NoFail.get fun d => ?_
    split
    · dsimp only
      refine NoFail.ite ?_ (NoFail.pure _)
      exact NoFail.bind (NoFail.removeValueById _ _) fun _ => ih
    · exact NoFail.pure _

/-- what `_walk_attrpath_stack` returns: pairs (parent set, binding) -/
def StackOK (st : List (Node × Node)) : Prop := ∀ pb ∈ st, pb.1.isSet = true ∧ pb.2.isBind = true

theorem StackOK.append {st : List (Node × Node)} {p b : Node} (h : StackOK st) (hp : p.isSet = true)
    (hb : b.isBind = true) : StackOK (st ++ [(p, b)]) := by
  intro pb hm
  rcases List.mem_append.mp hm with h1 | h1
  · exact h _ h1
  · simp only [List.mem_singleton] at h1; subst h1; exact ⟨hp, hb⟩

/-- Outcome of `_walk_attrpath_stack(require_root=True)`: `KeyError`/`ValueError`, or a non-empty
    stack of (set, binding) pairs — never `None`. -/
def StackPost (r : Except Err (Option (List (Node × Node)))) : Prop :=
  match r with
  | .error e => e = .key ∨ e = .value
  | .ok none => False
  | .ok (some st) => st ≠ [] ∧ StackOK st

theorem walkAttrpathStack_go_spec (ln : Bool) (rest : List Text) :
    ∀ (cur : Node) (st : List (Node × Node)), cur.isSet = true → st ≠ [] → StackOK st →
      StackPost (walkAttrpathStack.go ln true cur st rest) := by
  induction rest with
  | nil => intro cur st _ hne hst; exact ⟨hne, hst⟩
  | cons seg more ih =>
    intro cur st hc hne hst
    cases more with
    | nil =>
      simp only [walkAttrpathStack.go]
      split
      · simp [StackPost]
      · rename_i b hb
        exact ⟨by simp, hst.append hc (findNamedBinding_isBind hb)⟩
    | cons seg2 more2 =>
      simp only [walkAttrpathStack.go]
      split
      · simp [StackPost]
      · rename_i b hb
        split
        · exact ih _ _ rfl (by simp) (hst.append hc (findNamedBinding_isBind hb))
        · simp [StackPost]

theorem walkAttrpathStack_spec (ts : Node) (segs : List Text) (ln : Bool) (hts : ts.isSet = true) :
    StackPost (walkAttrpathStack ts segs ln true) := by
  unfold walkAttrpathStack
  split
  · simp [StackPost]
  · simp [StackPost]
  · split
    · simp [StackPost]
    · rename_i rootB hr
      split
      · refine walkAttrpathStack_go_spec ln _ _ _ rfl (by simp) ?_
        intro pb hm
        simp only [List.mem_singleton] at hm; subst hm
        exact ⟨hts, findAttrpathRoot_isBind hr⟩
      · simp [StackPost]

/-- the error classes of `_walk_attrpath_stack`, whatever the target is -/
theorem walkAttrpathStack_go_error (ln rr : Bool) (rest : List Text) :
    ∀ (cur : Node) (st : List (Node × Node)) (e : Err),
      walkAttrpathStack.go ln rr cur st rest = .error e → e = .key ∨ e = .value := by
  induction rest with
  | nil => intro cur st e h; simp [walkAttrpathStack.go] at h
  | cons seg more ih =>
    intro cur st e h
    cases more with
    | nil =>
      simp only [walkAttrpathStack.go] at h
      split at h
      · split at h <;> simp_all
      · cases h
    | cons seg2 more2 =>
      simp only [walkAttrpathStack.go] at h
      split at h
      · split at h <;> simp_all
      · split at h
        · exact ih _ _ _ h
        · split at h <;> simp_all

theorem walkAttrpathStack_error (ts : Node) (segs : List Text) (ln rr : Bool) (e : Err)
    (h : walkAttrpathStack ts segs ln rr = .error e) : e = .key ∨ e = .value := by
  unfold walkAttrpathStack at h
  split at h
  · split at h <;> simp_all
  · split at h <;> simp_all
  · split at h
    · split at h <;> simp_all
    · split at h
      · exact walkAttrpathStack_go_error _ _ _ _ _ _ h
      · split at h <;> simp_all

/-! ### clean failure -/

/-- Every failure of `m` returns the state it was started in, with an exception satisfying `P`. -/
def FailsClean {α : Type} (m : EditM α) (P : Err → Prop) : Prop :=
  ∀ d e d', m d = (.error e, d') → d' = d ∧ P e

theorem FailsClean.throw {α : Type} {P : Err → Prop} {e : Err} (h : P e) :
    FailsClean (EditM.throw e : EditM α) P := by
  intro d e' d' he
  simp only [throw_apply, Prod.mk.injEq, Except.error.injEq] at he
  obtain ⟨rfl, rfl⟩ := he
  exact ⟨rfl, h⟩

theorem FailsClean.of_noFail {α : Type} {P : Err → Prop} {m : EditM α} (h : NoFail m) :
    FailsClean m P := fun _ _ _ he => (h.not_error he).elim

theorem FailsClean.mono {α : Type} {P Q : Err → Prop} {m : EditM α} (h : FailsClean m P)
    (hpq : ∀ e, P e → Q e) : FailsClean m Q :=
  fun d e d' he => ⟨(h d e d' he).1, hpq e (h d e d' he).2⟩

/-- the class `{KeyError, ValueError}` -/
def KV (e : Err) : Prop := e = .key ∨ e = .value

theorem StackOK.getLast {st : List (Node × Node)} (h : StackOK st) (hne : st ≠ []) :
    ∃ p l psid lid, st.getLast? = some (p, l) ∧ p.setSid? = some psid ∧ l.bindId? = some lid := by
  have hm := List.getLast_mem hne
  obtain ⟨hp, hl⟩ := h _ hm
  obtain ⟨psid, hps⟩ := isSet_setSid _ hp
  obtain ⟨lid, hli⟩ := isBind_bindId _ hl
  exact ⟨_, _, psid, lid, by rw [List.getLast?_eq_some_getLast hne], hps, hli⟩

/-- `_remove_attrpath_value` raises before its first write; on a set, only `KeyError`/`ValueError`. -/
theorem removeAttrpathValue_clean (ts : Node) (segs : List Text) :
    FailsClean (removeAttrpathValue ts segs) (fun e => ts.isSet = true → KV e) := by
  unfold removeAttrpathValue
  split
  · rename_i e hw
    exact FailsClean.throw fun _ => walkAttrpathStack_error _ _ _ _ _ hw
  · rename_i hw
    refine FailsClean.throw fun hts => ?_
    have := walkAttrpathStack_spec ts segs false hts
    rw [hw] at this; exact this.elim
  · rename_i stack hw
    split
    · split
      · refine FailsClean.of_noFail ?_
        refine NoFail.bind (NoFail.removeValueById _ _) fun _ => ?_
        exact NoFail.bind (NoFail.modify _) fun _ => NoFail.pruneParents _
      · rename_i parent leaf tsSid hl hs _ _ hnot
        refine FailsClean.throw fun hts => ?_
        have hsp := walkAttrpathStack_spec ts segs false hts
        rw [hw] at hsp
        obtain ⟨p, l, psid, lid, h1, h2, h3⟩ := hsp.2.getLast hsp.1
        rw [hl] at h1; cases h1
        exact (hnot psid lid h2 h3).elim
    · rename_i hnot
      refine FailsClean.throw fun hts => ?_
      have hsp := walkAttrpathStack_spec ts segs false hts
      rw [hw] at hsp
      obtain ⟨p, l, psid, lid, h1, h2, h3⟩ := hsp.2.getLast hsp.1
      obtain ⟨tsid, h4⟩ := isSet_setSid _ hts
      exact (hnot p l tsid h1 h4).elim

/-- A parent walk followed by a continuation that fails cleanly on every set and cannot fail on
    an empty set: the whole fails cleanly ("no write precedes a reachable throw"). -/
theorem FailsClean.bind_walk {β : Type} {m : EditM Node} {k : Node → EditM β} {cur : Node}
    {P : Err → Prop}
    (hm : ∀ d r d', m d = (r, d') → WalkPost cur d r d') (hcur : cur.isSet = true)
    (hP : ∀ e, KV e → P e)
    (hk1 : ∀ c, c.isSet = true → FailsClean (k c) P)
    (hk2 : ∀ c, c.isSet = true → c.setValues = [] → NoFail (k c)) :
    FailsClean (m >>= k) P := by
  intro d e d' h
  simp only [bind_apply] at h
  rcases hw : m d with ⟨r, d1⟩
  have post := hm _ _ _ hw
  rw [hw] at h
  cases r with
  | error e1 =>
    simp only [Prod.mk.injEq, Except.error.injEq] at h
    obtain ⟨rfl, rfl⟩ := h
    exact ⟨(post.1 _ rfl).1, hP _ ((post.1 _ rfl).2 hcur)⟩
  | ok c =>
    simp only at h
    obtain ⟨hcs, hor⟩ := post.2 c rfl
    rcases hor with rfl | ⟨h1, h2⟩
    · exact hk1 c (hcs hcur) _ _ _ h
    · exact ((hk2 c h1 h2).not_error h).elim

theorem setAttrpathValue_clean (tsSid : Nat) (root : Node) (segs : List Text) (v : Node)
    (hne : segs ≠ []) : FailsClean (setAttrpathValue tsSid root segs v) KV := by
  unfold setAttrpathValue
  split
  · refine FailsClean.bind_walk (fun d r d' h => setAttrpathWalk_spec _ _ _ _ _ h) rfl (fun _ h => h) ?_ ?_
    · intro c hc
      split
      · rename_i hl
        exact absurd (List.getLast?_eq_none_iff.mp hl) hne
      · split
        · exact FailsClean.throw (Or.inr rfl)
        · split
          · split
            · exact FailsClean.of_noFail (NoFail.assign _ _)
            · exact FailsClean.of_noFail (NoFail.pure _)
          · split
            · rename_i hs
              obtain ⟨i, hi⟩ := isSet_setSid c hc
              rw [hi] at hs; cases hs
            · refine FailsClean.of_noFail ?_
              refine NoFail.bind NoFail.fresh fun _ => ?_
              exact NoFail.bind (NoFail.appendValue _ _) fun _ => NoFail.appendOrderIfNonEmpty _ _
    · intro c hc he
      split
      · rename_i hl
        exact absurd (List.getLast?_eq_none_iff.mp hl) hne
      · obtain ⟨i, hi⟩ := isSet_setSid c hc
        simp only [he, findNamedBinding_nil, Option.isSome_none, Bool.false_eq_true, if_false, hi]
        refine NoFail.bind NoFail.fresh fun _ => ?_
        exact NoFail.bind (NoFail.appendValue _ _) fun _ => NoFail.appendOrderIfNonEmpty _ _
  · exact FailsClean.throw (Or.inr rfl)

/-! ### the path parser raises `ValueError` only, and never yields an empty path -/

theorem npFinalize_error (a : Bool) (st : NPState) (e : Err) (h : npFinalize a st = .error e) :
    e = .value := by
  unfold npFinalize at h
  split at h
  · cases h; rfl
  · split at h
    · cases h; rfl
    · cases h

theorem npFinalize_segs_ne_nil (a : Bool) (st st' : NPState) (h : npFinalize a st = .ok st') :
    st'.segs ≠ [] := by
  unfold npFinalize at h
  split at h
  · cases h
  · split at h
    · cases h
    · cases h; simp

theorem npStep_error (a : Bool) (st : NPState) (c : Char) (e : Err) (h : npStep a st c = .error e) :
    e = .value := by
  unfold npStep at h
  split at h
  · split at h
    · cases h
    · split at h
      · cases h
      · split at h <;> cases h
  · split at h
    · exact npFinalize_error _ _ _ h
    · split at h
      · cases h; rfl
      · split at h
        · split at h
          · cases h; rfl
          · cases h
        · cases h

theorem npRun_error (a : Bool) (p : Text) : ∀ (st : NPState) (e : Err),
    npRun a st p = .error e → e = .value := by
  induction p with
  | nil => intro st e h; cases h
  | cons c cs ih =>
    intro st e h
    simp only [npRun] at h
    split at h
    · exact ih _ _ h
    · rename_i e' hs
      cases h
      exact npStep_error _ _ _ _ hs

theorem parseNPath_error (a : Bool) (p : Text) (e : Err) (h : parseNPath a p = .error e) :
    e = .value := by
  unfold parseNPath at h
  split at h
  · cases h; rfl
  · split at h
    · rename_i e' hr
      cases h; exact npRun_error _ _ _ _ hr
    · split at h
      · cases h; rfl
      · split at h
        · cases h; rfl
        · split at h
          · cases h
          · rename_i e' hf
            cases h; exact npFinalize_error _ _ _ hf

theorem parseNPath_ne_nil (a : Bool) (p : Text) (segs : List Seg) (h : parseNPath a p = .ok segs) :
    segs ≠ [] := by
  unfold parseNPath at h
  split at h
  · cases h
  · split at h
    · cases h
    · split at h
      · cases h
      · split at h
        · cases h
        · split at h
          · rename_i st' hf
            cases h; exact npFinalize_segs_ne_nil _ _ _ hf
          · cases h

theorem formatNPath_error (a : Bool) (p : Text) (e : Err) (h : formatNPath a p = .error e) :
    e = .value := by
  unfold formatNPath at h
  cases hp : parseNPath a p with
  | error e' =>
    rw [hp] at h; simp only [Except.map] at h; cases h
    exact parseNPath_error _ _ _ hp
  | ok s => rw [hp] at h; simp [Except.map] at h

theorem formatNPath_ne_nil (a : Bool) (p : Text) (segs : List Text) (h : formatNPath a p = .ok segs) :
    segs ≠ [] := by
  unfold formatNPath at h
  cases hp : parseNPath a p with
  | error e' => rw [hp] at h; simp [Except.map] at h
  | ok s =>
    rw [hp] at h; simp only [Except.map, Except.ok.injEq] at h
    subst h
    have := parseNPath_ne_nil _ _ _ hp
    simpa using this

/-! ### mapping operations as clean failures -/

theorem setSetItem_noFail (s : Node) (key : Text) (v : Node) (hs : s.isSet = true) :
    NoFail (setSetItem s key v) := by
  obtain ⟨i, hi⟩ := isSet_setSid s hs
  unfold setSetItem
  split
  · split
    · exact NoFail.assign _ _
    · exact NoFail.pure _
  · refine NoFail.bind NoFail.fresh fun _ => ?_
    exact NoFail.bind (NoFail.appendValue _ _) fun _ => NoFail.appendOrderIfNonEmpty _ _
  · rename_i h; rw [hi] at h; cases h

theorem setSetItem_clean (s : Node) (key : Text) (v : Node) :
    FailsClean (setSetItem s key v) (fun _ => s.isSet = true → False) := by
  intro d e d' h
  obtain ⟨h1, h2, _⟩ := setSetItem_error h
  refine ⟨h1, fun hs => ?_⟩
  obtain ⟨i, hi⟩ := isSet_setSid s hs
  rw [hi] at h2; cases h2

theorem setDelItem_clean (s : Node) (key : Text) : FailsClean (setDelItem s key) (fun e => e = .key) :=
  fun _ _ _ h => setDelItem_error h

theorem getLast?_cons_ne_none {α : Type} (a : α) (l : List α) : (a :: l).getLast? ≠ none := by
  simp [List.getLast?_eq_none_iff]

/-- `_set_value_in_attrset` raises before its first write; on a set only `KeyError`/`ValueError`. -/
theorem setValueInAttrset_clean (ts : Node) (wl : Bool) (npath : Text) (v : Node) :
    FailsClean (setValueInAttrset ts wl npath v) (fun e => ts.isSet = true → KV e) := by
  unfold setValueInAttrset
  split
  · rename_i e _ hf
    exact FailsClean.throw fun _ => Or.inr (formatNPath_error _ _ _ hf)
  · exact FailsClean.throw fun _ => Or.inr rfl
  · rename_i hs
    refine FailsClean.throw fun hts => ?_
    obtain ⟨i, hi⟩ := isSet_setSid ts hts
    rw [hi] at hs; cases hs
  · rename_i segs seg0 segRest tsSid hf hs
    have hts : ts.isSet = true := setSid_isSet _ _ hs
    split
    · split
      · exact FailsClean.of_noFail (NoFail.assign _ _)
      · exact FailsClean.of_noFail (NoFail.pure _)
    · dsimp only
      split
      · split
        · exact FailsClean.throw fun _ => Or.inr rfl
        · split
          · exact FailsClean.of_noFail (NoFail.assignExisting _ _ _ _ _)
          · exact FailsClean.of_noFail (setSetItem_noFail _ _ _ hts)
      · split
        · exact (setAttrpathValue_clean _ _ _ _ (by simp)).mono fun _ h _ => h
        · refine FailsClean.bind_walk (fun d r d' h => resolveParentWalk_spec _ _ _ _ _ _ h) hts
            (fun _ h _ => h) ?_ ?_
          · intro c hc
            split
            · rename_i hl; exact absurd hl (getLast?_cons_ne_none _ _)
            · split
              · exact FailsClean.of_noFail (NoFail.assignExisting _ _ _ _ _)
              · exact FailsClean.of_noFail (setSetItem_noFail _ _ _ hc)
          · intro c hc he
            split
            · rename_i hl; exact absurd hl (getLast?_cons_ne_none _ _)
            · split
              · exact NoFail.assignExisting _ _ _ _ _
              · exact setSetItem_noFail _ _ _ hc

/-- On an empty set, once the path text is well-formed, `_set_value_in_attrset` cannot fail. -/
theorem setValueInAttrset_empty_noFail (ts : Node) (wl : Bool) (npath : Text) (v : Node)
    (segs : List Text) (hf : formatNPath currentAnchor npath = .ok segs)
    (hts : ts.isSet = true) (he : ts.setValues = []) :
    NoFail (setValueInAttrset ts wl npath v) := by
  obtain ⟨tsSid, hs⟩ := isSet_setSid ts hts
  have hne := formatNPath_ne_nil _ _ _ hf
  unfold setValueInAttrset
  rw [hf, hs]
  cases segs with
  | nil => exact absurd rfl hne
  | cons seg0 segRest =>
    dsimp only
    have hleaf : findAttrpathLeaf ts (seg0 :: segRest) = none := by
      unfold findAttrpathLeaf walkAttrpathStack
      cases segRest <;> simp [he]
    rw [hleaf]
    simp only [he, findAttrpathRoot_nil, findBinding_nil, Option.isSome_none, Bool.false_eq_true,
      if_false]
    split
    · exact setSetItem_noFail _ _ _ hts
    · intro d
      obtain ⟨c, d1, hw, hc, hce⟩ := resolveParentWalk_empty (seg0 :: segRest).dropLast ts d hts he
      have hk : NoFail (match (seg0 :: segRest).getLast? with
          | none => EditM.throw (.internal "IndexError")
          | some finalKey =>
            match findBinding c.setValues finalKey with
            | some b => assignExisting ts c wl b v
            | none => setSetItem c finalKey v) := by
        split
        · rename_i hl; exact absurd hl (getLast?_cons_ne_none _ _)
        · simp only [hce, findBinding_nil]
          exact setSetItem_noFail _ _ _ hc
      obtain ⟨a, d2, h2⟩ := hk d1
      exact ⟨a, d2, by simp only [bind_apply, hw]; exact h2⟩

/-- without `create_missing` the parent walk writes nothing -/
theorem resolveParentWalk_false_ro (segs : List Text) :
    ∀ (cur : Node) (d : Doc) (r : Except Err Node) (d' : Doc),
    resolveParentWalk false cur segs d = (r, d') → d' = d := by
  induction segs with
  | nil =>
    intro cur d r d' h
    simp only [resolveParentWalk, pure_apply, Prod.mk.injEq] at h
    exact h.2.symm
  | cons key more ih =>
    intro cur d r d' h
    rw [resolveParentWalk.eq_2] at h
    cases hg : setGetItem cur key with
    | ok v =>
      cases v with
      | set sid vs o m rc =>
        simp only [hg] at h
        exact ih _ _ _ _ h
      | _ =>
        simp only [hg, throw_apply, Prod.mk.injEq] at h
        exact h.2.symm
    | error e0 =>
      simp only [hg, Bool.not_false, if_true, throw_apply, Prod.mk.injEq] at h
      exact h.2.symm

/-- a computation that writes nothing, followed by one that fails cleanly -/
theorem FailsClean.bind_ro {α β : Type} {m : EditM α} {k : α → EditM β} {P : Err → Prop}
    {Q : α → Prop}
    (hm : ∀ d r d', m d = (r, d') → d' = d ∧ (∀ e, r = .error e → P e) ∧ (∀ a, r = .ok a → Q a))
    (hk : ∀ a, Q a → FailsClean (k a) P) : FailsClean (m >>= k) P := by
  intro d e d' h
  simp only [bind_apply] at h
  rcases hw : m d with ⟨r, d1⟩
  obtain ⟨rfl, h1, h2⟩ := hm _ _ _ hw
  rw [hw] at h
  cases r with
  | error e1 =>
    simp only [Prod.mk.injEq, Except.error.injEq] at h
    obtain ⟨rfl, rfl⟩ := h
    exact ⟨rfl, h1 _ rfl⟩
  | ok c => exact hk c (h2 c rfl) _ _ _ h

/-- `_remove_value_in_attrset` raises before its first write; on a set only `KeyError`/`ValueError`. -/
theorem removeValueInAttrset_clean (ts : Node) (npath : Text) :
    FailsClean (removeValueInAttrset ts npath) (fun e => ts.isSet = true → KV e) := by
  unfold removeValueInAttrset
  split
  · rename_i e hf
    exact FailsClean.throw fun _ => Or.inr (formatNPath_error _ _ _ hf)
  · exact FailsClean.throw fun _ => Or.inr rfl
  · split
    · exact removeAttrpathValue_clean _ _
    · dsimp only
      split
      · split
        · exact FailsClean.throw fun _ => Or.inl rfl
        · split
          · exact FailsClean.throw fun _ => Or.inl rfl
          · exact (setDelItem_clean _ _).mono fun _ h _ => Or.inl h
      · split
        · exact removeAttrpathValue_clean _ _
        · refine FailsClean.bind_ro (Q := fun _ => True) (fun d r d' h => ?_) fun c _ => ?_
          · have post := resolveParentWalk_spec _ _ _ _ _ _ h
            exact ⟨resolveParentWalk_false_ro _ _ _ _ _ h, fun e he hts => (post.1 e he).2 hts,
              fun _ _ => trivial⟩
          · split
            · rename_i hl; exact absurd hl (getLast?_cons_ne_none _ _)
            · exact (setDelItem_clean _ _).mono fun _ h _ => Or.inl h

theorem Doc.same_refl (d : Doc) : d.same d := rfl
theorem Doc.same_of_eq {d d' : Doc} (h : d' = d) : d.same d' := by subst h; rfl
theorem Doc.same_trans {a b c : Doc} (h1 : a.same b) (h2 : b.same c) : a.same c := by
  unfold Doc.same at *
  cases a; cases b; cases c
  simp only [Doc.mk.injEq] at *
  simp_all

theorem setNthNonEmpty_self (stack : List Layer) : ∀ (idx : Nat) (l : Layer),
    (stack.filter (!·.scope.isEmpty))[idx]? = some l → setNthNonEmpty l.scope idx stack = stack := by
  induction stack with
  | nil => intro idx l h; rfl
  | cons x xs ih =>
    intro idx l h
    cases hx : x.scope.isEmpty with
    | true =>
      simp only [List.filter, hx, Bool.not_true] at h
      simp only [setNthNonEmpty, hx, if_true]
      rw [ih idx l h]
    | false =>
      simp only [List.filter, hx, Bool.not_false] at h
      cases idx with
      | zero =>
        simp only [List.getElem?_cons_zero, Option.some.injEq] at h
        subst h
        simp [setNthNonEmpty, hx]
      | succ k =>
        simp only [List.getElem?_cons_succ] at h
        simp only [setNthNonEmpty, hx, Bool.false_eq_true, if_false]
        rw [ih k l h]

/-- writing a collected layer's own `scope` list back changes nothing -/
theorem setLayerScope_self (d : Doc) (idx : Nat) (l : Layer)
    (h : (collectScopeLayers d)[idx]? = some l) : d.setLayerScope idx l.scope = d := by
  unfold collectScopeLayers at h
  unfold Doc.setLayerScope
  cases hs : d.scope.isEmpty with
  | true =>
    simp only [hs, if_true, List.nil_append] at h
    simp only [if_true]
    rw [setNthNonEmpty_self _ _ _ h]
  | false =>
    simp only [hs, Bool.false_eq_true, if_false] at h
    simp only [Bool.false_eq_true, if_false]
    cases idx with
    | zero =>
      simp only [List.cons_append, List.nil_append, List.getElem?_cons_zero, Option.some.injEq] at h
      subst h
      rfl
    | succ k =>
      simp only [List.cons_append, List.nil_append, List.getElem?_cons_succ] at h
      simp only
      rw [setNthNonEmpty_self _ _ _ h]

/-- A failing attrset-level operation on a layer collected from the document leaves the document
    as it was (up to the identity spent on the scratch set). -/
theorem onLayer_fromDoc_error (d : Doc) (idx : Nat) (op : Node → EditM Unit) (P : Err → Prop)
    (hscr : d.scratch = none)
    (hop : ∀ s, s.isSet = true → FailsClean (op s) P)
    {e : Err} {d' : Doc}
    (h : onLayer (collectScopeLayers d) true idx op d = (.error e, d')) :
    d.same d' ∧ (idx < (collectScopeLayers d).length → P e) := by
  unfold onLayer at h
  split at h
  · rename_i hl
    simp only [Prod.mk.injEq, Except.error.injEq] at h
    obtain ⟨rfl, rfl⟩ := h
    refine ⟨rfl, fun hlt => ?_⟩
    rw [List.getElem?_eq_none_iff] at hl
    omega
  · rename_i l hl
    dsimp only at h
    rcases hr : op (layerAsSet d.next l) { d with next := d.next + 1, scratch := some (layerAsSet d.next l) } with ⟨r, d1⟩
    rw [hr] at h
    cases r with
    | ok u => simp at h
    | error e1 =>
      obtain ⟨rfl, hP⟩ := hop _ rfl _ _ _ hr
      simp only [if_true, Option.getD_some, Prod.mk.injEq, Except.error.injEq] at h
      obtain ⟨rfl, rfl⟩ := h
      refine ⟨?_, fun _ => hP⟩
      have := setLayerScope_self { d with next := d.next + 1, scratch := none } idx l hl
      simp only [layerAsSet, setValues]
      unfold Doc.same
      rw [this]
      cases d
      simp_all

/-- when the attrset-level operation cannot fail on the scratch set, `onLayer` cannot fail -/
theorem onLayer_noFail (layers : List Layer) (fd : Bool) (idx : Nat) (op : Node → EditM Unit) (l : Layer)
    (hl : layers[idx]? = some l) (hop : ∀ sid, NoFail (op (layerAsSet sid l)))
    {d d' : Doc} {e : Err} (h : onLayer layers fd idx op d = (.error e, d')) : False := by
  unfold onLayer at h
  rw [hl] at h
  dsimp only at h
  obtain ⟨a, d1, hr⟩ := hop d.next { d with next := d.next + 1, scratch := some (layerAsSet d.next l) }
  rw [hr] at h
  simp at h

theorem resolveTarget_ok {d : Doc} {ts : Node} (h : resolveTarget d = .ok ts) :
    ts = d.target ∧ d.noTarget = none := by
  unfold resolveTarget at h
  split at h
  · cases h
  · cases h
  · rename_i hn; cases h; exact ⟨rfl, hn⟩

theorem resolveTarget_error {d : Doc} {e : Err} (h : resolveTarget d = .error e)
    (hn : d.noTarget ≠ some .resolution) : e = .value := by
  unfold resolveTarget at h
  split at h
  · rename_i h1; exact absurd h1 hn
  · cases h; rfl
  · cases h

theorem splitScopeNpath_some {p : Text} {depth : Nat} {rest : Text}
    (h : splitScopeNpath p = .ok (some (depth, rest))) : 0 < depth := by
  unfold splitScopeNpath at h
  dsimp only at h
  split at h
  · cases h
  · split at h
    · cases h
    · simp only [Except.ok.injEq, Option.some.injEq, Prod.mk.injEq] at h
      omega

/-- the post-condition of a rejected top-level edit -/
def Rejected (d : Doc) (e : Err) (d' : Doc) : Prop :=
  d.same d' ∧ (d.target.isSet = true → d.noTarget ≠ some .resolution → KV e)

theorem Rejected.here_value (d : Doc) : Rejected d .value d := ⟨rfl, fun _ _ => Or.inr rfl⟩

theorem Rejected.of_clean {d d' : Doc} {e : Err} {ts : Node} {m : EditM Unit}
    (hc : FailsClean m (fun e => ts.isSet = true → KV e)) (hts : ts = d.target)
    (h : m d = (.error e, d')) : Rejected d e d' := by
  obtain ⟨rfl, hk⟩ := hc _ _ _ h
  exact ⟨rfl, fun h1 _ => hk (hts ▸ h1)⟩

theorem setValue_error {p : Text} {v : ValueArg} {d d' : Doc} {e : Err}
    (hscr : d.scratch = none) (h : setValue p v d = (.error e, d')) : Rejected d e d' := by
  unfold setValue at h
  split at h
  · cases h; exact Rejected.here_value _
  · cases h; exact Rejected.here_value _
  · rename_i v
    split at h
    · cases h; exact Rejected.here_value _
    · cases h; exact Rejected.here_value _
    · split at h
      · rename_i e0 hs
        cases h
        rw [splitScopeNpath_error p _ hs]
        exact Rejected.here_value _
      · -- scoped
        rename_i depth scopeNpath hs
        have hdepth := splitScopeNpath_some hs
        split at h
        · rename_i e0 hr
          cases h
          exact ⟨rfl, fun _ hn => Or.inr (resolveTarget_error hr hn)⟩
        · rename_i ts hr
          obtain ⟨hts, hnt⟩ := resolveTarget_ok hr
          dsimp only at h
          cases hc : ((collectScopeLayers d).isEmpty && depth == 1) with
          | true =>
            simp only [hc, if_true] at h
            simp only [Bool.and_eq_true, beq_iff_eq] at hc
            obtain ⟨_, rfl⟩ := hc
            cases hf : formatNPath currentAnchor scopeNpath with
            | error e0 =>
              simp only [hf] at h
              cases h
              rw [formatNPath_error _ _ _ hf]
              exact Rejected.here_value _
            | ok segs =>
              simp only [hf] at h
              cases hp : pathExistsInAttrset ts segs with
              | true =>
                simp only [hp, if_true] at h
                exact Rejected.of_clean (setValueInAttrset_clean _ _ _ _) hts h
              | false =>
                simp only [hp, Bool.false_eq_true, if_false, List.length_singleton, gt_iff_lt,
                  Nat.lt_irrefl, Nat.sub_self] at h
                split at h
                · cases h
                · rename_i e1 d1 ho
                  exfalso
                  refine onLayer_noFail _ _ _ _
                    { scope := [], order := [], bodyBefore := d.tBefore, bodyAfter := d.tAfter, afterLet := none }
                    ?_ (fun sid => ?_) ho
                  · rfl
                  · exact setValueInAttrset_empty_noFail _ _ _ _ _ hf rfl rfl
          | false =>
            simp only [hc, Bool.false_eq_true, if_false] at h
            split at h
            · cases h; exact Rejected.here_value _
            · split at h
              · cases h
              · rename_i hle e1 d1 ho
                cases h
                obtain ⟨h1, h2⟩ := onLayer_fromDoc_error d _ _ (fun e => KV e) hscr
                  (fun s hs => (setValueInAttrset_clean s false scopeNpath v).mono fun _ hk => hk hs) ho
                exact ⟨h1, fun _ _ => h2 (by omega)⟩
      · -- unscoped
        split at h
        · rename_i e0 hr
          cases h
          exact ⟨rfl, fun _ hn => Or.inr (resolveTarget_error hr hn)⟩
        · rename_i ts hr
          exact Rejected.of_clean (setValueInAttrset_clean _ _ _ _) (resolveTarget_ok hr).1 h

theorem removeValue_error {p : Text} {d d' : Doc} {e : Err}
    (hscr : d.scratch = none) (h : removeValue p d = (.error e, d')) : Rejected d e d' := by
  unfold removeValue at h
  split at h
  · cases h; exact Rejected.here_value _
  · cases h; exact Rejected.here_value _
  · split at h
    · rename_i e0 hs
      cases h
      rw [splitScopeNpath_error p _ hs]
      exact Rejected.here_value _
    · rename_i depth scopeNpath hs
      have hdepth := splitScopeNpath_some hs
      split at h
      · rename_i e0 hr
        cases h
        exact ⟨rfl, fun _ hn => Or.inr (resolveTarget_error hr hn)⟩
      · dsimp only at h
        split at h
        · cases h; exact Rejected.here_value _
        · split at h
          · rename_i hle _ e1 d1 ho
            cases h
            obtain ⟨h1, h2⟩ := onLayer_fromDoc_error d _ _ (fun e => KV e) hscr
              (fun s hs => (removeValueInAttrset_clean s scopeNpath).mono fun _ hk => hk hs) ho
            exact ⟨h1, fun _ _ => h2 (by omega)⟩
          · cases h
    · split at h
      · rename_i e0 hr
        cases h
        exact ⟨rfl, fun _ hn => Or.inr (resolveTarget_error hr hn)⟩
      · rename_i ts hr
        have key : removeValueInAttrset ts p d = (.error e, d') := by
          rw [← h]
          unfold removeValueInAttrset
          cases hf : formatNPath currentAnchor p with
          | error e => rfl
          | ok segs =>
            cases segs with
            | nil => rfl
            | cons seg0 segRest =>
              dsimp only
              split
              · rfl
              · split
                · split
                  · rfl
                  · split <;> rfl
                · split <;> rfl
        clear h
        have h := key
        exact Rejected.of_clean (removeValueInAttrset_clean _ _) (resolveTarget_ok hr).1 h

end Nima.EditFail
