"""Small valid Nix programs, one or more per construct × context (shared by C01/C03/C06/C07/C18/C20).

Each template is plain text in reasonable layout; trivia injection and damage work on its token
sequence as tree-sitter delivers it."""
from __future__ import annotations

TEMPLATES: list[tuple[str, str]] = [
    ("int", "42"),
    ("float", "3.14"),
    ("string", '"hello ${name} world"'),
    ("indented-string", "''\n  line one\n  ${x} two\n''"),
    ("path", "./foo/bar.nix"),
    ("spath", "<nixpkgs>"),
    ("ident", "foo"),
    ("bool-null", "[ true false null ]"),
    ("list", "[ 1 2 3 ]"),
    ("list-multi", "[\n  a\n  b\n  (f x)\n]"),
    ("list-nested", "[ [ 1 2 ] [ ] [ a b ] ]"),
    ("set", "{ a = 1; b = 2; }"),
    ("set-multi", "{\n  a = 1;\n  b = \"two\";\n}"),
    ("set-empty", "{ }"),
    ("set-rec", "rec {\n  a = 1;\n  b = a;\n}"),
    ("set-nested", "{\n  a = {\n    b = {\n      c = 1;\n    };\n  };\n}"),
    ("attrpath", "{\n  a.b.c = 1;\n  a.d = 2;\n  \"q r\".s = 3;\n}"),
    ("attr-dynamic", "{ ${name} = 1; \"${x}y\" = 2; }"),
    ("inherit", "{\n  inherit a b;\n  inherit (pkgs) c d;\n}"),
    ("let", "let\n  a = 1;\n  b = 2;\nin\na + b"),
    ("let-nested", "let\n  a = 1;\nin\nlet\n  b = a;\nin\nb"),
    ("let-set", "let\n  version = \"1.0\";\nin\n{\n  inherit version;\n  name = \"x\";\n}"),
    ("select", "a.b.c"),
    ("select-default", "a.b or 1"),
    ("select-string", "a.\"b c\".${d}"),
    ("has-attr", "a ? b.c"),
    ("apply", "f x y"),
    ("apply-set", "f {\n  a = 1;\n}"),
    ("apply-paren", "f (g x) (h y)"),
    ("apply-list", "f [ 1 2 ] { }"),
    ("binary-arith", "a + b * c - d / e"),
    ("binary-concat", "a ++ b ++ [ c ]"),
    ("binary-update", "a // b // { c = 1; }"),
    ("binary-logic", "a && b || c -> d"),
    ("binary-compare", "a == b && c != d && e < f && g >= h"),
    ("unary-not", "!a"),
    ("unary-neg", "-a"),
    ("paren", "(a + b) * c"),
    ("if", "if a then b else c"),
    ("if-multi", "if a then\n  b\nelse if c then\n  d\nelse\n  e"),
    ("with", "with pkgs; [ a b ]"),
    ("with-multi", "with pkgs;\n{\n  a = b;\n}"),
    ("assert", "assert a == b;\nc"),
    ("lambda-ident", "x: x + 1"),
    ("lambda-curried", "a: b: c: a b c"),
    ("lambda-formals", "{ a, b }: a + b"),
    ("lambda-formals-default", "{ a ? 1, b ? \"x\", ... }: a"),
    ("lambda-at", "args@{ a, ... }: a"),
    ("lambda-at-rev", "{ a, ... }@args: a"),
    ("lambda-ellipsis", "{ ... }: 1"),
    ("lambda-body-set", "{ pkgs }:\n{\n  a = pkgs.b;\n}"),
    ("package", "{ lib, stdenv, fetchurl }:\n\nstdenv.mkDerivation rec {\n  pname = \"hello\";\n  version = \"2.12\";\n\n  src = fetchurl {\n    url = \"mirror://gnu/hello/${pname}-${version}.tar.gz\";\n    hash = \"sha256-abc\";\n  };\n\n  meta = with lib; {\n    description = \"A program\";\n    license = licenses.gpl3Plus;\n  };\n}"),
    ("import", "import ./foo.nix { inherit pkgs; }"),
    ("comment-header", "# header\n{\n  # inner\n  a = 1; # eol\n}"),
    ("comment-block", "/* block */\n{\n  /* inner\n     more */\n  a = 1;\n}"),
    ("binding-multi", "{\n  a =\n    if x then\n      1\n    else\n      2;\n  b = [\n    1\n    2\n  ];\n}"),
    ("string-escape", "{ a = \"q\\\"r\\\\n\\${x}\"; b = ''\n  ''${y} '''\n''; }"),
    ("nonascii", "{ a = \"héllo wörld ✓\"; # ünï\n}"),
]


def by_name(name: str) -> str:
    for n, t in TEMPLATES:
        if n == name:
            return t
    raise KeyError(name)
