"""The translator: reads /repo's Python sources with `ast` and regenerates NimaVerif/Gen/*.lean.

Each extractor is independent; a failure of one is recorded in `problems[name]` and the table
is emitted as `none`-like sentinel so that the Lean obligation comparing it with the model's
table fails (broken tie), never silently passes.
Files are only rewritten when their content changes (so an unchanged tree is a no-op build).
"""
from __future__ import annotations

import ast
import re
from dataclasses import dataclass, field
from pathlib import Path

from .. import framework as fw

PKG = fw.REPO / "nix_manipulator"
GEN = fw.LEAN / "NimaVerif" / "Gen"


@dataclass
class Result:
    tables: list[str] = field(default_factory=list)
    problems: dict[str, str] = field(default_factory=dict)


class ExtractError(Exception):
    pass


def lean_char(c: str) -> str:
    n = ord(c)
    if c.isascii() and c.isalnum():
        return f"'{c}'"
    if n < 256:
        return f"'\\x{n:02x}'"
    if n < 0x10000:
        return f"'\\u{n:04x}'"
    return f"(Char.ofNat {n})"


def lean_text(s: str) -> str:
    return "[" + ", ".join(lean_char(c) for c in s) + "]"


def lean_str(s: str) -> str:
    out = []
    for c in s:
        if c == '"':
            out.append('\\"')
        elif c == "\\":
            out.append("\\\\")
        elif c == "\n":
            out.append("\\n")
        elif c == "\t":
            out.append("\\t")
        elif c == "\r":
            out.append("\\r")
        elif ord(c) < 32 or ord(c) > 126:
            out.append(f"\\u{ord(c):04x}" if ord(c) < 0x10000 else c)
        else:
            out.append(c)
    return '"' + "".join(out) + '"'


def parse_file(rel: str) -> ast.Module:
    p = PKG / rel
    try:
        return ast.parse(p.read_text(encoding="utf-8"), filename=str(p))
    except (OSError, SyntaxError) as exc:
        raise ExtractError(f"cannot read {rel}: {exc}")


def find_function(mod: ast.Module, name: str) -> ast.FunctionDef:
    for node in ast.walk(mod):
        if isinstance(node, (ast.FunctionDef, ast.AsyncFunctionDef)) and node.name == name:
            return node
    raise ExtractError(f"function {name} not found")


def const_str(node) -> str | None:
    if isinstance(node, ast.Constant) and isinstance(node.value, str):
        return node.value
    return None


def write_if_changed(path: Path, content: str):
    if path.exists() and path.read_text() == content:
        return
    path.parent.mkdir(parents=True, exist_ok=True)
    path.write_text(content)


def run_table(res: Result, name: str, fn):
    """Run one extractor; on failure record the problem and return None (the emitter then writes
    a `none` sentinel so that the Lean obligation comparing it with the model fails)."""
    res.tables.append(name)
    try:
        return fn()
    except ExtractError as exc:
        res.problems[name] = str(exc)
        return None
    except Exception as exc:  # extractor bug or unexpected shape: still a broken tie
        res.problems[name] = f"{type(exc).__name__}: {exc}"
        return None


def regenerate() -> Result:
    """Run every emitter module `harness/translate/gen_*.py` (each has `emit(res) -> {file: text}`)."""
    import importlib
    import pkgutil

    res = Result()
    pkg = importlib.import_module("harness.translate")
    for m in sorted(pkgutil.iter_modules(pkg.__path__), key=lambda m: m.name):
        if not m.name.startswith("gen_"):
            continue
        mod = importlib.import_module(f"harness.translate.{m.name}")
        for fname, content in mod.emit(res).items():
            write_if_changed(GEN / fname, content)
    return res


if __name__ == "__main__":
    r = regenerate()
    print("tables:", r.tables)
    print("problems:", r.problems)
