"""C14 — the mapping API obeys dictionary laws and the rebuilt text always agrees with it."""
from __future__ import annotations

import re

from .. import docmodel as dm
from .. import editprops as ep
from .. import framework as fw
from ..framework import hx
from ..gen import docs
from ..oracle import cstread

GEN_TABLES = ()

KEYS = ["a", "b", "c", "x", "y", "version", "zz", "p", "q", "k", '"q-r"', "a.p", "b.k", "s.t"]
PYVALS = [5, "s", True, None, {"k": 1}, {"k": 1, "j": "2"}, [1, 2], "EXPR:x", "EXPR:[ 1 2 ]", "EXPR:{ z = 1; }"]


def mk_value(v):
    from nix_manipulator import parse

    if isinstance(v, str) and v.startswith("EXPR:"):
        return parse(v[5:]).expressions[0]
    return v


def value_node(v, ids):
    from nix_manipulator.expressions.set import AttributeSet

    if isinstance(v, dict):
        return dm.node_of(AttributeSet.from_dict(v), ids)
    return dm.node_of(v, ids)


def value_text(v) -> str:
    """how the value reads in the text (whitespace-normalised), for scalars"""
    if isinstance(v, bool):
        return "true" if v else "false"
    if v is None:
        return "null"
    if isinstance(v, int):
        return str(v)
    if isinstance(v, str):
        return '"' + v + '"'
    return None


def norm_got(x):
    if hasattr(x, "rebuild"):
        return " ".join(x.rebuild().split())
    if isinstance(x, dict):
        return "{ " + " ".join(f"{k} = {norm_got(v)};" for k, v in x.items()) + " }" if x else "{ }"
    if isinstance(x, (list, tuple)):
        return "[ " + " ".join(str(norm_got(i)) for i in x) + " ]" if x else "[ ]"
    return value_text(x)


def norm_want(v):
    if isinstance(v, str) and v.startswith("EXPR:"):
        return None if v[5:].lstrip().startswith("{") else " ".join(v[5:].split())
    return norm_got(v)


TARGETED = [
    [("set", ["a"], "p", 5)], [("set", ["a"], "p", "s"), ("get", ["a"], "p")], [("del", ["a"], "p"), ("set", ["a"], "p", 5)],
    [("set", ["b", "a"], "p", 5)], [("set", ["a"], "z", 5), ("set", ["a"], "z", 6)], [("set", ["version"], "q", 5)],
    [("set", ["version", "s"], "t", 5)], [("set", ["b"], "k", 5)], [("set", [], "a", 5), ("get", [], "a")],
    [("scopeset", "x", 5), ("scopeget", "x")], [("scopeget", "y")], [("scopeget", "v")], [("scopeget", "a")],
    [("scopeget", "lib")], [("scopedel", "x"), ("scopeget", "x")], [("scopedel", "y"), ("scopeget", "y")],
    [("scopeset", "y", 5), ("scopedel", "y"), ("scopeget", "y")],
    [("set", [], "k", 5), ("get", [], "k")], [("set", ["a"], "k", 5), ("get", ["a"], "k")],
    [("set", [], "k", 5), ("set", [], "j", 6), ("del", [], "k")],
    [("get", ["services", "nginx", "virtualHosts"], "b")], [("get", ["services", "nginx", "virtualHosts"], "a")],
    [("set", ["services", "nginx", "virtualHosts"], "b", 5), ("get", ["services", "nginx", "virtualHosts"], "b")],
    [("get", [], "foo")], [("set", [], "foo", 5), ("get", [], "foo")], [("del", [], "foo")], [("set", [], "foo", 5), ("del", [], "foo"), ("get", [], "foo")],
    [("get", ["a"], "k")], [("set", ["a"], "k", 5)], [("del", [], "b")],
    # an edit through the library's path functions in between, then the mapping again
    [("rmcli", "a.b.c"), ("get", [], "a")], [("rmcli", "a.b.c"), ("get", ["a"], "b")], [("rmcli", "a.b.c"), ("set", [], "a", 5), ("get", [], "a")],
    [("rmcli", "a.p"), ("get", ["a"], "p")], [("rmcli", "nx.y"), ("get", [], "nx")], [("rmcli", "nx.y.z"), ("get", [], "nx")],
    [("setcli", "@x", "5"), ("scopeset", "nk", 6), ("scopeget", "nk")], [("setcli", "@x", "5"), ("scopedel", "x"), ("scopeget", "x")],
    [("rmcli", "@x"), ("scopeset", "nk", 6)], [("setcli", "@nk2", "5"), ("scopedel", "nk2")], [("setcli", "a.z", "7"), ("get", ["a"], "z")], [("setcli", "zz", "7"), ("get", [], "zz"), ("del", [], "zz")],
    [("get", ["a", "b", "c"], "e")], [("set", ["a", "b", "c"], "e", 5)], [("del", ["a", "b", "c"], "e")], [("get", ["a", "b"], "f")],
]


def gen_history(ctx, text):
    rng = ctx.rng
    ops = []
    ident_body = text.rstrip().endswith("in\nbody")
    for _ in range(rng.randint(1, 8 if ctx.quick else 20)):
        r = rng.random()
        depth = 0 if rng.random() < 0.7 else 1
        keys = [rng.choice(["a", "b", "c", "x"])] if depth else []
        if "virtualHosts" in text and rng.random() < 0.5:
            keys = ["services", "nginx", "virtualHosts"][: rng.randint(1, 3)]
        elif "a.b.c.d" in text and rng.random() < 0.5:
            keys = ["a", "b", "c"][: rng.randint(1, 3)]
        k = rng.choice(KEYS)
        if r < 0.25:
            ops.append(("get", keys, k))
        elif r < 0.6:
            # dotted keys name attrpath bindings; writing them is C05's business, so only plain names are set
            ops.append(("set", keys, k if "." not in k else "zz", rng.choice(PYVALS)))
        elif r < 0.85:
            ops.append(("del", keys, k))
        elif ident_body and r < 0.93:
            # the document reaches its set through a let-bound name: rebind that name
            ops.append(("topscopeset", "body", rng.choice([{"k": 1}, {"j": "2", "bar": 2}, {}])))
        elif r < 0.9:
            ops.append(("scopeget", k))
        elif r < 0.96:
            ops.append(("scopeset", k, rng.choice(PYVALS[:6])))
        else:
            ops.append(("scopedel", k))
    return ops


def run_history(ctx, text, ops, info, reqs_out):
    from nix_manipulator import parse
    from nix_manipulator.cli import manipulations as M

    try:
        src = parse(text)
        tgt = src._resolve_target_set()
        if M._resolve_target_set(src) is not tgt:
            return None
    except Exception:  # noqa: BLE001
        return None
    ids = dm.Ids()
    doc0 = dm.snapshot(src, ids)
    req = ["edit", doc0[:14]]
    vids = dm.Ids()
    vids.n = 500000
    recs = []
    model_stopped = False
    for op in ops:
        before = src.rebuild()
        tree_before = ep.safe_tree(before)
        res, exc_s, got = "ok", "", None
        try:
            scope_names = [getattr(i, "name", None) for i in tgt.scope]
        except Exception:  # noqa: BLE001
            scope_names = None
        try:
            if op[0] in ("get", "set", "del"):
                m = src
                keys = op[1]
                if op[0] == "get":
                    for kk in keys + [op[2]]:
                        m = m[kk]
                    got = m
                else:
                    for kk in keys:
                        m = m[kk]
                    if op[0] == "set":
                        m[op[2]] = mk_value(op[3])
                    else:
                        del m[op[2]]
            elif op[0] in ("rmcli", "setcli"):
                (M.remove_value(src, op[1]) if op[0] == "rmcli" else M.set_value(src, op[1], op[2]))
            elif op[0] == "topscopeset":
                src.expr.scope[op[1]] = mk_value(op[2])
                tgt = src._resolve_target_set()
            else:
                sc = tgt.scope
                if op[0] == "scopeget":
                    got = sc[op[1]]
                elif op[0] == "scopeset":
                    sc[op[1]] = mk_value(op[2])
                else:
                    del sc[op[1]]
        except Exception as exc:  # noqa: BLE001
            res = dm.exc_class(exc)
            exc_s = f"{type(exc).__name__}: {exc}"
        # model request (the model has no notion of a target reached through a let-bound name:
        # the correspondence of such a history stops before the rebinding)
        if op[0] in ("topscopeset", "rmcli", "setcli") or model_stopped:
            model_stopped = True
        elif op[0] == "get":
            req.append(["getitem", [hx(x) for x in op[1]], hx(op[2])])
        elif op[0] == "set":
            req.append(["setitem", [hx(x) for x in op[1]], hx(op[2]), value_node(mk_value(op[3]), vids)])
        elif op[0] == "del":
            req.append(["delitem", [hx(x) for x in op[1]], hx(op[2])])
        elif op[0] == "scopeget":
            req.append(["scopeget", hx(op[1])])
        elif op[0] == "scopeset":
            req.append(["scopeset", hx(op[1]), value_node(mk_value(op[2]), vids)])
        else:
            req.append(["scopedel", hx(op[1])])
        try:
            after = src.rebuild()
        except Exception as exc:  # noqa: BLE001
            after = "<rebuild raised " + type(exc).__name__ + ": " + str(exc)[:80] + ">"
        try:
            snap = dm.canon(dm.snapshot(src, ids))
        except Exception as exc:  # noqa: BLE001
            snap = ["snapshot-raised", type(exc).__name__]
        # the dictionary laws, asked of the implementation directly: a lookup right after a successful
        # write (after the snapshot, so that the correspondence sees the state the operation left)
        follow = None
        if res == "ok" and op[0] in ("set", "del", "scopeset", "scopedel"):
            try:
                if op[0] in ("set", "del"):
                    m2 = src
                    for kk in op[1]:
                        m2 = m2[kk]
                    follow = ("ok", norm_got(m2[op[2]]))
                else:
                    follow = ("ok", norm_got(tgt.scope[op[1]]))
            except KeyError:
                follow = ("key", None)
            except Exception as exc:  # noqa: BLE001
                follow = (type(exc).__name__, None)
        recs.append({"op": op, "res": res, "exc": exc_s, "before": before, "after": after, "snap": snap,
                     "tree_before": tree_before, "got": got, "modelled": not model_stopped, "follow": follow,
                     "scope_names": scope_names})
    reqs_out.append((req, recs, text, ops))
    # --------- oracle on the implementation (a history is judged up to its first failure: after
    # one, text and mapping have diverged and everything later is a consequence)
    nfail = len(ctx.failures)
    for r in recs:
        if len(ctx.failures) > nfail:
            break
        op = r["op"]
        inp = {"doc": text, "ops": [list(map(str, o)) for o in ops], "at": list(map(str, op)), "before": r["before"],
               "stream": info.get("stream")}
        tb = r["tree_before"]
        ta = ep.safe_tree(r["after"]) if not r["after"].startswith("<rebuild raised") else None
        if r["after"].startswith("<rebuild raised"):
            ctx.fail({"clause": "rebuild-raises", "op": op[0]}, inp, f"after {op!r} rebuild() raised: {r['after']}")
            continue
        fo = r.get("follow")
        if fo is not None and not (op[0] in ("set", "del") and any("." in kk and not kk.startswith('"') for kk in op[1] + [op[2]])):
            if op[0] in ("set", "scopeset"):
                v = op[3] if op[0] == "set" else op[2]
                if fo[0] != "ok" or (norm_want(v) is not None and fo[1] != norm_want(v)):
                    ctx.fail({"clause": "get-after-set", "op": op[0]}, {**inp, "after": r["after"]},
                             f"after {op!r} the lookup of the same key gives {fo!r}, expected {norm_want(v)!r}")
                    continue
            elif fo[0] != "key":
                ctx.fail({"clause": "get-after-del", "op": op[0]}, {**inp, "after": r["after"]},
                         f"after {op!r} the lookup of the same key gives {fo!r}, expected KeyError")
                continue
        if op[0] == "scopeget" and r.get("scope_names") is not None:
            if r["res"] == "ok" and op[1] not in r["scope_names"]:
                ctx.fail({"clause": "scopeget-invents", "op": op[0]}, inp,
                         f"scope lookup {op[1]!r} succeeded although the scope mapping lists {r['scope_names']!r}")
                continue
        if op[0] in ("rmcli", "setcli"):
            if r["res"] != "ok" and r["after"] != r["before"]:
                ctx.fail({"clause": "failed-op-mutated", "op": op[0]}, inp,
                         f"failed {op!r} changed the document: {r['before']!r} -> {r['after']!r}")
            continue  # what set/rm do to the text is C05's; here they only prepare the state the mapping is asked about
        if op[0] == "topscopeset":
            want = {k: (str(v) if isinstance(v, int) else '"' + v + '"') for k, v in op[2].items()}
            if r["res"] != "ok" or ta != want:
                ctx.fail({"clause": "rebind-target", "op": op[0]}, {**inp, "after": r["after"]},
                         f"after rebinding the let-bound body the text reads {ta!r}, expected {want!r}")
            continue
        if op[0] in ("scopeset", "scopedel") and r["res"] == "ok" and not r["after"].startswith("<rebuild"):
            # the rebuilt text shows exactly the bindings the scope mapping reports
            try:
                ch = cstread.let_chain(r["after"])
            except cstread.Duplicate:
                ch = None
            try:
                ch_before = cstread.let_chain(r["before"])
            except cstread.Duplicate:
                ch_before = None
            names_in_text = set()
            for lay in (ch or []):
                names_in_text |= {k for k in cstread.plain(lay) if isinstance(k, str)}
            kname = op[1][1:-1] if op[1].startswith('"') and op[1].endswith('"') and len(op[1]) > 1 else op[1]
            present = kname in names_in_text
            # (with several layers the scope mapping is ONE of them: judged only where there is at most one)
            if (op[0] == "scopeset") != present and "." not in op[1] and ch_before is not None and len(ch_before) <= 1 \
                    and ch is not None and len(ch) <= 1:
                ctx.fail({"clause": "scope-text", "op": op[0]}, {**inp, "after": r["after"]},
                         f"after {op!r} the scope mapping {'has' if op[0] == 'scopeset' else 'no longer has'} {op[1]!r} "
                         f"but the let layers of the text {'do not show it' if op[0] == 'scopeset' else 'still show it'}: {r['after']!r}")
                continue
        if op[0] in ("scopeget", "scopeset", "scopedel") or tb is None or isinstance(tb, tuple):
            if r["res"] not in ("ok", "key", "type", "value"):
                ctx.fail({"clause": "exception-class", "class": r["res"], "op": op[0]}, inp, f"{op!r} raised {r['exc']}")
            elif r["res"] != "ok" and r["after"] != r["before"]:
                ctx.fail({"clause": "failed-op-mutated", "op": op[0]}, inp, f"failed {op!r} changed the text")
            continue
        keys = op[1]
        names = []
        for kk in keys + [op[2]]:
            try:
                names += ep.split_path(kk) if not kk.startswith('"') else [kk[1:-1]]
            except Exception:  # noqa: BLE001
                names = None
                break
        if names is None:
            continue
        existing = ep.tree_get(tb, names)
        parents = ep.attrpath_parents_of(r["before"])
        in_family = any(tuple(names[:k]) in parents for k in range(1, len(names) + 1))
        fam = "attrpath" if in_family else "plain"
        dotted = any("." in kk and not kk.startswith('"') for kk in keys + [op[2]])
        key = {"op": op[0], "family": fam, "dotted": dotted, "nested": bool(keys)}
        if names and re.search(r'"%s"\s*=' % re.escape(names[-1]), r["before"]) and names[-1].isidentifier():
            key["spelling"] = "quoted-in-file"  # the file spells the key as a quoted identifier (`"foo" = …`)
        if in_family:
            # which part of an attrpath family is addressed: the root (or an inner prefix), an existing
            # leaf (a Binding of its own, writable), or a new key of the merged set
            key["target"] = ("root" if tuple(names) in parents else
                             "leaf" if existing is not None and not isinstance(existing, dict) else
                             "new-key" if existing is None else "subset")
        if r["res"] != "ok":
            if r["res"] not in ("key", "type", "value"):
                ctx.fail({"clause": "exception-class", "class": r["res"], **key}, inp, f"{op!r} raised {r['exc']}")
            if r["after"] != r["before"]:
                ctx.fail({"clause": "failed-op-mutated", **key}, inp,
                         f"failed {op!r} changed the text: {r['before']!r} -> {r['after']!r}")
            if op[0] == "get" and existing is not None and not isinstance(existing, (tuple, list)) and r["res"] == "key" \
                    and not dotted:
                ctx.fail({"clause": "get-misses-existing", **key}, inp,
                         f"lookup {names!r} raises KeyError although the text defines it: {r['before']!r}")
            continue
        if isinstance(ta, tuple) or ta is None:
            from .c05 import inherited_at

            via = "inherit" if inherited_at(tb, names) else ("attrpath-family" if in_family else "other")
            if via == "other" and names and names[0] in {p[0] for p in ep.attrpath_parents_of(text) if len(p) == 1}:
                via = "attrpath-zombie"  # the family was deleted from `values` earlier in this history and is still in attrpath_order
            ctx.fail({"clause": "text-unreadable", "via": via, **key}, {**inp, "after": r["after"]},
                     f"after {op!r} the text has a duplicate definition or no target: {r['after']!r}")
            continue
        if op[0] == "get":
            if existing is None:
                ctx.fail({"clause": "get-invents", **key}, inp, f"lookup {names!r} succeeded but the text has no such attribute")
            if r["after"] != r["before"]:
                ctx.fail({"clause": "get-mutates", **key}, inp, "a lookup changed the text")
        elif op[0] == "set":
            v = op[3]
            want_leaf = value_text(v) if not (isinstance(v, str) and v.startswith("EXPR:")) else " ".join(v[5:].split())
            if dotted:
                continue  # a dotted key names a binding `a.p`, whose reading is C05's attrpath business
            got = ep.tree_get(ta, names)
            if isinstance(v, dict):
                ok = isinstance(got, dict) and set(got) == set(v)
            elif isinstance(v, list):
                ok = got == "[ " + " ".join(str(x) for x in v) + " ]"
            elif isinstance(v, str) and v.startswith("EXPR:"):
                ok = got == ep.value_as_tree(v[5:])
            else:
                ok = got == want_leaf
            if not ok:
                ctx.fail({"clause": "set-not-in-text", **key}, {**inp, "after": r["after"]},
                         f"after {op!r} the text reads {got!r} at {names!r}: {r['after']!r}")
            # number of other keys unchanged
            cur_b = ep.tree_get(tb, names[:-1]) if names[:-1] else tb
            cur_a = ep.tree_get(ta, names[:-1]) if names[:-1] else ta
            if isinstance(cur_b, dict) and isinstance(cur_a, dict):
                ob = {k for k in cur_b if k != names[-1]}
                oa = {k for k in cur_a if k != names[-1]}
                if ob != oa:
                    roots = {p[0] for p in ep.attrpath_parents_of(text) if len(p) == 1}
                    if (oa - ob) and (oa - ob) <= roots:
                        # bindings of an attrpath family deleted earlier come back: the family was removed
                        # from `values` only and is still in `attrpath_order`
                        key = {**key, "cause": "attrpath-zombie"}
                    ctx.fail({"clause": "set-changes-other-keys", **key}, {**inp, "after": r["after"]},
                             f"after {op!r} the other keys changed: {sorted(map(str, ob))} -> {sorted(map(str, oa))}")
        elif op[0] == "del":
            if dotted:
                continue
            if ep.tree_get(ta, names) is not None:
                ctx.fail({"clause": "del-still-in-text", **key}, {**inp, "after": r["after"]},
                         f"after {op!r} the mapping no longer has {names!r} but the text still does: {r['after']!r}")
    return recs


def stream(ctx):
    seen = set()
    texts = []
    for text, _ops, info in docs.enumerate_single_ops():
        if text not in seen:
            seen.add(text)
            texts.append((text, info))
    if ctx.quick:
        texts = [t for i, t in enumerate(texts) if (i + ctx.seed) % 3 == 0]
    for body in ["{ foo = 1; }", "{\n  foo = 1;\n  a = { k = 1; };\n}", "{ }"]:
        for rep in range(6 if ctx.quick else 60):
            texts.append((f"let\n  body = {body};\nin\nbody", {"wrapper": "ident-body"}))
    # sets without bindings but with something between the braces; deep dotted families
    for t in ["{\n  # TODO\n}\n", "{\n\n}\n", "{\n  a = {\n    # TODO\n  };\n  b = 1;\n}\n", "{ pkgs }:\n{\n  # nothing yet\n}\n",
              "{\n  a = {\n  };\n  b = [\n    # none\n  ];\n}\n",
              "{\n  services.nginx.virtualHosts.a = 1;\n  services.nginx.virtualHosts.b = 2;\n  x = 3;\n}\n",
              "{\n  a.b.c.d = 1;\n  a.b.c.e = 2;\n  a.b.f = 3;\n}\n",
              "{ \"foo\" = 1; bar = 2; }\n", "{\n  a = {\n    \"k\" = 1;\n  };\n  \"b\" = 2;\n}\n", "{\n  a.b.c = 1;\n  e = 3;\n}\n"]:
        for rep in range(4 if ctx.quick else 40):
            texts.append((t, {"wrapper": "special"}))
    for _ in range(2500 if ctx.quick else 30000):
        t, info = docs.gen_doc(ctx.rng)
        if info.get("class") == "editable":
            texts.append((t, info))
    return texts


def run(ctx: fw.Ctx):
    ctx.extra["rule"] = (
        "documents (plain, attrpath-derived, nested, scoped; 11 wrapper shapes) with random histories of item "
        "get/set/delete on the document, on nested sets reached through it and on the scope mapping; non-trivial = "
        "history with at least one successful mutation; oracle = attribute tree decoded from rebuild() text vs the lookups"
    )
    ctx.trusted_base = [
        "Lean 4 kernel; axioms propext, Classical.choice, Quot.sound only",
        "mapping model (setGetItem/setSetItem/setDelItem/scope*Item in Model/Edit.lean) tied by correspondence of the "
        "object graph after every operation",
        "tree-sitter-nix as independent reader of rebuild() text",
    ]
    ctx.assumptions = ["values are compared as whitespace-normalised text"]
    reqs = []
    texts = stream(ctx)
    seen_t = set()
    jobs = []
    for text, info in texts:
        jobs.append((text, info, gen_history(ctx, text)))
        if text not in seen_t and len(seen_t) < (400 if ctx.quick else 4000):
            seen_t.add(text)
            for ops in TARGETED:
                # (documents of the random generator carry `multiline` in their info: their cases are not enumerable)
                jobs.append((text, dict(info, stream="fixed") if "multiline" not in info else info, list(ops)))
    for text, info, ops in jobs:
        recs = run_history(ctx, text, ops, info, reqs)
        if recs is None:
            continue
        ctx.case({"doc": text, "ops": [list(map(str, o)) for o in ops]},
                 any(r["res"] == "ok" and r["op"][0] in ("set", "del", "scopeset", "scopedel") for r in recs))
        for r in recs:
            ctx.count("op:" + r["op"][0] + ":" + r["res"])
    # correspondence
    replies = ctx.driver.ask_many([r[0] for r in reqs])
    bad = 0
    for (req, recs, text, ops), rep in zip(reqs, replies):
        if rep[0] != "ok":
            bad += 1
            if bad <= 5:
                ctx.tie_break("correspondence", f"model rejected the request: {rep}", doc=text)
            continue
        for r, m in zip([x for x in recs if x["modelled"]], rep[1:]):
            mr = "ok" if m[0] == "ok" else m[1]
            md = dm.canon(m[-1])
            ctx.corr_checked += 1
            if mr != r["res"] or fw.sexp_dump(md) != fw.sexp_dump(r["snap"]):
                bad += 1
                if bad <= 5:
                    ctx.tie_break("correspondence",
                                  f"mapping model and implementation differ after {r['op']!r} on {text!r}: "
                                  f"impl={r['res']} ({r['exc']}) model={mr}",
                                  doc=text, ops=[list(map(str, o)) for o in ops],
                                  implementation=fw.sexp_dump(r["snap"])[:1500], model=fw.sexp_dump(md)[:1500])
                break


def search(ctx: fw.Ctx):
    ctx.quick = False
    reqs = []
    for text, info in stream(ctx)[:3000]:
        run_history(ctx, text, gen_history(ctx, text), info, reqs)


def replay(payload: dict) -> int:
    inp = payload["input"]
    ctx = fw.Ctx("C14", "quick", 0)
    ops = []
    for o in inp["ops"]:
        if o[0] in ("get", "del"):
            ops.append((o[0], eval(o[1]), o[2]))
        elif o[0] == "set":
            ops.append((o[0], eval(o[1]), o[2], eval(o[3]) if not o[3].startswith("EXPR") else o[3]))
        elif o[0] == "scopeset":
            ops.append((o[0], o[1], eval(o[2])))
        else:
            ops.append(tuple(o))
    run_history(ctx, inp["doc"], ops, {}, [])
    for f in ctx.failures:
        print("FAIL", f["what"])
    return 1 if ctx.failures else 0
