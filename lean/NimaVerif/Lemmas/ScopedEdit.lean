import NimaVerif.Lemmas.LayerOps
/-! The scoped branches of `setValue` / `removeValue`, assembled from dispatch + `onLayer` + traces. -/
namespace Nima
-- name tokens are compared by spelling in this file (see `NameCmp` in Model/Edit.lean)
attribute [local instance] NameCmp.spelled

open Node EditM

theorem scratch_within (d : Doc) (l : Layer) (ni : Bool) (A : Nat → Prop)
    (hA : ∀ i ∈ l.bindIds, A i) (hni : ni = true → l.plain = true) :
    (layerAsSet d.next l).Within A (l.fpSet d.next) ni := by
  apply within_of_idLists
  · intro i hi
    exact hA i (by simpa [layerAsSet, bindIdList, Layer.bindIds] using hi)
  · intro s hs
    simp only [layerAsSet, setIdList, List.mem_cons] at hs
    rcases hs with rfl | hs
    · exact Or.inr (Nat.le_refl _)
    · exact Or.inl (by simpa [Layer.setIds] using hs)
  · intro h
    have := hni h
    simp only [Layer.plain, Bool.and_eq_true, Bool.not_eq_eq_eq_not, Bool.not_true] at this
    simp [layerAsSet, hasIdentValue, this.1, this.2]

theorem fpSet_fresh (l : Layer) (N : Nat) : ∀ i, N ≤ i → l.fpSet N i := fun _ h => Or.inr h

theorem write_cons_fields (ls : List Layer) (r : Option Layer) (d : Doc) (h : ls ≠ []) :
    let w := writeScopeLayers ls r d
    w.target = d.target ∧ w.tBefore = d.tBefore ∧ w.tAfter = d.tAfter ∧ w.trailing = d.trailing ∧
    w.noTarget = d.noTarget ∧ w.scratch = d.scratch ∧ w.next = d.next ∧ w.topScope = d.topScope := by
  cases ls with
  | nil => exact absurd rfl h
  | cons o rest => exact ⟨rfl, rfl, rfl, rfl, rfl, rfl, rfl, rfl⟩

theorem getElem?_map_getD {α} (f : α → α) (xs : List α) (i : Nat) (x : α) (h : xs[i]? = some x) :
    ((xs.map f)[i]?).getD x = f x := by simp [h]

/-- The scoped `set` on an existing layer, in full: which scratch set the attrset-level operation
    runs on, what it may touch, and what is written back. -/
theorem scoped_set_core (d : Doc) (k : Nat) (name : Text) (v : Node) (hn : d.noTarget = none)
    (hk : 1 ≤ k) (hne : name ≠ []) (hh : name.head? ≠ some '@')
    (hkn : k ≤ (collectScopeLayers d).length) (ni : Bool) (A : Nat → Prop) {l : Layer}
    (hl : (collectScopeLayers d)[(collectScopeLayers d).length - k]? = some l)
    (hor : ni = true ∨ ∀ i, A i) (hA : ∀ i ∈ l.bindIds, A i) (hni : ni = true → l.plain = true) :
    ∃ us, (∀ u ∈ us, u.Allowed true A (l.fpSet d.next)) ∧
      (setValueInAttrset (layerAsSet d.next l) false name v (scratchDoc d l)).2 =
        applyAll us (scratchDoc d l) ∧
      (setValue (atSigns k ++ name) (.one v) d).1 =
        (setValueInAttrset (layerAsSet d.next l) false name v (scratchDoc d l)).1 ∧
      ((setValue (atSigns k ++ name) (.one v) d).1 = .ok () →
        let d' := (setValue (atSigns k ++ name) (.one v) d).2
        let S' := applyAllNode us (layerAsSet d.next l)
        collectScopeLayers d' =
          listSet ((collectScopeLayers d).map (applyAllLayer us)) ((collectScopeLayers d).length - k)
            { applyAllLayer us l with scope := S'.setValues, order := S'.setOrder } ∧
        d'.target = applyAllNode us d.target ∧ d'.noTarget = d.noTarget ∧ d'.tBefore = d.tBefore ∧
        d'.tAfter = d.tAfter ∧ d'.trailing = d.trailing ∧ d'.scratch = none) := by
  obtain ⟨us, h1, h2, _⟩ := traced_setValueInAttrset (grow := true) (N := d.next)
    (fpSet_fresh l d.next) hor (scratch_within d l ni A hA hni) false name v (scratchDoc d l)
    (by simp)
  refine ⟨us, h2, h1, ?_⟩
  rw [setValue_scoped d k name v hn hk hne hh hkn,
    onLayer_run _ true _ (fun s => setValueInAttrset s false name v) d hl h1]
  simp only [if_true]
  cases hr : (setValueInAttrset (layerAsSet d.next l) false name v (scratchDoc d l)).1 with
  | error e => exact ⟨rfl, fun h => by cases h⟩
  | ok u =>
    cases u
    refine ⟨rfl, fun _ => ?_⟩
    simp only
    have hl1 := getElem?_map_getD (applyAllLayer us) _ _ l hl
    rw [hl1]
    have hne' : listSet ((collectScopeLayers d).map (applyAllLayer us))
        ((collectScopeLayers d).length - k)
        (setLayerFrom (applyAllLayer us l) (applyAllNode us (layerAsSet d.next l))) ≠ [] := by
      intro h
      have := congrArg List.length h
      simp only [listSet_length, List.length_map, List.length_nil] at this
      omega
    obtain ⟨w1, w2, w3, w4, w5, w6, _, _⟩ := write_cons_fields _ none
      ({ applyAll us (scratchDoc d l) with scratch := none } : Doc) hne'
    have hfr := applyAll_frame us (scratchDoc d l)
    refine ⟨?_, ?_, ?_, ?_, ?_, ?_, ?_⟩
    · rw [collect_write_filter, filter_nonEmpty_of_all]
      · rfl
      · intro m hm
        rcases mem_listSet hm with rfl | hm
        · have hg := applyAllNode_grows us h2 (layerAsSet d.next l) rfl
          have hlne := collect_nonEmpty d l (List.mem_of_getElem? hl)
          simp only [Layer.nonEmpty, Bool.not_eq_eq_eq_not, Bool.not_true,
            List.isEmpty_eq_false_iff] at hlne
          have : 0 < (layerAsSet d.next l).setValues.length := by
            simp only [layerAsSet, setValues]
            exact List.length_pos_iff.2 hlne
          simp only [Layer.nonEmpty, setLayerFrom, Bool.not_eq_eq_eq_not, Bool.not_true,
            List.isEmpty_eq_false_iff]
          exact List.length_pos_iff.1 (Nat.lt_of_lt_of_le this hg.2)
        · obtain ⟨m0, hm0, rfl⟩ := List.mem_map.1 hm
          rw [(applyAllLayer_frame us m0).2.2.2]
          exact collect_nonEmpty d m0 hm0
    · rw [w1]; simp only [applyAll_target, scratchDoc_target]
    · rw [w5]; exact hfr.noTarget
    · rw [w2]; exact hfr.tBefore
    · rw [w3]; exact hfr.tAfter
    · rw [w4]; exact hfr.trailing
    · rw [w6]

theorem write_fields (ls : List Layer) (r : Option Layer) (d : Doc) :
    let w := writeScopeLayers ls r d
    w.target = d.target ∧ w.noTarget = d.noTarget ∧ w.scratch = d.scratch ∧ w.next = d.next ∧
    w.topScope = d.topScope ∧ w.trailing = d.trailing := by
  cases ls with
  | nil => cases r <;> exact ⟨rfl, rfl, rfl, rfl, rfl, rfl⟩
  | cons o rest => exact ⟨rfl, rfl, rfl, rfl, rfl, rfl⟩

theorem write_nil_some (r : Layer) (d : Doc) :
    (writeScopeLayers [] (some r) d).tBefore = (if r.bodyBefore.isEmpty then d.tBefore else r.bodyBefore) ∧
    (writeScopeLayers [] (some r) d).tAfter = r.bodyAfter ++ d.tAfter.filter (!r.bodyAfter.contains ·) :=
  ⟨rfl, rfl⟩

/-- The scoped `rm`, in full. -/
theorem scoped_rm_core (d : Doc) (k : Nat) (name : Text) (hn : d.noTarget = none)
    (hk : 1 ≤ k) (hne : name ≠ []) (hh : name.head? ≠ some '@')
    (hkn : k ≤ (collectScopeLayers d).length) {l : Layer}
    (hl : (collectScopeLayers d)[(collectScopeLayers d).length - k]? = some l) :
    ∃ us, (∀ u ∈ us, u.Allowed false l.fpBind (l.fpSet d.next)) ∧
      (removeValueInAttrset (layerAsSet d.next l) name (scratchDoc d l)).2 =
        applyAll us (scratchDoc d l) ∧
      (removeValue (atSigns k ++ name) d).1 =
        (removeValueInAttrset (layerAsSet d.next l) name (scratchDoc d l)).1 ∧
      ((removeValue (atSigns k ++ name) d).1 = .ok () →
        let d' := (removeValue (atSigns k ++ name) d).2
        let S' := applyAllNode us (layerAsSet d.next l)
        let L' := (collectScopeLayers d).map (applyAllLayer us)
        let idx := (collectScopeLayers d).length - k
        (S'.setValues = [] → collectScopeLayers d' = L'.eraseIdx idx ∧
          ((collectScopeLayers d).length ≠ 1 → d'.tBefore = d.tBefore ∧ d'.tAfter = d.tAfter) ∧
          ((collectScopeLayers d).length = 1 →
            d'.tBefore = (if l.bodyBefore.isEmpty then d.tBefore else l.bodyBefore) ∧
            d'.tAfter = l.bodyAfter ++ d.tAfter.filter (!l.bodyAfter.contains ·))) ∧
        (S'.setValues ≠ [] → collectScopeLayers d' =
            listSet L' idx { applyAllLayer us l with scope := S'.setValues, order := S'.setOrder } ∧
          d'.tBefore = d.tBefore ∧ d'.tAfter = d.tAfter) ∧
        d'.target = applyAllNode us d.target ∧ d'.noTarget = d.noTarget ∧ d'.scratch = none) := by
  obtain ⟨us, h1, h2, _⟩ := traced_removeValueInAttrset (N := d.next) (ni := false)
    (fpSet_fresh l d.next) (scratch_within d l false l.fpBind (fun _ h => h) (fun h => by cases h))
    name (scratchDoc d l) (by simp)
  refine ⟨us, h2, h1, ?_⟩
  rw [removeValue_scoped d k name hn hk hne hh hkn,
    onLayer_run _ true _ (fun s => removeValueInAttrset s name) d hl h1]
  simp only [if_true]
  cases hr : (removeValueInAttrset (layerAsSet d.next l) name (scratchDoc d l)).1 with
  | error e => exact ⟨rfl, fun h => by cases h⟩
  | ok u =>
    cases u
    refine ⟨rfl, fun _ => ?_⟩
    simp only
    have hl1 := getElem?_map_getD (applyAllLayer us) _ _ l hl
    rw [hl1]
    -- abbreviations
    generalize hL' : (collectScopeLayers d).map (applyAllLayer us) = L'
    generalize hidx : (collectScopeLayers d).length - k = idx
    generalize hS' : applyAllNode us (layerAsSet d.next l) = S'
    generalize hd2 : ({ applyAll us (scratchDoc d l) with scratch := none } : Doc) = d2
    have hlen : L'.length = (collectScopeLayers d).length := by rw [← hL']; simp
    have hidxlt : idx < L'.length := by omega
    have hL'ne : ∀ m ∈ L', m.nonEmpty = true := by
      intro m hm
      rw [← hL'] at hm
      obtain ⟨m0, hm0, rfl⟩ := List.mem_map.1 hm
      rw [(applyAllLayer_frame us m0).2.2.2]
      exact collect_nonEmpty d m0 hm0
    have hfr := applyAll_frame us (scratchDoc d l)
    have hd2f : d2.target = applyAllNode us d.target ∧ d2.noTarget = d.noTarget ∧
        d2.scratch = none ∧ d2.tBefore = d.tBefore ∧ d2.tAfter = d.tAfter := by
      rw [← hd2]
      exact ⟨by simp only [applyAll_target, scratchDoc_target], hfr.noTarget, rfl, hfr.tBefore,
        hfr.tAfter⟩
    have hnl : (setLayerFrom (applyAllLayer us l) S') =
        { applyAllLayer us l with scope := S'.setValues, order := S'.setOrder } := rfl
    obtain ⟨f1, f2, f3, f4, f5, f6, _, _⟩ :=
      rmFinish_fields d idx (listSet L' idx (setLayerFrom (applyAllLayer us l) S')) d2
    have hget : (listSet L' idx (setLayerFrom (applyAllLayer us l) S'))[idx]? =
        some (setLayerFrom (applyAllLayer us l) S') := listSet_getElem?_self _ _ _ hidxlt
    obtain ⟨g1, g2, g3, _, _, _⟩ := write_fields
      (rmLayers idx (listSet L' idx (setLayerFrom (applyAllLayer us l) S')))
      (rmRemoved idx (listSet L' idx (setLayerFrom (applyAllLayer us l) S'))) d2
    refine ⟨?_, ?_, ?_, ?_, ?_⟩
    · intro hemp
      have hrem : rmRemoved idx (listSet L' idx (setLayerFrom (applyAllLayer us l) S')) =
          some (setLayerFrom (applyAllLayer us l) S') := by
        simp only [rmRemoved, hget]
        simp [setLayerFrom, hemp]
      have hlay : rmLayers idx (listSet L' idx (setLayerFrom (applyAllLayer us l) S')) =
          L'.eraseIdx idx := by
        simp [rmLayers, hrem, listSet_eraseIdx]
      rw [hrem, hlay] at f1 f3 f4
      refine ⟨?_, ?_, ?_⟩
      · rw [f1, collect_write_filter, filter_nonEmpty_of_all]
        intro m hm
        exact hL'ne m (List.mem_of_mem_eraseIdx hm)
      · intro hn1
        have : L'.eraseIdx idx ≠ [] := by
          intro h
          have := congrArg List.length h
          rw [List.length_eraseIdx_of_lt hidxlt] at this
          simp at this
          omega
        obtain ⟨_, w2, w3, _⟩ := write_cons_fields (L'.eraseIdx idx)
          (some (setLayerFrom (applyAllLayer us l) S')) d2 this
        exact ⟨by rw [f3, w2, hd2f.2.2.2.1], by rw [f4, w3, hd2f.2.2.2.2]⟩
      · intro h1
        have : L'.eraseIdx idx = [] := by
          apply List.eq_nil_of_length_eq_zero
          rw [List.length_eraseIdx_of_lt hidxlt]
          omega
        rw [this] at f3 f4
        have hb := (applyAllLayer_frame us l)
        refine ⟨?_, ?_⟩
        · rw [f3, (write_nil_some _ d2).1]
          simp only [setLayerFrom, hb.1, hd2f.2.2.2.1]
        · rw [f4, (write_nil_some _ d2).2]
          simp only [setLayerFrom, hb.2.1, hd2f.2.2.2.2]
    · intro hnemp
      have hrem : rmRemoved idx (listSet L' idx (setLayerFrom (applyAllLayer us l) S')) = none := by
        have : S'.setValues.isEmpty = false := by cases h : S'.setValues <;> simp_all
        simp only [rmRemoved, hget]
        simp [setLayerFrom, this]
      have hlay : rmLayers idx (listSet L' idx (setLayerFrom (applyAllLayer us l) S')) =
          listSet L' idx (setLayerFrom (applyAllLayer us l) S') := by
        simp [rmLayers, hrem]
      rw [hrem, hlay] at f1 f3 f4
      have hne' : listSet L' idx (setLayerFrom (applyAllLayer us l) S') ≠ [] := by
        intro h
        have := congrArg List.length h
        simp only [listSet_length, List.length_nil] at this
        omega
      obtain ⟨_, w2, w3, _⟩ := write_cons_fields _ none d2 hne'
      refine ⟨?_, by rw [f3, w2, hd2f.2.2.2.1], by rw [f4, w3, hd2f.2.2.2.2]⟩
      rw [f1, collect_write_filter, filter_nonEmpty_of_all]
      · rfl
      · intro m hm
        rcases mem_listSet hm with rfl | hm
        · simp only [Layer.nonEmpty, setLayerFrom, Bool.not_eq_eq_eq_not, Bool.not_true,
            List.isEmpty_eq_false_iff]
          exact hnemp
        · exact hL'ne m hm
    · rw [f2, g1]; exact hd2f.1
    · rw [f6, g2]; exact hd2f.2.1
    · rw [f5, g3]; exact hd2f.2.2.1

end Nima
