import NimaVerif.Model.Trivia
import NimaVerif.Model.SExp
/-! Driver requests for L2 (trivia algebra). -/
namespace Nima.Drv.Trivia
open Nima

def decTrivia : SExp → Option Trivia
  | .atom "e" => some .emptyLine
  | .atom "l" => some .linebreak
  | .atom "c" => some .comma
  | .list [.atom "m", .atom col, .atom t, .atom inl] => do
      let c := Comment.fromText (← col.toNat?) (← decText t)
      pure (.comment { c with inline := inl == "t" })
  | _ => none

def sLayout (l : Layout) : SExp :=
  .list [sBool l.onNewline, sBool l.blankLine, match l.indent with | none => .atom "-" | some n => sNat n]

def sKind : CommentKind → SExp
  | .line => .atom "line"
  | .block doc ii => .list [.atom "block", sBool doc, match ii with | none => .atom "-" | some n => sNat n]

def handle (req : SExp) : Option SExp :=
  match req with
  | .list [.atom "gap", .atom g] =>
    match decText g with
    | none => some (.list [.atom "bad-arg"])
    | some g => some (.list [.atom "ok", sBool (gapHasEmptyLine g), sBool (gapHasEmptyLineOffsets g),
                             sNat (indentFromGap g), sLayout (Layout.fromGap g),
                             .list ((appendGapTrivia [] g).map fun t => match t with
                               | .emptyLine => .atom "e" | .linebreak => .atom "l" | _ => .atom "?")])
  | .list [.atom "sep", .atom g, .atom ind] =>
    match decText g, ind.toNat? with
    | some g, some i => some (.list [.atom "ok", sText (separatorFromLayout (Layout.fromGap g) i)])
    | _, _ => some (.list [.atom "bad-arg"])
  | .list [.atom "sepc", .atom g, .atom c, .atom inc] =>
    match decText g, decText c with
    | some g, some c =>
      some (.list [.atom "ok", sText (separatorFromLayoutWithComments (Layout.fromGap g) c [' '] (inc == "t"))])
    | _, _ => some (.list [.atom "bad-arg"])
  | .list [.atom "cmt", .atom col, .atom t, .atom ind, .atom inl] =>
    match col.toNat?, decText t, ind.toNat? with
    | some col, some t, some ind =>
      let c := { Comment.fromText col t with inline := inl == "t" }
      some (.list [.atom "ok", sText c.text, sKind c.kind, sBool c.shebang, sBool c.spaceAfterHash,
                   sText (c.rebuild ind)])
    | _, _, _ => some (.list [.atom "bad-arg"])
  | .list [.atom "fmt", .atom ind, .list ts] =>
    match ind.toNat?, ts.mapM decTrivia with
    | some i, some ts => some (.list [.atom "ok", sText (formatTrivia ts i)])
    | _, _ => some (.list [.atom "bad-arg"])
  | .list [.atom "fmti", .atom ind, .atom nl, .list ts] =>
    match ind.toNat?, ts.mapM decTrivia with
    | some i, some ts => some (.list [.atom "ok", sText (formatInterstitialTrivia ts i (nl == "t"))])
    | _, _ => some (.list [.atom "bad-arg"])
  | .list [.atom "trail", .atom r, .atom ind, .list ts] =>
    match decText r, ind.toNat?, ts.mapM decTrivia with
    | some r, some i, some ts => some (.list [.atom "ok", sText (applyTrailingTrivia r ts i)])
    | _, _, _ => some (.list [.atom "bad-arg"])
  | _ => none

end Nima.Drv.Trivia
