#!/usr/bin/env python3
"""Run registered checks against a seeded change.

  tools/run_seeded.py seeded/<id> [--props C05,C08] [--tier quick] [--seeds 0,1]

Applies seeded/<id>/patch.diff to a scratch copy of /repo (outside /repo and /verif, removed
afterwards), runs the demonstration on the clean and on the patched copy, then runs the selected
checks with NIMA_REPO/PYTHONPATH pointing at the patched copy and reports which ones raise a
VIOLATION. Results are written to seeded/<id>/result.json."""
import argparse
import json
import os
import shutil
import subprocess
import sys
import tempfile
from pathlib import Path

ROOT = Path(__file__).resolve().parent.parent


def sh(cmd, **kw):
    return subprocess.run(cmd, capture_output=True, text=True, **kw)


def main():
    ap = argparse.ArgumentParser()
    ap.add_argument("seed_dir")
    ap.add_argument("--props")
    ap.add_argument("--tier", default="quick")
    ap.add_argument("--seeds", default="0")
    ap.add_argument("--skip-demo", action="store_true")
    args = ap.parse_args()
    sd = Path(args.seed_dir).resolve()
    meta = json.loads((sd / "meta.json").read_text())
    props = (args.props.split(",") if args.props else [meta["property"]])
    tmp = Path(tempfile.mkdtemp(prefix="nima-seeded-"))
    result = {"seed": sd.name, "property": meta["property"], "checks": {}}
    try:
        clean = tmp / "clean"
        shutil.copytree("/repo", clean, ignore=shutil.ignore_patterns(".git", "__pycache__", "*.egg-info"))
        patched = tmp / "patched"
        shutil.copytree(clean, patched)
        r = sh(["patch", "-p1", "-s", "-i", str(sd / "patch.diff")], cwd=patched)
        if r.returncode != 0:
            print("patch does not apply:", r.stdout, r.stderr)
            result["applies"] = False
            (sd / "result.json").write_text(json.dumps(result, indent=1))
            return 2
        result["applies"] = True
        if not args.skip_demo and (sd / "demo.py").exists():
            for name, tree in (("clean", clean), ("patched", patched)):
                env = dict(os.environ, PYTHONPATH=str(tree))
                d = sh(["/venv/bin/python", str(sd / "demo.py")], env=env, cwd=str(tmp), timeout=600)
                result[f"demo_{name}_exit"] = d.returncode
            print(f"demo: clean exit {result['demo_clean_exit']}, patched exit {result['demo_patched_exit']}")
        for pid in props:
            for seed in args.seeds.split(","):
                env = dict(os.environ, NIMA_REPO=str(patched), PYTHONPATH=str(patched), VERIF_SEED=seed)
                c = sh([str(ROOT / "check"), pid, "--tier", args.tier], env=env, cwd=str(ROOT), timeout=3600)
                lines = [l for l in c.stdout.splitlines() if l.startswith("VIOLATION")]
                replay = None
                if lines and "replay=" in lines[0]:
                    rp = lines[0].split("replay=")[1].split()[0]
                    try:
                        rj = json.loads(Path(rp).read_text())
                        replay = {k: rj.get(k) for k in ("key", "what", "input", "kind", "no_longer_checks") if k in rj}
                        if replay.get("input") and len(json.dumps(replay["input"])) > 1500:
                            replay["input"] = json.dumps(replay["input"])[:1500] + "…"
                    except Exception:  # noqa: BLE001
                        pass
                result["checks"][f"{pid}@{seed}"] = {
                    "exit": c.returncode, "violations": lines[:3],
                    "no_failing_input": any("no-failing-input-found" in l for l in lines), "replay": replay}
                print(f"{pid} seed {seed}: exit {c.returncode} {'; '.join(lines[:2])[:300]}")
        # restore evidence/Gen to the clean tree's state
        sh([str(ROOT / "setup.sh")], cwd=str(ROOT))
    finally:
        shutil.rmtree(tmp, ignore_errors=True)
    (sd / "result.json").write_text(json.dumps(result, indent=1, default=str))
    return 0


if __name__ == "__main__":
    sys.exit(main())
