"""C10 — identifier resolution follows Nix lexical scoping or fails explicitly.

Tie
  * correspondence: `parse(text)[k1]…[kn].value` on the real code against `implResolve` /
    `implHistory` (lean/NimaVerif/Model/Resolve.lean) through the driver, on G-scope programs:
    every binder-kind sequence up to a length bound (exhaustive) + random nestings; each program is
    traversed along every path found in it, once per path on a fresh parse and once as a history on
    ONE document (contexts persist in `_CONTEXTS`);
  * registry: create / resolve / drop / gc histories with id reuse against `Registry.run`
    (lean/NimaVerif/Model/Registry.lean) + translator table `Gen/Registry.lean`.
Oracle (the property): `specResolve` (Model/ResolveSpec.lean, SPEC, independent of the code's
  structure) through the driver is the reference resolver; the REAL outcome (defining binding named by
  object identity) must agree with it. Cross-document isolation: results are looked up in the
  identity index of the document they were asked of; a value from another document is a failure.
"""
from __future__ import annotations

import gc
import itertools

from .. import framework as fw
from ..gen import scope as G

GEN_TABLES = ("registry", "scope_chain", "resolve_order")
FUEL = 400


# ---------------------------------------------------------------------------- real code
def _classes():
    from nix_manipulator.exceptions import ResolutionError
    from nix_manipulator.expressions.identifier import Identifier
    from nix_manipulator.expressions.set import AttributeSet
    from nix_manipulator.expressions.with_statement import WithStatement

    return ResolutionError, Identifier, AttributeSet, WithStatement


def exc_outcome(exc: BaseException):
    ResolutionError = _classes()[0]
    if isinstance(exc, ResolutionError):
        return ["fail", "res"]
    if isinstance(exc, RecursionError):
        return ["fail", "fuel"]
    if isinstance(exc, KeyError):
        return ["fail", "key"]
    if isinstance(exc, TypeError):
        return ["fail", "type"]
    if isinstance(exc, ValueError):
        return ["fail", "value"]
    return ["fail", "internal:" + type(exc).__name__]


def real_traverse(src, path, index):
    """`src[k1]…[kn].value`; the resolved value is named by the node id of the object (identity)."""
    _, Identifier, _, _ = _classes()
    stage = "nav"
    try:
        cur = src
        for s in path:
            if s is None:
                if not isinstance(cur, Identifier):
                    return ["nav", "notIdent"]
                cur = cur.value
            else:
                cur = cur[s]
        if not isinstance(cur, Identifier):
            return ["nav", "notIdent"]
        stage = "fail"
        v = cur.value
        nid = index.get(id(v))
        if nid is None:
            return ["foreign", type(v).__name__]
        return ["bound", str(nid)]
    except BaseException as exc:  # noqa: BLE001
        if isinstance(exc, (KeyboardInterrupt, SystemExit)):
            raise
        return [stage] + exc_outcome(exc)[1:]


def parse_indexed(prog, text):
    from nix_manipulator import parse

    src = parse(text)
    if src.contains_error or len(src.expressions) != 1:
        raise G.WalkMismatch("syntax")
    index: dict = {}
    G.index_objects(prog, src.expressions[0], index)
    return src, index


def explore_paths(prog, text, limit, rng):
    """Paths worth asking: found by walking the real objects of a scratch parse."""
    _, Identifier, AttributeSet, WithStatement = _classes()
    try:
        src, _ = parse_indexed(prog, text)
    except G.WalkMismatch:
        raise
    paths: list[tuple] = []
    seen = set()

    def add(p):
        p = tuple(p)
        if p not in seen and len(paths) < limit:
            seen.add(p)
            paths.append(p)

    def keys_of(obj, depth=0):
        if isinstance(obj, AttributeSet):
            ks = []
            for it in obj.values:
                if type(it).__name__ == "Binding":
                    ks.append(it.name)
                else:
                    ks.extend(n.name for n in it.names if isinstance(n, Identifier))
            return ks
        if isinstance(obj, WithStatement) and depth < 8:
            return keys_of(obj.body, depth + 1)
        return []

    def go(obj, path, depth):
        if len(paths) >= limit or depth > 7:
            return
        if isinstance(obj, Identifier):
            add(path)
            try:
                v = obj.value
            except BaseException:  # noqa: BLE001
                return
            if isinstance(v, (AttributeSet, WithStatement)):
                go(v, path + [None], depth + 1)
            elif isinstance(v, Identifier):
                pass
            return
        if isinstance(obj, (AttributeSet, WithStatement)):
            ks = keys_of(obj)
            rng.shuffle(ks)
            for k in ks:
                try:
                    child = obj[k]
                except BaseException:  # noqa: BLE001
                    add(path + [k])
                    continue
                go(child, path + [k], depth + 1)
            return
        # not subscriptable, not an identifier: one probe so the error classes are compared too
        if depth <= 2:
            add(path + ["a"])

    try:
        target = src._resolve_target_set()
        ks = keys_of(target)
    except BaseException:  # noqa: BLE001
        ks = ["x"]
    rng.shuffle(ks)
    for k in ks:
        try:
            child = src[k]
        except BaseException:  # noqa: BLE001
            add([k])
            continue
        go(child, [k], 1)
    if not paths:
        add(["x"])
    return paths


# ---------------------------------------------------------------------------- classification
def container_kinds(prog):
    """value node id -> kind of the construct whose item holds it (for finding keys)."""
    out: dict[int, str] = {}

    def items(its, kind):
        for it in its:
            if it[0] == "bind":
                _, core = G.peel(it[3])
                out[core[1]] = kind
                ex(it[3])
            elif it[0] == "inhf":
                ex(it[3], "inherit-src")

    def ex(e, role=None):
        layers, c = G.peel(e)
        for l in layers:
            items(l, "let")
        k = c[0]
        if k == "set":
            kind = "rec" if c[2] else "set"
            if role:
                kind = role + ":" + kind
            items(c[3], kind)
        elif k == "with":
            ex(c[2], "with-env")
            ex(c[3])
        elif k == "paren":
            ex(c[2], role)
        elif k == "app":
            ex(c[2])
            ex(c[3], "arg")
        elif k == "lam1":
            ex(c[3])
        elif k == "lamP":
            for f in c[2]:
                if f[0] == "opt":
                    _, dc = G.peel(f[2])
                    out[dc[1]] = "formal-default"
                    ex(f[2])
            ex(c[3])

    ex(prog)
    return out


def has_feature(prog):
    """coarse syntactic features used to name root causes"""
    feats = set()

    def items(its):
        for it in its:
            if it[0] == "bind":
                ex(it[3])
            elif it[0] == "inhf":
                feats.add("inherit-from")
                ex(it[3])
            else:
                feats.add("inherit")

    def ex(e):
        layers, c = G.peel(e)
        if layers:
            feats.add("let")
            if c[0] == "ref":
                feats.add("let-on-identifier")
            if c[0] == "set" and c[2]:
                feats.add("let-on-rec")
            for l in layers:
                items(l)
        k = c[0]
        if k == "set":
            feats.add("rec" if c[2] else "set")
            items(c[3])
        elif k == "with":
            feats.add("with")
            ex(c[2]); ex(c[3])
        elif k == "paren":
            feats.add("paren")
            ex(c[2])
        elif k == "app":
            feats.add("app")
            ex(c[2]); ex(c[3])
        elif k in ("lam1", "lamP"):
            feats.add("lambda")
            if k == "lamP":
                for f in c[2]:
                    if f[0] == "opt":
                        feats.add("formal-default")
                        ex(f[2])
            ex(c[3])

    ex(prog)
    return feats


def side(o, kinds):
    """one side of a finding key: where the result came from, or how it failed"""
    if o[0] == "bound":
        return kinds.get(int(o[1]), "?")
    if o[0] == "foreign":
        return "foreign-document"
    return ":".join(o)


def clause_of(real, spec):
    """which part of the statement fails"""
    if real[0] == "foreign":
        return "isolation"                      # result taken from another document
    if real[1:] == ["fuel"]:
        return "unbounded"                      # RecursionError instead of ResolutionError in bounded time
    if real[0] in ("fail", "nav") and real[1].startswith("internal"):
        return "exception-class"
    if real[0] == "bound":
        return "wrong-binding" if spec[0] == "bound" else "bound-where-nix-has-none"
    if spec[0] == "bound":
        return "unresolved"                     # explicit failure, but Nix designates a binding
    if real[0] == "fail" and real[1] != "res":
        return "exception-class"                # final `.value` raised something else than ResolutionError
    return "route"                              # an identifier is reached on one side only


def agrees(real, spec) -> bool:
    """mirror of Nima.Scope.agrees (the driver also returns it; both are checked)"""
    no_value = spec[0] == "error" or spec[:2] == ["nav", "error"]
    if no_value and spec[-1] == "fuel":
        return False
    if real[0] == "bound":
        return spec[0] == "bound" and spec[1] == real[1]
    if real[0] == "fail" and real[1] == "res":
        return no_value
    if real[0] == "nav" and real[1] == "res":
        return no_value or spec[0] == "nav"
    if real[0] == "nav":
        explicit = real[1] != "fuel" and not real[1].startswith("internal")
        return explicit and spec[0] == "nav"
    return False


# ---------------------------------------------------------------------------- shrinking
def shrink_candidates(e):
    """programs one step smaller than e (ids kept)."""
    k = e[0]
    if k in ("lit", "ref"):
        return
    if k == "let":
        yield e[2]
        for i in range(len(e[1])):
            rest = e[1][:i] + e[1][i + 1:]
            if rest:
                yield ("let", rest, e[2])
        for i, it in enumerate(e[1]):
            for it2 in shrink_item(it):
                yield ("let", e[1][:i] + [it2] + e[1][i + 1:], e[2])
        for b in shrink_candidates(e[2]):
            yield ("let", e[1], b)
        return
    if k == "set":
        for i in range(len(e[3])):
            yield ("set", e[1], e[2], e[3][:i] + e[3][i + 1:])
        if e[2]:
            yield ("set", e[1], False, e[3])
        for i, it in enumerate(e[3]):
            for it2 in shrink_item(it):
                yield ("set", e[1], e[2], e[3][:i] + [it2] + e[3][i + 1:])
        return
    if k == "with":
        yield e[3]
        for x in shrink_candidates(e[2]):
            yield ("with", e[1], x, e[3])
        for x in shrink_candidates(e[3]):
            yield ("with", e[1], e[2], x)
        return
    if k == "paren":
        yield e[2]
        for x in shrink_candidates(e[2]):
            yield ("paren", e[1], x)
        return
    if k == "app":
        yield e[3]
        for x in shrink_candidates(e[2]):
            yield ("app", e[1], x, e[3])
        for x in shrink_candidates(e[3]):
            if G.peel(x)[1][0] in ("set", "ref", "lit", "paren") and x[0] != "let":
                yield ("app", e[1], e[2], x)
        return
    if k == "lam1":
        yield e[3]
        for x in shrink_candidates(e[3]):
            yield ("lam1", e[1], e[2], x)
        return
    if k == "lamP":
        yield e[3]
        for i in range(len(e[2])):
            yield ("lamP", e[1], e[2][:i] + e[2][i + 1:], e[3])
        for i, f in enumerate(e[2]):
            if f[0] == "opt":
                for d in shrink_candidates(f[2]):
                    yield ("lamP", e[1], e[2][:i] + [("opt", f[1], d)] + e[2][i + 1:], e[3])
        for x in shrink_candidates(e[3]):
            yield ("lamP", e[1], e[2], x)
        return


def shrink_item(it):
    if it[0] == "bind":
        _, c = G.peel(it[3])
        if c[0] not in ("lit", "ref"):
            yield ("bind", it[1], it[2], ("lit", c[1]))
        for v in shrink_candidates(it[3]):
            yield ("bind", it[1], it[2], v)
    elif it[0] == "inhf":
        yield ("inh", it[1], it[2])
        for s in shrink_candidates(it[3]):
            yield ("inhf", it[1], it[2], s)
    elif it[0] == "inh" and len(it[2]) > 1:
        for i in range(len(it[2])):
            yield ("inh", it[1], it[2][:i] + it[2][i + 1:])


def prog_size(e):
    k = e[0]
    if k in ("lit", "ref"):
        return 1
    if k == "let":
        return 1 + sum(item_size(i) for i in e[1]) + prog_size(e[2])
    if k == "set":
        return 1 + sum(item_size(i) for i in e[3])
    if k == "with":
        return 1 + prog_size(e[2]) + prog_size(e[3])
    if k == "paren":
        return 1 + prog_size(e[2])
    if k == "app":
        return 1 + prog_size(e[2]) + prog_size(e[3])
    if k == "lam1":
        return 1 + prog_size(e[3])
    return 1 + sum(1 + (prog_size(f[2]) if f[0] == "opt" else 0) for f in e[2]) + prog_size(e[3])


def item_size(it):
    if it[0] == "bind":
        return 1 + prog_size(it[3])
    if it[0] == "inh":
        return 1 + len(it[2])
    return 1 + len(it[2]) + prog_size(it[3])


# ---------------------------------------------------------------------------- evaluation
def canon_model(o):
    if o[0] in ("fail", "nav") and o[1] == "res":
        return [o[0], "res"]
    return o


def evaluate_many(ctx, cases):
    """cases: [(prog, path)] -> [(real, spec, causes) | None] (real on a fresh parse)"""
    reals, reqs, idx = [], [], []
    for i, (prog, path) in enumerate(cases):
        try:
            src, index = parse_indexed(prog, G.render(prog))
        except Exception:  # noqa: BLE001
            reals.append(None)
            continue
        reals.append(real_traverse(src, path, index))
        reqs.append(["resolve", FUEL, G.sexp(prog), G.sexp_path(path)])
        idx.append(i)
    out = [None] * len(cases)
    for i, rep in zip(idx, ctx.driver.ask_many(reqs)):
        if rep[0] == "ok":
            out[i] = (reals[i], rep[2], rep[4])
    return out


CLAUSE_WHAT = {
    "wrong-binding": "resolves to a binding other than the one Nix's scoping designates",
    "bound-where-nix-has-none": "yields a value where Nix has none (unbound / cycle / no such attribute)",
    "unresolved": "raises ResolutionError although Nix's scoping designates a binding",
    "unbounded": "recursion without bound (RecursionError), not a ResolutionError in bounded time",
    "exception-class": "the final .value raises something else than ResolutionError",
    "isolation": "the result belongs to another document",
    "route": "an identifier is reached on one side only",
}


def finding_key(real, spec, causes):
    return {"clause": clause_of(real, spec), "cause": causes[0] if causes else "none"}


def shrink_all(ctx, reps, max_rounds=40):
    """reps: [(prog, path)] deviating inputs. Each is shrunk greedily, all of them in lock-step so that
    one driver batch serves a whole round; a candidate is accepted when the real code still deviates
    from the spec and (number of root-cause classes holding, size) decreases."""
    state = []
    first = evaluate_many(ctx, reps)
    for (prog, path), r in zip(reps, first):
        state.append({"prog": prog, "path": tuple(path), "r": r, "done": r is None or agrees(r[0], r[1])})
    for _ in range(max_rounds):
        batch, owner = [], []
        for si, st in enumerate(state):
            if st["done"]:
                continue
            cur, cur_path = st["prog"], st["path"]
            cands = [(c, cur_path) for c in shrink_candidates(cur)]
            layers, core = G.peel(cur)
            if core[0] == "set" and len(cur_path) > 1 and cur_path[0] is not None:
                for it in core[3]:
                    if it[0] == "bind" and it[2] == cur_path[0]:
                        e = it[3]
                        for l in reversed(layers):
                            e = ("let", l, e)
                        cands.append((e, cur_path[1:]))
            if cur_path and cur_path[-1] is None:
                pass
            for c in cands[:120]:
                batch.append(c)
                owner.append(si)
        if not batch:
            break
        res = evaluate_many(ctx, batch)
        best: dict[int, tuple] = {}
        for (cand, cpath), si, r in zip(batch, owner, res):
            if r is None or agrees(r[0], r[1]):
                continue
            score = (len(r[2]), prog_size(cand) + len(cpath))
            if si not in best or score < best[si][0]:
                best[si] = (score, cand, cpath, r)
        for si, st in enumerate(state):
            if st["done"]:
                continue
            cur_score = (len(st["r"][2]), prog_size(st["prog"]) + len(st["path"]))
            if si in best and best[si][0] < cur_score:
                _, st["prog"], st["path"], st["r"] = best[si]
            else:
                st["done"] = True
    return state


# ---------------------------------------------------------------------------- streams
def witnesses():
    """The witnesses of the `cex_*` theorems and of `shadowing_examples` (Props/C10.lean), rebuilt with
    the Builder; they go through the same correspondence and oracle as everything else, which replays
    each counterexample on the real code on every run."""
    B = G.Builder()
    lit, ref, bind, inh = B.lit, B.ref, B.bind, B.inh
    yield "with_let", B.let([bind("a", lit())], B.with_(B.set([bind("a", lit())]), B.set([bind("x", ref("a"))]))), ("x",)
    B = G.Builder(); lit, ref, bind, inh = B.lit, B.ref, B.bind, B.inh
    yield "with_env_recursive", B.with_(B.set([bind("a", ref("b")), bind("b", lit())]), B.set([bind("x", ref("a"))])), ("x",)
    B = G.Builder(); lit, ref, bind, inh = B.lit, B.ref, B.bind, B.inh
    yield "let_on_identifier", B.let([bind("a", lit())], B.set([bind("x", B.let([bind("a", lit())], ref("a")))])), ("x",)
    B = G.Builder(); lit, ref, bind, inh = B.lit, B.ref, B.bind, B.inh
    yield "inherit_in_rec_by_key", B.let([bind("c", lit())], B.set([inh(["c"])], rec=True)), ("c",)
    B = G.Builder(); lit, ref, bind, inh = B.lit, B.ref, B.bind, B.inh
    yield "formals_leak", B.app(B.paren(B.lamP([("req", "x"), ("opt", "a", lit())], ref("x"))),
                                B.set([bind("x", ref("a"))])), ("x",)
    B = G.Builder(); lit, ref, bind, inh = B.lit, B.ref, B.bind, B.inh
    yield "document_rec_duplicates_lets", B.let([bind("a", ref("b"))], B.let([bind("b", lit())], B.set(
        [bind("k", B.set([bind("x", ref("a"))]))], rec=True))), ("k", "x")
    B = G.Builder(); lit, ref, bind, inh = B.lit, B.ref, B.bind, B.inh
    yield "lambda_route", B.lamP([("opt", "a", lit())], B.set([bind("x", ref("a"))])), ("x",)
    B = G.Builder(); lit, ref, bind, inh = B.lit, B.ref, B.bind, B.inh
    yield "call_route", B.let([bind("b", lit())], B.app(ref("f"), B.set([bind("x", ref("b"))]))), ("x",)
    B = G.Builder(); lit, ref, bind, inh = B.lit, B.ref, B.bind, B.inh
    yield "paren_route", B.let([bind("c", lit())], B.paren(B.set([bind("y", ref("c"))]))), ("y",)
    B = G.Builder(); lit, ref, bind, inh = B.lit, B.ref, B.bind, B.inh
    yield "inherit_loop", B.set([B.inhf(["a"], ref("a"))]), ("a",)
    # cycles that alternate binding -> inherit (src) -> binding (seeded change C10-m2): must end in
    # ResolutionError in bounded time whatever mixture of hops the cycle is made of
    B = G.Builder(); lit, ref, bind, inh = B.lit, B.ref, B.bind, B.inh
    yield "mixed_cycle_rec", B.set([bind("a", ref("b")), B.inhf(["b"], ref("s")),
                                    bind("s", B.set([bind("b", ref("a"))]))], rec=True), ("a",)
    B = G.Builder(); lit, ref, bind, inh = B.lit, B.ref, B.bind, B.inh
    yield "mixed_cycle_let", B.let([bind("a", ref("b")), B.inhf(["b"], ref("s")),
                                    bind("s", B.set([bind("b", ref("a"))]))], B.set([bind("x", ref("a"))])), ("x",)
    # `quoted_key_on_literal`: since f0e98da `AttributeSet.__getitem__` compares what key and name token
    # denote (`_same_attr_name`); the model's `findBindKey` must follow (spelled lookup says KeyError)
    B = G.Builder(); lit, ref, bind, inh = B.lit, B.ref, B.bind, B.inh
    yield "quoted_key_bare_binding", B.set([bind("a", lit())]), ('"a"',)
    B = G.Builder(); lit, ref, bind, inh = B.lit, B.ref, B.bind, B.inh
    yield "bare_key_quoted_binding", B.set([bind('"a"', lit())]), ("a",)
    B = G.Builder(); lit, ref, bind, inh = B.lit, B.ref, B.bind, B.inh
    yield "quoted_key_other_name", B.set([bind("a", lit())]), ('"b"',)
    B = G.Builder(); lit, ref, bind, inh = B.lit, B.ref, B.bind, B.inh
    shadow = B.let([bind("a", lit())], B.set([bind("k", B.set([
        bind("a", lit()),
        bind("j", B.let([bind("a", lit())], B.set([
            bind("x", ref("a")),
            bind("m", B.set([bind("a", lit()), bind("y", ref("a"))]))]))),
        bind("z", ref("a")),
        bind("i", B.set([inh(["a"])]))], rec=True))]))
    for path in (("k", "j", "x"), ("k", "j", "m", "y"), ("k", "z"), ("k", "i", "a")):
        yield "shadowing", shadow, path


def program_stream(ctx):
    """(label, program, paths or None)"""
    for name, prog, path in witnesses():
        yield ("witness:" + name, prog, [path])
    if ctx.quick:
        seqs = G.sequences(3, 2)
        n_random = 4000
        depth = 4
    else:
        seqs = G.sequences(4, 2)
        n_random = 30000
        depth = 5
    for names, final in seqs:
        prog, path = G.build_sequence(names, final)
        yield ("seq:" + "/".join(names) + ":" + final, prog, [path])
    rg = G.RandomGen(ctx.rng, max_depth=depth)
    for i in range(n_random):
        yield (f"rand:{i}", rg.program(), None)


def run(ctx: fw.Ctx):
    ctx.extra["rule"] = (
        "G-scope: every sequence of binder kinds (let / rec / plain set / with, each binding the name, another "
        "name, inheriting it, or chaining) up to a length bound around 5 reference shapes, the same under the "
        "document-level routes (applied lambda with defaults, simple lambda, call, un-applied lambdas, parentheses), "
        "plus random nestings over a 3-name pool; non-trivial = the name is bound at >= 2 levels or the path "
        "crosses >= 2 binder kinds"
    )
    ctx.trusted_base = [
        "Lean 4 kernel; axioms propext, Classical.choice, Quot.sound only",
        "SPEC definitions specResolve / agrees (Model/ResolveSpec.lean): Nix lexical scoping as C10 states it",
        "correspondence harness (this file), G-scope generator and identity index (harness/gen/scope.py)",
        "translator harness/translate/gen_registry.py (shape of _store_context/_get_context/_clear)",
        "CPython: id() reuse after deallocation, weakref callbacks (modelled as nondeterministic steps)",
    ]
    ctx.assumptions = [
        "a document is traversed by one thread at a time",
        "names are bare identifiers or simply quoted ones (no escapes, no interpolation)",
        "function application is outside the spec's fragment (a set reached through a call is 'not a set')",
    ]
    ctx.extra["fragment"] = (
        "resolve_partial covers: let layers (around anything but a bare reference), rec and plain attribute sets, "
        "inherit clauses, references, literals, any nesting and shadowing, paths of keys; outside it (with, "
        "inherit-from, lambdas/calls/parentheses on the route, let layers on an identifier, .value steps, quoted "
        "names, quoted keys: the code reads a key as a name token, the spec as the name written in the set) the "
        "property is decided per input by the spec oracle on the real code, and the model is tied by "
        "correspondence only; distribution.in_fragment_of_resolve_partial counts this run's inputs inside it"
    )
    ctx.extra["uncovered"] = {}
    from . import c10_registry

    # registry first: resolved documents are never released by the code under test (their contexts
    # reference them), so everything that runs later in this process makes gc.collect() slower
    c10_registry.run(ctx)
    observe(ctx, program_stream(ctx), correspond=True)
    target_through_identifier(ctx)
    resolution_after_edits(ctx)
    moved_references(ctx)


def moved_references(ctx: fw.Ctx):
    """A reference taken out of one document and assigned into another resolves in its NEW place (or fails
    explicitly there): nothing of the scope chain of the document it came from may stick to it. And a
    `set` through a reference leaves the edited attribute resolving to the new value."""
    from nix_manipulator import parse
    from nix_manipulator.cli import manipulations as M

    def val(src, key):
        try:
            v = src[key]
            v = v.value if type(v).__name__ == "Identifier" else v
            return v.rebuild() if hasattr(v, "rebuild") else repr(v)
        except Exception as exc:  # noqa: BLE001
            return "raises:" + ("ResolutionError" if "Resolution" in type(exc).__name__ else type(exc).__name__)

    origins = ["let\n  v = \"1.0\";\nin\n{\n  version = v;\n}\n", "rec {\n  v = \"1.0\";\n  version = v;\n}\n"]
    dests = ["{\n  version = \"0.1\";\n  other = 2;\n}\n", "{\n  other = 2;\n}\n", "let\n  v = \"9\";\nin\n{\n  version = \"0.1\";\n}\n",
             "rec {\n  v = \"8\";\n  version = \"0.1\";\n}\n"]
    for o in origins:
        for dtext in dests:
            for key in ("version", "fresh"):
                origin = parse(o)
                ref = origin["version"]
                try:
                    ref.value  # resolve once in the old place
                except Exception:  # noqa: BLE001
                    pass
                dest = parse(dtext)
                try:
                    dest[key] = ref
                except Exception:  # noqa: BLE001
                    continue
                live = val(dest, key)
                fresh = val(parse(dest.rebuild()), key)
                ctx.case({"origin": o, "dest": dtext, "key": key, "moved-reference": True}, True)
                if live != fresh:
                    ctx.fail({"clause": "moved-reference", "existing_key": key == "version"},
                             {"origin": o, "doc": dtext, "key": key, "live": live, "fresh": fresh, "text_now": dest.rebuild()},
                             f"a reference taken from {o!r} and assigned to {key!r} of {dtext!r} resolves to {live!r}; the "
                             f"resulting text {dest.rebuild()!r} resolves it to {fresh!r}")
    # set through a reference: afterwards the attribute resolves to the value that was set
    for text in ["let\n  v = \"1.0\";\nin\nlet\n  v = \"2.0\";\nin\n{\n  version = v;\n}\n",
                 "let\n  v = \"1.0\";\nin\nrec {\n  v = \"2.0\";\n  version = v;\n}\n",
                 "let\n  v = \"1.0\";\nin\n{\n  version = v;\n}\n",
                 "let\n  v = \"1.0\";\nin\nlet\n  w = v;\nin\nlet\n  v = \"3.0\";\nin\n{\n  meta = {\n    version = w;\n  };\n  version = v;\n}\n"]:
        src = parse(text)
        try:
            out = M.set_value(src, "version", '"9.9"')
        except Exception:  # noqa: BLE001
            continue
        got_live, got_fresh = val(src, "version"), val(parse(out), "version")
        ctx.case({"doc": text, "set-through-reference": True}, True)
        if got_live != '"9.9"' or got_fresh != '"9.9"':
            ctx.fail({"clause": "set-through-reference-resolves"}, {"doc": text, "ops": [["set", "version", '"9.9"']], "output": out,
                                                                     "live": got_live, "fresh": got_fresh},
                     f"after set version \"9.9\" on {text!r} the attribute resolves to {got_live!r} (fresh parse: {got_fresh!r}): {out!r}")


def resolution_after_edits(ctx: fw.Ctx):
    """One live document: resolve, edit a let layer / the set through set_value / remove_value, resolve again.
    After every step every reference must resolve to what a FRESH parse of the current text resolves it
    to (no lookup may depend on positions or chains remembered from before the edit)."""
    from nix_manipulator import parse
    from nix_manipulator.cli import manipulations as M

    def resolved(src, keys):
        out = {}
        for k in keys:
            try:
                v = src[k]
                v = v.value if type(v).__name__ == "Identifier" else v
                out[k] = v.rebuild() if hasattr(v, "rebuild") else repr(v)
            except Exception as exc:  # noqa: BLE001
                out[k] = "raises:" + ("ResolutionError" if "Resolution" in type(exc).__name__ else type(exc).__name__)
        return out

    docs_ = [
        ("let\n  unused = 0;\n  rev = \"abc\";\n  version = \"1.0\";\nin\n{\n  v = version;\n  r = rev;\n}\n",
         [("rm", "@unused"), ("set", "@extra", "1"), ("rm", "@rev"), ("set", "@rev", '"zzz"')], ["v", "r"]),
        ("let\n  meta.tag = 0;\n  rev = \"abc\";\n  version = \"1.0\";\nin\n{\n  v = version;\n  r = rev;\n}\n",
         [("rm", "@meta.tag"), ("set", "@a.b", "1"), ("rm", "@a.b")], ["v", "r"]),
        ("let\n  a = 1;\nin\nlet\n  b = 2;\n  c = a;\n  d = b;\nin\n{\n  x = c;\n  y = d;\n  z = a;\n}\n",
         [("rm", "@b"), ("set", "@b", "7"), ("rm", "@@a"), ("set", "@a", "9"), ("rm", "@c")], ["x", "y", "z"]),
        ("let\n  u = 0;\n  v = 1;\nin\nrec {\n  p = 5;\n  q = v;\n  r = p;\n  s = u;\n}\n",
         [("rm", "p"), ("set", "p", "6"), ("rm", "@u"), ("set", "aa", "1"), ("rm", "@v")], ["q", "r", "s"]),
    ]
    for text, ops, keys in docs_:
        for first_lookup in (True, False):
            src = parse(text)
            if first_lookup:
                resolved(src, keys)
            cur = text
            for i, op in enumerate(ops):
                try:
                    cur = M.set_value(src, op[1], op[2]) if op[0] == "set" else M.remove_value(src, op[1])
                except Exception:  # noqa: BLE001
                    continue
                live = resolved(src, keys)
                fresh = resolved(parse(cur), keys)
                ctx.case({"doc": text, "ops": [list(o) for o in ops[: i + 1]], "live-vs-fresh": True}, True)
                if live != fresh:
                    ctx.fail({"clause": "stale-after-edit", "op": op[0], "scoped": op[1].startswith("@")},
                             {"doc": text, "ops": [list(o) for o in ops[: i + 1]], "text_now": cur, "live": live, "fresh": fresh,
                              "looked_up_before": first_lookup},
                             f"after {ops[: i + 1]!r} on {text!r} the live document resolves {live!r}, a fresh parse of "
                             f"its text {cur!r} resolves {fresh!r}")
                    break


def target_through_identifier(ctx: fw.Ctx):
    """The edit target itself can be a name (`let a = {…}; in a`, `… in pkgs.mk a`): which set is edited
    is an identifier resolution like any other — the innermost binder under Nix lexical scoping, also
    when a wrapper (parenthesis, lambda, assert) stands between two layers that bind the name."""
    from nix_manipulator import parse
    from nix_manipulator.cli import manipulations as M

    from ..gen import docs
    from ..layout import leaves_of
    from ..oracle import cstread

    for name, text in docs.SPECIAL_DOCS:
        root = cstread.ts_parse(text)
        tgt = cstread.find_target(root)
        ctx.case({"doc": text, "target-through-identifier": name}, True)
        if tgt is None:
            continue
        # the value of `x` inside the designated set
        bs = [c for c in tgt.named_children if c.type == "binding_set"]
        xb = next((b for b in (bs[0].named_children if bs else []) if b.type == "binding"
                   and b.child_by_field_name("attrpath").text.decode() == "x"), None)
        if xb is None:
            continue
        v = xb.child_by_field_name("expression")
        bb = text.encode()
        want = (bb[:v.start_byte] + b"7" + bb[v.end_byte:]).decode()
        for via in ("set_value", "mapping"):
            try:
                if via == "set_value":
                    out = M.set_value(parse(text), "x", "7")
                else:
                    src = parse(text)
                    src["x"] = 7
                    out = src.rebuild()
            except Exception as exc:  # noqa: BLE001
                out = f"<raises {type(exc).__name__}: {exc}>"
            tw = [t for (_k, t, _s, _e) in leaves_of(want)[0]]
            to = [t for (_k, t, _s, _e) in leaves_of(out)[0]] if not out.startswith("<raises") else None
            if tw != to:
                ctx.fail({"clause": "target-identifier", "shape": name, "via": via},
                         {"doc": text, "ops": [["set", "x", "7"]], "output": out, "expected": want},
                         f"edit of the set the body name denotes on {text!r} ({via}): got {out!r}, expected {want!r}")


def _real_program(args):
    """worker: the real code on one program (fresh parse per path + one document for the history)"""
    import random

    label, prog, paths, seed, npaths = args
    text = G.render(prog)
    try:
        if paths is None:
            paths = explore_paths(prog, text, npaths, random.Random(seed))
        # one document, all paths in sequence, twice (contexts persist between traversals)
        src, index = parse_indexed(prog, text)
        hist_paths = list(paths) + list(paths)
        hist = [real_traverse(src, p, index) for p in hist_paths]
        fresh = [hist[0]]  # the first traversal of a new document IS a fresh one
        for p in paths[1:]:
            src, index = parse_indexed(prog, text)
            fresh.append(real_traverse(src, p, index))
        del src
    except G.WalkMismatch as exc:
        return (label, prog, None, str(exc).split(" ")[0], None, None)
    except RecursionError:
        return (label, prog, None, "parse-recursion", None, None)
    return (label, prog, paths, fresh, hist_paths, hist)


def real_stream(ctx, stream):
    import multiprocessing as mp

    npaths = 6 if ctx.quick else 8
    args = ((label, prog, paths, ctx.rng.getrandbits(32), npaths) for label, prog, paths in stream)
    with mp.get_context("fork").Pool(4) as pool:
        yield from pool.imap(_real_program, args, chunksize=256)


def observe(ctx: fw.Ctx, stream, correspond: bool):
    reqs = []      # driver requests
    meta = []      # (kind, label, prog, path(s), real outcome(s))
    n_prog = 0
    for label, prog, paths, fresh, hist_paths, hist in real_stream(ctx, stream):
        if paths is None:
            ctx.count("discarded:" + fresh)
            continue
        n_prog += 1
        sx = G.sexp(prog)
        for p, r in zip(paths, fresh):
            reqs.append(["resolve", FUEL, sx, G.sexp_path(p)])
            meta.append(("resolve", label, prog, p, r))
        reqs.append(["history", FUEL, sx, [G.sexp_path(p) for p in hist_paths]])
        meta.append(("history", label, prog, hist_paths, hist))
    replies = ctx.driver.ask_many(reqs)
    ctx.count("programs", n_prog)

    bad = 0
    deviations = []
    changed = []
    for (kind, label, prog, p, real), rep in zip(meta, replies):
        if rep[0] != "ok":
            ctx.tie_break("correspondence", f"driver rejected {label}: {rep}", request=G.render(prog))
            continue
        if kind == "history":
            got = [canon_model(o) for o in rep[1:]]
            ctx.corr_checked += len(got)
            if correspond and got != real:
                bad += 1
                if bad <= 5:
                    i = next(i for i, (a, b) in enumerate(zip(got, real)) if a != b)
                    ctx.tie_break("correspondence",
                                  f"history on one document disagrees at traversal {i} of {G.render(prog)!r}",
                                  request={"text": G.render(prog), "paths": [list(x) for x in p]},
                                  implementation=real, model=got)
            continue
        model, spec = canon_model(rep[1]), rep[2]
        ctx.corr_checked += 1
        if correspond and model != real:
            bad += 1
            if bad <= 5:
                ctx.tie_break("correspondence", f"resolve disagrees on {G.render(prog)!r} path {list(p)}",
                              request={"text": G.render(prog), "path": list(p)}, implementation=real, model=model)
            # the code no longer does what the model (= the recorded behaviour, findings included) does.
            # Where it now ALSO deviates from Nix's scoping in a way the recorded behaviour did not, that is
            # a failing input of its own, whatever root-cause class the input belongs to.
            if not agrees(real, spec) and (agrees(model, spec) or clause_of(model, spec) != clause_of(real, spec)
                                           or (real[0] == "bound" and real != model)):
                changed.append((label, prog, p, real, spec, rep[4], model))
        feats = has_feature(prog)
        ctx.case({"text": G.render(prog), "path": list(p)}, nontrivial=len(feats & {"let", "rec", "with", "inherit", "inherit-from", "lambda"}) >= 2)
        ctx.count("real:" + (real[0] if real[0] == "bound" else ":".join(real)))
        ctx.count("spec:" + (spec[0] if spec[0] == "bound" else ":".join(spec)))
        if agrees(real, spec) != (rep[3] == "t") and model == real:
            ctx.tie_break("correspondence", "harness and Lean `agrees` differ", request=[real, spec])
        in_fragment = rep[5] == "t"
        if in_fragment != (not rep[4]):
            ctx.tie_break("correspondence", "InFragment differs from `no root-cause class holds`",
                          request={"text": G.render(prog), "path": list(p)}, model=[rep[4], rep[5]])
        if in_fragment:
            ctx.count("in_fragment_of_resolve_partial")
        if not agrees(real, spec):
            deviations.append((label, prog, p, real, spec, rep[4]))
    ctx.count("correspondence_disagreements", bad)
    ctx.count("deviations_from_spec", len(deviations))

    if changed:
        changed.sort(key=lambda d: prog_size(d[1]))
        seen_c = set()
        for label, prog, p, real, spec, causes, model in changed:
            k = (clause_of(real, spec), causes[0] if causes else "none")
            if k in seen_c or len(seen_c) >= 5:
                continue
            seen_c.add(k)
            ctx.fail({"clause": k[0], "cause": k[1] + " (behaviour changed)"},
                     {"text": G.render(prog), "path": list(p), "program": G.sexp(prog)},
                     f"`{G.render(prog)}` path {list(p)}: {CLAUSE_WHAT[k[0]]}: the code yields {real}, Nix scoping "
                     f"designates {spec}; the recorded behaviour (model) was {model}", cases=1)
    ctx.count("changed_for_the_worse", len(changed))

    # classify on SHRUNK inputs: the smallest representative of every raw key (clause, causes) is
    # shrunk to a minimal deviating program; the finding key is (clause, first root-cause class)
    by_raw: dict[str, list] = {}
    for d in deviations:
        raw = clause_of(d[3], d[4]) + "|" + "+".join(d[5])
        if raw not in by_raw:
            by_raw[raw] = [d, 1]
        else:
            by_raw[raw][1] += 1
            if prog_size(d[1]) < prog_size(by_raw[raw][0][1]):
                by_raw[raw][0] = d
    ctx.count("deviation_raw_keys", len(by_raw))
    raws = sorted(by_raw.items(), key=lambda kv: prog_size(kv[1][0][1]))
    shrunk = shrink_all(ctx, [(d[1], d[2]) for _, (d, _) in raws])
    merged: dict[str, dict] = {}
    for (raw, (d, n)), st in zip(raws, shrunk):
        if st["r"] is None or agrees(st["r"][0], st["r"][1]):
            # (cannot happen: the representative deviated when first evaluated) keep the original
            prog, path, real, spec, causes = d[1], d[2], d[3], d[4], d[5]
        else:
            prog, path, (real, spec, causes) = st["prog"], st["path"], st["r"]
        key = finding_key(real, spec, causes)
        kk = key["clause"] + "|" + key["cause"]
        if kk in merged:
            merged[kk]["cases"] += n
            continue
        merged[kk] = {"key": key, "input": {"text": G.render(prog), "path": list(path), "program": G.sexp(prog)},
                      "real": real, "spec": spec, "causes": causes, "cases": n}
    for m in merged.values():
        ctx.fail(m["key"], m["input"],
                 f"`{m['input']['text']}` path {m['input']['path']}: {CLAUSE_WHAT[m['key']['clause']]}: the code "
                 f"yields {m['real']}, Nix scoping designates {m['spec']} (root-cause classes holding: {m['causes']})",
                 cases=m["cases"])


def search(ctx: fw.Ctx):
    """Broken tie and no failing input seen: a wider random stream, oracle only."""
    rg = G.RandomGen(ctx.rng, max_depth=5)
    observe(ctx, ((f"search:{i}", rg.program(), None) for i in range(6000 if ctx.quick else 40000)), correspond=False)


def replay(payload: dict) -> int:
    inp = payload.get("input", payload)
    print("replaying", {k: v for k, v in inp.items() if k != "program"})
    if "ops" in inp:
        from . import c10_registry

        return c10_registry.replay(inp)
    from nix_manipulator import parse

    src = parse(inp["text"])
    _, Identifier, _, _ = _classes()
    try:
        cur = src
        for s in inp["path"]:
            cur = cur.value if s is None else cur[s]
        v = cur.value
        print("resolved to:", type(v).__name__, v.rebuild())
    except BaseException as exc:  # noqa: BLE001
        print("raised", type(exc).__name__, exc if not isinstance(exc, RecursionError) else "")
    print("expected (Nix scoping):", payload.get("what", ""))
    return 1
