import NimaVerif.Model.Sched
/-!
Non-interference for the process-wide state of nix_manipulator (L9, C15c): under the
all-per-thread configuration `Cfg.code`, what a thread observes in any valid interleaving is what
it observes running alone.  Proof: a simulation between the interleaved state and the state of the
thread's serial run (`Sim`), with the invariant `Inv` (ids of live objects are distinct; every
registry entry belongs to the live object with that id) that `ValidFrom` maintains.
-/
namespace Nima.Sched

/-! ## Basics -/

/-- the side condition `ValidFrom` puts on one step -/
def StepOk (s : State) (t : Tid) : Op → Prop
  | .regAlloc n k => s.live (t, n) = none ∧ ∀ o, s.live o ≠ some k
  | _ => True

theorem validFrom_cons {s : State} {c : Cfg} {t : Tid} {op : Op} {rest : Sched} :
    ValidFrom s c ((t, op) :: rest) ↔ StepOk s t op ∧ ValidFrom (step c s t op).1 c rest := by
  cases op <;> exact Iff.rfl

theorem run_cons {c : Cfg} {s : State} {t : Tid} {op : Op} {rest : Sched} :
    run c s ((t, op) :: rest) =
      ((run c (step c s t op).1 rest).1, (t, (step c s t op).2) :: (run c (step c s t op).1 rest).2) :=
  rfl

/-- `s` is the interleaved state, `s'` the state of thread `i`'s serial run: they agree on thread
    `i`'s slots, tokens, objects, and on the registry at the ids of thread `i`'s live objects;
    the serial state has no objects of other threads -/
structure Sim (i : Tid) (s s' : State) : Prop where
  made : s.made (.thread i) = s'.made (.thread i)
  work : s.work (.thread i) = s'.work (.thread i)
  cell : ∀ v, s.cell v (.thread i) = s'.cell v (.thread i)
  toks : s.toks i = s'.toks i
  live : ∀ n, s.live (i, n) = s'.live (i, n)
  other : ∀ j n, j ≠ i → s'.live (j, n) = none
  reg : ∀ n k, s.live (i, n) = some k → s.reg k = s'.reg k

/-- the invariant of valid runs -/
structure Inv (s : State) : Prop where
  inj : ∀ o o' k, s.live o = some k → s.live o' = some k → o = o'
  regOk : ∀ k o x, s.reg k = some (o, x) → s.live o = some k

theorem inv_init : Inv State.init := ⟨by simp [State.init], by simp [State.init]⟩

theorem sim_init (i : Tid) : Sim i State.init State.init :=
  ⟨rfl, rfl, fun _ => rfl, rfl, fun _ => rfl, fun _ _ _ => rfl, fun _ _ _ => rfl⟩

/-! ## The step function under `Cfg.code` -/

/-- `step Cfg.code`, with the slots computed -/
def stepC (s : State) (t : Tid) : Op → State × Obs
  | .getParser =>
    if s.made (.thread t) then (s, .flag false)
    else ({ s with made := upd s.made (.thread t) true }, .flag true)
  | .parseBegin d =>
    if s.made (.thread t) then ({ s with work := upd s.work (.thread t) (some d) }, .unit)
    else (s, .err)
  | .parseEnd =>
    if s.made (.thread t) then ({ s with work := upd s.work (.thread t) none }, .val (s.work (.thread t)))
    else (s, .err)
  | .ctxSet v x =>
    ({ s with toks := upd s.toks t ((v, s.cell v (.thread t)) :: s.toks t),
              cell := upd s.cell v (upd (s.cell v) (.thread t) (some x)) }, .unit)
  | .ctxGet v => (s, .val (s.cell v (.thread t)))
  | .ctxReset v =>
    match s.toks t with
    | (v', old) :: rest =>
      if v' = v then
        ({ s with toks := upd s.toks t rest,
                  cell := upd s.cell v (upd (s.cell v) (.thread t) old) }, .unit)
      else (s, .err)
    | [] => (s, .err)
  | .regAlloc n k => ({ s with live := upd s.live (t, n) (some k) }, .unit)
  | .regFree n =>
    match s.live (t, n) with
    | some k =>
      let reg' := match s.reg k with
        | some (o', _) => if o' = (t, n) then upd s.reg k none else s.reg
        | none => s.reg
      ({ s with live := upd s.live (t, n) none, reg := reg' }, .unit)
    | none => (s, .err)
  | .regStore n x =>
    match s.live (t, n) with
    | some k => ({ s with reg := upd s.reg k (some ((t, n), x)) }, .unit)
    | none => (s, .err)
  | .regGet n =>
    match s.live (t, n) with
    | some k =>
      match s.reg k with
      | some (o', x) =>
        if o' = (t, n) then (s, .val (some x)) else ({ s with reg := upd s.reg k none }, .val none)
      | none => (s, .val none)
    | none => (s, .err)
  | .regClear n =>
    match s.live (t, n) with
    | some k => ({ s with reg := upd s.reg k none }, .unit)
    | none => (s, .err)

theorem step_code (s : State) (t : Tid) (op : Op) : step Cfg.code s t op = stepC s t op := by
  cases op <;> first | rfl | (rename_i v; cases v <;> rfl) | (rename_i v _; cases v <;> rfl)

theorem upd_apply {α β : Type} [DecidableEq α] (f : α → β) (a : α) (b : β) (x : α) :
    upd f a b x = if x = a then b else f x := rfl

/-- frame: a step of thread `t` leaves other threads' slots, tokens and objects alone, and only
    writes registry keys that are ids of live objects of `t` -/
theorem step_frame (s : State) (t : Tid) (op : Op) :
    (∀ j, j ≠ t → (stepC s t op).1.made (.thread j) = s.made (.thread j)) ∧
    (∀ j, j ≠ t → (stepC s t op).1.work (.thread j) = s.work (.thread j)) ∧
    (∀ v j, j ≠ t → (stepC s t op).1.cell v (.thread j) = s.cell v (.thread j)) ∧
    (∀ j, j ≠ t → (stepC s t op).1.toks j = s.toks j) ∧
    (∀ j n, j ≠ t → (stepC s t op).1.live (j, n) = s.live (j, n)) ∧
    (∀ k, (∀ n, s.live (t, n) ≠ some k) → (stepC s t op).1.reg k = s.reg k) := by
  cases op <;> simp only [stepC] <;>
    refine ⟨?_, ?_, ?_, ?_, ?_, ?_⟩ <;> intros <;> (repeat' split) <;> simp_all [upd_apply]
  all_goals grind [upd_apply]

/-! ## Invariant and simulation, one step -/

theorem inv_step {s : State} {t : Tid} {op : Op} (hi : Inv s) (hok : StepOk s t op) :
    Inv (stepC s t op).1 := by
  obtain ⟨inj, regOk⟩ := hi
  cases op <;> simp only [stepC, StepOk] at hok ⊢ <;> (repeat' split) <;>
    first
    | exact ⟨inj, regOk⟩
    | (constructor <;> simp only [upd_apply] <;> grind)

/-- a step of another thread does not change thread `i`'s view -/
theorem sim_other {i j : Tid} {s s' : State} {op : Op} (hs : Sim i s s') (hi : Inv s)
    (hj : j ≠ i) : Sim i (stepC s j op).1 s' := by
  obtain ⟨fm, fw, fc, ft, fl, fr⟩ := step_frame s j op
  have hij : i ≠ j := fun h => hj h.symm
  refine ⟨?_, ?_, ?_, ?_, ?_, hs.other, ?_⟩
  · rw [fm i hij]; exact hs.made
  · rw [fw i hij]; exact hs.work
  · intro v; rw [fc v i hij]; exact hs.cell v
  · rw [ft i hij]; exact hs.toks
  · intro n; rw [fl i n hij]; exact hs.live n
  · intro n k hl
    rw [fl i n hij] at hl
    rw [← hs.reg n k hl]
    apply fr
    intro m hm
    have := hi.inj _ _ _ hm hl
    simp at this; exact hj this.1

/-- a step of thread `i` that is allowed in the interleaved state is allowed in its serial state -/
theorem stepOk_right {i : Tid} {s s' : State} {op : Op} (hs : Sim i s s') (hok : StepOk s i op) :
    StepOk s' i op := by
  cases op <;> try trivial
  rename_i n k
  refine ⟨hs.live n ▸ hok.1, ?_⟩
  rintro ⟨j, m⟩ h
  by_cases hj : j = i
  · subst hj; rw [← hs.live m] at h; exact hok.2 _ h
  · rw [hs.other j m hj] at h; cases h

theorem upd2_apply {α β γ : Type} [DecidableEq α] [DecidableEq β] (f : α → β → γ) (a : α) (b : β)
    (x : γ) (a' : α) (b' : β) :
    upd f a (upd (f a) b x) a' b' = if a' = a ∧ b' = b then x else f a' b' := by
  by_cases h : a' = a <;> simp [h, upd_apply]

/-- parser and context-variable steps of thread `i` itself -/
theorem sim_self_local {i : Tid} {s s' : State} {op : Op} (hs : Sim i s s')
    (hop : match op with
      | .regAlloc .. | .regFree .. | .regStore .. | .regGet .. | .regClear .. => False
      | _ => True) :
    (stepC s i op).2 = (stepC s' i op).2 ∧ Sim i (stepC s i op).1 (stepC s' i op).1 := by
  obtain ⟨hm, hw, hc, ht, hl, ho, he⟩ := hs
  cases op <;> try cases hop
  all_goals simp only [stepC, hm, hw, hc, ht]
  all_goals (repeat' split)
  all_goals first
    | exact ⟨rfl, ⟨hm, hw, hc, ht, hl, ho, he⟩⟩
    | (refine ⟨by simp, ⟨?_, ?_, ?_, ?_, hl, ho, he⟩⟩ <;> (try simp only [upd2_apply, upd_apply]) <;> grind)

/-- an id that no live object has is not a key of the registry -/
theorem reg_fresh {s : State} (hi : Inv s) {k : Nat} (h : ∀ o, s.live o ≠ some k) :
    s.reg k = none := by
  cases hr : s.reg k with
  | none => rfl
  | some p => exact absurd (hi.regOk k p.1 p.2 hr) (h _)

/-- registry steps of thread `i` itself -/
theorem sim_self_reg {i : Tid} {s s' : State} {op : Op} (hs : Sim i s s') (hi : Inv s) (hi' : Inv s')
    (hok : StepOk s i op) (hok' : StepOk s' i op)
    (hop : match op with
      | .regAlloc .. | .regFree .. | .regStore .. | .regGet .. | .regClear .. => True
      | _ => False) :
    (stepC s i op).2 = (stepC s' i op).2 ∧ Sim i (stepC s i op).1 (stepC s' i op).1 := by
  cases op <;> try cases hop
  · -- regAlloc
    have h1 := reg_fresh hi hok.2
    have h2 := reg_fresh hi' hok'.2
    obtain ⟨hm, hw, hc, ht, hl, ho, hr⟩ := hs
    simp only [stepC, StepOk] at hok hok' ⊢
    refine ⟨trivial, ⟨hm, hw, hc, ht, ?_, ?_, ?_⟩⟩ <;> simp only [upd_apply] <;> grind
  all_goals
    obtain ⟨hm, hw, hc, ht, hl, ho, hr⟩ := hs
    obtain ⟨inj, regOk⟩ := hi
    obtain ⟨inj', regOk'⟩ := hi'
    simp only [stepC, hl]
    split
    · rename_i k hk
      have hrk := hr _ k ((hl _).trans hk)
      simp only [hrk]
      repeat' split
      all_goals first
        | exact ⟨rfl, ⟨hm, hw, hc, ht, hl, ho, hr⟩⟩
        | (refine ⟨by simp, ⟨hm, hw, hc, ht, ?_, ?_, ?_⟩⟩ <;> (try simp only [upd_apply]) <;> grind)
    · exact ⟨rfl, ⟨hm, hw, hc, ht, hl, ho, hr⟩⟩

/-- a step of thread `i` itself: same observation on both sides, and the simulation is kept -/
theorem sim_self {i : Tid} {s s' : State} {op : Op} (hs : Sim i s s') (hi : Inv s) (hi' : Inv s')
    (hok : StepOk s i op) :
    (stepC s i op).2 = (stepC s' i op).2 ∧ Sim i (stepC s i op).1 (stepC s' i op).1 := by
  cases op
  case regAlloc | regFree | regStore | regGet | regClear =>
    exact sim_self_reg hs hi hi' hok (stepOk_right hs hok) trivial
  all_goals exact sim_self_local hs trivial

/-! ## Runs -/

/-- the simulation along a whole valid schedule -/
theorem sim_run (i : Tid) (sc : Sched) : ∀ (s s' : State), Sim i s s' → Inv s → Inv s' →
    ValidFrom s Cfg.code sc →
    obsOf i (run Cfg.code s sc).2 = obsOf i (run Cfg.code s' (proj i sc)).2 ∧
      ValidFrom s' Cfg.code (proj i sc) := by
  induction sc with
  | nil => intro s s' _ _ _ _; exact ⟨rfl, trivial⟩
  | cons e rest ih =>
    obtain ⟨t, op⟩ := e
    intro s s' hs hi hi' hv
    rw [validFrom_cons, step_code] at hv
    obtain ⟨hok, hv⟩ := hv
    by_cases ht : t = i
    · subst ht
      have hp : proj t ((t, op) :: rest) = (t, op) :: proj t rest := by simp [proj]
      obtain ⟨ho, hs2⟩ := sim_self hs hi hi' hok
      have hok' := stepOk_right hs hok
      obtain ⟨h1, h2⟩ := ih _ _ hs2 (inv_step hi hok) (inv_step hi' hok') hv
      rw [hp, run_cons, run_cons, validFrom_cons, step_code, step_code]
      refine ⟨?_, hok', h2⟩
      simp only [obsOf, List.filter_cons, BEq.rfl, if_true, List.map_cons] at h1 ⊢
      rw [ho, h1]
    · have hp : proj i ((t, op) :: rest) = proj i rest := by simp [proj, ht]
      obtain ⟨h1, h2⟩ := ih _ _ (sim_other hs hi ht) (inv_step hi hok) hi' hv
      rw [hp, run_cons, step_code]
      refine ⟨?_, h2⟩
      rw [← h1]
      simp [obsOf, ht]

/-- Non-interference: under the all-per-thread configuration, what thread `i` observes in ANY valid
    interleaving is what it observes when it runs its own steps alone. -/
theorem non_interference (sc : Sched) (i : Tid) (hv : ValidFrom State.init Cfg.code sc) :
    obsOf i (run Cfg.code State.init sc).2 = obsOf i (run Cfg.code State.init (proj i sc)).2 :=
  (sim_run i sc _ _ (sim_init i) inv_init inv_init hv).1

/-- the projected schedule is itself valid (so the serial run is a legal run) -/
theorem proj_valid (sc : Sched) (i : Tid) (hv : ValidFrom State.init Cfg.code sc) :
    ValidFrom State.init Cfg.code (proj i sc) :=
  (sim_run i sc _ _ (sim_init i) inv_init inv_init hv).2

theorem obsOf_all (c : Cfg) (i : Tid) (sc : Sched) : ∀ (s : State), (∀ e ∈ sc, e.1 = i) →
    obsOf i (run c s sc).2 = (run c s sc).2.map (·.2) := by
  induction sc with
  | nil => intro _ _; rfl
  | cons e rest ih =>
    obtain ⟨t, op⟩ := e
    intro s h
    have ht : t = i := h (t, op) (by simp)
    subst ht
    have := ih (step c s t op).1 (fun e he => h e (by simp [he]))
    rw [run_cons]
    simp only [obsOf, List.filter_cons, BEq.rfl, if_true, List.map_cons] at this ⊢
    rw [this]

/-- and in the serial run everything in the trace is thread i's -/
theorem obsOf_proj (c : Cfg) (s : State) (sc : Sched) (i : Tid) :
    obsOf i (run c s (proj i sc)).2 = (run c s (proj i sc)).2.map (·.2) :=
  obsOf_all c i (proj i sc) s (by simp [proj])

/-! ## Counterexamples -/

theorem cex_shared_parser : ∃ (sc : Sched) (i : Tid), ValidFrom State.init ⟨false, true, true⟩ sc ∧
    obsOf i (run ⟨false, true, true⟩ State.init sc).2 ≠
      obsOf i (run ⟨false, true, true⟩ State.init (proj i sc)).2 :=
  ⟨[(0, .getParser), (1, .getParser), (0, .parseBegin 7), (1, .parseBegin 9), (0, .parseEnd)], 0,
    by simp [ValidFrom], by decide⟩

theorem cex_shared_bytes : ∃ (sc : Sched) (i : Tid), ValidFrom State.init ⟨true, false, true⟩ sc ∧
    obsOf i (run ⟨true, false, true⟩ State.init sc).2 ≠
      obsOf i (run ⟨true, false, true⟩ State.init (proj i sc)).2 :=
  ⟨[(0, .ctxSet .bytes 7), (1, .ctxSet .bytes 9), (0, .ctxGet .bytes)], 0,
    by simp [ValidFrom], by decide⟩

theorem cex_shared_path : ∃ (sc : Sched) (i : Tid), ValidFrom State.init ⟨true, true, false⟩ sc ∧
    obsOf i (run ⟨true, true, false⟩ State.init sc).2 ≠
      obsOf i (run ⟨true, true, false⟩ State.init (proj i sc)).2 :=
  ⟨[(0, .ctxSet .path 7), (1, .ctxSet .path 9), (0, .ctxGet .path)], 0,
    by simp [ValidFrom], by decide⟩

theorem cex_id_collision : ∃ (sc : Sched) (i : Tid),
    obsOf i (run Cfg.code State.init sc).2 ≠ obsOf i (run Cfg.code State.init (proj i sc)).2 :=
  ⟨[(0, .regAlloc 0 5), (1, .regAlloc 0 5), (0, .regStore 0 7), (1, .regStore 0 9), (0, .regGet 0)],
    0, by decide⟩

/-! ## History independence on one thread

A well-nested block of context-variable operations (`token = V.set(x); try: … finally:
V.reset(token)`) leaves the context variables and the token stack as it found them, for every
configuration, whatever plain steps (parser, registry, reads) happen inside. -/

theorem run_append (c : Cfg) (a b : Sched) : ∀ (s : State),
    run c s (a ++ b) = ((run c (run c s a).1 b).1, (run c s a).2 ++ (run c (run c s a).1 b).2) := by
  induction a with
  | nil => intro s; rfl
  | cons e rest ih =>
    obtain ⟨t, op⟩ := e
    intro s
    rw [List.cons_append, run_cons, ih, run_cons]
    rfl

theorem solo_cons (t : Tid) (op : Op) (ops : List Op) : solo t (op :: ops) = (t, op) :: solo t ops :=
  rfl

theorem solo_append (t : Tid) (a b : List Op) : solo t (a ++ b) = solo t a ++ solo t b :=
  List.map_append

/-- plain steps do not touch the context variables or the tokens -/
theorem plain_step (c : Cfg) (s : State) (t : Tid) (op : Op) (hp : op.isPlain = true) :
    (step c s t op).1.cell = s.cell ∧ (step c s t op).1.toks = s.toks := by
  cases op <;> try cases hp
  all_goals simp only [step]
  all_goals (repeat' split)
  all_goals first | exact ⟨rfl, rfl⟩ | exact ⟨trivial, trivial⟩

/-- `reset v` in a state that has the cells and tokens `set v x` left gives back the cells and
    tokens from before the `set` -/
theorem reset_after_set (c : Cfg) (t : Tid) (v : CVar) (x : Nat) (s s2 : State)
    (hc : s2.cell = (step c s t (.ctxSet v x)).1.cell)
    (ht : s2.toks = (step c s t (.ctxSet v x)).1.toks) :
    (step c s2 t (.ctxReset v)).1.cell = s.cell ∧ (step c s2 t (.ctxReset v)).1.toks = s.toks := by
  simp only [step] at hc ht
  have h1 : s2.toks t = (v, s.cell v (slot (c.cvarLocal v) t)) :: s.toks t := by
    rw [ht]; simp [upd_apply]
  simp only [step, h1, if_true, hc, ht]
  constructor
  · funext w sl
    simp only [upd_apply]
    by_cases hw : w = v
    · subst hw; by_cases hs : sl = slot (c.cvarLocal w) t <;> simp [hs, upd_apply]
    · simp [hw]
  · funext j
    simp only [upd_apply]
    by_cases hj : j = t <;> simp [hj]

/-- A balanced block restores every context variable cell and the thread's token stack. -/
theorem balanced_restores (c : Cfg) (t : Tid) (ops : List Op) (hb : Balanced ops) (s : State) :
    (run c s (solo t ops)).1.cell = s.cell ∧ (run c s (solo t ops)).1.toks = s.toks := by
  induction hb generalizing s with
  | nil => exact ⟨rfl, rfl⟩
  | plain hp _ ih =>
    rw [solo_cons, run_cons]
    obtain ⟨h1, h2⟩ := plain_step c s t _ hp
    obtain ⟨h3, h4⟩ := ih (step c s t _).1
    exact ⟨h3.trans h1, h4.trans h2⟩
  | @block v x inner rest _ _ ihi ihr =>
    rw [solo_cons, run_cons, solo_append, run_append, solo_cons, run_cons]
    obtain ⟨h1, h2⟩ := ihi (step c s t (.ctxSet v x)).1
    obtain ⟨h3, h4⟩ := reset_after_set c t v x s _ h1 h2
    obtain ⟨h5, h6⟩ := ihr (step c (run c (step c s t (.ctxSet v x)).1 (solo t inner)).1 t (.ctxReset v)).1
    exact ⟨h5.trans h3, h6.trans h4⟩

theorem run_length (c : Cfg) (sc : Sched) : ∀ (s : State), (run c s sc).2.length = sc.length := by
  induction sc with
  | nil => intro s; rfl
  | cons e rest ih => obtain ⟨t, op⟩ := e; intro s; rw [run_cons]; simp [ih]

theorem reset_after_set_obs (c : Cfg) (t : Tid) (v : CVar) (x : Nat) (s s2 : State)
    (ht : s2.toks = (step c s t (.ctxSet v x)).1.toks) :
    (step c s2 t (.ctxReset v)).2 = .unit := by
  simp only [step] at ht
  have h1 : s2.toks t = (v, s.cell v (slot (c.cvarLocal v) t)) :: s.toks t := by
    rw [ht]; simp [upd_apply]
  simp only [step, h1, if_true]

/-- … and no reset inside a balanced block fails: paired with the operations, every observation of
    a `ctxReset` is `.unit` (never `.err`). -/
theorem balanced_no_ctx_err (c : Cfg) (t : Tid) (ops : List Op) (hb : Balanced ops) (s : State) :
    ∀ p ∈ ops.zip (run c s (solo t ops)).2, (∃ v, p.1 = .ctxReset v) → p.2.2 = .unit := by
  induction hb generalizing s with
  | nil => intro p hp; cases hp
  | @plain op rest hpl _ ih =>
    intro p hp ⟨v, hv⟩
    rw [solo_cons, run_cons, List.zip_cons_cons, List.mem_cons] at hp
    rcases hp with rfl | hp
    · simp only at hv; subst hv; cases hpl
    · exact ih _ p hp ⟨v, hv⟩
  | @block v x inner rest hbi _ ihi ihr =>
    intro p hp hv
    have hlen : inner.length = (run c (step c s t (.ctxSet v x)).1 (solo t inner)).2.length := by
      rw [run_length]; simp [solo]
    rw [solo_cons, run_cons, solo_append, run_append, solo_cons, run_cons, List.zip_cons_cons,
      List.zip_append hlen, List.zip_cons_cons, List.mem_cons, List.mem_append, List.mem_cons] at hp
    rcases hp with rfl | hp | rfl | hp
    · obtain ⟨_, hv⟩ := hv; cases hv
    · exact ihi _ p hp hv
    · exact reset_after_set_obs c t v x s _ (balanced_restores c t inner hbi _).2
    · exact ihr _ p hp hv

/-- the nesting of `parse_file` (path block around parser steps and a bytes block) is balanced -/
example : Balanced [.ctxSet .path 1, .getParser, .parseBegin 7, .parseEnd, .ctxSet .bytes 2,
    .ctxGet .bytes, .ctxReset .bytes, .ctxReset .path] :=
  .block (inner := [.getParser, .parseBegin 7, .parseEnd, .ctxSet .bytes 2, .ctxGet .bytes,
      .ctxReset .bytes]) (rest := [])
    (.plain rfl (.plain rfl (.plain rfl
      (.block (inner := [.ctxGet .bytes]) (rest := []) (.plain rfl .nil) .nil))))
    .nil

end Nima.Sched
