import NimaVerif.Model.TriviaSpec
/-! Lemmas about the trivia algebra (L2): blank-line detection, canonical gaps, separators,
`format_trivia` as a flatMap, pieces, comment rendering. Core Lean only. -/
namespace Nima

@[simp] theorem spaces_zero : spaces 0 = [] := rfl
theorem spaces_succ (n : Nat) : spaces (n + 1) = ' ' :: spaces n := rfl
@[simp] theorem length_spaces (n : Nat) : (spaces n).length = n := by simp [spaces]
theorem mem_spaces {c : Char} {n : Nat} (h : c ∈ spaces n) : c = ' ' := by
  simp [spaces] at h; exact h.2

theorem containsNL_append (a b : Text) : containsNL (a ++ b) = (containsNL a || containsNL b) := by
  simp [containsNL]
@[simp] theorem containsNL_nil : containsNL [] = false := rfl
theorem containsNL_cons (c : Char) (s : Text) : containsNL (c :: s) = (c == '\n' || containsNL s) := by
  by_cases h : c = '\n'
  · subst h; simp [containsNL]
  · have h' := Ne.symm h; simp [containsNL, h, h']
@[simp] theorem containsNL_spaces (n : Nat) : containsNL (spaces n) = false := by
  induction n with
  | zero => rfl
  | succ n ih => rw [spaces_succ, containsNL_cons, ih]; decide
theorem containsNL_iff (s : Text) : containsNL s = true ↔ '\n' ∈ s := by simp [containsNL]
theorem containsNL_false_iff (s : Text) : containsNL s = false ↔ '\n' ∉ s := by simp [containsNL]

/-! ### blank-line detection -/

theorem hasEmptyLineRe_cons_ne {c : Char} (h : c ≠ '\n') (cs : Text) :
    hasEmptyLineRe (c :: cs) = hasEmptyLineRe cs := by
  simp [hasEmptyLineRe, h]

theorem hasEmptyLineRe_nl (cs : Text) :
    hasEmptyLineRe ('\n' :: cs) = ((cs.dropWhile isGapBlank).head? == some '\n' || hasEmptyLineRe cs) := by
  simp [hasEmptyLineRe]

theorem hasEmptyLineRe_dropWhile (p : Char → Bool) (hp : ∀ c, p c = true → c ≠ '\n') (s : Text) :
    hasEmptyLineRe (s.dropWhile p) = hasEmptyLineRe s := by
  induction s with
  | nil => rfl
  | cons c cs ih =>
    by_cases h : p c = true
    · rw [List.dropWhile_cons_of_pos h, ih, hasEmptyLineRe_cons_ne (hp c h)]
    · rw [List.dropWhile_cons_of_neg h]

theorem isGapBlank_ne_nl (c : Char) (h : isGapBlank c = true) : c ≠ '\n' := by
  intro hc; subst hc; simp [isGapBlank] at h

theorem hasEmptyLineRe_count : ∀ (s : Text), hasEmptyLineRe s = true → 2 ≤ s.count '\n'
  | [], h => by simp [hasEmptyLineRe] at h
  | c :: cs, h => by
    by_cases hc : c = '\n'
    · subst hc
      rw [hasEmptyLineRe_nl] at h
      simp only [Bool.or_eq_true] at h
      rcases h with h | h
      · have : '\n' ∈ cs := by
          have h1 : (cs.dropWhile isGapBlank).head? = some '\n' := by simpa using h
          have h2 : '\n' ∈ cs.dropWhile isGapBlank := List.mem_of_head? h1
          exact (List.dropWhile_sublist _).subset h2
        have : 0 < cs.count '\n' := List.count_pos_iff.mpr this
        rw [List.count_cons_self]; omega
      · have := hasEmptyLineRe_count cs h
        rw [List.count_cons_self]; omega
    · rw [hasEmptyLineRe_cons_ne hc] at h
      have := hasEmptyLineRe_count cs h
      rw [List.count_cons_of_ne hc]; exact this

theorem gapHasEmptyLine_eq_re (g : Text) : gapHasEmptyLine g = hasEmptyLineRe g := by
  unfold gapHasEmptyLine
  cases h : hasEmptyLineRe g
  · simp
  · have h2 := hasEmptyLineRe_count g h
    have h3 : containsNL g = true := by
      rw [containsNL_iff]; exact List.count_pos_iff.mp (by omega)
    simp [h3]; omega

theorem head_dropWhile_ne_nl (s : Text) (x : Char) (more : Text)
    (h : s.dropWhile (· != '\n') = x :: more) : x = '\n' := by
  have := List.head_dropWhile_not (· != '\n') (l := s) (by rw [h]; simp)
  simpa [h] using this

theorem emptyLineScan_eq : ∀ (fuel : Nat) (s : Text), s.length < fuel →
    emptyLineScan fuel s = hasEmptyLineRe ('\n' :: s)
  | 0, s, h => by omega
  | fuel + 1, s, h => by
    rw [hasEmptyLineRe_nl, emptyLineScan]
    have hre : hasEmptyLineRe s = hasEmptyLineRe (s.dropWhile isGapBlank) :=
      (hasEmptyLineRe_dropWhile _ isGapBlank_ne_nl s).symm
    have hlen : (s.dropWhile isGapBlank).length ≤ s.length := (List.dropWhile_sublist _).length_le
    rw [hre]
    generalize s.dropWhile isGapBlank = rest at hlen ⊢
    cases rest with
    | nil => simp [hasEmptyLineRe]
    | cons c r =>
      by_cases hc : c = '\n'
      · subst hc; simp
      · have hb : ((c :: r).head? == some '\n') = false := by simp [hc]
        rw [hb, Bool.false_or]
        simp only [if_neg hc]
        have h1 : hasEmptyLineRe (c :: r) = hasEmptyLineRe ((c :: r).dropWhile (· != '\n')) :=
          (hasEmptyLineRe_dropWhile _ (by intro c h; simpa using h) _).symm
        have hlen2 : ((c :: r).dropWhile (· != '\n')).length ≤ (c :: r).length :=
          (List.dropWhile_sublist _).length_le
        rw [h1]
        cases hafter : (c :: r).dropWhile (· != '\n') with
        | nil => simp [hasEmptyLineRe]
        | cons x more =>
          have hx := head_dropWhile_ne_nl _ _ _ hafter
          subst hx
          rw [hafter] at hlen2
          simp only [List.length_cons] at hlen2 hlen
          exact emptyLineScan_eq fuel more (by omega)


theorem gapHasEmptyLineOffsets_eq_re (g : Text) : gapHasEmptyLineOffsets g = hasEmptyLineRe g := by
  unfold gapHasEmptyLineOffsets
  have h1 : hasEmptyLineRe g = hasEmptyLineRe (g.dropWhile (· != '\n')) :=
    (hasEmptyLineRe_dropWhile _ (by intro c h; simpa using h) _).symm
  have hlen : (g.dropWhile (· != '\n')).length ≤ g.length := (List.dropWhile_sublist _).length_le
  rw [h1]
  cases hafter : g.dropWhile (· != '\n') with
  | nil => simp [hasEmptyLineRe]
  | cons x rest =>
    have hx := head_dropWhile_ne_nl _ _ _ hafter
    subst hx
    rw [hafter] at hlen
    simp only [List.length_cons] at hlen
    by_cases hc : rest.contains '\n' = true
    · simp only [hc, Bool.not_true, Bool.false_eq_true, if_false]
      exact emptyLineScan_eq _ _ (by omega)
    · simp only [hc, Bool.not_false, if_true]
      cases hre : hasEmptyLineRe ('\n' :: rest) with
      | false => rfl
      | true =>
        have := hasEmptyLineRe_count _ hre
        rw [List.count_cons_self] at this
        have : '\n' ∈ rest := List.count_pos_iff.mp (by omega)
        simp at hc; exact absurd this hc

theorem takeWhile_all (p : Char → Bool) : ∀ (l : Text), ∀ c ∈ l.takeWhile p, p c = true
  | [], c, h => by simp at h
  | x :: l, c, h => by
    by_cases hx : p x = true
    · rw [List.takeWhile_cons_of_pos hx] at h
      rcases List.mem_cons.mp h with rfl | h
      · exact hx
      · exact takeWhile_all p l c h
    · rw [List.takeWhile_cons_of_neg hx] at h; simp at h

/-- The model of the regex `\n[ \t]*\n` has the regex's meaning. -/
theorem hasEmptyLineRe_iff (s : Text) :
    hasEmptyLineRe s = true ↔
      ∃ a b m : Text, (∀ c ∈ b, isGapBlank c = true) ∧ s = a ++ '\n' :: b ++ '\n' :: m := by
  induction s with
  | nil => simp [hasEmptyLineRe]
  | cons c cs ih =>
    constructor
    · intro h
      by_cases hc : c = '\n'
      · subst hc
        rw [hasEmptyLineRe_nl, Bool.or_eq_true] at h
        rcases h with h | h
        · have h1 : (cs.dropWhile isGapBlank).head? = some '\n' := by simpa using h
          refine ⟨[], cs.takeWhile isGapBlank, (cs.dropWhile isGapBlank).tail, ?_, ?_⟩
          · intro c hc; exact takeWhile_all _ _ c hc
          · have : cs.dropWhile isGapBlank = '\n' :: (cs.dropWhile isGapBlank).tail := by
              cases hd : cs.dropWhile isGapBlank with
              | nil => rw [hd] at h1; simp at h1
              | cons x r => rw [hd] at h1; simp at h1; simp [h1]
            rw [← this]; simp
        · obtain ⟨a, b, m, hb, rfl⟩ := ih.mp h
          exact ⟨'\n' :: a, b, m, hb, rfl⟩
      · rw [hasEmptyLineRe_cons_ne hc] at h
        obtain ⟨a, b, m, hb, rfl⟩ := ih.mp h
        exact ⟨c :: a, b, m, hb, rfl⟩
    · rintro ⟨a, b, m, hb, h⟩
      cases a with
      | nil =>
        simp only [List.nil_append] at h
        obtain ⟨rfl, rfl⟩ := h
        rw [hasEmptyLineRe_nl]
        have : (b ++ '\n' :: m).dropWhile isGapBlank = '\n' :: m := by
          rw [List.dropWhile_append_of_pos hb]; simp [isGapBlank]
        simp [this]
      | cons x a =>
        simp only [List.cons_append, List.cons.injEq] at h
        obtain ⟨rfl, rfl⟩ := h
        have : hasEmptyLineRe (a ++ '\n' :: b ++ '\n' :: m) = true := ih.mpr ⟨a, b, m, hb, by simp⟩
        by_cases hc : c = '\n'
        · subst hc; rw [hasEmptyLineRe_nl]; simp at this; simp [this]
        · rw [hasEmptyLineRe_cons_ne hc]; simpa using this

/-! ### canonical gaps -/

theorem hasEmptyLineRe_spaces (k : Nat) : hasEmptyLineRe (spaces k) = false := by
  induction k with
  | zero => rfl
  | succ k ih => rw [spaces_succ, hasEmptyLineRe_cons_ne (by decide), ih]

theorem dropWhile_blank_spaces (k : Nat) : (spaces k).dropWhile isGapBlank = [] := by
  induction k with
  | zero => rfl
  | succ k ih => rw [spaces_succ, List.dropWhile_cons_of_pos (by decide), ih]

theorem gapHasEmptyLine_nl_spaces (k : Nat) : gapHasEmptyLine ('\n' :: spaces k) = false := by
  rw [gapHasEmptyLine_eq_re, hasEmptyLineRe_nl, dropWhile_blank_spaces, hasEmptyLineRe_spaces]; rfl

theorem gapHasEmptyLine_nlnl_spaces (k : Nat) : gapHasEmptyLine ('\n' :: '\n' :: spaces k) = true := by
  rw [gapHasEmptyLine_eq_re, hasEmptyLineRe_nl]; simp [isGapBlank]

theorem takeWhile_ne_nl_spaces (k : Nat) : (spaces k).takeWhile (· != '\n') = spaces k := by
  induction k with
  | zero => rfl
  | succ k ih => rw [spaces_succ, List.takeWhile_cons_of_pos (by decide), ih]

theorem indentFromGap_of_suffix (a : Text) (k : Nat) : indentFromGap (a ++ '\n' :: spaces k) = k := by
  have hc : containsNL (a ++ '\n' :: spaces k) = true := by
    rw [containsNL_append, containsNL_cons]; simp
  unfold indentFromGap
  simp only [hc, Bool.not_true, Bool.false_eq_true, if_false]
  have : (a ++ '\n' :: spaces k).reverse = spaces k ++ '\n' :: a.reverse := by
    simp [spaces]
  rw [this, List.takeWhile_append_of_pos (by intro c hc; rw [mem_spaces hc]; decide)]
  simp

theorem indentFromGap_nl_spaces (k : Nat) : indentFromGap ('\n' :: spaces k) = k :=
  indentFromGap_of_suffix [] k
theorem indentFromGap_nlnl_spaces (k : Nat) : indentFromGap ('\n' :: '\n' :: spaces k) = k :=
  indentFromGap_of_suffix ['\n'] k

theorem fromGap_nl_spaces (k : Nat) :
    Layout.fromGap ('\n' :: spaces k) = { onNewline := true, blankLine := false, indent := some k } := by
  simp [Layout.fromGap, containsNL_cons, gapHasEmptyLine_nl_spaces, indentFromGap_nl_spaces]

theorem fromGap_nlnl_spaces (k : Nat) :
    Layout.fromGap ('\n' :: '\n' :: spaces k) = { onNewline := true, blankLine := true, indent := some k } := by
  simp [Layout.fromGap, containsNL_cons, gapHasEmptyLine_nlnl_spaces, indentFromGap_nlnl_spaces]

theorem fromGap_no_nl (g : Text) (h : containsNL g = false) : Layout.fromGap g = {} := by
  simp [Layout.fromGap, h]


/-! ### NormalSep -/

theorem all_eq_spaces : ∀ (r : Text), r.all (· == ' ') = true → r = spaces r.length
  | [], _ => rfl
  | c :: r, h => by
    simp only [List.all_cons, Bool.and_eq_true, beq_iff_eq] at h
    rw [List.length_cons, spaces_succ, h.1, ← all_eq_spaces r h.2]

theorem all_spaces (k : Nat) : (spaces k).all (· == ' ') = true := by
  simp [spaces]

theorem normalSep_iff (s : Text) : NormalSep s ↔ isNormalSep s = true := by
  constructor
  · rintro (rfl | rfl | ⟨k, rfl | rfl⟩)
    · rfl
    · rfl
    · cases k with
      | zero => rfl
      | succ k => rw [spaces_succ]; simp [isNormalSep, all_spaces]
    · simp [isNormalSep, all_spaces]
  · intro h
    unfold isNormalSep at h
    split at h
    · exact Or.inl rfl
    · exact Or.inr (Or.inl rfl)
    · exact Or.inr (Or.inr ⟨_, Or.inr (by rw [← all_eq_spaces _ h])⟩)
    · exact Or.inr (Or.inr ⟨_, Or.inl (by rw [← all_eq_spaces _ h])⟩)
    · simp at h

instance (s : Text) : Decidable (NormalSep s) := decidable_of_iff _ (normalSep_iff s).symm

theorem count_nl_spaces (k : Nat) : (spaces k).count '\n' = 0 := by
  rw [List.count_eq_zero]; intro h; exact absurd (mem_spaces h) (by decide)

/-! ### format_trivia -/

theorem formatTriviaGo_flatMap (i : Nat) : ∀ (ts : List Trivia) (acc : Text) (e : Bool), CommaFree ts →
    formatTriviaGo i ts acc e = acc ++ ts.flatMap (itemText i)
  | [], acc, e, _ => by simp [formatTriviaGo]
  | .emptyLine :: rest, acc, e, h => by
    rw [formatTriviaGo, formatTriviaGo_flatMap i rest _ _ (fun hm => h (List.mem_cons_of_mem _ hm))]
    simp [itemText]
  | .linebreak :: rest, acc, e, h => by
    rw [formatTriviaGo, formatTriviaGo_flatMap i rest _ _ (fun hm => h (List.mem_cons_of_mem _ hm))]
    simp [itemText]
  | .comma :: rest, acc, e, h => absurd (List.mem_cons_self) h
  | .comment c :: rest, acc, e, h => by
    rw [formatTriviaGo, formatTriviaGo_flatMap i rest _ _ (fun hm => h (List.mem_cons_of_mem _ hm))]
    simp [itemText]

theorem formatTrivia_eq_flatMap (ts : List Trivia) (i : Nat) (h : CommaFree ts) :
    formatTrivia ts i = ts.flatMap (itemText i) := by
  rw [formatTrivia, formatTriviaGo_flatMap i ts [] true h]; rfl

theorem commaFree_cons {t : Trivia} {ts : List Trivia} (h : CommaFree (t :: ts)) : CommaFree ts :=
  fun hm => h (List.mem_cons_of_mem _ hm)
theorem commaFree_append {a b : List Trivia} : CommaFree (a ++ b) ↔ CommaFree a ∧ CommaFree b := by
  simp [CommaFree, List.mem_append, not_or]

/-! ### comment rendering -/

theorem blockFold_eq (k : Nat) : ∀ (l : List Text) (init : Text),
    l.foldl (fun acc ln => if ln.isEmpty then acc ++ ['\n'] else acc ++ '\n' :: spaces k ++ ln) init
      = init ++ l.flatMap (fun ln => if ln.isEmpty then ['\n'] else '\n' :: spaces k ++ ln)
  | [], init => by simp
  | ln :: l, init => by
    rw [List.foldl_cons, blockFold_eq k l]
    cases ln with
    | nil => simp
    | cons x xs => simp

theorem rebuild_eq_token (c : Comment) (i : Nat) :
    c.rebuild i = spaces (c.effIndent i) ++ c.token (c.effIndent i) := by
  unfold Comment.rebuild Comment.token Comment.effIndent
  cases c.kind with
  | line => rfl
  | block doc inner =>
    simp only [blockFold_eq]
    split <;> split <;> split <;> simp [List.append_assoc]

theorem rebuild_inline (c : Comment) (i : Nat) (h : c.inline = true) : c.rebuild i = c.rebuild 0 := by
  simp [Comment.rebuild, h]


/-! ### pieces -/

theorem piecesText_append (a b : List Piece) : piecesText (a ++ b) = piecesText a ++ piecesText b := by
  simp [piecesText]

theorem piecesText_itemPieces (i : Nat) (t : Trivia) : piecesText (itemPieces i t) = itemText i t := by
  cases t <;> simp [piecesText, itemPieces, itemText, Piece.text, rebuild_eq_token]

theorem piecesText_triviaPieces (i : Nat) (ts : List Trivia) :
    piecesText (triviaPieces i ts) = ts.flatMap (itemText i) := by
  induction ts with
  | nil => rfl
  | cons t ts ih =>
    simp only [triviaPieces, List.flatMap_cons] at ih ⊢
    rw [piecesText_append, piecesText_itemPieces, ih]

/-- every comment piece is directly followed by a line-break piece -/
def cmtClosed : List Piece → Bool
  | [] => true
  | .cmt _ :: .ws ['\n'] :: r => cmtClosed r
  | .cmt _ :: _ => false
  | .ws _ :: r => cmtClosed r

theorem cmtClosed_spec : ∀ (n : Nat) (pre : List Piece) (ps : List Piece) (b : Text) (post : List Piece),
    pre.length ≤ n → cmtClosed ps = true → ps = pre ++ .cmt b :: post → ∃ post', post = .ws ['\n'] :: post'
  | n, [], ps, b, post, _, hc, he => by
    subst he
    simp only [List.nil_append] at hc
    unfold cmtClosed at hc
    split at hc
    · simp_all
    · simp_all
    · simp at hc
    · simp_all
  | 0, p :: pre, _, _, _, hn, _, _ => by simp at hn
  | n + 1, .ws s :: pre, ps, b, post, hn, hc, he => by
    subst he
    simp only [List.cons_append, cmtClosed] at hc
    exact cmtClosed_spec n pre _ b post (by simp at hn; omega) hc rfl
  | n + 1, .cmt s :: pre, ps, b, post, hn, hc, he => by
    subst he
    simp only [List.cons_append] at hc
    cases pre with
    | nil => simp [cmtClosed] at hc
    | cons q pre' =>
      cases q with
      | cmt s' => simp [cmtClosed] at hc
      | ws s' =>
        simp only [List.cons_append] at hc
        by_cases hs : s' = ['\n']
        · subst hs
          simp only [cmtClosed] at hc
          exact cmtClosed_spec n pre' _ b post (by simp at hn; omega) hc rfl
        · unfold cmtClosed at hc
          split at hc <;> simp_all

theorem cmtClosed_append : ∀ (a b : List Piece), cmtClosed a = true → cmtClosed b = true →
    cmtClosed (a ++ b) = true := by
  intro a
  fun_induction cmtClosed a <;> intro b ha hb
  · simpa using hb
  · simp only [List.cons_append, cmtClosed]; rename_i ih; exact ih b ha hb
  · simp at ha
  · simp only [List.cons_append, cmtClosed]; rename_i ih; exact ih b ha hb

theorem cmtClosed_triviaPieces (i : Nat) (ts : List Trivia) : cmtClosed (triviaPieces i ts) = true := by
  induction ts with
  | nil => rfl
  | cons t ts ih =>
    simp only [triviaPieces, List.flatMap_cons] at ih ⊢
    apply cmtClosed_append _ _ _ ih
    cases t <;> simp [itemPieces, cmtClosed]

theorem triviaPieces_lines (i : Nat) (ts : List Trivia) (h : CommaFree ts) :
    ∃ lines : List (List Piece), triviaPieces i ts = lines.flatten ∧ ∀ ln ∈ lines, TriviaLine i ln := by
  induction ts with
  | nil => exact ⟨[], rfl, by simp⟩
  | cons t ts ih =>
    obtain ⟨lines, hl, hw⟩ := ih (commaFree_cons h)
    simp only [triviaPieces, List.flatMap_cons] at hl ⊢
    cases t with
    | emptyLine =>
      refine ⟨[.ws ['\n']] :: lines, by simp [itemPieces, hl], ?_⟩
      intro ln hm
      rcases List.mem_cons.mp hm with rfl | hm
      · exact Or.inl rfl
      · exact hw ln hm
    | linebreak => exact ⟨lines, by simp [itemPieces, hl], hw⟩
    | comma => exact absurd List.mem_cons_self h
    | comment c =>
      refine ⟨_ :: lines, by simp only [List.flatten_cons, hl]; rfl, ?_⟩
      intro ln hm
      rcases List.mem_cons.mp hm with rfl | hm
      · refine Or.inr ⟨c.effIndent i, _, ?_, rfl⟩
        unfold Comment.effIndent; split <;> simp
      · exact hw ln hm

theorem filterMap_cmt_triviaPieces (i : Nat) (ts : List Trivia) (h : CommaFree ts) :
    (triviaPieces i ts).filterMap Piece.cmt? = commentTokens i ts := by
  induction ts with
  | nil => rfl
  | cons t ts ih =>
    have ih := ih (commaFree_cons h)
    simp only [triviaPieces, List.flatMap_cons, commentTokens] at ih ⊢
    rw [List.filterMap_append, ih]
    cases t with
    | comma => exact absurd List.mem_cons_self h
    | _ => simp [itemPieces, Piece.cmt?, List.filterMap_cons]

/-! ### newline termination -/

theorem endsWithNL_append (a b : Text) :
    endsWithNL (a ++ b) = if b.isEmpty then endsWithNL a else endsWithNL b := by
  cases b with
  | nil => simp
  | cons x xs =>
    have : (x :: xs).getLast? = some ((x :: xs).getLast (by simp)) := List.getLast?_eq_some_getLast (by simp)
    simp [endsWithNL, List.getLast?_append, this]

@[simp] theorem endsWithNL_nil : endsWithNL [] = false := rfl
@[simp] theorem endsWithNL_concat (a : Text) (c : Char) : endsWithNL (a ++ [c]) = (c == '\n') := by
  simp [endsWithNL]

theorem itemText_nil_or_nl (i : Nat) (t : Trivia) (h : t ≠ .comma) :
    itemText i t = [] ∨ endsWithNL (itemText i t) = true := by
  cases t with
  | emptyLine => right; rfl
  | linebreak => left; rfl
  | comma => exact absurd rfl h
  | comment c => right; simp [itemText]

theorem flatMap_itemText_nil_or_nl (i : Nat) (ts : List Trivia) (h : CommaFree ts) :
    ts.flatMap (itemText i) = [] ∨ endsWithNL (ts.flatMap (itemText i)) = true := by
  induction ts with
  | nil => left; rfl
  | cons t ts ih =>
    rw [List.flatMap_cons, endsWithNL_append]
    rcases ih (commaFree_cons h) with h0 | h1
    · rw [h0]; simpa using itemText_nil_or_nl i t (fun e => h (e ▸ List.mem_cons_self))
    · right
      cases hf : ts.flatMap (itemText i) with
      | nil => rw [hf] at h1; simp at h1
      | cons x xs => rw [hf] at h1; simpa using h1

theorem formatTrivia_nil_or_nl (ts : List Trivia) (i : Nat) (h : CommaFree ts) :
    formatTrivia ts i = [] ∨ endsWithNL (formatTrivia ts i) = true := by
  rw [formatTrivia_eq_flatMap ts i h]; exact flatMap_itemText_nil_or_nl i ts h

theorem formatTrivia_append (a b : List Trivia) (i : Nat) (h : CommaFree (a ++ b)) :
    formatTrivia (a ++ b) i = formatTrivia a i ++ formatTrivia b i := by
  rw [formatTrivia_eq_flatMap _ i h, formatTrivia_eq_flatMap _ i (commaFree_append.mp h).1,
    formatTrivia_eq_flatMap _ i (commaFree_append.mp h).2, List.flatMap_append]

theorem formatTrivia_eq_nil_iff (ts : List Trivia) (i : Nat) (h : CommaFree ts) :
    formatTrivia ts i = [] ↔ ts.all (· == .linebreak) = true := by
  rw [formatTrivia_eq_flatMap ts i h]
  induction ts with
  | nil => simp
  | cons t ts ih =>
    rw [List.flatMap_cons, List.append_eq_nil_iff, ih (commaFree_cons h), List.all_cons, Bool.and_eq_true]
    cases t with
    | comma => exact absurd List.mem_cons_self h
    | _ => simp [itemText]


/-! ### splitLines / joinLines -/

theorem splitLines_ne_nil : ∀ (s : Text), splitLines s ≠ []
  | [] => by simp [splitLines]
  | c :: cs => by
    unfold splitLines
    split
    · simp
    · split <;> simp

theorem splitLines_cons_nl (s : Text) : splitLines ('\n' :: s) = [] :: splitLines s := by
  rw [splitLines]
  split
  · rename_i h; exact absurd h (splitLines_ne_nil s)
  · rename_i h; simp [h]

theorem splitLines_cons_ne {c : Char} (hc : c ≠ '\n') (s : Text) :
    splitLines (c :: s) = (c :: (splitLines s).headD []) :: (splitLines s).tail := by
  rw [splitLines]
  split
  · rename_i h; exact absurd h (splitLines_ne_nil s)
  · rename_i h; simp [h, hc]

theorem splitLines_no_nl : ∀ (s : Text), containsNL s = false → splitLines s = [s]
  | [], _ => rfl
  | c :: cs, h => by
    rw [containsNL_cons, Bool.or_eq_false_iff] at h
    have hc : c ≠ '\n' := by simpa using h.1
    rw [splitLines_cons_ne hc, splitLines_no_nl cs h.2]; rfl

theorem splitLines_append_nl : ∀ (a b : Text), containsNL a = false →
    splitLines (a ++ '\n' :: b) = a :: splitLines b
  | [], b, _ => splitLines_cons_nl b
  | c :: a, b, h => by
    rw [containsNL_cons, Bool.or_eq_false_iff] at h
    have hc : c ≠ '\n' := by simpa using h.1
    rw [List.cons_append, splitLines_cons_ne hc, splitLines_append_nl a b h.2]; rfl

theorem splitLines_lines_no_nl : ∀ (s : Text), ∀ l ∈ splitLines s, containsNL l = false
  | [], l, h => by simp [splitLines] at h; subst h; rfl
  | c :: cs, l, h => by
    have ih := splitLines_lines_no_nl cs
    by_cases hc : c = '\n'
    · subst hc
      rw [splitLines_cons_nl] at h
      rcases List.mem_cons.mp h with rfl | h
      · rfl
      · exact ih l h
    · rw [splitLines_cons_ne hc] at h
      have hne := splitLines_ne_nil cs
      cases hs : splitLines cs with
      | nil => exact absurd hs hne
      | cons x xs =>
        rw [hs] at h ih
        simp only [List.headD_cons, List.tail_cons] at h
        rcases List.mem_cons.mp h with rfl | h
        · rw [containsNL_cons, ih x List.mem_cons_self]; simp [hc]
        · exact ih l (List.mem_cons_of_mem _ h)

theorem joinLines_cons_cons (a b : Text) (ls : List Text) :
    joinLines (a :: b :: ls) = a ++ '\n' :: joinLines (b :: ls) := rfl

theorem joinLines_splitLines : ∀ (s : Text), joinLines (splitLines s) = s
  | [] => rfl
  | c :: cs => by
    have ih := joinLines_splitLines cs
    have hne := splitLines_ne_nil cs
    by_cases hc : c = '\n'
    · subst hc
      rw [splitLines_cons_nl]
      cases hs : splitLines cs with
      | nil => exact absurd hs hne
      | cons x xs => rw [joinLines_cons_cons, ← hs, ih]; rfl
    · rw [splitLines_cons_ne hc]
      cases hs : splitLines cs with
      | nil => exact absurd hs hne
      | cons x xs =>
        rw [hs] at ih
        simp only [List.headD_cons, List.tail_cons]
        cases xs with
        | nil => simp only [joinLines] at ih ⊢; rw [ih]
        | cons y ys => rw [joinLines_cons_cons] at ih ⊢; rw [List.cons_append, ih]

theorem splitLines_joinLines : ∀ (ls : List Text), ls ≠ [] → (∀ l ∈ ls, containsNL l = false) →
    splitLines (joinLines ls) = ls
  | [], h, _ => absurd rfl h
  | [l], _, h => splitLines_no_nl l (h l List.mem_cons_self)
  | a :: b :: ls, _, h => by
    rw [joinLines_cons_cons, splitLines_append_nl a _ (h a List.mem_cons_self),
      splitLines_joinLines (b :: ls) (by simp) (fun l hl => h l (List.mem_cons_of_mem _ hl))]

theorem containsNL_joinLines_cons_cons (a b : Text) (ls : List Text) :
    containsNL (joinLines (a :: b :: ls)) = true := by
  rw [joinLines_cons_cons, containsNL_append, containsNL_cons]; simp

/-! ### comments never end in a line break and are never empty -/

theorem str_line_of_no_nl (c : Comment) (h : containsNL c.text = false) :
    c.str = if c.shebang then '#' :: '!' :: c.text
      else if c.text.isEmpty then ['#']
      else (if c.spaceAfterHash then ['#', ' '] else ['#']) ++ c.text := by
  unfold Comment.str
  rw [splitLines_no_nl _ h]
  by_cases hs : c.shebang = true
  · simp [hs]
  · simp only [hs, Bool.false_eq_true, if_false, List.map_cons, List.map_nil, joinLines]

theorem token_ne_nil (c : Comment) (i : Nat) (h : c.tokenLike = true) : c.token i ≠ [] := by
  unfold Comment.tokenLike at h
  unfold Comment.token
  cases hk : c.kind with
  | line =>
    rw [hk] at h
    simp only [Bool.not_eq_eq_eq_not, Bool.not_true] at h
    simp only [str_line_of_no_nl c h]
    split
    · simp
    · split
      · simp
      · split <;> simp
  | block doc inner =>
    simp only
    split
    · split <;> split <;> simp
    · split <;> simp

theorem getLast?_ne_nl_of_no_nl (s : Text) (h : containsNL s = false) : s.getLast? ≠ some '\n' := by
  intro hl
  have := List.mem_of_getLast? hl
  rw [containsNL_false_iff] at h
  exact h this

theorem endsWithNL_append_of_ne_nil (X Y : Text) (hY : Y ≠ []) : endsWithNL (X ++ Y) = endsWithNL Y := by
  rw [endsWithNL_append]
  cases Y with
  | nil => exact absurd rfl hY
  | cons y ys => rfl

theorem closer_not_nl (i : Nat) (b : Bool) :
    (if b then [' ', '*', '/'] else spaces i ++ ['*', '/']) ≠ [] ∧
    endsWithNL (if b then [' ', '*', '/'] else spaces i ++ ['*', '/']) = false := by
  cases b
  · constructor
    · simp
    · rw [if_neg (by simp), endsWithNL_append_of_ne_nil _ _ (by simp)]; rfl
  · exact ⟨by simp, rfl⟩

theorem token_not_endsWithNL (c : Comment) (i : Nat) (h : c.tokenLike = true) :
    endsWithNL (c.token i) = false := by
  unfold Comment.tokenLike at h
  unfold Comment.token
  cases hk : c.kind with
  | line =>
    rw [hk] at h
    simp only [Bool.not_eq_eq_eq_not, Bool.not_true] at h
    simp only [str_line_of_no_nl c h]
    have hl := getLast?_ne_nl_of_no_nl _ h
    cases ht : c.text with
    | nil => split <;> simp [endsWithNL]
    | cons x xs =>
      rw [ht] at hl
      have e : ∀ p : Text, endsWithNL (p ++ x :: xs) = false := by
        intro p
        rw [endsWithNL_append]; simp only [List.isEmpty_cons, Bool.false_eq_true, if_false]
        simpa [endsWithNL] using hl
      split
      · exact e ['#', '!']
      · simp only [List.isEmpty_cons, Bool.false_eq_true, if_false]
        split
        · exact e ['#', ' ']
        · exact e ['#']
  | block doc inner =>
    simp only
    split
    · have := closer_not_nl i (!endsWithNL c.text)
      rw [endsWithNL_append_of_ne_nil _ _ this.1]; exact this.2
    · rw [endsWithNL_append_of_ne_nil _ _ (by simp)]; rfl

theorem rebuild_ne_nil (c : Comment) (i : Nat) (h : c.tokenLike = true) : c.rebuild i ≠ [] := by
  rw [rebuild_eq_token]; simp [token_ne_nil c _ h]

theorem rebuild_not_endsWithNL (c : Comment) (i : Nat) (h : c.tokenLike = true) :
    endsWithNL (c.rebuild i) = false := by
  rw [rebuild_eq_token, endsWithNL_append]
  have := token_ne_nil c (c.effIndent i) h
  cases ht : c.token (c.effIndent i) with
  | nil => exact absurd ht this
  | cons x xs => rw [← ht]; simp only [ht, List.isEmpty_cons, Bool.false_eq_true, if_false]; rw [← ht]; exact token_not_endsWithNL c _ h



/-! ### apply_trailing_trivia -/

theorem applyTrailingTrivia_prefix (r : Text) (after : List Trivia) (i : Nat) :
    applyTrailingTrivia r after i = r ++ applyTrailingTrivia [] after i := by
  unfold applyTrailingTrivia
  split
  · simp
  · split <;> simp
  · simp

theorem trim_last_comment (init : List Trivia) (c : Comment) (s : Text) :
    trimTrailingLayoutNewline (init ++ [.comment c]) (s ++ ['\n']) = s := by
  simp [trimTrailingLayoutNewline, Trivia.isLayout]

theorem trim_last_comment_nil (init : List Trivia) (c : Comment) :
    trimTrailingLayoutNewline (init ++ [.comment c]) [] = [] := by
  simp [trimTrailingLayoutNewline, Trivia.isLayout]

theorem trim_last_layout (init : List Trivia) (t : Trivia) (ht : t.isLayout = true) (s : Text) :
    trimTrailingLayoutNewline (init ++ [t]) s = s := by
  simp [trimTrailingLayoutNewline, ht]

theorem formatTrivia_concat_comment (init : List Trivia) (c : Comment) (i : Nat) (h : CommaFree init) :
    formatTrivia (init ++ [.comment c]) i = (formatTrivia init i ++ c.rebuild i) ++ ['\n'] := by
  have h' : CommaFree (init ++ [.comment c]) := commaFree_append.mpr ⟨h, by simp [CommaFree]⟩
  rw [formatTrivia_append _ _ _ h', formatTrivia_eq_flatMap [.comment c] i (by simp [CommaFree])]
  simp [itemText]

theorem applyTrailingTrivia_eq (r : Text) (after : List Trivia) (i : Nat) (hne : after ≠ []) :
    applyTrailingTrivia r after i =
      match headInline after with
      | some (c, rest) => r ++ [' '] ++ c.rebuild 0 ++ nlBlock (trimTrailingLayoutNewline after (formatTrivia rest i))
      | none => r ++ nlBlock (trimTrailingLayoutNewline after (formatTrivia after i)) := by
  unfold applyTrailingTrivia
  split
  · exact absurd rfl hne
  · rename_i c rest
    by_cases hc : c.inline = true
    · simp [headInline, hc, nlBlock]
    · simp [headInline, hc, nlBlock]
  · rename_i hnc
    have : headInline after = none := by
      unfold headInline
      split
      · rename_i c rest; exact absurd rfl (hnc _ _)
      · rfl
    simp [this, nlBlock]

theorem headInline_some {ts : List Trivia} {c0 : Comment} {rest : List Trivia}
    (h : headInline ts = some (c0, rest)) : ts = .comment c0 :: rest ∧ c0.inline = true := by
  unfold headInline at h
  split at h
  · split at h
    · simp only [Option.some.injEq, Prod.mk.injEq] at h
      obtain ⟨rfl, rfl⟩ := h
      exact ⟨rfl, by assumption⟩
    · simp at h
  · simp at h

theorem nlBlock_ne_nil {s : Text} (h : s ≠ []) : nlBlock s = '\n' :: s := by
  cases s with
  | nil => exact absurd rfl h
  | cons x xs => rfl

theorem trailing_last_comment (r : Text) (init : List Trivia) (c : Comment) (i : Nat) (h : CommaFree init)
    (hc : c.tokenLike = true) :
    applyTrailingTrivia r (init ++ [.comment c]) i =
      match headInline (init ++ [.comment c]) with
      | some (c0, _) =>
        if init.isEmpty then r ++ ' ' :: c.rebuild 0
        else r ++ ' ' :: c0.rebuild 0 ++ '\n' :: formatTrivia init.tail i ++ c.rebuild i
      | none => r ++ '\n' :: formatTrivia init i ++ c.rebuild i := by
  rw [applyTrailingTrivia_eq _ _ _ (by simp)]
  cases hh : headInline (init ++ [.comment c]) with
  | none =>
    simp only
    rw [formatTrivia_concat_comment init c i h, trim_last_comment,
      nlBlock_ne_nil (by simp [rebuild_ne_nil c i hc])]
    simp
  | some p =>
    obtain ⟨c0, rest⟩ := p
    obtain ⟨h1, h2⟩ := headInline_some hh
    simp only
    cases init with
    | nil =>
      simp only [List.nil_append, List.cons.injEq, Trivia.comment.injEq] at h1
      obtain ⟨rfl, rfl⟩ := h1
      have : formatTrivia [] i = [] := rfl
      rw [this, trim_last_comment_nil]
      simp [nlBlock]
    | cons t init' =>
      simp only [List.cons_append, List.cons.injEq] at h1
      obtain ⟨rfl, rfl⟩ := h1
      rw [formatTrivia_concat_comment init' c i (commaFree_cons h), trim_last_comment,
        nlBlock_ne_nil (by simp [rebuild_ne_nil c i hc])]
      simp

theorem trailing_last_layout (r : Text) (init : List Trivia) (t : Trivia) (ht : t.isLayout = true) (i : Nat) :
    applyTrailingTrivia r (init ++ [t]) i =
      match headInline (init ++ [t]) with
      | some (c0, rest) => r ++ ' ' :: c0.rebuild 0 ++ nlBlock (formatTrivia rest i)
      | none => r ++ nlBlock (formatTrivia (init ++ [t]) i) := by
  rw [applyTrailingTrivia_eq _ _ _ (by simp)]
  simp only [trim_last_layout init t ht]
  split <;> simp


theorem leavesOpen_concat_comment (init : List Trivia) (c : Comment) :
    leavesOpenComment (init ++ [.comment c]) = true := by
  simp [leavesOpenComment, lastIsComment, Trivia.isComment]

theorem leavesOpen_concat_layout (init : List Trivia) (t : Trivia) (ht : t.isLayout = true) :
    leavesOpenComment (init ++ [t]) = inlineHeadOnly (init ++ [t]) := by
  have h1 : lastIsComment (init ++ [t]) = false := by
    cases t <;> simp [Trivia.isLayout, lastIsComment, Trivia.isComment] at ht ⊢
  unfold leavesOpenComment
  rw [h1, Bool.false_or]

theorem inlineHeadOnly_none {ts : List Trivia} (h : headInline ts = none) : inlineHeadOnly ts = false := by
  simp [inlineHeadOnly, h]
theorem inlineHeadOnly_some {ts : List Trivia} {c : Comment} {rest : List Trivia}
    (h : headInline ts = some (c, rest)) : inlineHeadOnly ts = rest.all (· == .linebreak) := by
  simp [inlineHeadOnly, h]

theorem trailing_open_iff (after : List Trivia) (i : Nat) (h : CommaFree after)
    (hc : ∀ c, .comment c ∈ after → c.tokenLike = true) :
    (applyTrailingTrivia [] after i ≠ [] ∧ endsWithNL (applyTrailingTrivia [] after i) = false) ↔
      leavesOpenComment after = true := by
  rcases List.eq_nil_or_concat after with rfl | ⟨init, t, he⟩
  · simp [applyTrailingTrivia, leavesOpenComment, lastIsComment, headInline, inlineHeadOnly]
  · rw [List.concat_eq_append] at he; subst he
    have hinit : CommaFree init := (commaFree_append.mp h).1
    by_cases ht : t.isLayout = true
    · rw [trailing_last_layout [] init t ht i, leavesOpen_concat_layout init t ht]
      cases hh : headInline (init ++ [t]) with
      | none =>
        rw [inlineHeadOnly_none hh]
        simp only [List.nil_append, Bool.false_eq_true, iff_false, not_and, Bool.not_eq_false]
        intro hne
        rcases formatTrivia_nil_or_nl (init ++ [t]) i h with h0 | h1
        · rw [h0] at hne; simp [nlBlock] at hne
        · have : formatTrivia (init ++ [t]) i ≠ [] := by intro h0; rw [h0] at h1; simp at h1
          rw [nlBlock_ne_nil this]
          rw [show '\n' :: formatTrivia (init ++ [t]) i = ['\n'] ++ formatTrivia (init ++ [t]) i from rfl,
            endsWithNL_append_of_ne_nil _ _ this]
          exact h1
      | some p =>
        obtain ⟨c0, rest⟩ := p
        obtain ⟨h1, h2⟩ := headInline_some hh
        have hrest : CommaFree rest := by rw [h1] at h; exact commaFree_cons h
        have hc0 : c0.tokenLike = true := hc c0 (by rw [h1]; exact List.mem_cons_self)
        simp only [List.nil_append]
        rw [inlineHeadOnly_some hh, ← formatTrivia_eq_nil_iff rest i hrest]
        constructor
        · rintro ⟨_, hnl⟩
          rcases formatTrivia_nil_or_nl rest i hrest with h0 | h1'
          · exact h0
          · exfalso
            have hne : formatTrivia rest i ≠ [] := by intro h0; rw [h0] at h1'; simp at h1'
            rw [nlBlock_ne_nil hne,
              show ' ' :: c0.rebuild 0 ++ '\n' :: formatTrivia rest i
                = (' ' :: c0.rebuild 0 ++ ['\n']) ++ formatTrivia rest i by simp,
              endsWithNL_append_of_ne_nil _ _ hne, h1'] at hnl
            simp at hnl
        · intro h0
          rw [h0]
          simp only [nlBlock, List.isEmpty_nil, if_true, List.append_nil]
          refine ⟨by simp, ?_⟩
          rw [show ' ' :: c0.rebuild 0 = [' '] ++ c0.rebuild 0 from rfl,
            endsWithNL_append_of_ne_nil _ _ (rebuild_ne_nil c0 0 hc0)]
          exact rebuild_not_endsWithNL c0 0 hc0
    · -- the last item is a comment
      cases t with
      | emptyLine => simp [Trivia.isLayout] at ht
      | linebreak => simp [Trivia.isLayout] at ht
      | comma => exact absurd (List.mem_append_right _ List.mem_cons_self) h
      | comment c =>
        have hct : c.tokenLike = true := hc c (List.mem_append_right _ List.mem_cons_self)
        rw [leavesOpen_concat_comment, trailing_last_comment [] init c i hinit hct]
        simp only [iff_true]
        have e : ∀ (pre : Text) (j : Nat), pre ++ c.rebuild j ≠ [] ∧ endsWithNL (pre ++ c.rebuild j) = false := by
          intro pre j
          refine ⟨by simp [rebuild_ne_nil c j hct], ?_⟩
          rw [endsWithNL_append_of_ne_nil _ _ (rebuild_ne_nil c j hct)]
          exact rebuild_not_endsWithNL c j hct
        split
        · split
          · exact e [' '] 0
          · rename_i c0 _ _ _
            have := e (' ' :: c0.rebuild 0 ++ '\n' :: formatTrivia init.tail i) i
            simpa using this
        · have := e ('\n' :: formatTrivia init i) i
          simpa using this

theorem trailing_open_suffix (after : List Trivia) (i : Nat) (h : CommaFree after)
    (hc : ∀ c, .comment c ∈ after → c.tokenLike = true) (ho : leavesOpenComment after = true) :
    ∃ c pre, .comment c ∈ after ∧ applyTrailingTrivia [] after i = pre ++ c.rebuild i := by
  rcases List.eq_nil_or_concat after with rfl | ⟨init, t, he⟩
  · simp [leavesOpenComment, lastIsComment, headInline, inlineHeadOnly] at ho
  · rw [List.concat_eq_append] at he; subst he
    have hinit : CommaFree init := (commaFree_append.mp h).1
    by_cases ht : t.isLayout = true
    · rw [leavesOpen_concat_layout init t ht] at ho
      rw [trailing_last_layout [] init t ht i]
      cases hh : headInline (init ++ [t]) with
      | none => rw [inlineHeadOnly_none hh] at ho; simp at ho
      | some p =>
        obtain ⟨c0, rest⟩ := p
        obtain ⟨h1, h2⟩ := headInline_some hh
        rw [inlineHeadOnly_some hh] at ho
        have hrest : CommaFree rest := by rw [h1] at h; exact commaFree_cons h
        rw [← formatTrivia_eq_nil_iff rest i hrest] at ho
        refine ⟨c0, [' '], by rw [h1]; exact List.mem_cons_self, ?_⟩
        simp [ho, nlBlock, rebuild_inline c0 i h2]
    · cases t with
      | emptyLine => simp [Trivia.isLayout] at ht
      | linebreak => simp [Trivia.isLayout] at ht
      | comma => exact absurd (List.mem_append_right _ List.mem_cons_self) h
      | comment c =>
        have hct : c.tokenLike = true := hc c (List.mem_append_right _ List.mem_cons_self)
        refine ⟨c, ?_⟩
        rw [trailing_last_comment [] init c i hinit hct]
        split
        · split
          · rename_i c0 rest hh hie
            obtain ⟨h1, h2⟩ := headInline_some hh
            have : init = [] := by simpa using hie
            subst this
            simp only [List.nil_append, List.cons.injEq, Trivia.comment.injEq] at h1
            obtain ⟨rfl, rfl⟩ := h1
            exact ⟨[' '], by simp, by simp [rebuild_inline _ i h2]⟩
          · rename_i c0 _ _ _
            exact ⟨' ' :: c0.rebuild 0 ++ '\n' :: formatTrivia init.tail i, by simp, by simp⟩
        · exact ⟨'\n' :: formatTrivia init i, by simp, by simp⟩


/-! ### format_interstitial_trivia -/

theorem interGo_step (i : Nat) (nl : Bool) (t : Trivia) (rest : List Trivia) (acc : Text) :
    formatInterstitialGo i nl (t :: rest) acc =
      formatInterstitialGo i nl rest (acc ++ piecesText (interItemPieces i nl acc t)) := by
  cases t with
  | emptyLine =>
    rw [formatInterstitialGo]
    by_cases h : endsWithNL acc = true <;> simp [interItemPieces, interGlue, piecesText, Piece.text, h]
  | linebreak =>
    rw [formatInterstitialGo]
    by_cases h : endsWithNL acc = true <;> simp [interItemPieces, interGlue, piecesText, Piece.text, h]
  | comma => rw [formatInterstitialGo]; simp [interItemPieces, interGlue, piecesText, Piece.text]
  | comment c =>
    rw [formatInterstitialGo]
    by_cases hi : c.inline = true
    · have hr : c.rebuild 0 = c.token 0 := by
        rw [rebuild_eq_token]; simp [Comment.effIndent, hi]
      simp only [hi, if_true, hr]
      congr 1
      cases acc with
      | nil => cases nl <;> simp [interItemPieces, interGlue, piecesText, Piece.text, hi]
      | cons a as =>
        by_cases h2 : ((a :: as).getLast? == some ' ' || endsWithNL (a :: as)) = true
        · cases nl <;> simp [interItemPieces, interGlue, piecesText, Piece.text, hi, h2]
        · cases nl <;> simp [interItemPieces, interGlue, piecesText, Piece.text, hi, h2]
    · have hr : c.rebuild i = spaces i ++ c.token i := by
        rw [rebuild_eq_token]; simp [Comment.effIndent, hi]
      simp only [hi, Bool.false_eq_true, if_false, hr]
      congr 1
      by_cases h2 : (!acc.isEmpty && !endsWithNL acc) = true
      · simp [interItemPieces, interGlue, piecesText, Piece.text, hi, h2]
      · simp [interItemPieces, interGlue, piecesText, Piece.text, hi, h2]

theorem interGo_pieces (i : Nat) (nl : Bool) : ∀ (ts : List Trivia) (acc : Text),
    formatInterstitialGo i nl ts acc = acc ++ piecesText (interPieces i nl ts acc)
  | [], acc => by simp [formatInterstitialGo, interPieces, piecesText]
  | t :: rest, acc => by
    rw [interGo_step, interGo_pieces i nl rest, interPieces, piecesText_append, List.append_assoc]

theorem interPieces_comments (i : Nat) (nl : Bool) : ∀ (ts : List Trivia) (acc : Text),
    (interPieces i nl ts acc).filterMap Piece.cmt? = commentTokens i ts
  | [], acc => rfl
  | t :: rest, acc => by
    rw [interPieces, List.filterMap_append, interPieces_comments i nl rest]
    cases t with
    | comment c =>
      by_cases hi : c.inline = true
      · cases nl <;> simp [interItemPieces, hi, Piece.cmt?, commentTokens, Comment.effIndent, List.filterMap_cons]
      · simp [interItemPieces, hi, Piece.cmt?, commentTokens, Comment.effIndent, List.filterMap_cons]
    | _ => simp [interItemPieces, Piece.cmt?, commentTokens, List.filterMap_cons]

/-- The rendering depends on the text rendered before only through its last character. -/
theorem interItemPieces_append (i : Nat) (nl : Bool) (a b : Text) (hb : b ≠ []) (t : Trivia) :
    interItemPieces i nl (a ++ b) t = interItemPieces i nl b t := by
  have h1 : endsWithNL (a ++ b) = endsWithNL b := endsWithNL_append_of_ne_nil a b hb
  have h2 : (a ++ b).getLast? = b.getLast? := by
    cases b with
    | nil => exact absurd rfl hb
    | cons x xs => simp [List.getLast?_eq_some_getLast]
  have h3 : (a ++ b).isEmpty = false := by cases b with
    | nil => exact absurd rfl hb
    | cons x xs => simp
  have h4 : b.isEmpty = false := by cases b with
    | nil => exact absurd rfl hb
    | cons x xs => rfl
  cases t <;> simp [interItemPieces, interGlue, h1, h2, h3, h4]

theorem interPieces_append (i : Nat) (nl : Bool) : ∀ (ts : List Trivia) (a b : Text), b ≠ [] →
    interPieces i nl ts (a ++ b) = interPieces i nl ts b
  | [], _, _, _ => rfl
  | t :: rest, a, b, hb => by
    rw [interPieces, interPieces, interItemPieces_append i nl a b hb, List.append_assoc,
      interPieces_append i nl rest a _ (by simp [hb])]

theorem interGo_append (i : Nat) (nl : Bool) (ts : List Trivia) (a b : Text) (hb : b ≠ []) :
    formatInterstitialGo i nl ts (a ++ b) = a ++ formatInterstitialGo i nl ts b := by
  rw [interGo_pieces, interGo_pieces, interPieces_append i nl ts a b hb, List.append_assoc]

/-- At a line start, without inline comments, interstitial rendering is the flatMap form of
    `format_trivia`. -/
theorem interGo_at_line_start (i : Nat) (nl : Bool) : ∀ (ts : List Trivia) (acc : Text),
    CommaFree ts → (∀ t ∈ ts, t.isInlineComment = false) → endsWithNL acc = true →
    formatInterstitialGo i nl ts acc = acc ++ ts.flatMap (itemText i)
  | [], acc, _, _, _ => by simp [formatInterstitialGo]
  | t :: rest, acc, hcf, hin, hacc => by
    have hne : acc ≠ [] := by intro h; rw [h] at hacc; simp at hacc
    have hemp : acc.isEmpty = false := by cases acc with
      | nil => exact absurd rfl hne
      | cons x xs => rfl
    have hrest := fun acc' h' => interGo_at_line_start i nl rest acc' (commaFree_cons hcf)
      (fun t ht => hin t (List.mem_cons_of_mem _ ht)) h'
    cases t with
    | emptyLine =>
      rw [formatInterstitialGo, hrest _ (by simp [hacc])]; simp [hacc, itemText]
    | linebreak =>
      rw [formatInterstitialGo, hrest _ (by simp [hacc])]; simp [hacc, itemText]
    | comma => exact absurd List.mem_cons_self hcf
    | comment c =>
      have hi : c.inline = false := by simpa [Trivia.isInlineComment] using hin _ List.mem_cons_self
      rw [formatInterstitialGo]
      simp only [hi, Bool.false_eq_true, if_false, hemp, hacc, Bool.not_false, Bool.not_true, Bool.and_false]
      rw [hrest _ (endsWithNL_concat _ _)]; simp [itemText]


/-! ### strip -/

/-- no white space at either end -/
def Stripped (p : Char → Bool) (s : Text) : Prop :=
  (∀ c, s.head? = some c → p c = false) ∧ (∀ c, s.getLast? = some c → p c = false)

def rstripBy (p : Char → Bool) (s : Text) : Text := (s.reverse.dropWhile p).reverse
def stripBy (p : Char → Bool) (s : Text) : Text := rstripBy p (s.dropWhile p)

theorem strip_eq_stripBy (s : Text) : strip s = stripBy isPyWhitespace s := rfl
theorem stripSpaces_eq_stripBy (s : Text) : stripSpaces s = stripBy (· == ' ') s := rfl
theorem rstripSpaces_eq_rstripBy (s : Text) : rstripSpaces s = rstripBy (· == ' ') s := rfl

theorem head?_dropWhile_false (p : Char → Bool) (s : Text) (c : Char)
    (h : (s.dropWhile p).head? = some c) : p c = false := by
  have := List.head?_dropWhile_not p s
  rw [h] at this
  simpa using this

theorem rstripBy_append_tail (p : Char → Bool) (s : Text) :
    rstripBy p s ++ (s.reverse.takeWhile p).reverse = s := by
  unfold rstripBy
  rw [← List.reverse_append, List.takeWhile_append_dropWhile, List.reverse_reverse]

theorem getLast?_rstripBy (p : Char → Bool) (s : Text) (c : Char)
    (h : (rstripBy p s).getLast? = some c) : p c = false := by
  unfold rstripBy at h
  rw [List.getLast?_reverse] at h
  exact head?_dropWhile_false p _ c h

theorem head?_rstripBy (p : Char → Bool) (s : Text) (c : Char)
    (h : (rstripBy p s).head? = some c) : s.head? = some c := by
  have := rstripBy_append_tail p s
  cases hr : rstripBy p s with
  | nil => rw [hr] at h; simp at h
  | cons x xs =>
    rw [hr] at h this
    rw [← this]; simpa using h

theorem stripBy_stripped (p : Char → Bool) (s : Text) : Stripped p (stripBy p s) := by
  constructor
  · intro c h
    exact head?_dropWhile_false p s c (head?_rstripBy p _ c h)
  · intro c h
    exact getLast?_rstripBy p _ c h

theorem rstripBy_of_last (p : Char → Bool) (s : Text) (h : ∀ c, s.getLast? = some c → p c = false) :
    rstripBy p s = s := by
  unfold rstripBy
  cases hr : s.reverse with
  | nil => simp at hr; subst hr; rfl
  | cons x xs =>
    have : s.getLast? = some x := by rw [← List.head?_reverse, hr]; rfl
    rw [List.dropWhile_cons_of_neg (by simp [h x this]), ← hr, List.reverse_reverse]

theorem rstripBy_concat_pos (p : Char → Bool) (s : Text) (c : Char) (h : p c = true) :
    rstripBy p (s ++ [c]) = rstripBy p s := by
  simp [rstripBy, List.dropWhile_cons_of_pos h]

theorem stripBy_pad (p : Char → Bool) (x : Text) (hx : Stripped p x) (a b : Char) (ha : p a = true)
    (hb : p b = true) : stripBy p (a :: x ++ [b]) = x := by
  unfold stripBy
  rw [List.cons_append, List.dropWhile_cons_of_pos ha]
  cases x with
  | nil => simp [List.dropWhile_cons_of_pos hb, rstripBy]
  | cons c x' =>
    rw [List.cons_append, List.dropWhile_cons_of_neg (by simp [hx.1 c rfl]), ← List.cons_append,
      rstripBy_concat_pos p _ b hb, rstripBy_of_last p _ hx.2]

theorem stripBy_of_stripped (p : Char → Bool) (x : Text) (hx : Stripped p x) : stripBy p x = x := by
  unfold stripBy
  cases x with
  | nil => rfl
  | cons c x' =>
    rw [List.dropWhile_cons_of_neg (by simp [hx.1 c rfl]), rstripBy_of_last p _ hx.2]

theorem stripBy_sublist (p : Char → Bool) (s : Text) : (stripBy p s).Sublist s := by
  unfold stripBy rstripBy
  exact ((List.reverse_sublist.mpr (List.dropWhile_sublist p)).trans (by simp)).trans (List.dropWhile_sublist p)

theorem containsNL_of_sublist {a b : Text} (h : a.Sublist b) (hb : containsNL b = false) :
    containsNL a = false := by
  rw [containsNL_false_iff] at hb ⊢
  exact fun hm => hb (h.subset hm)

/-- `strip` is idempotent (for Python's `isspace` class). -/
theorem strip_idem (s : Text) : strip (strip s) = strip s :=
  stripBy_of_stripped _ _ (stripBy_stripped _ s)


/-! ### Comment.from_cst on line comments -/

theorem fromText_shebang (col : Nat) (r : Text) :
    Comment.fromText col ('#' :: '!' :: r) = { text := r, shebang := true } := by
  simp [Comment.fromText, startsWith, List.isPrefixOf]

theorem fromText_hash_space (col : Nat) (r : Text) :
    Comment.fromText col ('#' :: ' ' :: r) = { text := r, spaceAfterHash := true } := by
  simp [Comment.fromText, startsWith, List.isPrefixOf]

theorem fromText_hash_other (col : Nat) (r : Text) (h1 : r.head? ≠ some '!') (h2 : r.head? ≠ some ' ') :
    Comment.fromText col ('#' :: r) = { text := r, spaceAfterHash := false } := by
  cases r with
  | nil => simp [Comment.fromText, startsWith, List.isPrefixOf]
  | cons x xs =>
    have hx : ¬ '!' = x := fun e => h1 (by rw [e]; rfl)
    have hy : ¬ ' ' = x := fun e => h2 (by rw [e]; rfl)
    simp [Comment.fromText, startsWith, List.isPrefixOf, hx, hy]

theorem hash_cases (r : Text) :
    (∃ r', r = '!' :: r') ∨ (∃ r', r = ' ' :: r') ∨ (r.head? ≠ some '!' ∧ r.head? ≠ some ' ') := by
  cases r with
  | nil => exact Or.inr (Or.inr ⟨by simp, by simp⟩)
  | cons x xs =>
    by_cases hx : x = '!'
    · exact Or.inl ⟨xs, by rw [hx]⟩
    · by_cases hy : x = ' '
      · exact Or.inr (Or.inl ⟨xs, by rw [hy]⟩)
      · exact Or.inr (Or.inr ⟨by simpa using hx, by simpa using hy⟩)

theorem fromText_hash_col (c1 c2 : Nat) (r : Text) :
    Comment.fromText c1 ('#' :: r) = Comment.fromText c2 ('#' :: r) := by
  rcases hash_cases r with ⟨r', rfl⟩ | ⟨r', rfl⟩ | ⟨h1, h2⟩
  · rw [fromText_shebang, fromText_shebang]
  · rw [fromText_hash_space, fromText_hash_space]
  · rw [fromText_hash_other _ _ h1 h2, fromText_hash_other _ _ h1 h2]

theorem line_comment_kind (col : Nat) (r : Text) :
    (Comment.fromText col ('#' :: r)).kind = .line ∧ (Comment.fromText col ('#' :: r)).inline = false := by
  rcases hash_cases r with ⟨r', rfl⟩ | ⟨r', rfl⟩ | ⟨h1, h2⟩
  · rw [fromText_shebang]; exact ⟨rfl, rfl⟩
  · rw [fromText_hash_space]; exact ⟨rfl, rfl⟩
  · rw [fromText_hash_other _ _ h1 h2]; exact ⟨rfl, rfl⟩

theorem line_comment_str (col : Nat) (r : Text) (hnl : containsNL r = false) :
    (Comment.fromText col ('#' :: r)).str = if r = [' '] then ['#'] else '#' :: r := by
  rcases hash_cases r with ⟨r', rfl⟩ | ⟨r', rfl⟩ | ⟨h1, h2⟩
  · rw [fromText_shebang]; simp [Comment.str]
  · rw [fromText_hash_space]
    have hnl' : containsNL r' = false := by
      rw [containsNL_cons] at hnl; simpa using hnl
    rw [str_line_of_no_nl _ hnl']
    cases r' <;> simp
  · rw [fromText_hash_other _ _ h1 h2, str_line_of_no_nl _ hnl]
    cases r with
    | nil => simp
    | cons x xs =>
      have : x ≠ ' ' := fun e => h2 (by rw [e]; rfl)
      simp [this]

theorem line_comment_rebuild (col i : Nat) (r : Text) (hnl : containsNL r = false) :
    (Comment.fromText col ('#' :: r)).rebuild i = spaces i ++ (if r = [' '] then ['#'] else '#' :: r) := by
  have := line_comment_kind col r
  rw [← line_comment_str col r hnl]
  simp [Comment.rebuild, this.1, this.2]


/-! ### Comment.from_cst on block comments: decomposition -/

def blockDoc (t : Text) : Bool := startsWith ['/', '*', '*'] t
def blockOpening (doc : Bool) : Text := if doc then ['/', '*', '*'] else ['/', '*']
/-- the text between the delimiters -/
def blockInner (t : Text) : Text :=
  let inner0 := t.drop (if blockDoc t then 3 else 2)
  if endsWith ['*', '/'] inner0 then inner0.take (inner0.length - 2) else inner0

def mlFirst (inner : Text) : Text := stripSpaces ((splitLines inner).headD [])
def mlRestRaw (inner : Text) : List Text :=
  match ((splitLines inner).drop 1).reverse with
  | [] => []
  | l :: ls => (rstripSpaces l :: ls).reverse
def isBlankLine (ln : Text) : Bool := (strip ln).isEmpty
def minIndent (lines : List Text) : Nat :=
  match (lines.filter fun ln => !isBlankLine ln).map leadingSpaces with
  | [] => 0
  | x :: xs => xs.foldl min x
def mlBody (normalized : List Text) : List Text :=
  if minIndent normalized > 0 then normalized.map (dropPrefixIf (spaces (minIndent normalized))) else normalized
def mlNormalized (col : Nat) (inner : Text) : List Text := (mlRestRaw inner).map (dropPrefixIf (spaces col))

theorem fromText_block (col : Nat) (t : Text) (h : startsWith ['/', '*'] t = true) :
    Comment.fromText col t =
      if containsNL (blockInner t) then
        { text := joinLines (mlFirst (blockInner t) :: mlBody (mlNormalized col (blockInner t))),
          kind := .block (blockDoc t) (some (minIndent (mlNormalized col (blockInner t)))) }
      else { text := strip (blockInner t), kind := .block (blockDoc t) none } := by
  unfold Comment.fromText
  simp only [h, if_true]
  rfl

theorem endsWith_append_self (a p : Text) : endsWith p (a ++ p) = true := by
  simp [endsWith]

theorem take_append_sub (a p : Text) : (a ++ p).take ((a ++ p).length - p.length) = a := by
  simp

theorem blockDoc_opening (doc : Bool) (c : Char) (hc : c ≠ '*') (s : Text) :
    blockDoc (blockOpening doc ++ c :: s) = doc := by
  cases doc <;> simp [blockDoc, blockOpening, startsWith, List.isPrefixOf, Ne.symm hc]

theorem startsWith_opening (doc : Bool) (s : Text) : startsWith ['/', '*'] (blockOpening doc ++ s) = true := by
  cases doc <;> simp [blockOpening, startsWith, List.isPrefixOf]

theorem blockInner_opening (doc : Bool) (c : Char) (hc : c ≠ '*') (s : Text) :
    blockInner (blockOpening doc ++ c :: s ++ ['*', '/']) = c :: s := by
  unfold blockInner
  have hd : blockDoc (blockOpening doc ++ c :: s ++ ['*', '/']) = doc := by
    rw [List.append_assoc]; exact blockDoc_opening doc c hc _
  have : (blockOpening doc ++ c :: s ++ ['*', '/']).drop (if doc = true then 3 else 2) = (c :: s) ++ ['*', '/'] := by
    cases doc <;> simp [blockOpening]
  simp only [hd, this, endsWith_append_self, if_true]
  exact take_append_sub (c :: s) ['*', '/']

/-- single-line block comments: the rendered token is read back as the same comment -/
theorem fromText_single_block (col : Nat) (doc : Bool) (x : Text) (hx : Stripped isPyWhitespace x)
    (hnl : containsNL x = false) :
    Comment.fromText col (blockOpening doc ++ [' '] ++ x ++ [' ', '*', '/']) =
      { text := x, kind := .block doc none } := by
  have e : blockOpening doc ++ [' '] ++ x ++ [' ', '*', '/'] = blockOpening doc ++ ' ' :: (x ++ [' ']) ++ ['*', '/'] := by
    simp
  rw [e, fromText_block _ _ (by rw [List.append_assoc]; exact startsWith_opening doc _),
    blockInner_opening doc ' ' (by decide)]
  have hnl' : containsNL (' ' :: (x ++ [' '])) = false := by
    rw [containsNL_cons, containsNL_append, hnl]; rfl
  simp only [hnl', Bool.false_eq_true, if_false]
  rw [List.append_assoc, List.cons_append, blockDoc_opening doc ' ' (by decide), strip_eq_stripBy]
  have := stripBy_pad isPyWhitespace x hx ' ' ' ' (by decide) (by decide)
  rw [List.cons_append] at this
  rw [this]


/-! ### multi-line block comments: canonical form and fixed point -/

def padLine (k : Nat) (ln : Text) : Text := if ln.isEmpty then [] else spaces k ++ ln

structure CanonML (first : Text) (body : List Text) (m : Nat) : Prop where
  first_nl : containsNL first = false
  first_stripped : Stripped (· == ' ') first
  body_ne : body ≠ []
  body_nl : ∀ l ∈ body, containsNL l = false
  last_rstripped : ∀ l, body.getLast? = some l → ∀ c, l.getLast? = some c → c ≠ ' '
  indent : minIndent (body.map (padLine m)) = m

theorem joinLines_flatMap (a : Text) : ∀ (L : List Text),
    a ++ L.flatMap (fun l => '\n' :: l) = joinLines (a :: L)
  | [] => by simp [joinLines]
  | b :: L => by
    rw [joinLines_cons_cons, ← joinLines_flatMap b L]; simp

theorem joinLines_concat_append : ∀ (xs : List Text) (y w : Text),
    joinLines (xs ++ [y]) ++ w = joinLines (xs ++ [y ++ w])
  | [], y, w => by simp [joinLines]
  | [x], y, w => by simp [joinLines]
  | x :: x' :: xs, y, w => by
    have := joinLines_concat_append (x' :: xs) y w
    simp only [List.cons_append] at this ⊢
    rw [joinLines_cons_cons, joinLines_cons_cons, List.append_assoc, List.cons_append, this]

theorem containsNL_padLine (k : Nat) (l : Text) (h : containsNL l = false) : containsNL (padLine k l) = false := by
  unfold padLine; split
  · rfl
  · rw [containsNL_append, containsNL_spaces, h]; rfl

theorem spaces_add (a b : Nat) : spaces (a + b) = spaces a ++ spaces b := by
  simp [spaces, List.replicate_append_replicate]

theorem startsWith_append_self (p s : Text) : startsWith p (p ++ s) = true := by
  simp [startsWith]

theorem dropWhile_eq_nil_of_all (p : Char → Bool) : ∀ (l : Text), (∀ c ∈ l, p c = true) → l.dropWhile p = []
  | [], _ => rfl
  | x :: l, h => by
    rw [List.dropWhile_cons_of_pos (h x List.mem_cons_self)]
    exact dropWhile_eq_nil_of_all p l (fun c hc => h c (List.mem_cons_of_mem _ hc))

theorem all_of_dropWhile_eq_nil (p : Char → Bool) : ∀ (l : Text), l.dropWhile p = [] → ∀ c ∈ l, p c = true
  | [], _, c, hc => by simp at hc
  | x :: l, h, c, hc => by
    by_cases hx : p x = true
    · rw [List.dropWhile_cons_of_pos hx] at h
      rcases List.mem_cons.mp hc with rfl | hc
      · exact hx
      · exact all_of_dropWhile_eq_nil p l h c hc
    · rw [List.dropWhile_cons_of_neg hx] at h; simp at h

theorem getLast?_append_ne_nil (a b : Text) (hb : b ≠ []) : (a ++ b).getLast? = b.getLast? := by
  cases b with
  | nil => exact absurd rfl hb
  | cons x xs => simp [List.getLast?_eq_some_getLast]

theorem dropPrefixIf_append (p s : Text) : dropPrefixIf p (p ++ s) = s := by
  unfold dropPrefixIf
  cases p with
  | nil => simp
  | cons x xs =>
    have := startsWith_append_self (x :: xs) s
    simp only [List.isEmpty_cons, Bool.not_false, Bool.true_and, this, if_true]
    simp

theorem dropPrefixIf_nil (p : Text) : dropPrefixIf p [] = [] := by
  unfold dropPrefixIf; split <;> simp

theorem dropPrefixIf_padLine (i m : Nat) (l : Text) :
    dropPrefixIf (spaces i) (padLine (i + m) l) = padLine m l := by
  unfold padLine
  split
  · exact dropPrefixIf_nil _
  · rw [spaces_add, List.append_assoc, dropPrefixIf_append]

theorem dropPrefixIf_padLine_self (m : Nat) (l : Text) : dropPrefixIf (spaces m) (padLine m l) = l := by
  unfold padLine
  split
  · rename_i h; rw [dropPrefixIf_nil]; simpa using h.symm
  · exact dropPrefixIf_append _ _

theorem padLine_zero (l : Text) : padLine 0 l = l := by
  unfold padLine; split
  · rename_i h; simpa using h.symm
  · simp

theorem rstripBy_spaces (k : Nat) : rstripBy (· == ' ') (spaces k) = [] := by
  unfold rstripBy
  have : (spaces k).reverse = spaces k := by simp [spaces]
  rw [this]
  have : (spaces k).dropWhile (· == ' ') = [] := by
    apply dropWhile_eq_nil_of_all; intro c hc; simp [mem_spaces hc]
  rw [this]; rfl

theorem rstrip_rendered_last (k i : Nat) (bl : Text) (h : ∀ c, bl.getLast? = some c → c ≠ ' ') :
    rstripSpaces (padLine k bl ++ (if bl.isEmpty then spaces i else [' '])) = padLine k bl := by
  rw [rstripSpaces_eq_rstripBy]
  cases bl with
  | nil => simp [padLine, rstripBy_spaces]
  | cons x xs =>
    simp only [padLine, List.isEmpty_cons, Bool.false_eq_true, if_false]
    rw [rstripBy_concat_pos _ _ ' ' (by decide)]
    apply rstripBy_of_last
    intro c hc
    rw [getLast?_append_ne_nil _ _ (by simp)] at hc
    simpa using h c hc


def mlComment (first : Text) (body : List Text) (m : Nat) (doc : Bool) : Comment :=
  { text := joinLines (first :: body), kind := .block doc (some m) }

theorem canon_lines {first : Text} {body : List Text} {m : Nat} (h : CanonML first body m) :
    splitLines (joinLines (first :: body)) = first :: body :=
  splitLines_joinLines _ (by simp) (by
    intro l hl
    rcases List.mem_cons.mp hl with rfl | hl
    · exact h.first_nl
    · exact h.body_nl l hl)

theorem canon_containsNL {first : Text} {body : List Text} {m : Nat} (h : CanonML first body m) :
    containsNL (joinLines (first :: body)) = true := by
  cases hb : body with
  | nil => exact absurd hb h.body_ne
  | cons b bs => exact containsNL_joinLines_cons_cons _ _ _

theorem canon_startsWithNL {first : Text} {body : List Text} {m : Nat} (h : CanonML first body m) :
    startsWithNL (joinLines (first :: body)) = first.isEmpty := by
  cases hb : body with
  | nil => exact absurd hb h.body_ne
  | cons b bs =>
    rw [joinLines_cons_cons]
    cases hf : first with
    | nil => rfl
    | cons x xs =>
      have : x ≠ '\n' := by
        have := h.first_nl; rw [hf, containsNL_cons] at this; simp at this; exact this.1
      simp [startsWithNL, this]

theorem endsWithNL_joinLines_concat : ∀ (xs : List Text) (y : Text), containsNL y = false →
    endsWithNL (joinLines (xs ++ [y])) = (!xs.isEmpty && y.isEmpty)
  | [], y, h => by
    simp only [List.nil_append, joinLines, List.isEmpty_nil, Bool.not_true, Bool.false_and]
    have := getLast?_ne_nl_of_no_nl y h
    simpa [endsWithNL] using this
  | [x], y, h => by
    simp only [List.cons_append, List.nil_append, joinLines]
    cases y with
    | nil => simp
    | cons c cs =>
      rw [show x ++ '\n' :: c :: cs = (x ++ ['\n']) ++ c :: cs by simp,
        endsWithNL_append_of_ne_nil _ _ (by simp)]
      have := getLast?_ne_nl_of_no_nl _ h
      simpa [endsWithNL] using this
  | x :: x' :: xs, y, h => by
    have ih := endsWithNL_joinLines_concat (x' :: xs) y h
    simp only [List.cons_append] at ih ⊢
    rw [joinLines_cons_cons, show x ++ '\n' :: joinLines (x' :: (xs ++ [y])) = (x ++ ['\n']) ++ joinLines (x' :: (xs ++ [y])) by simp]
    by_cases hj : joinLines (x' :: (xs ++ [y])) = []
    · -- impossible only if everything is empty; then the text ends with the separator
      rw [hj] at ih ⊢
      simp only [List.append_nil, endsWithNL_concat]
      simp at ih
      cases y with
      | nil => simp
      | cons c cs => 
        exfalso
        cases xs with
        | nil => simp [joinLines] at hj
        | cons z zs => simp [joinLines_cons_cons] at hj
    · rw [endsWithNL_append_of_ne_nil _ _ hj, ih]; simp

/-- the shape of the rendered token of a canonical multi-line block comment -/
theorem canon_token (first : Text) (bs : List Text) (bl : Text) (m : Nat) (doc b : Bool) (i : Nat)
    (h : CanonML first (bs ++ [bl]) m) :
    ({ mlComment first (bs ++ [bl]) m doc with inline := b } : Comment).token i =
      blockOpening doc ++
        joinLines (((if first.isEmpty then [] else [' ']) ++ first) ::
          (bs.map (padLine (i + m)) ++ [padLine (i + m) bl ++ (if bl.isEmpty then spaces i else [' '])])) ++
        ['*', '/'] := by
  unfold Comment.token mlComment
  simp only [canon_containsNL h, if_true, canon_lines h, canon_startsWithNL h, List.drop_succ_cons,
    List.drop_zero, List.headD_cons, Option.getD_some]
  have hends : endsWithNL (joinLines (first :: (bs ++ [bl]))) = bl.isEmpty := by
    rw [← List.cons_append, endsWithNL_joinLines_concat _ _ (h.body_nl bl (by simp))]; simp
  rw [hends]
  have hfm : ((bs ++ [bl]).flatMap fun ln => if ln.isEmpty = true then ['\n'] else '\n' :: spaces (i + m) ++ ln)
      = ((bs ++ [bl]).map (padLine (i + m))).flatMap (fun l => '\n' :: l) := by
    rw [List.flatMap_map]
    congr 1; funext ln
    unfold padLine; split <;> simp
  rw [hfm]
  have e1 : (if first.isEmpty = true then blockOpening doc else blockOpening doc ++ [' '])
      = blockOpening doc ++ (if first.isEmpty then [] else [' ']) := by split <;> simp
  have e0 : (if doc = true then ['/', '*', '*'] else ['/', '*']) = blockOpening doc := rfl
  rw [e0, e1]
  simp only [List.append_assoc]
  congr 1
  have e2 : (if (!bl.isEmpty) = true then [' ', '*', '/'] else spaces i ++ ['*', '/'])
      = (if bl.isEmpty then spaces i else [' ']) ++ ['*', '/'] := by
    cases bl <;> simp
  rw [e2, ← List.append_assoc, ← List.append_assoc, joinLines_flatMap, List.map_append, List.map_cons,
    List.map_nil, ← List.cons_append, joinLines_concat_append]
  conv => rhs; rw [← List.cons_append, joinLines_concat_append]
  simp only [List.append_assoc]


theorem stripSpaces_pad_first (first : Text) (h : Stripped (· == ' ') first) :
    stripSpaces ((if first.isEmpty then [] else [' ']) ++ first) = first := by
  rw [stripSpaces_eq_stripBy]
  cases first with
  | nil => rfl
  | cons x xs =>
    simp only [List.isEmpty_cons, Bool.false_eq_true, if_false, List.cons_append, List.nil_append]
    unfold stripBy
    rw [List.dropWhile_cons_of_pos (by decide)]
    exact stripBy_of_stripped _ _ h

theorem mlRestRaw_eq (a : Text) (rs : List Text) (y : Text) (ha : containsNL a = false)
    (hrs : ∀ l ∈ rs, containsNL l = false) (hy : containsNL y = false) :
    splitLines (joinLines (a :: (rs ++ [y]))) = a :: (rs ++ [y]) ∧
    mlRestRaw (joinLines (a :: (rs ++ [y]))) = rs ++ [rstripSpaces y] := by
  have hs : splitLines (joinLines (a :: (rs ++ [y]))) = a :: (rs ++ [y]) :=
    splitLines_joinLines _ (by simp) (by
      intro l hl
      rcases List.mem_cons.mp hl with rfl | hl
      · exact ha
      · rcases List.mem_append.mp hl with hl | hl
        · exact hrs l hl
        · simp at hl; rw [hl]; exact hy)
  refine ⟨hs, ?_⟩
  unfold mlRestRaw
  rw [hs]
  simp

theorem canon_fixed (first : Text) (bs : List Text) (bl : Text) (m : Nat) (doc b : Bool) (i : Nat)
    (h : CanonML first (bs ++ [bl]) m) :
    Comment.fromText i (({ mlComment first (bs ++ [bl]) m doc with inline := b } : Comment).token i)
      = mlComment first (bs ++ [bl]) m doc := by
  rw [canon_token first bs bl m doc b i h]
  generalize hA : (if first.isEmpty then [] else [' ']) ++ first = A
  generalize hy : padLine (i + m) bl ++ (if bl.isEmpty then spaces i else [' ']) = y
  have hbl : containsNL bl = false := h.body_nl bl (by simp)
  have hAnl : containsNL A = false := by
    rw [← hA, containsNL_append, h.first_nl]; split <;> rfl
  have hynl : containsNL y = false := by
    rw [← hy, containsNL_append, containsNL_padLine _ _ hbl]; split <;> simp [containsNL_cons]
  have hrs : ∀ l ∈ bs.map (padLine (i + m)), containsNL l = false := by
    intro l hl
    obtain ⟨l', hl', rfl⟩ := List.mem_map.mp hl
    exact containsNL_padLine _ _ (h.body_nl l' (by simp [hl']))
  obtain ⟨hsplit, hraw⟩ := mlRestRaw_eq A _ y hAnl hrs hynl
  generalize hJ : joinLines (A :: (bs.map (padLine (i + m)) ++ [y])) = J at hsplit hraw ⊢
  have hJnl : containsNL J = true := by
    rw [← hJ]
    cases hb : bs.map (padLine (i + m)) ++ [y] with
    | nil => simp at hb
    | cons z zs => exact containsNL_joinLines_cons_cons _ _ _
  obtain ⟨c, s, hcs, hc⟩ : ∃ c s, J = c :: s ∧ c ≠ '*' := by
    rw [← hJ]
    cases hb : bs.map (padLine (i + m)) ++ [y] with
    | nil => simp at hb
    | cons z zs =>
      rw [joinLines_cons_cons, ← hA]
      cases first with
      | nil => exact ⟨'\n', _, rfl, by decide⟩
      | cons x xs => exact ⟨' ', _, rfl, by decide⟩
  have hinner : blockInner (blockOpening doc ++ J ++ ['*', '/']) = J := by
    rw [hcs]; exact blockInner_opening doc c hc s
  have hdoc : blockDoc (blockOpening doc ++ J ++ ['*', '/']) = doc := by
    rw [hcs, List.append_assoc, List.cons_append]; exact blockDoc_opening doc c hc _
  rw [fromText_block _ _ (by rw [List.append_assoc]; exact startsWith_opening doc _), hinner, hdoc]
  simp only [hJnl, if_true]
  have hfirst : mlFirst J = first := by
    unfold mlFirst; rw [hsplit, List.headD_cons, ← hA]; exact stripSpaces_pad_first first h.first_stripped
  have hlast : rstripSpaces y = padLine (i + m) bl := by
    rw [← hy]; exact rstrip_rendered_last (i + m) i bl (h.last_rstripped bl (by simp))
  have hnorm : mlNormalized i J = (bs ++ [bl]).map (padLine m) := by
    unfold mlNormalized
    rw [hraw, hlast]
    simp [List.map_append, dropPrefixIf_padLine, Function.comp_def]
  have hbody : mlBody ((bs ++ [bl]).map (padLine m)) = bs ++ [bl] := by
    unfold mlBody
    rw [h.indent]
    split
    · rw [List.map_map]
      conv => rhs; rw [← List.map_id (bs ++ [bl])]
      apply List.map_congr_left
      intro l _
      simp [dropPrefixIf_padLine_self]
    · have : m = 0 := by omega
      subst this
      conv => rhs; rw [← List.map_id (bs ++ [bl])]
      apply List.map_congr_left
      intro l _
      simp [padLine_zero]
  rw [hfirst, hnorm, hbody, h.indent]
  rfl


/-! ### `Comment.from_cst` produces canonical multi-line block comments -/

theorem splitLines_length : ∀ (s : Text), (splitLines s).length = s.count '\n' + 1
  | [] => rfl
  | c :: cs => by
    have ih := splitLines_length cs
    by_cases hc : c = '\n'
    · subst hc; rw [splitLines_cons_nl, List.length_cons, ih, List.count_cons_self]
    · rw [splitLines_cons_ne hc, List.count_cons_of_ne hc, List.length_cons, List.length_tail, ih]; omega

theorem isBlankLine_iff (l : Text) : isBlankLine l = true ↔ ∀ c ∈ l, isPyWhitespace c = true := by
  unfold isBlankLine
  rw [strip_eq_stripBy, List.isEmpty_iff]
  constructor
  · intro h
    unfold stripBy at h
    have h1 := rstripBy_append_tail isPyWhitespace (l.dropWhile isPyWhitespace)
    rw [h, List.nil_append] at h1
    have hall : ∀ c ∈ l.dropWhile isPyWhitespace, isPyWhitespace c = true := by
      intro c hc
      rw [← h1] at hc
      exact takeWhile_all _ _ c (List.mem_reverse.mp hc)
    have hnil : l.dropWhile isPyWhitespace = [] := by
      cases hd : l.dropWhile isPyWhitespace with
      | nil => rfl
      | cons x xs =>
        have := head?_dropWhile_false isPyWhitespace l x (by rw [hd]; rfl)
        have := hall x (by rw [hd]; exact List.mem_cons_self)
        simp_all
    exact all_of_dropWhile_eq_nil _ _ hnil
  · intro h
    unfold stripBy
    rw [dropWhile_eq_nil_of_all _ _ h]; rfl

theorem foldl_min_le : ∀ (xs : List Nat) (x : Nat), xs.foldl min x ≤ x ∧ ∀ y ∈ xs, xs.foldl min x ≤ y
  | [], x => ⟨Nat.le_refl _, by simp⟩
  | z :: xs, x => by
    obtain ⟨h1, h2⟩ := foldl_min_le xs (min x z)
    refine ⟨Nat.le_trans h1 (Nat.min_le_left _ _), ?_⟩
    intro y hy
    rcases List.mem_cons.mp hy with rfl | hy
    · exact Nat.le_trans h1 (Nat.min_le_right _ _)
    · exact h2 y hy

theorem minIndent_le (L : List Text) (l : Text) (hl : l ∈ L) (hb : isBlankLine l = false) :
    minIndent L ≤ leadingSpaces l := by
  unfold minIndent
  have hm : leadingSpaces l ∈ (L.filter fun ln => !isBlankLine ln).map leadingSpaces :=
    List.mem_map.mpr ⟨l, List.mem_filter.mpr ⟨hl, by simp [hb]⟩, rfl⟩
  cases hf : (L.filter fun ln => !isBlankLine ln).map leadingSpaces with
  | nil => rw [hf] at hm; simp at hm
  | cons x xs =>
    rw [hf] at hm
    obtain ⟨h1, h2⟩ := foldl_min_le xs x
    rcases List.mem_cons.mp hm with h | h
    · rw [h]; exact h1
    · exact h2 _ h

theorem minIndent_map_congr (f : Text → Text) : ∀ (L : List Text),
    (∀ l ∈ L, (isBlankLine l = false → f l = l) ∧ (isBlankLine l = true → isBlankLine (f l) = true)) →
    minIndent (L.map f) = minIndent L := by
  intro L h
  have : (L.map f).filter (fun ln => !isBlankLine ln) = L.filter (fun ln => !isBlankLine ln) := by
    induction L with
    | nil => rfl
    | cons x xs ih =>
      have hx := h x List.mem_cons_self
      have ih := ih (fun l hl => h l (List.mem_cons_of_mem _ hl))
      rw [List.map_cons]
      cases hb : isBlankLine x with
      | false => rw [hx.1 hb, List.filter_cons_of_pos (by simp [hb]), List.filter_cons_of_pos (by simp [hb]), ih]
      | true =>
        rw [List.filter_cons_of_neg (by simp [hx.2 hb]), List.filter_cons_of_neg (by simp [hb]), ih]
  unfold minIndent
  rw [this]

theorem eq_spaces_append_drop : ∀ (k : Nat) (l : Text), k ≤ leadingSpaces l → l = spaces k ++ l.drop k
  | 0, l, _ => by simp
  | k + 1, [], h => by simp [leadingSpaces] at h
  | k + 1, c :: cs, h => by
    unfold leadingSpaces at h
    by_cases hc : c = ' '
    · subst hc
      rw [List.takeWhile_cons_of_pos (by decide), List.length_cons] at h
      have := eq_spaces_append_drop k cs (by unfold leadingSpaces; omega)
      rw [spaces_succ, List.drop_succ_cons, List.cons_append, ← this]
    · rw [List.takeWhile_cons_of_neg (by simp [hc])] at h; simp at h

theorem dropPrefixIf_suffix (p l : Text) : dropPrefixIf p l <:+ l := by
  unfold dropPrefixIf; split
  · exact List.drop_suffix _ _
  · exact List.suffix_refl _

theorem getLast?_of_suffix {a b : Text} (h : a <:+ b) {c : Char} (hc : a.getLast? = some c) :
    b.getLast? = some c := by
  obtain ⟨t, rfl⟩ := h
  have : a ≠ [] := by intro e; rw [e] at hc; simp at hc
  rw [getLast?_append_ne_nil _ _ this]; exact hc

theorem isBlankLine_spaces (k : Nat) : isBlankLine (spaces k) = true := by
  rw [isBlankLine_iff]; intro c hc; rw [mem_spaces hc]; decide

/-- re-indenting after removing the common indentation gives back every non-blank line -/
theorem reindent_line (m : Nat) (L : List Text) (hm : minIndent L = m) (l : Text) (hl : l ∈ L) :
    (isBlankLine l = false → padLine m (dropPrefixIf (spaces m) l) = l) ∧
    (isBlankLine l = true → isBlankLine (padLine m (dropPrefixIf (spaces m) l)) = true) := by
  constructor
  · intro hb
    have hle : m ≤ leadingSpaces l := hm ▸ minIndent_le L l hl hb
    have e := eq_spaces_append_drop m l hle
    have hd : dropPrefixIf (spaces m) l = l.drop m := by
      conv => lhs; rw [e]
      exact dropPrefixIf_append _ _
    rw [hd]
    unfold padLine
    split
    · rename_i hemp
      have : l.drop m = [] := by simpa using hemp
      rw [this, List.append_nil] at e
      rw [e, isBlankLine_spaces] at hb; simp at hb
    · exact e.symm
  · intro hb
    rw [isBlankLine_iff] at hb ⊢
    intro c hc
    unfold padLine at hc
    split at hc
    · simp at hc
    · rcases List.mem_append.mp hc with hc | hc
      · rw [mem_spaces hc]; decide
      · exact hb c ((dropPrefixIf_suffix _ _).subset hc)

theorem mlRestRaw_spec (inner : Text) (h : containsNL inner = true) :
    ∃ xs l, (splitLines inner).drop 1 = xs ++ [l] ∧ mlRestRaw inner = xs ++ [rstripSpaces l] := by
  have hlen := splitLines_length inner
  have hc : 0 < inner.count '\n' := List.count_pos_iff.mpr ((containsNL_iff inner).mp h)
  have hne : (splitLines inner).drop 1 ≠ [] := by
    intro e
    have := congrArg List.length e
    simp at this; omega
  rcases List.eq_nil_or_concat ((splitLines inner).drop 1) with e | ⟨xs, l, e⟩
  · exact absurd e hne
  · rw [List.concat_eq_append] at e
    refine ⟨xs, l, e, ?_⟩
    unfold mlRestRaw
    rw [e]; simp

theorem fromText_canon (col : Nat) (inner : Text) (h : containsNL inner = true) :
    CanonML (mlFirst inner) (mlBody (mlNormalized col inner)) (minIndent (mlNormalized col inner)) := by
  obtain ⟨xs, l, hdrop, hraw⟩ := mlRestRaw_spec inner h
  have hlines : ∀ x ∈ xs ++ [l], containsNL x = false := by
    intro x hx
    rw [← hdrop] at hx
    exact splitLines_lines_no_nl inner x (List.mem_of_mem_drop hx)
  -- the body is the raw rest with a suffix-taking map applied
  obtain ⟨g, hg, hbody⟩ : ∃ g : Text → Text, (∀ x, g x <:+ x) ∧
      mlBody (mlNormalized col inner) = (xs ++ [rstripSpaces l]).map g := by
    unfold mlBody mlNormalized
    rw [hraw]
    split
    · refine ⟨fun x => dropPrefixIf _ (dropPrefixIf (spaces col) x), ?_, by rw [List.map_map]; rfl⟩
      intro x; exact (dropPrefixIf_suffix _ _).trans (dropPrefixIf_suffix _ _)
    · exact ⟨_, fun x => dropPrefixIf_suffix _ x, rfl⟩
  refine ⟨?_, ?_, ?_, ?_, ?_, ?_⟩
  · -- first line has no line break
    unfold mlFirst
    rw [stripSpaces_eq_stripBy]
    apply containsNL_of_sublist (stripBy_sublist _ _)
    cases hs : splitLines inner with
    | nil => rfl
    | cons a as => exact splitLines_lines_no_nl inner a (by rw [hs]; exact List.mem_cons_self)
  · unfold mlFirst; rw [stripSpaces_eq_stripBy]; exact stripBy_stripped _ _
  · rw [hbody]; simp
  · intro x hx
    rw [hbody] at hx
    obtain ⟨x', hx', rfl⟩ := List.mem_map.mp hx
    apply containsNL_of_sublist (hg x').sublist
    rcases List.mem_append.mp hx' with hx' | hx'
    · exact hlines x' (List.mem_append_left _ hx')
    · simp at hx'; rw [hx', rstripSpaces_eq_rstripBy]
      have : (rstripBy (· == ' ') l).Sublist l := by
        unfold rstripBy
        exact (List.reverse_sublist.mpr (List.dropWhile_sublist _)).trans (by simp)
      exact containsNL_of_sublist this (hlines l (by simp))
  · intro x hx c hc
    rw [hbody, List.map_append, List.map_cons, List.map_nil, List.getLast?_append] at hx
    simp at hx
    subst hx
    have := getLast?_of_suffix (hg _) hc
    rw [rstripSpaces_eq_rstripBy] at this
    have := getLast?_rstripBy _ _ _ this
    intro e; rw [e] at this; simp at this
  · -- indentation invariant
    generalize hN : mlNormalized col inner = N
    unfold mlBody
    split
    · rw [List.map_map]
      exact minIndent_map_congr _ N (fun x hx => reindent_line _ N rfl x hx)
    · have : minIndent N = 0 := by omega
      rw [this]
      have : N.map (padLine 0) = N := by
        conv => rhs; rw [← List.map_id N]
        apply List.map_congr_left; intro x _; simp [padLine_zero]
      rw [this]; assumption


theorem token_inline_irrelevant (c : Comment) (b : Bool) (i : Nat) :
    ({ c with inline := b } : Comment).token i = c.token i := by
  unfold Comment.token Comment.str; rfl

/-- Block comments: the token the renderer writes at column `i` is read back, at column `i`, as the
    same comment — for every token text starting with `/*`, every column, every indentation. -/
theorem block_token_fixed (c1 i : Nat) (t : Text) (h : startsWith ['/', '*'] t = true) :
    Comment.fromText i ((Comment.fromText c1 t).token i) = Comment.fromText c1 t := by
  rw [fromText_block c1 t h]
  by_cases hnl : containsNL (blockInner t) = true
  · simp only [hnl, if_true]
    have hcanon := fromText_canon c1 (blockInner t) hnl
    generalize mlFirst (blockInner t) = first at hcanon ⊢
    generalize minIndent (mlNormalized c1 (blockInner t)) = m at hcanon ⊢
    generalize mlBody (mlNormalized c1 (blockInner t)) = body at hcanon ⊢
    rcases List.eq_nil_or_concat body with e | ⟨bs, bl, e⟩
    · exact absurd e hcanon.body_ne
    · rw [List.concat_eq_append] at e
      subst e
      have := canon_fixed first bs bl m (blockDoc t) false i hcanon
      exact this
  · simp only [hnl, Bool.false_eq_true, if_false]
    have hnl' : containsNL (blockInner t) = false := by simpa using hnl
    have hx : containsNL (strip (blockInner t)) = false :=
      containsNL_of_sublist (stripBy_sublist _ _) hnl'
    have htok : ({ text := strip (blockInner t), kind := .block (blockDoc t) none } : Comment).token i =
        blockOpening (blockDoc t) ++ [' '] ++ strip (blockInner t) ++ [' ', '*', '/'] := by
      simp [Comment.token, hx, blockOpening]
    rw [htok]
    exact fromText_single_block i (blockDoc t) _ (stripBy_stripped _ _) hx


/-! ### newline termination of `format_trivia` for ALL lists (comma sentinels included) -/

def GoInv (ts : List Trivia) (acc : Text) : Prop :=
  acc = [] ∨ endsWithNL acc = true ∨ ∃ t rest, ts = t :: rest ∧ t ≠ .linebreak

theorem formatTriviaGo_nl (i : Nat) : ∀ (ts : List Trivia) (acc : Text) (e : Bool), GoInv ts acc →
    formatTriviaGo i ts acc e = [] ∨ endsWithNL (formatTriviaGo i ts acc e) = true
  | [], acc, e, h => by
    rw [formatTriviaGo]
    rcases h with h | h | ⟨t, rest, h, _⟩
    · exact Or.inl h
    · exact Or.inr h
    · cases h
  | .emptyLine :: rest, acc, e, _ => by
    rw [formatTriviaGo]
    exact formatTriviaGo_nl i rest _ _ (Or.inr (Or.inl (endsWithNL_concat _ _)))
  | .linebreak :: rest, acc, e, h => by
    rw [formatTriviaGo]
    apply formatTriviaGo_nl i rest
    rcases h with h | h | ⟨t, r, he, hne⟩
    · exact Or.inl h
    · exact Or.inr (Or.inl h)
    · cases he; exact absurd rfl hne
  | .comment c :: rest, acc, e, _ => by
    rw [formatTriviaGo]
    exact formatTriviaGo_nl i rest _ _ (Or.inr (Or.inl (endsWithNL_concat _ _)))
  | [.comma], acc, e, _ => by
    rw [formatTriviaGo]
    exact formatTriviaGo_nl i [] _ _ (Or.inr (Or.inl (endsWithNL_concat _ _)))
  | .comma :: .comment c :: rest, acc, e, _ => by
    rw [formatTriviaGo]
    split
    · exact formatTriviaGo_nl i (.comment c :: rest) _ _ (Or.inr (Or.inr ⟨_, _, rfl, by simp⟩))
    · exact formatTriviaGo_nl i (.comment c :: rest) _ _ (Or.inr (Or.inr ⟨_, _, rfl, by simp⟩))
  | .comma :: .linebreak :: rest, acc, e, _ => by
    rw [formatTriviaGo]
    exact formatTriviaGo_nl i (.linebreak :: rest) _ _ (Or.inr (Or.inl (endsWithNL_concat _ _)))
  | .comma :: .emptyLine :: rest, acc, e, _ => by
    rw [formatTriviaGo]
    · exact formatTriviaGo_nl i (.emptyLine :: rest) _ _ (Or.inr (Or.inr ⟨_, _, rfl, by simp⟩))
    all_goals simp
  | .comma :: .comma :: rest, acc, e, _ => by
    rw [formatTriviaGo]
    · exact formatTriviaGo_nl i (.comma :: rest) _ _ (Or.inr (Or.inr ⟨_, _, rfl, by simp⟩))
    all_goals simp

theorem formatTrivia_nil_or_nl_all (ts : List Trivia) (i : Nat) :
    formatTrivia ts i = [] ∨ endsWithNL (formatTrivia ts i) = true :=
  formatTriviaGo_nl i ts [] true (Or.inl rfl)

end Nima
