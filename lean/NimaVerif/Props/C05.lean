import NimaVerif.Lemmas.NameAgree
import NimaVerif.Lemmas.EditOps
/-!
# C05 — a successful edit yields exactly the requested attribute change

SPEC: `Model/AttrTree.lean` (`denote`, `specSet`, `specRemove`, `renderedTree`).
The theorems relate `setValue` / `removeValue` of `Model/Edit.lean` to that spec, for every document,
path text and value in the stated class.
-/
namespace Nima.C05
-- name tokens are compared by spelling in this file (see `NameCmp` in Model/Edit.lean)
attribute [local instance] NameCmp.spelled
open Nima Node

/-- "the value now at the path is not a reference": neither an identifier-valued binding nor an
    inherited name. Such values make `set` write through the reference (C11). -/
def NoRefAt (t : AttrTree) (names : List Text) : Prop :=
  ∀ nm, treeAt t names ≠ some (.leaf (.ident nm))

theorem set_plain_refines (d : Doc) (hw : WF d) (p seg : Text) (v : Node)
    (hp : formatNPath currentAnchor p = .ok [seg])
    (hroot : findAttrpathRoot d.target.setValues seg = none)
    (hnoref : NoRefAt (denote d.target) [seg]) :
    ∃ d', setValue p (.one v) d = (.ok (), d') ∧
      specSet (denote d.target) [seg] v = some (denote d'.target) := by
  obtain ⟨c, vs, o, m, r, ht⟩ := (isSet_iff _).mp hw.isSet
  have hfin := finalOK_of_noref d.target d.target [] seg hw.keys rfl hw.isSet hnoref
  obtain ⟨d', e1, e2, _, _, hd⟩ := finalSet_denote d.target d.target true [] seg v d hw.ids hw.keys rfl hw.isSet hfin.1 hfin.2
  refine ⟨d', ?_, ?_⟩
  · rw [setValue_unscoped p v d hw.editable (formatNPath_unscoped p _ hp)]
    simp only [setValueInAttrset, hp, ht, setSid?, findAttrpathLeaf_single, List.isEmpty_nil, if_true]
    rw [ht] at e1 e2 hroot
    simp only [hroot, Option.isSome_none, Bool.false_eq_true, if_false]
    cases hf : findBinding (Node.set c vs o m r).setValues seg with
    | some b => exact e1 b hf
    | none => exact e2 hf
  · rw [hd, ht]; simp [specSet, specSetK, AttrTree.kids]

theorem set_nested_explicit_refines (d : Doc) (hw : WF d) (p : Text) (seg0 seg1 : Text) (rest : List Text) (v : Node)
    (hp : formatNPath currentAnchor p = .ok (seg0 :: seg1 :: rest))
    (hroot : findAttrpathRoot d.target.setValues seg0 = none)
    (hplain : ∀ k ∈ (seg0 :: seg1 :: rest).dropLast, plainKey k = true)
    (hfresh : FreshFor d.target d.next (2 * (rest.length + 1)))
    (hnoref : NoRefAt (denote d.target) (seg0 :: seg1 :: rest))
    (d' : Doc) (hrun : setValue p (.one v) d = (.ok (), d')) :
    specSet (denote d.target) (seg0 :: seg1 :: rest) v = some (denote d'.target) := by
  obtain ⟨c, vs, o, m, r, ht⟩ := (isSet_iff _).mp hw.isSet
  rw [setValue_unscoped p v d hw.editable (formatNPath_unscoped p _ hp)] at hrun
  have hleaf := findAttrpathLeaf_no_root d.target seg0 (seg1 :: rest) hroot
  rw [ht] at hleaf hroot
  obtain ⟨final, hlast, hsplit⟩ := getLast_split (seg0 :: seg1 :: rest) (by simp)
  have hlen : (seg0 :: seg1 :: rest).dropLast.length = rest.length + 1 := by simp
  simp only [setValueInAttrset, hp, ht, setSid?, hleaf, hroot, List.isEmpty_cons, Bool.false_eq_true, if_false,
    Option.isSome_none] at hrun
  generalize (seg0 :: seg1 :: rest).dropLast = init at *
  simp only [EditM.bind_apply, hlast] at hrun
  cases hwk : resolveParentWalk true (Node.set c vs o m r) init d with
  | mk res d1 =>
    cases res with
    | error e => simp [hwk] at hrun
    | ok parent =>
      simp only [hwk] at hrun
      have hfs : FinalStep (Node.set c vs o m r) parent true final v d1 d' := by
        constructor
        · intro b hb; simpa [hb] using hrun
        · intro hb; simpa [hb] using hrun
      have hinv : Inv d.target d.next (2 * init.length) := by
        refine ⟨hw.ids, hw.keys, ?_⟩
        rw [hlen]; exact hfresh
      have hfin : ∀ par, subAt d.target ([] ++ init) = some par → FinalOK par final := by
        intro par hpar
        cases hs : par.isSet with
        | true =>
          refine finalOK_of_noref d.target par init final hw.keys (by simpa using hpar) hs ?_
          rw [hsplit]; exact hnoref
        | false =>
          have : par.setValues = [] := by cases par <;> simp_all [isSet, setValues]
          exact ⟨fun b hb => by simp [this, findBinding_spelled] at hb, by simp [this, inheritMentions]⟩
      rw [← ht] at hwk
      obtain ⟨_, Y, hY, hd⟩ := nested_set_refines (Node.set c vs o m r) true final v _ d d.target [] parent d1 d'
        hinv rfl hw.isSet hplain hfin hwk hfs
      rw [hsplit] at hY
      rw [hd, ht] at *
      simp [specSet, AttrTree.kids] at hY ⊢
      exact hY

theorem rm_plain_refines (d : Doc) (hw : WF d) (p seg : Text)
    (hp : formatNPath currentAnchor p = .ok [seg])
    (hroot : findAttrpathRoot d.target.setValues seg = none)
    (hex : (findBinding d.target.setValues seg).isSome = true) :
    ∃ d', removeValue p d = (.ok (), d') ∧
      specRemove (denote d.target) [seg] false = some (denote d'.target) := by
  obtain ⟨c, vs, o, m, r, ht⟩ := (isSet_iff _).mp hw.isSet
  rw [removeValue_unscoped p d hw.editable (formatNPath_unscoped p _ hp)]
  rw [ht] at hroot hex
  cases hf : findBinding (Node.set c vs o m r).setValues seg with
  | none => simp [hf] at hex
  | some b =>
    obtain ⟨i, ne, val, bf, af, pre, post, rfl, hvs, hpre⟩ := findBinding_some _ _ _ hf
    refine ⟨d.updSet c (delF i), ?_, ?_⟩
    · simp only [removeValueInAttrset, hp, ht, findAttrpathLeaf_single, List.isEmpty_nil, if_true, hroot, hf]
      simp [setDelItem_some _ seg c i ne val bf af d hf rfl]
    · simp only [Doc.updSet_target]
      rw [denote_del_at d.target hw.ids hw.keys [] c vs o m r (by rw [ht]; rfl) seg _ hf i rfl _ (delF_isDel i)]
      rw [ht]
      have hl : (Kids.lookup seg (denoteL vs)).isSome = true := by
        rw [Kids.lookup_isSome_iff]
        simp only [setValues] at hvs; subst hvs
        simp [Kids.keys]
      simp [specRemove, specRemoveK_single, hl]

theorem rm_nested_explicit_refines (d : Doc) (hw : WF d) (p : Text) (seg0 seg1 : Text) (rest : List Text)
    (hp : formatNPath currentAnchor p = .ok (seg0 :: seg1 :: rest))
    (hroot : findAttrpathRoot d.target.setValues seg0 = none)
    (hplain : ∀ k ∈ (seg0 :: seg1 :: rest).dropLast, plainKey k = true)
    (d' : Doc) (hrun : removeValue p d = (.ok (), d')) :
    specRemove (denote d.target) (seg0 :: seg1 :: rest) false = some (denote d'.target) := by
  obtain ⟨c, vs, o, m, r, ht⟩ := (isSet_iff _).mp hw.isSet
  rw [removeValue_unscoped p d hw.editable (formatNPath_unscoped p _ hp)] at hrun
  have hleaf := findAttrpathLeaf_no_root d.target seg0 (seg1 :: rest) hroot
  rw [ht] at hleaf hroot
  obtain ⟨final, hlast, hsplit⟩ := getLast_split (seg0 :: seg1 :: rest) (by simp)
  simp only [removeValueInAttrset, hp, ht, hleaf, hroot, List.isEmpty_cons, Bool.false_eq_true, if_false,
    Option.isSome_none] at hrun
  generalize (seg0 :: seg1 :: rest).dropLast = init at *
  simp only [EditM.bind_apply, hlast] at hrun
  cases hwk : resolveParentWalk false (Node.set c vs o m r) init d with
  | mk res d1 =>
    obtain ⟨e1, e2⟩ := resolveParentWalk_false init _ d res d1 hplain hwk
    subst e1
    cases res with
    | error e => simp [hwk] at hrun
    | ok parent =>
      simp only [hwk] at hrun
      obtain ⟨hsub, hps⟩ := e2 parent rfl
      obtain ⟨pc, pvs, po, pm, pr, rfl⟩ := (isSet_iff parent).mp (hps rfl)
      cases hf : findBinding (Node.set pc pvs po pm pr).setValues final with
      | none => rw [setDelItem_none _ _ _ hf] at hrun; cases hrun
      | some b =>
        obtain ⟨i, ne, val, bf, af, pre, post, rfl, hvs, hpre⟩ := findBinding_some _ _ _ hf
        rw [setDelItem_some _ final pc i ne val bf af d1 hf rfl] at hrun
        injection hrun with _ hrun
        subst hrun
        simp only [Doc.updSet_target]
        rw [← ht] at hsub
        rw [denote_del_at d1.target hw.ids hw.keys init pc pvs po pm pr hsub final _ hf i rfl _ (delF_isDel i)]
        have htp := treeAt_denote init d1.target _ hw.keys hsub
        rw [ht] at htp ⊢
        rw [← hsplit]
        refine specRemove_graft final init _ _ htp ?_
        rw [Kids.lookup_isSome_iff]
        simp only [setValues] at hvs; subst hvs
        simp [Kids.keys]

theorem set_attrpath_root_refused (d : Doc) (hw : WF d) (p seg : Text) (v : Node)
    (hp : formatNPath currentAnchor p = .ok [seg])
    (hroot : (findAttrpathRoot d.target.setValues seg).isSome = true) :
    setValue p (.one v) d = (.error .value, d) := by
  obtain ⟨c, vs, o, m, r, ht⟩ := (isSet_iff _).mp hw.isSet
  rw [setValue_unscoped p v d hw.editable (formatNPath_unscoped p _ hp)]
  rw [ht] at hroot
  simp only [setValueInAttrset, hp, ht, setSid?, findAttrpathLeaf_single, List.isEmpty_nil, if_true, hroot]
  rfl

theorem set_attrpath_leaf_refines (d : Doc) (hw : WF d) (p : Text) (segs : List Text) (v : Node)
    (hp : formatNPath currentAnchor p = .ok segs)
    (hleaf : (findAttrpathLeaf d.target segs).isSome = true) :
    ∃ d', setValue p (.one v) d = (.ok (), d') ∧
      specSet (denote d.target) segs v = some (denote d'.target) := by
  obtain ⟨c, vs, o, m, r, ht⟩ := (isSet_iff _).mp hw.isSet
  cases hl : findAttrpathLeaf d.target segs with
  | none => simp [hl] at hleaf
  | some leaf =>
    obtain ⟨st, par0, hwalk, hlast⟩ := findAttrpathLeaf_some _ _ _ hl
    obtain ⟨hlen, hch⟩ := walk_chain _ _ _ _ _ hw.keys hw.isSet hwalk
    have hne : segs ≠ [] := by intro e; simp [e] at hlen
    obtain ⟨par, i, final, val, bf, af, h1, h2, h3, h4, h5⟩ := chain_last false segs _ st hne hch hw.isSet
    rw [hlast] at h1
    injection h1 with h1; injection h1 with h1a h1b
    subst h1a h1b
    refine ⟨d.updBind i v, ?_, ?_⟩
    · rw [setValue_unscoped p v d hw.editable (formatNPath_unscoped p _ hp)]
      cases hs : segs with
      | nil => exact absurd hs hne
      | cons s0 sr =>
        rw [hs] at hp hl
        rw [ht] at hl
        simp only [setValueInAttrset, hp, ht, setSid?, hl, bindId?, assign_apply]
    · simp only [Doc.updBind_target]
      have htp := treeAt_denote _ d.target _ hw.keys h3
      obtain ⟨pc, pvs, po, pm, pr, rfl⟩ := (isSet_iff par0).mp h4
      rw [denote_updBind_at v segs.dropLast d.target _ final _ i hw.ids hw.keys h3 h5 rfl,
        graft_append _ [final] _ _ _ htp, denote_set, graft_single]
      conv => lhs; rw [h2]
      rw [ht] at htp ⊢
      exact specSet_graft v final _ _ _ htp

theorem set_attrpath_new_refines (d : Doc) (hw : WF d) (p : Text) (seg0 seg1 : Text) (rest : List Text) (v : Node)
    (hp : formatNPath currentAnchor p = .ok (seg0 :: seg1 :: rest))
    (hroot : (findAttrpathRoot d.target.setValues seg0).isSome = true)
    (hleaf : findAttrpathLeaf d.target (seg0 :: seg1 :: rest) = none)
    (hfresh : FreshFor d.target d.next (2 * rest.length))
    (d' : Doc) (hrun : setValue p (.one v) d = (.ok (), d')) :
    specSet (denote d.target) (seg0 :: seg1 :: rest) v = some (denote d'.target) := by
  obtain ⟨c, vs, o, m, r, ht⟩ := (isSet_iff _).mp hw.isSet
  rw [setValue_unscoped p v d hw.editable (formatNPath_unscoped p _ hp)] at hrun
  cases hr : findAttrpathRoot d.target.setValues seg0 with
  | none => simp [hr] at hroot
  | some root =>
    obtain ⟨i, val, bf, af, rfl, hm⟩ := findAttrpathRoot_some _ _ _ hr
    have hkeys := hw.keys
    have hfam := hw.fam
    rw [ht] at hleaf hr hm hkeys hfam
    simp only [setValues] at hm
    unfold KeysOK at hkeys
    simp only [denote_set, AttrTree.nodup_node] at hkeys
    obtain ⟨s2, vs2, m2, r2, rfl, hfam2⟩ := famSet_child c vs o m r i seg0 val bf af hfam hm
    have hfb := findBinding_of_mem vs seg0 i true _ bf af hkeys hm
    have hp1 : subAt d.target [seg0] = some (.set s2 vs2 [] m2 r2) := by
      rw [ht]; simp [subAt, stepInto, setValues, hfb, bindValue?]
    obtain ⟨final, hlast, hsplit⟩ := getLast_split (seg0 :: seg1 :: rest) (by simp)
    have hmid : (seg0 :: seg1 :: rest).dropLast = seg0 :: (seg1 :: rest).dropLast := by simp
    have hlen : (seg1 :: rest).dropLast.length = rest.length := by simp
    simp only [setValueInAttrset, hp, ht, setSid_set, hleaf, hr, List.isEmpty_cons, Bool.false_eq_true, if_false,
      setAttrpathValue, bindValue?, List.drop_succ_cons, List.drop_zero, hlast, EditM.bind_apply] at hrun
    generalize (seg1 :: rest).dropLast = middle at *
    cases hwk : setAttrpathWalk (.set s2 vs2 [] m2 r2) middle d with
    | mk res d1 =>
      cases res with
      | error e => simp [hwk] at hrun
      | ok current =>
        simp only [hwk] at hrun
        have hfa : FinalAttr c (seg0 :: seg1 :: rest) current final v d1 d' := by
          cases h1 : findNamedBinding current.setValues final (some true) with
          | some b => simp [h1] at hrun
          | none =>
            simp only [h1, Option.isSome_none, Bool.false_eq_true, if_false] at hrun
            refine ⟨h1, ?_, ?_⟩
            · intro b bid hb hbid
              simp only [hb, hbid, assign_apply] at hrun
              injection hrun with _ hrun; exact hrun.symm
            · intro hb csid hcs
              simp only [hb, hcs] at hrun
              exact hrun
        have hinv : Inv d.target d.next (2 * middle.length) := ⟨hw.ids, hw.keys, by rw [hlen]; exact hfresh⟩
        obtain ⟨_, Y, hY, hd⟩ := attr_set_refines c (seg0 :: seg1 :: rest) final v middle d _ [seg0] current d1 d'
          hinv hp1 rfl hfam2 hwk hfa
        rw [hd, ht]
        obtain ⟨i', ne, val', bf', af', pre, post, e, hvs, hpre⟩ := findBinding_some _ _ _ hfb
        injection e with e1 _ e2 e3 e4 e5; subst e1 e2 e3 e4 e5
        subst hvs
        obtain ⟨hk, _⟩ := keys_split seg0 pre post i true _ bf af hkeys
        obtain ⟨hl, hu, _⟩ := lookup_split seg0 (denoteL pre) (denoteL post) (denote (.set s2 vs2 [] m2 r2)) hk
        rw [← hsplit, hmid, List.cons_append]
        simp only [denote_set, AttrTree.kids] at hY
        have hl' : Kids.lookup seg0 (denoteL (pre ++ .bind i seg0 true (.set s2 vs2 [] m2 r2) bf af :: post)) =
            some (.node (denoteL vs2)) := by simpa using hl
        simp only [specSet, denote_set, graft_single]
        rw [specSetK_node v _ _ seg0 (middle ++ [final]) (by simp) hl', hY]
        rfl

theorem rm_attrpath_refines (d : Doc) (hw : WF d) (hcoh : Coh d.target) (p : Text) (segs : List Text)
    (hp : formatNPath currentAnchor p = .ok segs)
    (hleaf : (findAttrpathLeaf d.target segs).isSome = true) :
    ∃ d', removeValue p d = (.ok (), d') ∧
      specRemove (denote d.target) segs true = some (denote d'.target) := by
  obtain ⟨c, vs, o, m, r, ht⟩ := (isSet_iff _).mp hw.isSet
  cases hl : findAttrpathLeaf d.target segs with
  | none => simp [hl] at hleaf
  | some leaf =>
    obtain ⟨st, par0, hwalk, hlast⟩ := findAttrpathLeaf_some _ _ _ hl
    obtain ⟨hlen, hch⟩ := walk_chain _ _ _ _ _ hw.keys hw.isSet hwalk
    have hne : segs ≠ [] := by intro e; simp [e] at hlen
    obtain ⟨par, lid, final, val, bf, af, h1, h2, h3, h4, h5⟩ := chain_last false segs _ st hne hch hw.isSet
    rw [hlast] at h1
    injection h1 with h1; injection h1 with h1a h1b
    subst h1a h1b
    obtain ⟨tr, htl, hloc, hsti⟩ := chain_ids segs d.target st hne hch hw.isSet hw.fam
    obtain ⟨pc, pvs, po, pm, pr, rfl⟩ := (isSet_iff par0).mp h4
    simp only [setValues] at h5
    -- the state after the two removals
    have hT1 := denote_del_at d.target hw.ids hw.keys segs.dropLast pc pvs po pm pr h3 final _ h5 lid rfl _
      (eraseV_isDel lid)
    have htp := treeAt_denote _ d.target _ hw.keys h3
    have hpn := nodup_treeAt _ _ _ htp hw.keys
    simp only [denote_set, AttrTree.nodup_node] at hpn
    generalize hd2 : ((d.updSet pc (eraseV lid)).updSet c (entF lid)) = d2
    have ht2 : d2.target = updSet c (entF lid) (updSet pc (eraseV lid) d.target) := by rw [← hd2]; rfl
    have hden2 : denote d2.target =
        graft segs.dropLast (.node (Kids.erase final (denoteL pvs))) (denote d.target) := by
      rw [ht2, (denote_updSet_orderOnly c _ (entF_orderOnly lid) _).1, hT1]
    have hsetT1 : (updSet pc (eraseV lid) d.target).isSet = true :=
      isSet_updSet_shrinks pc _ (eraseV_shrinks lid) _ hw.isSet
    obtain ⟨c1, vs1, o1, m1, r1, hT1e⟩ := (isSet_iff _).mp hsetT1
    have hc1 : c = c1 := by
      have := setSid_updSet_shrinks pc _ (eraseV_shrinks lid) d.target
      rw [hT1e, ht] at this; simpa [setSid?] using this.symm
    subst hc1
    have hloc2 : Loc d2.target segs.dropLast tr := by
      have hl1 := Loc_updSet_end pc _ (eraseV_shrinks lid) segs.dropLast d.target _ tr hw.ids hloc h3 rfl
      rw [ht2, hT1e]
      rw [hT1e] at hl1
      refine Loc_top_congr _ _ _ _ ?_ ?_ hl1
      · simp [updSet, entF, setSid?]
      · simp [updSet, entF, setValues]
    obtain ⟨d', e1, _, _, hd'⟩ := prune_loop st.dropLast.reverse tr.reverse segs.dropLast d2 hsti
      (by simp [htl])
      (by rw [ht2]; exact (hw.ids.sublist (vIds_updSet_shrinks pc _ (eraseV_shrinks lid) _)).sublist
            (vIds_updSet_shrinks c _ (entF_shrinks lid) _))
      (by unfold KeysOK; rw [hden2]
          exact nodup_graft _ _ _ _ htp hw.keys (by simpa using AttrTree.nodupL_erase final _ hpn))
      (by rw [ht2]; exact coh_updSet c _ (entF_shrinks lid) _ (coh_updSet pc _ (eraseV_shrinks lid) _ hcoh))
      (by rw [← hd2]; simp [Doc.updSet, hw.scratch])
      (by rw [ht2]; exact isSet_updSet_shrinks c _ (entF_shrinks lid) _ hsetT1)
      (by simpa using hloc2)
    refine ⟨d', ?_, ?_⟩
    · rw [removeValue_unscoped p d hw.editable (formatNPath_unscoped p _ hp)]
      cases hs : segs with
      | nil => exact absurd hs hne
      | cons s0 sr =>
        rw [hs] at hp hl
        simp only [removeValueInAttrset, hp, hl, Option.isSome_some, if_true]
        rw [← hs, removeAttrpathValue_eq d.target segs st _ _ c pc lid d (walk_rr _ _ _ _ hwalk) hlast
          (by rw [ht]; rfl) rfl rfl, hd2]
        exact e1
    · rw [hd', hden2, ht]
      rw [ht] at htp
      simp only [denote_set] at htp ⊢
      conv => lhs; rw [h2]
      simp only [specRemove]
      rw [specRemoveK_prune final segs.dropLast _ _ htp (by
        rw [lookup_of_findBinding pvs final lid false val bf af hpn h5]; rfl)]
      rfl

theorem set_fresh_goes_last (d : Doc) (hw : WF d) (p seg : Text) (v : Node)
    (hp : formatNPath currentAnchor p = .ok [seg])
    (hroot : findAttrpathRoot d.target.setValues seg = none)
    (hnew : seg ∉ Kids.keys (denote d.target).kids) :
    ∃ d', setValue p (.one v) d = (.ok (), d') ∧
      d'.target.setValues = d.target.setValues ++ [.bind d.next seg false v [] []] ∧
      d'.target.setOrder = (if d.target.setOrder.isEmpty then []
        else d.target.setOrder ++ [.bind d.next seg false v [] []]) ∧
      (denote d'.target).kids = (denote d.target).kids ++ [(seg, denote v)] := by
  obtain ⟨c, vs, o, m, r, ht⟩ := (isSet_iff _).mp hw.isSet
  rw [ht] at hroot hnew
  simp only [denote_set, AttrTree.kids_node] at hnew
  have hnone : findBinding (Node.set c vs o m r).setValues seg = none := by
    cases hf : findBinding (Node.set c vs o m r).setValues seg with
    | none => rfl
    | some b => exact absurd (findBinding_key_mem vs seg b hf) hnew
  obtain ⟨d', e, _, _, htd⟩ := setSetItem_fresh (Node.set c vs o m r) seg v c d hnone rfl
  refine ⟨d', ?_, ?_⟩
  · rw [setValue_unscoped p v d hw.editable (formatNPath_unscoped p _ hp)]
    simp only [setValueInAttrset, hp, ht, setSid_set, findAttrpathLeaf_single, List.isEmpty_nil, if_true, hroot,
      Option.isSome_none, Bool.false_eq_true, if_false, hnone]
    exact e
  · rw [htd, ht]
    simp only [updSet, if_true, Function.comp, appF, ordF, setValues, setOrder]
    cases o with
    | nil => simp
    | cons a b => simp

/-- A new leaf under an attrpath root is written in attrpath form: an `_AttrpathEntry` for the whole path
    is appended to the target's `attrpath_order` — iff that order is in use (non-empty). -/
theorem set_attrpath_entry_appended (d : Doc) (hw : WF d) (p : Text) (seg0 seg1 : Text) (rest : List Text) (v : Node)
    (hp : formatNPath currentAnchor p = .ok (seg0 :: seg1 :: rest))
    (hroot : (findAttrpathRoot d.target.setValues seg0).isSome = true)
    (hnew : treeAt (denote d.target) (seg0 :: seg1 :: rest) = none)
    (d' : Doc) (hrun : setValue p (.one v) d = (.ok (), d')) :
    ∃ bid final, (seg0 :: seg1 :: rest).getLast? = some final ∧
      d'.target.setOrder.length =
        (if d.target.setOrder.isEmpty then 0 else d.target.setOrder.length + 1) ∧
      (d.target.setOrder.isEmpty = false →
        d'.target.setOrder.getLast? =
          some (.entry (seg0 :: seg1 :: rest) (.bind bid final false v [] []) none none)) := by
  obtain ⟨c, vs, o, m, r, ht⟩ := (isSet_iff _).mp hw.isSet
  have hleaf : findAttrpathLeaf d.target (seg0 :: seg1 :: rest) = none := by
    cases hl : findAttrpathLeaf d.target (seg0 :: seg1 :: rest) with
    | none => rfl
    | some leaf =>
      exfalso
      obtain ⟨st, par0, hwalk, hlast⟩ := findAttrpathLeaf_some _ _ _ hl
      obtain ⟨_, hch⟩ := walk_chain _ _ _ _ _ hw.keys hw.isSet hwalk
      obtain ⟨par, i, final, val, bf, af, h1, h2, h3, h4, h5⟩ :=
        chain_last false (seg0 :: seg1 :: rest) _ st (by simp) hch hw.isSet
      have htp := treeAt_denote _ d.target _ hw.keys h3
      obtain ⟨pc, pvs, po, pm, pr, rfl⟩ := (isSet_iff par).mp h4
      have hn := nodup_treeAt _ _ _ htp hw.keys
      simp only [denote_set, AttrTree.nodup_node] at hn
      rw [h2, treeAt_append _ [final] _ _ htp] at hnew
      simp only [denote_set, treeAt, lookup_of_findBinding pvs final i false val bf af hn h5] at hnew
      cases hnew
  rw [setValue_unscoped p v d hw.editable (formatNPath_unscoped p _ hp)] at hrun
  cases hr : findAttrpathRoot d.target.setValues seg0 with
  | none => simp [hr] at hroot
  | some root =>
    obtain ⟨i, val, bf, af, rfl, hm⟩ := findAttrpathRoot_some _ _ _ hr
    have hkeys := hw.keys
    have hfam := hw.fam
    rw [ht] at hleaf hr hm hkeys hfam
    simp only [setValues] at hm
    unfold KeysOK at hkeys
    simp only [denote_set, AttrTree.nodup_node] at hkeys
    obtain ⟨s2, vs2, m2, r2, rfl, hfam2⟩ := famSet_child c vs o m r i seg0 val bf af hfam hm
    have hfb := findBinding_of_mem vs seg0 i true _ bf af hkeys hm
    have hrvn := nodup_of_mem_bind vs i seg0 true _ bf af hkeys hm
    obtain ⟨final, hlast, hsplit⟩ := getLast_split (seg0 :: seg1 :: rest) (by simp)
    have hmid : (seg0 :: seg1 :: rest).dropLast = seg0 :: (seg1 :: rest).dropLast := by simp
    simp only [setValueInAttrset, hp, ht, setSid_set, hleaf, hr, List.isEmpty_cons, Bool.false_eq_true, if_false,
      setAttrpathValue, bindValue?, List.drop_succ_cons, List.drop_zero, hlast, EditM.bind_apply] at hrun
    generalize (seg1 :: rest).dropLast = middle at *
    cases hwk : setAttrpathWalk (.set s2 vs2 [] m2 r2) middle d with
    | mk res d1 =>
      cases res with
      | error e => simp [hwk] at hrun
      | ok current =>
        simp only [hwk] at hrun
        obtain ⟨hsid1, hlen1⟩ := setAttrpathWalk_shape middle _ d d1 current hwk
        rw [ht] at hsid1 hlen1
        obtain ⟨vs1, o1, m1, r1, hT1⟩ := setSid_some _ _ hsid1
        rw [hT1] at hlen1
        simp only [setOrder] at hlen1
        cases h1 : findNamedBinding current.setValues final (some true) with
        | some b => simp [h1] at hrun
        | none =>
          simp only [h1, Option.isSome_none, Bool.false_eq_true, if_false] at hrun
          cases h2 : findNamedBinding current.setValues final (some false) with
          | some b =>
            exfalso
            obtain ⟨bi, bval, bbf, baf, rfl, hbm⟩ := findNamedBinding_some _ _ _ _ h2
            rcases setAttrpathWalk_origin middle _ d d1 current rfl hrvn hwk with he | ⟨_, hsub⟩
            · rw [he] at hbm; cases hbm
            · have hsubT : subAt d.target (seg0 :: middle) = some current := by
                rw [ht]; simp [subAt, stepInto, setValues, hfb, bindValue?, hsub]
              have htp := treeAt_denote _ d.target _ hw.keys hsubT
              have hcs : current.isSet = true := by
                cases current with
                | set _ _ _ _ _ => rfl
                | _ => simp [setValues] at hbm
              obtain ⟨cc, cvs, co, cm, cr, rfl⟩ := (isSet_iff current).mp hcs
              have hn := nodup_treeAt _ _ _ htp hw.keys
              simp only [denote_set, AttrTree.nodup_node] at hn
              simp only [setValues] at hbm
              rw [← hsplit, hmid, treeAt_append _ [final] _ _ htp] at hnew
              simp only [denote_set, treeAt,
                lookup_of_findBinding cvs final bi false bval bbf baf hn
                  (findBinding_of_mem cvs final bi false bval bbf baf hn hbm)] at hnew
              cases hnew
          | none =>
            simp only [h2] at hrun
            cases hcs : current.setSid? with
            | none => simp [hcs] at hrun
            | some csid =>
              simp only [hcs, EditM.bind_apply, fresh_apply, appendValue_eq, appendOrder_eq] at hrun
              injection hrun with _ hrun
              subst hrun
              refine ⟨d1.next, final, by simp [List.getLast?_cons_cons, hlast], ?_⟩
              simp only [Doc.updSet_target, hT1, ht, setOrder]
              by_cases hcc : c = csid
              · subst hcc
                simp only [updSet, if_true, appF, ordF, setOrder]
                cases o1 with
                | nil =>
                  have : o = [] := by cases o <;> simp_all
                  subst this; simp [setOrder]
                | cons a b =>
                  have : o.isEmpty = false := by cases o <;> simp_all
                  have hl' : b.length + 1 = o.length := by simpa using hlen1
                  simp [setOrder, this, getLast_cons_snoc, hl']
              · simp only [updSet, hcc, if_false, if_true, ordF, updSetL_eq_map]
                cases o1 with
                | nil =>
                  have : o = [] := by cases o <;> simp_all
                  subst this; simp [setOrder]
                | cons a b =>
                  have : o.isEmpty = false := by cases o <;> simp_all
                  have hl' : b.length + 1 = o.length := by simpa using hlen1
                  simp [setOrder, this, getLast_cons_snoc, hl']

/-- SPEC sanity: `set` keeps attribute names unique -/
theorem specSet_nodup (t t' : AttrTree) (names : List Text) (v : Node) (ht : t.nodup = true)
    (hv : (denote v).nodup = true) (h : specSet t names v = some t') : t'.nodup = true := by
  cases t with
  | leaf x => simp [specSet] at h
  | node kids =>
    simp only [specSet, Option.map_eq_some_iff] at h
    obtain ⟨k', hk, rfl⟩ := h
    simpa using specSetK_nodup v hv names kids k' (by simpa using ht) hk

/-- SPEC sanity: `rm` keeps attribute names unique -/
theorem specRemove_nodup (t t' : AttrTree) (names : List Text) (prune : Bool) (ht : t.nodup = true)
    (h : specRemove t names prune = some t') : t'.nodup = true := by
  cases t with
  | leaf x => simp [specRemove] at h
  | node kids =>
    simp only [specRemove, Option.map_eq_some_iff] at h
    obtain ⟨k', hk, rfl⟩ := h
    simpa using specRemoveK_nodup prune names kids k' (by simpa using ht) hk

/-- Names stay unique across every successful edit the refinement theorems cover (one clause of `WF`). -/
theorem keys_preserved (t : Node) (t' : Node) (hk : KeysOK t)
    (h : (∃ names v, (denote v).nodup = true ∧ specSet (denote t) names v = some (denote t')) ∨
         (∃ names prune, specRemove (denote t) names prune = some (denote t'))) : KeysOK t' := by
  rcases h with ⟨names, v, hv, h⟩ | ⟨names, prune, h⟩
  · exact specSet_nodup _ _ names v hk hv h
  · exact specRemove_nodup _ _ names prune hk h

/-! ## What the text shows

`renderedTree` reads the items `AttributeSet.rebuild` renders (`attrpath_order` when non-empty, `values`
otherwise). Where it equals `denote`, the refinement theorems above speak about the text as well. -/

/-- For sets that do not use `attrpath_order` (built through the API) and whose attrpath families are
    non-empty and hold only bindings, the rendered attributes are exactly what `denote` reads. -/
theorem rendered_eq_denote_values (n : Node) (h : valuesMode n = true) : renderedTree n = denote n :=
  (rendered_eq_denote_aux n h).1

/-! ## Counterexamples (open known findings) -/

private def A (s : String) : Node := .atom s.toList

/-- `{ b = { a.p = 1; a.q = 2; }; }` exactly as the parser builds it: the nested set `b` holds the merged
    attrpath root `a` (`nested = true`) in `values` and two `_AttrpathEntry` items in `attrpath_order`. -/
def docNestedFamily : Doc :=
  let leafP : Node := .bind 5 "p".toList false (A "1") [] []
  let leafQ : Node := .bind 6 "q".toList false (A "2") [] []
  let famA : Node := .bind 3 "a".toList true (.set 4 [leafP, leafQ] [] true false) [] []
  let setB : Node := .set 2 [famA]
    [.entry ["a".toList, "p".toList] leafP (some []) (some []),
     .entry ["a".toList, "q".toList] leafQ (some []) (some [])] true false
  let bindB : Node := .bind 1 "b".toList false setB [] []
  { target := .set 0 [bindB] [bindB] true false, next := 7 }

theorem docNestedFamily_wf : WF docNestedFamily :=
  ⟨rfl, rfl, by decide, by decide, rfl, rfl⟩

/-- FULL statement "what the text shows follows what Nix is meant to read": false of the code. -/
def rendered_follows_full : Prop :=
  ∀ (d : Doc) (p : Text) (d' : Doc), WF d → renderedTree d.target = denote d.target →
    removeValue p d = (.ok (), d') → renderedTree d'.target = denote d'.target

/-- Open finding C05-nested-attrpath-family: `rm b.a.p` succeeds, `values` change as specified, but the
    nested set still renders its (unchanged) `attrpath_order`: the text is what it was. -/
theorem cex_nested_family :
    let d := docNestedFamily
    let d' := (removeValue "b.a.p".toList d).2
    (removeValue "b.a.p".toList d).1 = .ok () ∧
    specRemove (denote d.target) ["b".toList, "a".toList, "p".toList] false = some (denote d'.target) ∧
    renderedTree d.target = denote d.target ∧
    renderedTree d'.target = renderedTree d.target ∧
    renderedTree d'.target ≠ denote d'.target := by
  refine ⟨rfl, rfl, rfl, rfl, ?_⟩
  intro h
  have e1 : renderedTree (removeValue "b.a.p".toList docNestedFamily).2.target =
      .node [("b".toList, .node [("a".toList, .node [("p".toList, .leaf (A "1")), ("q".toList, .leaf (A "2"))])])] := rfl
  have e2 : denote (removeValue "b.a.p".toList docNestedFamily).2.target =
      .node [("b".toList, .node [("a".toList, .node [("q".toList, .leaf (A "2"))])])] := rfl
  rw [e1, e2] at h
  simp at h

theorem cex_rendered_follows : ¬ rendered_follows_full := by
  intro h
  have := h docNestedFamily "b.a.p".toList (removeValue "b.a.p".toList docNestedFamily).2 docNestedFamily_wf rfl rfl
  exact cex_nested_family.2.2.2.2 this

/-- `{ inherit v; }` -/
def docInherit : Doc :=
  let inh : Node := .inherit 1 ["v".toList]
  { target := .set 0 [inh] [inh] true false, next := 2 }

theorem docInherit_wf : WF docInherit := ⟨rfl, rfl, by decide, by decide, rfl, rfl⟩

/-- FULL statement of `set_plain_refines`, excluding only identifier-valued *bindings*: false. -/
def set_plain_full : Prop :=
  ∀ (d : Doc) (p seg : Text) (v : Node), WF d → formatNPath currentAnchor p = .ok [seg] →
    findAttrpathRoot d.target.setValues seg = none →
    (∀ b, findBinding d.target.setValues seg = some b → ∀ val, b.bindValue? = some val → isIdentNode val = false) →
    ∃ d', setValue p (.one v) d = (.ok (), d') ∧ specSet (denote d.target) [seg] v = some (denote d'.target)

/-- Open finding C05-inherit-duplicate: `set v 7` on `{ inherit v; }` appends a binding next
    to the inherit clause; the result defines `v` twice. -/
theorem cex_inherit_duplicate :
    let d' := (setValue "v".toList (.one (A "7")) docInherit).2
    (setValue "v".toList (.one (A "7")) docInherit).1 = .ok () ∧
    (denote d'.target).nodup = false ∧
    specSet (denote docInherit.target) ["v".toList] (A "7") ≠ some (denote d'.target) := by
  refine ⟨rfl, rfl, ?_⟩
  intro h
  have e1 : specSet (denote docInherit.target) ["v".toList] (A "7") =
      some (.node [("v".toList, .leaf (A "7"))]) := rfl
  have e2 : denote (setValue "v".toList (.one (A "7")) docInherit).2.target =
      .node [("v".toList, .leaf (.ident "v".toList)), ("v".toList, .leaf (A "7"))] := rfl
  rw [e1, e2] at h
  simp at h

theorem cex_set_plain_full : ¬ set_plain_full := by
  intro h
  obtain ⟨d', e, hs⟩ := h docInherit "v".toList "v".toList (A "7") docInherit_wf rfl rfl
    (fun b hb => by simp [docInherit, setValues, findBinding_spelled, isBind] at hb)
  have h1 := cex_inherit_duplicate.2.2
  have : d' = (setValue "v".toList (.one (A "7")) docInherit).2 := by rw [e]
  rw [this] at hs
  exact h1 hs

/-! ## The refusal clause -/

inductive Op where | set | rm
deriving DecidableEq

/-- The documented reasons for which `set` / `rm` refuse an editable document, a well-formed path and a
    well-formed value. Nothing here mentions the wrappers around the target set. -/
inductive DocumentedReason (d : Doc) (op : Op) (segs : List Text) : Err → Prop
  /-- `rm` of a key that no binding defines (KeyError) -/
  | rmMissingKey : op = .rm → bindAt d.target segs = none → DocumentedReason d op segs .key
  /-- a value on the way is not an attribute set (ValueError) -/
  | nonSetOnPath (j : Nat) (lf : Node) : 0 < j → j < segs.length →
      treeAt (denote d.target) (segs.take j) = some (.leaf lf) → DocumentedReason d op segs .value
  /-- the path starts at an attrpath root: overwriting / removing the root as a whole, or an explicit
      binding mixed into the attrpath family (ValueError; KeyError for `rm`) -/
  | attrpathFamily (e : Err) : (findAttrpathRoot d.target.setValues (segs.headD [])).isSome = true →
      (e = .value ∨ (op = .rm ∧ e = .key)) → DocumentedReason d op segs e
  /-- `@…@name` asks for more enclosing `let` layers than the document has (ValueError) -/
  | missingScopeLayer (depth : Nat) : depth > (collectScopeLayers d).length → DocumentedReason d op segs .value

/-- `set` refuses an editable document only for a documented reason. -/
theorem refusal_set (d : Doc) (hw : WF d) (p : Text) (segs : List Text) (v : Node)
    (hp : formatNPath currentAnchor p = .ok segs) (hplain : ∀ k ∈ segs.dropLast, plainKey k = true)
    (e : Err) (d' : Doc) (hrun : setValue p (.one v) d = (.error e, d')) :
    DocumentedReason d .set segs e := by
  obtain ⟨c, vs, o, m, r, ht⟩ := (isSet_iff _).mp hw.isSet
  have hne := formatNPath_ne_nil p segs hp
  cases hl : (findAttrpathLeaf d.target segs).isSome with
  | true =>
    obtain ⟨d2, e2, _⟩ := set_attrpath_leaf_refines d hw p segs v hp hl
    rw [e2] at hrun; cases hrun
  | false =>
    have hleaf : findAttrpathLeaf d.target segs = none := by
      cases h : findAttrpathLeaf d.target segs with
      | none => rfl
      | some x => simp [h] at hl
    rw [setValue_unscoped p v d hw.editable (formatNPath_unscoped p _ hp)] at hrun
    cases hs : segs with
    | nil => exact absurd hs hne
    | cons seg0 rest =>
      subst hs
      rw [ht] at hleaf
      cases hr : findAttrpathRoot d.target.setValues seg0 with
      | some root =>
        refine .attrpathFamily e (by simp [hr]) (Or.inl ?_)
        rw [ht] at hr
        cases rest with
        | nil =>
          simp only [setValueInAttrset, hp, ht, setSid_set, hleaf, List.isEmpty_nil, if_true, hr,
            Option.isSome_some, EditM.throw_apply] at hrun
          injection hrun with h1 _; injection h1 with h1; exact h1.symm
        | cons seg1 rest2 =>
          obtain ⟨final, hlast, _⟩ := getLast_split (seg0 :: seg1 :: rest2) (by simp)
          simp only [setValueInAttrset, hp, ht, setSid_set, hleaf, hr, List.isEmpty_cons, Bool.false_eq_true,
            if_false, setAttrpathValue] at hrun
          cases hv : root.bindValue? with
          | none => simp only [hv, EditM.throw_apply] at hrun; injection hrun with h1 _; injection h1 with h1; exact h1.symm
          | some rv =>
            cases hrs : rv.isSet with
            | false =>
              cases rv <;> simp [isSet] at hrs <;>
                (simp only [hv, EditM.throw_apply] at hrun; injection hrun with h1 _; injection h1 with h1; exact h1.symm)
            | true =>
              obtain ⟨s2, vs2, o2, m2, r2, rfl⟩ := (isSet_iff rv).mp hrs
              simp only [hv, EditM.bind_apply, hlast] at hrun
              rcases setAttrpathWalk_res ((seg0 :: seg1 :: rest2).drop 1).dropLast (.set s2 vs2 o2 m2 r2) d rfl with
                ⟨current, d1, ew, hcs⟩ | ⟨d1, ew⟩
              · simp only [ew] at hrun
                obtain ⟨cc, cvs, co, cm, cr, rfl⟩ := (isSet_iff current).mp hcs
                by_cases h1 : (findNamedBinding (Node.set cc cvs co cm cr).setValues final (some true)).isSome = true
                · simp only [h1, if_true, EditM.throw_apply] at hrun
                  injection hrun with h1 _; injection h1 with h1; exact h1.symm
                · simp only [h1] at hrun
                  cases h2 : findNamedBinding (Node.set cc cvs co cm cr).setValues final (some false) with
                  | some b =>
                    simp only [h2] at hrun
                    cases hb : b.bindId? with
                    | none => simp [hb] at hrun
                    | some bid => simp [hb] at hrun
                  | none =>
                    simp only [h2, setSid_set] at hrun
                    cases hrun
              · simp only [ew] at hrun
                injection hrun with h1 _; injection h1 with h1; exact h1.symm
      | none =>
        rw [ht] at hr
        cases rest with
        | nil =>
          exfalso
          simp only [setValueInAttrset, hp, ht, setSid_set, hleaf, List.isEmpty_nil, if_true, hr,
            Option.isSome_none, Bool.false_eq_true, if_false] at hrun
          cases hf : findBinding (Node.set c vs o m r).setValues seg0 with
          | some b =>
            obtain ⟨d2, e2⟩ := assignExisting_ok (.set c vs o m r) (.set c vs o m r) true b v d
            simp only [hf, e2] at hrun; cases hrun
          | none =>
            obtain ⟨d2, e2⟩ := setSetItem_ok (.set c vs o m r) seg0 v d rfl
            simp only [hf, e2] at hrun; cases hrun
        | cons seg1 rest2 =>
          obtain ⟨final, hlast, hsplit⟩ := getLast_split (seg0 :: seg1 :: rest2) (by simp)
          have hlen : (seg0 :: seg1 :: rest2).dropLast.length < (seg0 :: seg1 :: rest2).length := by simp
          have hkn : (denote (Node.set c vs o m r)).nodup = true := by rw [← ht]; exact hw.keys
          simp only [setValueInAttrset, hp, ht, setSid_set, hleaf, hr, List.isEmpty_cons, Bool.false_eq_true,
            if_false, Option.isSome_none, EditM.bind_apply, hlast] at hrun
          cases hwk : resolveParentWalk true (Node.set c vs o m r) (seg0 :: seg1 :: rest2).dropLast d with
          | mk res d1 =>
            cases res with
            | error e1 =>
              simp only [hwk] at hrun
              injection hrun with h1 _; injection h1 with h1; subst h1
              rcases resolveParentWalk_fail true _ _ d d1 e1 hplain rfl hkn hwk with ⟨he, j, hj, lf, htr⟩ | ⟨hc, _⟩
              · subst he
                refine .nonSetOnPath (j + 1) lf (by omega) (by omega) ?_
                rw [ht, ← take_dropLast _ (j + 1) (by omega)]; exact htr
              · cases hc
            | ok parent =>
              exfalso
              simp only [hwk] at hrun
              cases hf : findBinding parent.setValues final with
              | some b =>
                obtain ⟨d2, e2⟩ := assignExisting_ok (.set c vs o m r) parent true b v d1
                simp only [hf, e2] at hrun; cases hrun
              | none =>
                have hps : parent.isSet = true := resolveParentWalk_isSet true _ _ d d1 parent rfl hwk
                obtain ⟨d2, e2⟩ := setSetItem_ok parent final v d1 hps
                simp only [hf, e2] at hrun; cases hrun

/-- `rm` refuses an editable document only for a documented reason. -/
theorem refusal_rm (d : Doc) (hw : WF d) (hcoh : Coh d.target) (p : Text) (segs : List Text)
    (hp : formatNPath currentAnchor p = .ok segs) (hplain : ∀ k ∈ segs.dropLast, plainKey k = true)
    (e : Err) (d' : Doc) (hrun : removeValue p d = (.error e, d')) :
    DocumentedReason d .rm segs e := by
  obtain ⟨c, vs, o, m, r, ht⟩ := (isSet_iff _).mp hw.isSet
  have hne := formatNPath_ne_nil p segs hp
  cases hl : (findAttrpathLeaf d.target segs).isSome with
  | true =>
    obtain ⟨d2, e2, _⟩ := rm_attrpath_refines d hw hcoh p segs hp hl
    rw [e2] at hrun; cases hrun
  | false =>
    rw [removeValue_unscoped p d hw.editable (formatNPath_unscoped p _ hp)] at hrun
    rw [ht] at hl hrun
    cases hs : segs with
    | nil => exact absurd hs hne
    | cons seg0 rest =>
      subst hs
      cases hr : findAttrpathRoot d.target.setValues seg0 with
      | some root =>
        refine .attrpathFamily e (by simp [hr]) ?_
        rw [ht] at hr
        cases rest with
        | nil =>
          simp only [removeValueInAttrset, hp, hl, Bool.false_eq_true, if_false, List.isEmpty_nil, if_true, hr,
            Option.isSome_some, EditM.throw_apply] at hrun
          injection hrun with h1 _; injection h1 with h1; exact Or.inr ⟨rfl, h1.symm⟩
        | cons seg1 rest2 =>
          simp only [removeValueInAttrset, hp, hl, Bool.false_eq_true, if_false, List.isEmpty_cons, hr,
            Option.isSome_some, if_true, removeAttrpathValue] at hrun
          rcases walk_true_res (Node.set c vs o m r) (seg0 :: seg1 :: rest2) false with ⟨st, h1, h2⟩ | h1 | h1
          · exfalso
            have hn : (denote (Node.set c vs o m r)).nodup = true := by rw [← ht]; exact hw.keys
            obtain ⟨_, hch⟩ := walk_chain _ _ _ _ _ hn rfl h2
            obtain ⟨par, i, final, val, bf, af, g1, _⟩ := chain_last false _ _ st (by simp) hch rfl
            simp [findAttrpathLeaf, h2, g1] at hl
          · simp only [h1, EditM.throw_apply] at hrun
            injection hrun with g _; injection g with g; exact Or.inr ⟨rfl, g.symm⟩
          · simp only [h1, EditM.throw_apply] at hrun
            injection hrun with g _; injection g with g; exact Or.inl g.symm
      | none =>
        rw [ht] at hr
        cases rest with
        | nil =>
          simp only [removeValueInAttrset, hp, hl, Bool.false_eq_true, if_false, List.isEmpty_nil, if_true, hr,
            Option.isSome_none] at hrun
          cases hf : findBinding (Node.set c vs o m r).setValues seg0 with
          | some b =>
            exfalso
            obtain ⟨i, ne, val, bf, af, _, _, rfl, _, _⟩ := findBinding_some _ _ _ hf
            simp only [hf, Option.isNone_some, Bool.false_eq_true, if_false,
              setDelItem_some _ seg0 c i ne val bf af d hf rfl] at hrun
            cases hrun
          | none =>
            simp only [hf, Option.isNone_none, if_true, EditM.throw_apply] at hrun
            injection hrun with h1 _; injection h1 with h1; subst h1
            exact .rmMissingKey rfl (by rw [ht]; simp [bindAt, hf])
        | cons seg1 rest2 =>
          obtain ⟨final, hlast, hsplit⟩ := getLast_split (seg0 :: seg1 :: rest2) (by simp)
          have hkn : (denote (Node.set c vs o m r)).nodup = true := by rw [← ht]; exact hw.keys
          simp only [removeValueInAttrset, hp, hl, Bool.false_eq_true, if_false, List.isEmpty_cons, hr,
            Option.isSome_none, EditM.bind_apply, hlast] at hrun
          cases hwk : resolveParentWalk false (Node.set c vs o m r) (seg0 :: seg1 :: rest2).dropLast d with
          | mk res d1 =>
            cases res with
            | error e1 =>
              simp only [hwk] at hrun
              injection hrun with h1 _; injection h1 with h1; subst h1
              rcases resolveParentWalk_fail false _ _ d d1 e1 hplain rfl hkn hwk with ⟨he, j, hj, lf, htr⟩ | ⟨_, he, hb⟩
              · subst he
                have hlen : (seg0 :: seg1 :: rest2).dropLast.length < (seg0 :: seg1 :: rest2).length := by simp
                refine .nonSetOnPath (j + 1) lf (by omega) (by omega) ?_
                rw [ht, ← take_dropLast _ (j + 1) (by omega)]; exact htr
              · subst he
                refine .rmMissingKey rfl ?_
                rw [ht, ← hsplit]; exact hb final
            | ok parent =>
              simp only [hwk] at hrun
              obtain ⟨e1, e2⟩ := resolveParentWalk_false _ _ d (.ok parent) d1 hplain hwk
              obtain ⟨hsub, hps⟩ := e2 parent rfl
              cases hf : findBinding parent.setValues final with
              | some b =>
                exfalso
                obtain ⟨i, ne, val, bf, af, _, _, rfl, _, _⟩ := findBinding_some _ _ _ hf
                obtain ⟨pc, pvs, po, pm, pr, rfl⟩ := (isSet_iff parent).mp (hps rfl)
                rw [setDelItem_some _ final pc i ne val bf af d1 hf rfl] at hrun
                cases hrun
              | none =>
                rw [setDelItem_none _ _ _ hf] at hrun
                injection hrun with h1 _; injection h1 with h1; subst h1
                refine .rmMissingKey rfl ?_
                rw [ht, ← hsplit, bindAt_snoc _ final _ parent hsub]; exact hf

/-- A scope selector that reaches beyond the outermost `let` layer is refused (and the only layer `set`
    creates by itself is the first one of a document that has none). -/
theorem refusal_scope_set (d : Doc) (hed : d.noTarget = none) (p rest : Text) (depth : Nat) (v : Node)
    (hs : splitScopeNpath p = .ok (some (depth, rest)))
    (hnc : ¬ ((collectScopeLayers d).isEmpty = true ∧ depth = 1))
    (hd : depth > (collectScopeLayers d).length) (segs : List Text) :
    setValue p (.one v) d = (.error .value, d) ∧ DocumentedReason d .set segs .value := by
  refine ⟨?_, .missingScopeLayer depth hd⟩
  have hnc' : ((collectScopeLayers d).isEmpty && depth == 1) = false := by
    cases h1 : (collectScopeLayers d).isEmpty <;> cases h2 : (depth == 1) <;> simp_all
  simp only [setValue, hed, hs, resolveTarget, hnc', Bool.false_eq_true, if_false, hd, if_true]

theorem refusal_scope_rm (d : Doc) (hed : d.noTarget = none) (p rest : Text) (depth : Nat)
    (hs : splitScopeNpath p = .ok (some (depth, rest)))
    (hd : depth > (collectScopeLayers d).length) (segs : List Text) :
    removeValue p d = (.error .value, d) ∧ DocumentedReason d .rm segs .value := by
  refine ⟨?_, .missingScopeLayer depth hd⟩
  simp only [removeValue, hed, hs, resolveTarget, hd, if_true]

/-! ## Non-vacuity: a document with an explicit binding, an explicit nested set and a top-level attrpath
family meets the hypotheses of every theorem above. -/

/-- `{ a = 1; b = { c = 2; }; x.y = 3; }` as the parser builds it -/
def docEx : Doc :=
  let leafY : Node := .bind 8 "y".toList false (.atom "3".toList) [] []
  let famX : Node := .bind 6 "x".toList true (.set 7 [leafY] [] true false) [] []
  let bindC : Node := .bind 5 "c".toList false (.atom "2".toList) [] []
  let bindB : Node := .bind 3 "b".toList false (.set 4 [bindC] [bindC] false false) [] []
  let bindA : Node := .bind 2 "a".toList false (.atom "1".toList) [] []
  { target := .set 1 [bindA, bindB, famX]
      [bindA, bindB, .entry ["x".toList, "y".toList] leafY (some []) (some [])] true false, next := 9 }

theorem docEx_wf : WF docEx := ⟨rfl, rfl, by decide, by decide, rfl, rfl⟩

theorem docEx_coh : Coh docEx.target := by
  intro a ha b hb h
  simp only [docEx, occS, occSL, List.mem_cons, List.mem_append, List.not_mem_nil, or_false,
    List.append_nil, List.nil_append] at ha hb
  rcases ha with rfl | (rfl | rfl) | rfl <;> rcases hb with rfl | (rfl | rfl) | rfl <;>
    first | rfl | (simp [setSid?] at h)

example : ∃ d', setValue "a".toList (.one (.atom "5".toList)) docEx = (.ok (), d') ∧
    specSet (denote docEx.target) ["a".toList] (.atom "5".toList) = some (denote d'.target) :=
  set_plain_refines docEx docEx_wf "a".toList "a".toList _ rfl rfl (by
    intro nm h
    have h' : some (AttrTree.leaf (.atom "1".toList)) = some (AttrTree.leaf (.ident nm)) := h
    simp at h')

example : (setValue "b.e".toList (.one (.atom "5".toList)) docEx).1 = .ok () := rfl
example : ∀ d', setValue "b.d.e".toList (.one (.atom "5".toList)) docEx = (.ok (), d') →
    specSet (denote docEx.target) ["b".toList, "d".toList, "e".toList] (.atom "5".toList) =
    some (denote d'.target) :=
  set_nested_explicit_refines docEx docEx_wf "b.d.e".toList "b".toList "d".toList ["e".toList] _ rfl rfl
    (by intro k hk; simp at hk; rcases hk with rfl | rfl <;> exact plainKey_ident _ (by decide))
    (by decide)
    (by intro nm h; cases (h : (none : Option AttrTree) = some _))

example : (setValue "x.z".toList (.one (.atom "5".toList)) docEx).1 = .ok () := rfl
example : ∀ d', setValue "x.z".toList (.one (.atom "5".toList)) docEx = (.ok (), d') →
    specSet (denote docEx.target) ["x".toList, "z".toList] (.atom "5".toList) = some (denote d'.target) :=
  set_attrpath_new_refines docEx docEx_wf "x.z".toList "x".toList "z".toList [] _ rfl rfl rfl (by decide)

example : ∃ d', removeValue "x.y".toList docEx = (.ok (), d') ∧
    specRemove (denote docEx.target) ["x".toList, "y".toList] true = some (denote d'.target) :=
  rm_attrpath_refines docEx docEx_wf docEx_coh "x.y".toList ["x".toList, "y".toList] rfl rfl

example : (removeValue "b.c".toList docEx).1 = .ok () := rfl
example : ∀ d', removeValue "b.c".toList docEx = (.ok (), d') →
    specRemove (denote docEx.target) ["b".toList, "c".toList] false = some (denote d'.target) :=
  rm_nested_explicit_refines docEx docEx_wf "b.c".toList "b".toList "c".toList [] rfl rfl
    (by intro k hk; simp at hk; subst hk; exact plainKey_ident _ (by decide))

/-- pruning really happens: removing the only leaf of `x` removes `x`; removing the only binding of the
    explicit set `b` leaves `b = { }` -/
example : (denote (removeValue "x.y".toList docEx).2.target).kids.map (·.1) = ["a".toList, "b".toList] := rfl
example : (denote (removeValue "b.c".toList docEx).2.target).kids.map (·.1) =
    ["a".toList, "b".toList, "x".toList] := rfl

/-- a refusal and its documented reason -/
example : (setValue "a.q".toList (.one (.atom "5".toList)) docEx).1 = .error .value := rfl
example : ∀ e d', setValue "a.q".toList (.one (.atom "5".toList)) docEx = (.error e, d') →
    DocumentedReason docEx .set ["a".toList, "q".toList] e :=
  refusal_set docEx docEx_wf "a.q".toList ["a".toList, "q".toList] (.atom "5".toList) rfl
    (by intro k hk; simp at hk; subst hk; exact plainKey_ident _ (by decide))

example : ∀ d', setValue "x.z".toList (.one (.atom "5".toList)) docEx = (.ok (), d') →
    ∃ bid final, ["x".toList, "z".toList].getLast? = some final ∧
      d'.target.setOrder.length = (if docEx.target.setOrder.isEmpty then 0 else docEx.target.setOrder.length + 1) ∧
      (docEx.target.setOrder.isEmpty = false → d'.target.setOrder.getLast? =
        some (.entry ["x".toList, "z".toList] (.bind bid final false (.atom "5".toList) [] []) none none)) :=
  set_attrpath_entry_appended docEx docEx_wf "x.z".toList "x".toList "z".toList [] _ rfl rfl rfl

/-! ## For the repaired code (`NameCmp.model`, i.e. lookups through `_same_attr_name`)

Everything above is stated for the name comparison by spelling (`NameCmp.spelled`, declared at the head
of this file). `setValue_model_eq_spelled` / `removeValue_model_eq_spelled` (Lemmas/NameAgree.lean) make
it a statement about the model of the repaired code under the decidable side condition
`NameAgree.noSpellingClash d p`: among the name tokens of the document and the keys of the path no two are
different spellings of one Nix name. The single-operation theorems restated that way (hypotheses about
lookups keep the comparison by spelling, which is the code's on such inputs): -/

theorem repaired_set_is_spelled (p : Text) (v : ValueArg) (d : Doc) (hns : NameAgree.noSpellingClash d p) :
    @setValue NameCmp.model p v d = setValue p v d := NameAgree.setValue_model_eq_spelled p v d hns

theorem repaired_rm_is_spelled (p : Text) (d : Doc) (hns : NameAgree.noSpellingClash d p) :
    @removeValue NameCmp.model p d = removeValue p d := NameAgree.removeValue_model_eq_spelled p d hns

theorem set_plain_refines_repaired (d : Doc) (hw : WF d) (p seg : Text) (v : Node)
    (hp : formatNPath currentAnchor p = .ok [seg])
    (hroot : findAttrpathRoot d.target.setValues seg = none)
    (hnoref : NoRefAt (denote d.target) [seg])
    (hns : NameAgree.noSpellingClash d p) :
    ∃ d', @setValue NameCmp.model p (.one v) d = (.ok (), d') ∧
      specSet (denote d.target) [seg] v = some (denote d'.target) := by
  simp only [NameAgree.setValue_model_eq_spelled p _ d hns, NameAgree.removeValue_model_eq_spelled p d hns] at *
  exact set_plain_refines d hw p seg v hp hroot hnoref

theorem set_nested_explicit_refines_repaired (d : Doc) (hw : WF d) (p : Text) (seg0 seg1 : Text) (rest : List Text) (v : Node)
    (hp : formatNPath currentAnchor p = .ok (seg0 :: seg1 :: rest))
    (hroot : findAttrpathRoot d.target.setValues seg0 = none)
    (hplain : ∀ k ∈ (seg0 :: seg1 :: rest).dropLast, plainKey k = true)
    (hfresh : FreshFor d.target d.next (2 * (rest.length + 1)))
    (hnoref : NoRefAt (denote d.target) (seg0 :: seg1 :: rest))
    (d' : Doc) (hrun : @setValue NameCmp.model p (.one v) d = (.ok (), d'))
    (hns : NameAgree.noSpellingClash d p) :
    specSet (denote d.target) (seg0 :: seg1 :: rest) v = some (denote d'.target) := by
  simp only [NameAgree.setValue_model_eq_spelled p _ d hns, NameAgree.removeValue_model_eq_spelled p d hns] at *
  exact set_nested_explicit_refines d hw p seg0 seg1 rest v hp hroot hplain hfresh hnoref d' hrun

theorem rm_plain_refines_repaired (d : Doc) (hw : WF d) (p seg : Text)
    (hp : formatNPath currentAnchor p = .ok [seg])
    (hroot : findAttrpathRoot d.target.setValues seg = none)
    (hex : (findBinding d.target.setValues seg).isSome = true)
    (hns : NameAgree.noSpellingClash d p) :
    ∃ d', @removeValue NameCmp.model p d = (.ok (), d') ∧
      specRemove (denote d.target) [seg] false = some (denote d'.target) := by
  simp only [NameAgree.setValue_model_eq_spelled p _ d hns, NameAgree.removeValue_model_eq_spelled p d hns] at *
  exact rm_plain_refines d hw p seg hp hroot hex

theorem rm_nested_explicit_refines_repaired (d : Doc) (hw : WF d) (p : Text) (seg0 seg1 : Text) (rest : List Text)
    (hp : formatNPath currentAnchor p = .ok (seg0 :: seg1 :: rest))
    (hroot : findAttrpathRoot d.target.setValues seg0 = none)
    (hplain : ∀ k ∈ (seg0 :: seg1 :: rest).dropLast, plainKey k = true)
    (d' : Doc) (hrun : @removeValue NameCmp.model p d = (.ok (), d'))
    (hns : NameAgree.noSpellingClash d p) :
    specRemove (denote d.target) (seg0 :: seg1 :: rest) false = some (denote d'.target) := by
  simp only [NameAgree.setValue_model_eq_spelled p _ d hns, NameAgree.removeValue_model_eq_spelled p d hns] at *
  exact rm_nested_explicit_refines d hw p seg0 seg1 rest hp hroot hplain d' hrun

theorem set_attrpath_root_refused_repaired (d : Doc) (hw : WF d) (p seg : Text) (v : Node)
    (hp : formatNPath currentAnchor p = .ok [seg])
    (hroot : (findAttrpathRoot d.target.setValues seg).isSome = true)
    (hns : NameAgree.noSpellingClash d p) :
    @setValue NameCmp.model p (.one v) d = (.error .value, d) := by
  simp only [NameAgree.setValue_model_eq_spelled p _ d hns, NameAgree.removeValue_model_eq_spelled p d hns] at *
  exact set_attrpath_root_refused d hw p seg v hp hroot

theorem set_attrpath_leaf_refines_repaired (d : Doc) (hw : WF d) (p : Text) (segs : List Text) (v : Node)
    (hp : formatNPath currentAnchor p = .ok segs)
    (hleaf : (findAttrpathLeaf d.target segs).isSome = true)
    (hns : NameAgree.noSpellingClash d p) :
    ∃ d', @setValue NameCmp.model p (.one v) d = (.ok (), d') ∧
      specSet (denote d.target) segs v = some (denote d'.target) := by
  simp only [NameAgree.setValue_model_eq_spelled p _ d hns, NameAgree.removeValue_model_eq_spelled p d hns] at *
  exact set_attrpath_leaf_refines d hw p segs v hp hleaf

theorem set_attrpath_new_refines_repaired (d : Doc) (hw : WF d) (p : Text) (seg0 seg1 : Text) (rest : List Text) (v : Node)
    (hp : formatNPath currentAnchor p = .ok (seg0 :: seg1 :: rest))
    (hroot : (findAttrpathRoot d.target.setValues seg0).isSome = true)
    (hleaf : findAttrpathLeaf d.target (seg0 :: seg1 :: rest) = none)
    (hfresh : FreshFor d.target d.next (2 * rest.length))
    (d' : Doc) (hrun : @setValue NameCmp.model p (.one v) d = (.ok (), d'))
    (hns : NameAgree.noSpellingClash d p) :
    specSet (denote d.target) (seg0 :: seg1 :: rest) v = some (denote d'.target) := by
  simp only [NameAgree.setValue_model_eq_spelled p _ d hns, NameAgree.removeValue_model_eq_spelled p d hns] at *
  exact set_attrpath_new_refines d hw p seg0 seg1 rest v hp hroot hleaf hfresh d' hrun

theorem rm_attrpath_refines_repaired (d : Doc) (hw : WF d) (hcoh : Coh d.target) (p : Text) (segs : List Text)
    (hp : formatNPath currentAnchor p = .ok segs)
    (hleaf : (findAttrpathLeaf d.target segs).isSome = true)
    (hns : NameAgree.noSpellingClash d p) :
    ∃ d', @removeValue NameCmp.model p d = (.ok (), d') ∧
      specRemove (denote d.target) segs true = some (denote d'.target) := by
  simp only [NameAgree.setValue_model_eq_spelled p _ d hns, NameAgree.removeValue_model_eq_spelled p d hns] at *
  exact rm_attrpath_refines d hw hcoh p segs hp hleaf

theorem set_fresh_goes_last_repaired (d : Doc) (hw : WF d) (p seg : Text) (v : Node)
    (hp : formatNPath currentAnchor p = .ok [seg])
    (hroot : findAttrpathRoot d.target.setValues seg = none)
    (hnew : seg ∉ Kids.keys (denote d.target).kids)
    (hns : NameAgree.noSpellingClash d p) :
    ∃ d', @setValue NameCmp.model p (.one v) d = (.ok (), d') ∧
      d'.target.setValues = d.target.setValues ++ [.bind d.next seg false v [] []] ∧
      d'.target.setOrder = (if d.target.setOrder.isEmpty then []
        else d.target.setOrder ++ [.bind d.next seg false v [] []]) ∧
      (denote d'.target).kids = (denote d.target).kids ++ [(seg, denote v)] := by
  simp only [NameAgree.setValue_model_eq_spelled p _ d hns, NameAgree.removeValue_model_eq_spelled p d hns] at *
  exact set_fresh_goes_last d hw p seg v hp hroot hnew

theorem set_attrpath_entry_appended_repaired (d : Doc) (hw : WF d) (p : Text) (seg0 seg1 : Text) (rest : List Text) (v : Node)
    (hp : formatNPath currentAnchor p = .ok (seg0 :: seg1 :: rest))
    (hroot : (findAttrpathRoot d.target.setValues seg0).isSome = true)
    (hnew : treeAt (denote d.target) (seg0 :: seg1 :: rest) = none)
    (d' : Doc) (hrun : @setValue NameCmp.model p (.one v) d = (.ok (), d'))
    (hns : NameAgree.noSpellingClash d p) :
    ∃ bid final, (seg0 :: seg1 :: rest).getLast? = some final ∧
      d'.target.setOrder.length =
        (if d.target.setOrder.isEmpty then 0 else d.target.setOrder.length + 1) ∧
      (d.target.setOrder.isEmpty = false →
        d'.target.setOrder.getLast? =
          some (.entry (seg0 :: seg1 :: rest) (.bind bid final false v [] []) none none)) := by
  simp only [NameAgree.setValue_model_eq_spelled p _ d hns, NameAgree.removeValue_model_eq_spelled p d hns] at *
  exact set_attrpath_entry_appended d hw p seg0 seg1 rest v hp hroot hnew d' hrun

theorem refusal_set_repaired (d : Doc) (hw : WF d) (p : Text) (segs : List Text) (v : Node)
    (hp : formatNPath currentAnchor p = .ok segs) (hplain : ∀ k ∈ segs.dropLast, plainKey k = true)
    (e : Err) (d' : Doc) (hrun : @setValue NameCmp.model p (.one v) d = (.error e, d'))
    (hns : NameAgree.noSpellingClash d p) :
    DocumentedReason d .set segs e := by
  simp only [NameAgree.setValue_model_eq_spelled p _ d hns, NameAgree.removeValue_model_eq_spelled p d hns] at *
  exact refusal_set d hw p segs v hp hplain e d' hrun

theorem refusal_rm_repaired (d : Doc) (hw : WF d) (hcoh : Coh d.target) (p : Text) (segs : List Text)
    (hp : formatNPath currentAnchor p = .ok segs) (hplain : ∀ k ∈ segs.dropLast, plainKey k = true)
    (e : Err) (d' : Doc) (hrun : @removeValue NameCmp.model p d = (.error e, d'))
    (hns : NameAgree.noSpellingClash d p) :
    DocumentedReason d .rm segs e := by
  simp only [NameAgree.setValue_model_eq_spelled p _ d hns, NameAgree.removeValue_model_eq_spelled p d hns] at *
  exact refusal_rm d hw hcoh p segs hp hplain e d' hrun

theorem refusal_scope_set_repaired (d : Doc) (hed : d.noTarget = none) (p rest : Text) (depth : Nat) (v : Node)
    (hs : splitScopeNpath p = .ok (some (depth, rest)))
    (hnc : ¬ ((collectScopeLayers d).isEmpty = true ∧ depth = 1))
    (hd : depth > (collectScopeLayers d).length) (segs : List Text)
    (hns : NameAgree.noSpellingClash d p) :
    @setValue NameCmp.model p (.one v) d = (.error .value, d) ∧ DocumentedReason d .set segs .value := by
  simp only [NameAgree.setValue_model_eq_spelled p _ d hns, NameAgree.removeValue_model_eq_spelled p d hns] at *
  exact refusal_scope_set d hed p rest depth v hs hnc hd segs

theorem refusal_scope_rm_repaired (d : Doc) (hed : d.noTarget = none) (p rest : Text) (depth : Nat)
    (hs : splitScopeNpath p = .ok (some (depth, rest)))
    (hd : depth > (collectScopeLayers d).length) (segs : List Text)
    (hns : NameAgree.noSpellingClash d p) :
    @removeValue NameCmp.model p d = (.error .value, d) ∧ DocumentedReason d .rm segs .value := by
  simp only [NameAgree.setValue_model_eq_spelled p _ d hns, NameAgree.removeValue_model_eq_spelled p d hns] at *
  exact refusal_scope_rm d hed p rest depth hs hd segs

end Nima.C05
