import NimaVerif.Model.Edit
import NimaVerif.Model.DocWF
import NimaVerif.Lemmas.AttrTree
/-! How the identity-based mutations of the document (`updBind`, `updSet`) act on what Nix reads
(`denote`): an update of the object at a path is a `graft` at that path. -/
namespace Nima
-- name tokens are compared by spelling in this file (see `NameCmp` in Model/Edit.lean)
attribute [local instance] NameCmp.spelled
open Node

/-! ### list forms -/

theorem updBindL_eq_map (id : Nat) (v : Node) (xs : List Node) :
    updBindL id v xs = xs.map (updBind id v) := by
  induction xs with
  | nil => rfl
  | cons x r ih => simp [updBindL, ih]

theorem updSetL_eq_map (sid : Nat) (f : Node → Node) (xs : List Node) :
    updSetL sid f xs = xs.map (updSet sid f) := by
  induction xs with
  | nil => rfl
  | cons x r ih => simp [updSetL, ih]

@[simp] theorem vIdsL_nil : vIdsL [] = [] := rfl
@[simp] theorem vIdsL_cons (x : Node) (xs : List Node) : vIdsL (x :: xs) = vIds x ++ vIdsL xs := rfl
@[simp] theorem vIdsL_append (a b : List Node) : vIdsL (a ++ b) = vIdsL a ++ vIdsL b := by
  induction a with
  | nil => rfl
  | cons x r ih => simp [ih]

@[simp] theorem denoteL_nil : denoteL [] = [] := rfl
@[simp] theorem denoteL_cons (x : Node) (xs : List Node) : denoteL (x :: xs) = denoteI x ++ denoteL xs := rfl
@[simp] theorem denoteL_append (a b : List Node) : denoteL (a ++ b) = denoteL a ++ denoteL b := by
  induction a with
  | nil => rfl
  | cons x r ih => simp [ih]

@[simp] theorem denote_set (s : Nat) (vs o : List Node) (m r : Bool) :
    denote (.set s vs o m r) = .node (denoteL vs) := rfl
@[simp] theorem denoteI_bind (i : Nat) (n : Text) (ne : Bool) (v : Node) (b a : Payload) :
    denoteI (.bind i n ne v b a) = [(n, denote v)] := rfl

theorem vIds_mem_vIdsL (x : Node) (xs : List Node) (hx : x ∈ xs) (i : Nat) (hi : i ∈ vIds x) :
    i ∈ vIdsL xs := by
  induction xs with
  | nil => simp at hx
  | cons y r ih =>
    simp only [vIdsL_cons, List.mem_append]
    rcases List.mem_cons.mp hx with e | hm
    · subst e; exact Or.inl hi
    · exact Or.inr (ih hm)

/-! ### an update does not touch what does not hold the identity -/

mutual
  theorem denote_updBind_notin (id : Nat) (v : Node) :
      (x : Node) → id ∉ vIds x → denote (updBind id v x) = denote x ∧ denoteI (updBind id v x) = denoteI x
    | .atom _, _ => ⟨rfl, rfl⟩
    | .ident _, _ => ⟨rfl, rfl⟩
    | .inherit _ _, _ => ⟨rfl, rfl⟩
    | .entry _ _ _ _, _ => ⟨rfl, rfl⟩
    | .set s vs o m r, h => by
      simp only [vIds, List.mem_cons, not_or] at h
      exact ⟨by simp only [updBind, denote_set, denoteL_updBindL_notin id v vs h.2], rfl⟩
    | .bind i n ne val b a, h => by
      simp only [vIds, List.mem_cons, not_or] at h
      have hi : ¬ i = id := fun e => h.1 e.symm
      constructor
      · simp only [updBind, hi, if_false]; rfl
      · simp only [updBind, hi, if_false, denoteI_bind, (denote_updBind_notin id v val h.2).1]
  theorem denoteL_updBindL_notin (id : Nat) (v : Node) :
      (xs : List Node) → id ∉ vIdsL xs → denoteL (updBindL id v xs) = denoteL xs
    | [], _ => rfl
    | x :: xs, h => by
      simp only [vIdsL_cons, List.mem_append, not_or] at h
      simp only [updBindL, denoteL_cons, (denote_updBind_notin id v x h.1).2,
        denoteL_updBindL_notin id v xs h.2]
end

mutual
  theorem denote_updSet_notin (sid : Nat) (f : Node → Node) :
      (x : Node) → sid ∉ vIds x → denote (updSet sid f x) = denote x ∧ denoteI (updSet sid f x) = denoteI x
    | .atom _, _ => ⟨rfl, rfl⟩
    | .ident _, _ => ⟨rfl, rfl⟩
    | .inherit _ _, _ => ⟨rfl, rfl⟩
    | .entry _ _ _ _, _ => ⟨rfl, rfl⟩
    | .set s vs o m r, h => by
      simp only [vIds, List.mem_cons, not_or] at h
      have hs : ¬ s = sid := fun e => h.1 e.symm
      exact ⟨by simp only [updSet, hs, if_false, denote_set, denoteL_updSetL_notin sid f vs h.2],
             by simp only [updSet, hs, if_false]; rfl⟩
    | .bind i n ne val b a, h => by
      simp only [vIds, List.mem_cons, not_or] at h
      constructor
      · simp only [updSet]; rfl
      · simp only [updSet, denoteI_bind, (denote_updSet_notin sid f val h.2).1]
  theorem denoteL_updSetL_notin (sid : Nat) (f : Node → Node) :
      (xs : List Node) → sid ∉ vIdsL xs → denoteL (updSetL sid f xs) = denoteL xs
    | [], _ => rfl
    | x :: xs, h => by
      simp only [vIdsL_cons, List.mem_append, not_or] at h
      simp only [updSetL, denoteL_cons, (denote_updSet_notin sid f x h.1).2,
        denoteL_updSetL_notin sid f xs h.2]
end

theorem updSetL_append (sid : Nat) (f : Node → Node) (a b : List Node) :
    updSetL sid f (a ++ b) = updSetL sid f a ++ updSetL sid f b := by
  simp [updSetL_eq_map]
theorem updBindL_append (id : Nat) (v : Node) (a b : List Node) :
    updBindL id v (a ++ b) = updBindL id v a ++ updBindL id v b := by
  simp [updBindL_eq_map]

/-! ### finding a binding by name -/

/-- the test of `findBinding` -/
def isNamed (k : Text) (n : Node) : Bool := n.isBind && n.bindName? == some k

theorem isNamed_iff (k : Text) (n : Node) :
    isNamed k n = true ↔ ∃ i ne val bf af, n = .bind i k ne val bf af := by
  cases n <;> simp [isNamed, isBind, bindName?]

theorem findBinding_eq (vs : List Node) (k : Text) : findBinding vs k = vs.find? (isNamed k) := by
  rw [findBinding_spelled]; rfl

/-- `findBinding` spelled out: the first binding named `k`, and where it sits. -/
theorem findBinding_some (vs : List Node) (k : Text) (b : Node) (h : findBinding vs k = some b) :
    ∃ i ne val bf af pre post, b = .bind i k ne val bf af ∧ vs = pre ++ b :: post ∧
      ∀ x ∈ pre, isNamed k x = false := by
  rw [findBinding_eq, List.find?_eq_some_iff_append] at h
  obtain ⟨hb, pre, post, hvs, hpre⟩ := h
  obtain ⟨i, ne, val, bf, af, rfl⟩ := (isNamed_iff k b).mp hb
  exact ⟨i, ne, val, bf, af, pre, post, rfl, hvs, fun x hx => by simpa using hpre x hx⟩

theorem findBinding_none (vs : List Node) (k : Text) (h : findBinding vs k = none) :
    ∀ x ∈ vs, isNamed k x = false := by
  rw [findBinding_eq, List.find?_eq_none] at h
  intro x hx; simpa using h x hx

/-- keys an item defines -/
theorem keys_denoteI_bind (i : Nat) (n : Text) (ne : Bool) (v : Node) (b a : Payload) :
    Kids.keys (denoteI (.bind i n ne v b a)) = [n] := rfl

theorem not_mem_keys_denoteL (k : Text) (vs : List Node) (h1 : ∀ x ∈ vs, isNamed k x = false)
    (h2 : inheritMentions vs k = false) : k ∉ Kids.keys (denoteL vs) := by
  induction vs with
  | nil => simp
  | cons x r ih =>
    have hx := h1 x (by simp)
    have hr := ih (fun y hy => h1 y (by simp [hy])) (by
      simp only [inheritMentions, List.any_cons, Bool.or_eq_false_iff] at h2; exact h2.2)
    simp only [denoteL_cons, Kids.keys_append, List.mem_append, not_or]
    refine ⟨?_, hr⟩
    cases x with
    | bind i n ne v b a =>
      simp only [isNamed, isBind, bindName?, Bool.true_and, beq_eq_false_iff_ne, ne_eq, Option.some.injEq] at hx
      simp; exact fun e => hx e.symm
    | inherit i names =>
      simp only [inheritMentions, List.any_cons, Bool.or_eq_false_iff] at h2
      have := h2.1
      simp only [List.contains_eq_mem, decide_eq_false_iff_not] at this
      simp [denoteI, Kids.keys, this]
    | _ => simp [denoteI]

/-! ### walking down `values` by name -/

/-- the value of the first binding named `k` of a set -/
def stepInto (n : Node) (k : Text) : Option Node := (findBinding n.setValues k).bind (·.bindValue?)

/-- the node reached from `n` along the names `p` -/
def subAt : Node → List Text → Option Node
  | n, [] => some n
  | n, k :: ks => match stepInto n k with
    | some v => subAt v ks
    | none => none

@[simp] theorem subAt_nil (n : Node) : subAt n [] = some n := rfl

theorem stepInto_some (T : Node) (k : Text) (val : Node) (h : stepInto T k = some val) :
    ∃ s o m r i ne bf af pre post, T = .set s (pre ++ .bind i k ne val bf af :: post) o m r ∧
      ∀ x ∈ pre, isNamed k x = false := by
  unfold stepInto at h
  cases hf : findBinding T.setValues k with
  | none => simp [hf] at h
  | some b =>
    simp only [hf, Option.bind_some] at h
    obtain ⟨i, ne, val', bf, af, pre, post, rfl, hvs, hpre⟩ := findBinding_some _ _ _ hf
    simp only [bindValue?, Option.some.injEq] at h
    subst h
    cases T with
    | set s vs o m r =>
      simp only [setValues] at hvs
      exact ⟨s, o, m, r, i, ne, bf, af, pre, post, by rw [hvs], hpre⟩
    | _ => simp [setValues] at hvs

theorem stepInto_of_split (s : Nat) (o : List Node) (m r : Bool) (i : Nat) (k : Text) (ne : Bool)
    (val : Node) (bf af : Payload) (pre post : List Node) (hpre : ∀ x ∈ pre, isNamed k x = false) :
    findBinding (pre ++ .bind i k ne val bf af :: post) k = some (.bind i k ne val bf af) ∧
    stepInto (.set s (pre ++ .bind i k ne val bf af :: post) o m r) k = some val := by
  have h1 : findBinding (pre ++ .bind i k ne val bf af :: post) k = some (.bind i k ne val bf af) := by
    rw [findBinding_eq, List.find?_eq_some_iff_append]
    refine ⟨(isNamed_iff _ _).mpr ⟨_, _, _, _, _, rfl⟩, pre, post, rfl, fun x hx => by simp [hpre x hx]⟩
  exact ⟨h1, by simp [stepInto, setValues, h1, bindValue?]⟩

/-- split of the attributes around a found binding -/
theorem keys_split (k : Text) (pre post : List Node) (i : Nat) (ne : Bool) (val : Node) (bf af : Payload)
    (hn : AttrTree.nodupL (denoteL (pre ++ .bind i k ne val bf af :: post)) = true) :
    k ∉ Kids.keys (denoteL pre) ∧ (denote val).nodup = true := by
  rw [AttrTree.nodupL_iff] at hn
  obtain ⟨h1, h2⟩ := hn
  simp only [denoteL_append, denoteL_cons, denoteI_bind, Kids.keys_append,
    List.singleton_append, Kids.keys_cons] at h1
  rw [List.nodup_append] at h1
  refine ⟨fun hk => h1.2.2 k hk k (by simp) rfl, ?_⟩
  exact h2 (k, denote val) (by simp)

theorem lookup_split (k : Text) (a b : Kids) (t : AttrTree) (h : k ∉ Kids.keys a) :
    Kids.lookup k (a ++ (k, t) :: b) = some t ∧
    (∀ y, Kids.upsert k y (a ++ (k, t) :: b) = a ++ (k, y) :: b) ∧
    Kids.erase k (a ++ (k, t) :: b) = a ++ b := by
  refine ⟨?_, ?_, ?_⟩
  · rw [Kids.lookup_append_right k a _ h]; simp
  · intro y; rw [Kids.upsert_append_right k y a _ h]; simp
  · rw [Kids.erase_append_right k a _ h]; simp

theorem subAt_sid_mem (p : List Text) : ∀ (T cur : Node) (c : Nat), subAt T p = some cur →
    cur.setSid? = some c → c ∈ vIds T := by
  induction p with
  | nil =>
    intro T cur c h hc
    simp at h; subst h
    cases T <;> simp [setSid?] at hc
    subst hc; simp [vIds]
  | cons k ks ih =>
    intro T cur c h hc
    simp only [subAt] at h
    cases hs : stepInto T k with
    | none => simp [hs] at h
    | some val =>
      simp only [hs] at h
      obtain ⟨s, o, m, r, i, ne, bf, af, pre, post, rfl, _⟩ := stepInto_some T k val hs
      have := ih val cur c h hc
      simp [vIds, this]

/-- facts a located binding inherits from the uniqueness of identities -/
theorem ids_split (s : Nat) (pre post : List Node) (i : Nat) (k : Text) (ne : Bool) (val : Node)
    (bf af : Payload) (o : List Node) (m r : Bool)
    (h : (vIds (.set s (pre ++ .bind i k ne val bf af :: post) o m r)).Nodup) :
    (vIds val).Nodup ∧ (∀ c ∈ vIds val, c ≠ s ∧ c ≠ i ∧ c ∉ vIdsL pre ∧ c ∉ vIdsL post) ∧
    i ≠ s ∧ i ∉ vIdsL pre ∧ i ∉ vIdsL post ∧ i ∉ vIds val := by
  simp only [vIds, vIdsL_append, vIdsL_cons, List.nodup_cons, List.mem_append, List.mem_cons,
    not_or, List.nodup_append] at h
  obtain ⟨⟨hs1, ⟨hs2, hs3⟩, hs4⟩, hpre, ⟨⟨hi1, hval⟩, hpost, hx⟩, hy⟩ := h
  refine ⟨hval, ?_, fun e => hs2 e.symm, ?_, ?_, hi1⟩
  · intro c hc
    refine ⟨fun e => hs3 (e ▸ hc), fun e => hi1 (e ▸ hc), ?_, ?_⟩
    · intro hp; exact hy c hp c (Or.inl (Or.inr hc)) rfl
    · intro hp; exact hx c (Or.inr hc) c hp rfl
  · intro hp; exact hy i hp i (Or.inl (Or.inl rfl)) rfl
  · intro hp; exact hx i (Or.inl rfl) i hp rfl

theorem setSid_some (n : Node) (c : Nat) (h : n.setSid? = some c) :
    ∃ vs o m r, n = .set c vs o m r := by
  cases n <;> simp [setSid?] at h
  subst h; exact ⟨_, _, _, _, rfl⟩

/-- what Nix reads at the end of a walk through `values` -/
theorem treeAt_denote (p : List Text) : ∀ (T cur : Node), (denote T).nodup = true →
    subAt T p = some cur → treeAt (denote T) p = some (denote cur) := by
  induction p with
  | nil => intro T cur _ h; simp at h; subst h; simp
  | cons k ks ih =>
    intro T cur hn h
    simp only [subAt] at h
    cases hs : stepInto T k with
    | none => simp [hs] at h
    | some val =>
      simp only [hs] at h
      obtain ⟨s, o, m, r, i, ne, bf, af, pre, post, rfl, _⟩ := stepInto_some T k val hs
      simp only [denote_set, AttrTree.nodup_node] at hn
      obtain ⟨hk, hv⟩ := keys_split k pre post i ne val bf af hn
      simp only [denote_set, denoteL_append, denoteL_cons, denoteI_bind, List.singleton_append, treeAt,
        (lookup_split k (denoteL pre) (denoteL post) (denote val) hk).1]
      exact ih val cur hv h

/-- Lemma A: mutating the AttributeSet object found at path `p` is a graft at `p`. -/
theorem denote_updSet_at (f : Node → Node) (p : List Text) : ∀ (T cur : Node) (c : Nat),
    (vIds T).Nodup → (denote T).nodup = true → subAt T p = some cur → cur.setSid? = some c →
    denote (updSet c f T) = graft p (denote (f cur)) (denote T) := by
  induction p with
  | nil =>
    intro T cur c _ _ h hc
    simp at h; subst h
    obtain ⟨vs, o, m, r, rfl⟩ := setSid_some _ _ hc
    simp [updSet]
  | cons k ks ih =>
    intro T cur c hid hn h hc
    simp only [subAt] at h
    cases hs : stepInto T k with
    | none => simp [hs] at h
    | some val =>
      simp only [hs] at h
      obtain ⟨s, o, m, r, i, ne, bf, af, pre, post, rfl, _⟩ := stepInto_some T k val hs
      obtain ⟨hval, hc', _⟩ := ids_split s pre post i k ne val bf af o m r hid
      obtain ⟨hcs, hci, hcpre, hcpost⟩ := hc' c (subAt_sid_mem ks val cur c h hc)
      simp only [denote_set, AttrTree.nodup_node] at hn
      obtain ⟨hk, hv⟩ := keys_split k pre post i ne val bf af hn
      have hs' : ¬ s = c := fun e => hcs e.symm
      obtain ⟨hl, hu, _⟩ := lookup_split k (denoteL pre) (denoteL post) (denote val) hk
      simp only [updSet, hs', if_false, denote_set, updSetL_append, updSetL, denoteL_append, denoteL_cons,
        denoteI_bind, denoteL_updSetL_notin c f pre hcpre, denoteL_updSetL_notin c f post hcpost,
        List.singleton_append, graft, hl, Option.getD_some, hu]
      rw [ih val cur c hval hv h hc]

theorem subAt_bid_mem (p : List Text) : ∀ (T par : Node) (k : Text) (b : Node) (bid : Nat),
    subAt T p = some par → findBinding par.setValues k = some b → b.bindId? = some bid →
    bid ∈ vIds T := by
  induction p with
  | nil =>
    intro T par k b bid h hf hb
    simp at h; subst h
    obtain ⟨i, ne, val, bf, af, pre, post, rfl, hvs, _⟩ := findBinding_some _ _ _ hf
    simp only [bindId?, Option.some.injEq] at hb
    subst hb
    cases T with
    | set s vs o m r =>
      simp only [setValues] at hvs
      subst hvs
      simp [vIds]
    | _ => simp [setValues] at hvs
  | cons k0 ks ih =>
    intro T par k b bid h hf hb
    simp only [subAt] at h
    cases hs : stepInto T k0 with
    | none => simp [hs] at h
    | some val =>
      simp only [hs] at h
      obtain ⟨s, o, m, r, i, ne, bf, af, pre, post, rfl, _⟩ := stepInto_some T k0 val hs
      have := ih val par k b bid h hf hb
      simp [vIds, this]

/-- Lemma A': assigning to the Binding object found under `k` at path `p` is a graft at `p ++ [k]`. -/
theorem denote_updBind_at (v : Node) (p : List Text) : ∀ (T par : Node) (k : Text) (b : Node) (bid : Nat),
    (vIds T).Nodup → (denote T).nodup = true → subAt T p = some par →
    findBinding par.setValues k = some b → b.bindId? = some bid →
    denote (updBind bid v T) = graft (p ++ [k]) (denote v) (denote T) := by
  induction p with
  | nil =>
    intro T par k b bid hid hn h hf hb
    simp at h; subst h
    obtain ⟨i, ne, val, bf, af, pre, post, rfl, hvs, hpre⟩ := findBinding_some _ _ _ hf
    simp only [bindId?, Option.some.injEq] at hb
    subst hb
    cases T with
    | set s vs o m r =>
      simp only [setValues] at hvs
      subst hvs
      obtain ⟨_, _, _, hipre, hipost, _⟩ := ids_split s pre post i k ne val bf af o m r hid
      simp only [denote_set, AttrTree.nodup_node] at hn
      obtain ⟨hk, _⟩ := keys_split k pre post i ne val bf af hn
      obtain ⟨_, hu, _⟩ := lookup_split k (denoteL pre) (denoteL post) (denote val) hk
      simp only [updBind, denote_set, updBindL_append, updBindL, denoteL_append, denoteL_cons, if_true,
        denoteI_bind, denoteL_updBindL_notin i v pre hipre, denoteL_updBindL_notin i v post hipost,
        List.singleton_append, List.nil_append, graft, hu]
    | _ => simp [setValues] at hvs
  | cons k0 ks ih =>
    intro T par k b bid hid hn h hf hb
    simp only [subAt] at h
    cases hs : stepInto T k0 with
    | none => simp [hs] at h
    | some val =>
      simp only [hs] at h
      obtain ⟨s, o, m, r, i, ne, bf, af, pre, post, rfl, _⟩ := stepInto_some T k0 val hs
      obtain ⟨hval, hc', _⟩ := ids_split s pre post i k0 ne val bf af o m r hid
      obtain ⟨_, hci, hcpre, hcpost⟩ := hc' bid (subAt_bid_mem ks val par k b bid h hf hb)
      simp only [denote_set, AttrTree.nodup_node] at hn
      obtain ⟨hk, hv⟩ := keys_split k0 pre post i ne val bf af hn
      have hi' : ¬ i = bid := fun e => hci e.symm
      obtain ⟨hl, hu, _⟩ := lookup_split k0 (denoteL pre) (denoteL post) (denote val) hk
      simp only [updBind, hi', if_false, denote_set, updBindL_append, updBindL, denoteL_append, denoteL_cons,
        denoteI_bind, denoteL_updBindL_notin bid v pre hcpre, denoteL_updBindL_notin bid v post hcpost,
        List.cons_append, List.nil_append, graft, hl, Option.getD_some, hu,
        ih val par k b bid hval hv h hf hb]

/-! ### the `EditM` monad, unfolded -/
namespace EditM
variable {α β : Type}
@[simp] theorem pure_apply (a : α) (d : Doc) : (pure a : EditM α) d = (.ok a, d) := rfl
@[simp] theorem bind_apply (m : EditM α) (f : α → EditM β) (d : Doc) :
    (m >>= f) d = match m d with
      | (.ok a, d') => f a d'
      | (.error e, d') => (.error e, d') := rfl
@[simp] theorem throw_apply (e : Err) (d : Doc) : (EditM.throw e : EditM α) d = (.error e, d) := rfl
@[simp] theorem get_apply (d : Doc) : EditM.get d = (.ok d, d) := rfl
@[simp] theorem modify_apply (f : Doc → Doc) (d : Doc) : EditM.modify f d = (.ok (), f d) := rfl
end EditM

@[simp] theorem fresh_apply (d : Doc) : fresh d = (.ok d.next, { d with next := d.next + 1 }) := rfl
@[simp] theorem assign_apply (bid : Nat) (v : Node) (d : Doc) : assign bid v d = (.ok (), d.updBind bid v) := rfl
@[simp] theorem appendValue_apply (sid : Nat) (b : Node) (d : Doc) :
    appendValue sid b d = (.ok (), d.updSet sid fun
      | .set s vs o m r => .set s (vs ++ [b]) o m r
      | n => n) := rfl
@[simp] theorem appendOrder_apply (sid : Nat) (x : Node) (d : Doc) :
    appendOrderIfNonEmpty sid x d = (.ok (), d.updSet sid fun
      | .set s vs o m r => if o.isEmpty then .set s vs o m r else .set s vs (o ++ [x]) m r
      | n => n) := rfl

@[simp] theorem Doc.updSet_target (sid : Nat) (f : Node → Node) (d : Doc) :
    (d.updSet sid f).target = Node.updSet sid f d.target := rfl
@[simp] theorem Doc.updBind_target (id : Nat) (v : Node) (d : Doc) :
    (d.updBind id v).target = Node.updBind id v d.target := rfl
@[simp] theorem Doc.updSet_next (sid : Nat) (f : Node → Node) (d : Doc) : (d.updSet sid f).next = d.next := rfl
@[simp] theorem Doc.updBind_next (id : Nat) (v : Node) (d : Doc) : (d.updBind id v).next = d.next := rfl


/-- `values.append(b)` -/
def appF (nb : Node) : Node → Node
  | .set s vs o m r => .set s (vs ++ [nb]) o m r
  | n => n
/-- `if attrpath_order: attrpath_order.append(x)` -/
def ordF (x : Node) : Node → Node
  | .set s vs o m r => if o.isEmpty then .set s vs o m r else .set s vs (o ++ [x]) m r
  | n => n

theorem appendValue_eq (sid : Nat) (b : Node) (d : Doc) :
    appendValue sid b d = (.ok (), d.updSet sid (appF b)) := by
  rfl
theorem appendOrder_eq (sid : Nat) (x : Node) (d : Doc) :
    appendOrderIfNonEmpty sid x d = (.ok (), d.updSet sid (ordF x)) := by
  rfl

mutual
  /-- two mutations of the same object in a row are one mutation -/
  theorem updSet_updSet_same (c : Nat) (f g : Node → Node)
      (hf : ∀ vs o m r, (f (.set c vs o m r)).setSid? = some c) :
      (x : Node) → updSet c g (updSet c f x) = updSet c (g ∘ f) x
    | .atom _ => rfl
    | .ident _ => rfl
    | .inherit _ _ => rfl
    | .entry sg l b a => by simp only [updSet, updSet_updSet_same c f g hf l]
    | .bind i n ne v b a => by simp only [updSet, updSet_updSet_same c f g hf v]
    | .set s vs o m r => by
      by_cases h : s = c
      · subst h
        obtain ⟨vs', o', m', r', e⟩ := setSid_some _ _ (hf vs o m r)
        simp only [updSet, if_true, Function.comp, e]
      · simp only [updSet, h, if_false, updSetL_updSetL_same c f g hf vs, updSetL_updSetL_same c f g hf o]
  theorem updSetL_updSetL_same (c : Nat) (f g : Node → Node)
      (hf : ∀ vs o m r, (f (.set c vs o m r)).setSid? = some c) :
      (xs : List Node) → updSetL c g (updSetL c f xs) = updSetL c (g ∘ f) xs
    | [] => rfl
    | x :: xs => by simp only [updSetL, updSet_updSet_same c f g hf x, updSetL_updSetL_same c f g hf xs]
end


/-- the fields an attribute-level operation leaves alone -/
def Frame (d d' : Doc) : Prop := d'.noTarget = d.noTarget ∧ (d.scratch = none → d'.scratch = none)

theorem Frame.refl (d : Doc) : Frame d d := ⟨rfl, id⟩
theorem Frame.trans {a b c : Doc} (h1 : Frame a b) (h2 : Frame b c) : Frame a c :=
  ⟨h2.1.trans h1.1, fun h => h2.2 (h1.2 h)⟩
theorem Frame.updSet (d : Doc) (c : Nat) (f : Node → Node) : Frame d (d.updSet c f) :=
  ⟨rfl, fun h => by simp [Doc.updSet, h]⟩
theorem Frame.updBind (d : Doc) (i : Nat) (v : Node) : Frame d (d.updBind i v) :=
  ⟨rfl, fun h => by simp [Doc.updBind, h]⟩
theorem Frame.next (d : Doc) (n : Nat) : Frame d { d with next := n } := ⟨rfl, id⟩

theorem setSetItem_fresh (s : Node) (key : Text) (v : Node) (c : Nat) (d : Doc)
    (h1 : findBinding s.setValues key = none) (h2 : s.setSid? = some c) :
    ∃ d', setSetItem s key v d = (.ok (), d') ∧ Frame d d' ∧ d'.next = d.next + 1 ∧
      d'.target = updSet c (ordF (.bind d.next key false v [] []) ∘ appF (.bind d.next key false v [] []))
        d.target := by
  have e : setSetItem s key v d = (.ok (), ((({ d with next := d.next + 1 } : Doc).updSet c
      (appF (.bind d.next key false v [] []))).updSet c (ordF (.bind d.next key false v [] [])))) := by
    simp only [setSetItem, h1, h2, EditM.bind_apply, fresh_apply, appendValue_eq, appendOrder_eq]
  refine ⟨_, e, ?_, rfl, ?_⟩
  · exact (Frame.next d _).trans ((Frame.updSet _ _ _).trans (Frame.updSet _ _ _))
  · simp only [Doc.updSet_target]
    rw [updSet_updSet_same]
    intro vs o m r; rfl

theorem denote_ordF_appF (nb : Node) (s : Nat) (vs o : List Node) (m r : Bool) :
    denote ((ordF nb ∘ appF nb) (.set s vs o m r)) = .node (denoteL vs ++ denoteI nb) := by
  simp only [Function.comp, appF, ordF]
  split <;> simp

theorem isSet_iff (n : Node) : n.isSet = true ↔ ∃ s vs o m r, n = .set s vs o m r := by
  cases n <;> simp [isSet]

/-- value shapes that make `set` write through a reference (C11's business) -/
def isIdentNode : Node → Bool | .ident _ => true | _ => false

theorem assignExisting_plain (ts parent : Node) (wl : Bool) (i : Nat) (k : Text) (ne : Bool) (val : Node)
    (bf af : Payload) (v : Node) (d : Doc) (h : isIdentNode val = false) :
    assignExisting ts parent wl (.bind i k ne val bf af) v d = (.ok (), d.updBind i v) := by
  cases val <;> first | (simp [isIdentNode] at h; done) | rfl

/-- The last step of `set` on the set `par` found at path `p`: the binding named `k` is given the value,
    or appended when there is none. -/
theorem finalSet_denote (ts par : Node) (wl : Bool) (p : List Text) (k : Text) (v : Node) (d : Doc)
    (hid : IdsOK d.target) (hk : KeysOK d.target) (hp : subAt d.target p = some par)
    (hset : par.isSet = true)
    (hni : ∀ b, findBinding par.setValues k = some b → ∀ val, b.bindValue? = some val → isIdentNode val = false)
    (hinh : inheritMentions par.setValues k = false) :
    ∃ d', (∀ b, findBinding par.setValues k = some b → assignExisting ts par wl b v d = (.ok (), d')) ∧
      (findBinding par.setValues k = none → setSetItem par k v d = (.ok (), d')) ∧
      Frame d d' ∧ d'.next ≤ d.next + 1 ∧
      denote d'.target = graft p (.node (Kids.upsert k (denote v) (denote par).kids)) (denote d.target) := by
  obtain ⟨c, vs, o, m, r, rfl⟩ := (isSet_iff par).mp hset
  have htp := treeAt_denote p d.target _ hk hp
  cases hf : findBinding (Node.set c vs o m r).setValues k with
  | some b =>
    obtain ⟨i, ne, val, bf, af, pre, post, rfl, hvs, hpre⟩ := findBinding_some _ _ _ hf
    have hv := hni _ hf val rfl
    refine ⟨d.updBind i v, ?_, by simp, Frame.updBind _ _ _, by simp, ?_⟩
    · intro b hb; injection hb with hb; subst hb
      exact assignExisting_plain _ _ _ _ _ _ _ _ _ _ _ hv
    simp only [Doc.updBind_target]
    rw [denote_updBind_at v p d.target _ k _ i hid hk hp hf rfl,
      graft_append p [k] _ _ _ htp, denote_set, graft_single]
    rfl
  | none =>
    obtain ⟨d', e, hfr, hn, ht⟩ := setSetItem_fresh (Node.set c vs o m r) k v c d hf rfl
    refine ⟨d', by simp, fun _ => e, hfr, by omega, ?_⟩
    rw [ht, denote_updSet_at _ p d.target _ c hid hk hp rfl, denote_ordF_appF]
    have : k ∉ Kids.keys (denoteL vs) := not_mem_keys_denoteL k vs (findBinding_none _ _ hf) hinh
    simp only [denote_set, AttrTree.kids, denoteI_bind, Kids.upsert_of_not_mem k _ _ this]

mutual
  theorem vIds_updSet_notin (c : Nat) (f : Node → Node) :
      (x : Node) → c ∉ vIds x → vIds (updSet c f x) = vIds x
    | .atom _, _ => rfl
    | .ident _, _ => rfl
    | .inherit _ _, _ => rfl
    | .entry _ _ _ _, _ => rfl
    | .set s vs o m r, h => by
      simp only [vIds, List.mem_cons, not_or] at h
      have hs : ¬ s = c := fun e => h.1 e.symm
      simp only [updSet, hs, if_false, vIds, vIdsL_updSetL_notin c f vs h.2]
    | .bind i n ne val b a, h => by
      simp only [vIds, List.mem_cons, not_or] at h
      simp only [updSet, vIds, vIds_updSet_notin c f val h.2]
  theorem vIdsL_updSetL_notin (c : Nat) (f : Node → Node) :
      (xs : List Node) → c ∉ vIdsL xs → vIdsL (updSetL c f xs) = vIdsL xs
    | [], _ => rfl
    | x :: xs, h => by
      simp only [vIdsL_cons, List.mem_append, not_or] at h
      simp only [updSetL, vIdsL_cons, vIds_updSet_notin c f x h.1, vIdsL_updSetL_notin c f xs h.2]
end

theorem isNamed_updSet (c : Nat) (f : Node → Node) (k : Text) (x : Node) (h : c ∉ vIds x) :
    isNamed k (updSet c f x) = isNamed k x := by
  cases x with
  | set s vs o m r =>
    simp only [vIds, List.mem_cons, not_or] at h
    have hs : ¬ s = c := fun e => h.1 e.symm
    simp [updSet, hs, isNamed, isBind]
  | bind i n ne val b a => simp [updSet, isNamed, isBind, bindName?]
  | _ => rfl

theorem isNamed_updSetL (c : Nat) (f : Node → Node) (k : Text) (xs : List Node) (h : c ∉ vIdsL xs)
    (hx : ∀ x ∈ xs, isNamed k x = false) : ∀ x ∈ updSetL c f xs, isNamed k x = false := by
  induction xs with
  | nil => simp [updSetL]
  | cons y r ih =>
    simp only [vIdsL_cons, List.mem_append, not_or] at h
    intro x hm
    simp only [updSetL, List.mem_cons] at hm
    rcases hm with e | hm
    · subst e; rw [isNamed_updSet c f k y h.1]; exact hx y (by simp)
    · exact ih h.2 (fun z hz => hx z (by simp [hz])) x hm

/-- walking to the mutated object finds it mutated -/
theorem subAt_updSet (f : Node → Node) (p : List Text) : ∀ (T cur : Node) (c : Nat),
    (vIds T).Nodup → subAt T p = some cur → cur.setSid? = some c →
    subAt (updSet c f T) p = some (f cur) := by
  induction p with
  | nil =>
    intro T cur c _ h hc
    simp at h; subst h
    obtain ⟨vs, o, m, r, rfl⟩ := setSid_some _ _ hc
    simp [updSet]
  | cons k ks ih =>
    intro T cur c hid h hc
    simp only [subAt] at h
    cases hs : stepInto T k with
    | none => simp [hs] at h
    | some val =>
      simp only [hs] at h
      obtain ⟨s, o, m, r, i, ne, bf, af, pre, post, rfl, hpre⟩ := stepInto_some T k val hs
      obtain ⟨hval, hc', _⟩ := ids_split s pre post i k ne val bf af o m r hid
      obtain ⟨hcs, hci, hcpre, hcpost⟩ := hc' c (subAt_sid_mem ks val cur c h hc)
      have hs' : ¬ s = c := fun e => hcs e.symm
      simp only [updSet, hs', if_false, updSetL_append, updSetL, subAt]
      rw [(stepInto_of_split s _ m r i k ne _ bf af _ _ (isNamed_updSetL c f k pre hcpre hpre)).2]
      exact ih val cur c hval h hc

theorem subAt_append (p q : List Text) (T : Node) :
    subAt T (p ++ q) = (subAt T p).bind (subAt · q) := by
  induction p generalizing T with
  | nil => simp
  | cons k ks ih =>
    simp only [List.cons_append, subAt]
    cases stepInto T k with
    | none => simp
    | some v => simp [ih]

/-- identities after appending `nb` to the `values` of the object found at path `p` -/
theorem vIds_updSet_app (nb : Node) (f : Node → Node) (c : Nat)
    (hf : ∀ vs o m r, ∃ o', f (.set c vs o m r) = .set c (vs ++ [nb]) o' m r)
    (p : List Text) : ∀ (T cur : Node), (vIds T).Nodup → subAt T p = some cur → cur.setSid? = some c →
    (vIds (updSet c f T)).Perm (vIds T ++ vIds nb) := by
  induction p with
  | nil =>
    intro T cur _ h hc
    simp at h; subst h
    obtain ⟨vs, o, m, r, rfl⟩ := setSid_some _ _ hc
    obtain ⟨o', e⟩ := hf vs o m r
    simp [updSet, e, vIds]
  | cons k ks ih =>
    intro T cur hid h hc
    simp only [subAt] at h
    cases hs : stepInto T k with
    | none => simp [hs] at h
    | some val =>
      simp only [hs] at h
      obtain ⟨s, o, m, r, i, ne, bf, af, pre, post, rfl, hpre⟩ := stepInto_some T k val hs
      obtain ⟨hval, hc', _⟩ := ids_split s pre post i k ne val bf af o m r hid
      obtain ⟨hcs, hci, hcpre, hcpost⟩ := hc' c (subAt_sid_mem ks val cur c h hc)
      have hs' : ¬ s = c := fun e => hcs e.symm
      have ihv := ih val cur hval h hc
      simp only [updSet, hs', if_false, updSetL_append, updSetL, vIds, vIdsL_append, vIdsL_cons,
        vIdsL_updSetL_notin c f pre hcpre, vIdsL_updSetL_notin c f post hcpost, List.cons_append]
      refine List.Perm.cons s ?_
      rw [List.append_assoc (vIdsL pre)]
      refine List.Perm.append_left _ ?_
      simp only [List.cons_append]
      refine List.Perm.cons i ?_
      -- V' ++ Q ~ (V ++ Q) ++ N
      have : (vIds (updSet c f val) ++ vIdsL post).Perm ((vIds val ++ vIds nb) ++ vIdsL post) :=
        List.Perm.append_right _ ihv
      refine this.trans ?_
      rw [List.append_assoc, List.append_assoc]
      exact List.Perm.append_left _ List.perm_append_comm

/-! ### coherence of the copies of an AttributeSet object -/

@[simp] theorem occSL_nil : occSL [] = [] := rfl
@[simp] theorem occSL_cons (x : Node) (xs : List Node) : occSL (x :: xs) = occS x ++ occSL xs := rfl
theorem occSL_append (a b : List Node) : occSL (a ++ b) = occSL a ++ occSL b := by
  induction a with
  | nil => rfl
  | cons x r ih => simp [ih]

theorem mem_occSL (a : Node) (xs : List Node) : a ∈ occSL xs ↔ ∃ x ∈ xs, a ∈ occS x := by
  induction xs with
  | nil => simp
  | cons y r ih => simp [ih]

mutual
  def nsize : Node → Nat
    | .set _ vs o _ _ => 1 + nsizeL vs + nsizeL o
    | .bind _ _ _ v _ _ => 1 + nsize v
    | .entry _ l _ _ => 1 + nsize l
    | _ => 1
  def nsizeL : List Node → Nat
    | [] => 0
    | x :: xs => nsize x + nsizeL xs
end

mutual
  theorem nsize_occS : (x a : Node) → a ∈ occS x → nsize a ≤ nsize x
    | .atom _, a, h => by simp [occS] at h
    | .ident _, a, h => by simp [occS] at h
    | .inherit _ _, a, h => by simp [occS] at h
    | .entry _ l _ _, a, h => by
      simp only [occS] at h; have := nsize_occS l a h; simp only [nsize]; omega
    | .bind _ _ _ v _ _, a, h => by
      simp only [occS] at h; have := nsize_occS v a h; simp only [nsize]; omega
    | .set s vs o m r, a, h => by
      simp only [occS, List.mem_cons, List.mem_append] at h
      rcases h with rfl | h | h
      · exact Nat.le_refl _
      · have := nsizeL_occSL vs a h; simp only [nsize]; omega
      · have := nsizeL_occSL o a h; simp only [nsize]; omega
  theorem nsizeL_occSL : (xs : List Node) → (a : Node) → a ∈ occSL xs → nsize a ≤ nsizeL xs
    | [], a, h => by simp at h
    | x :: xs, a, h => by
      simp only [occSL_cons, List.mem_append] at h
      simp only [nsizeL]
      rcases h with h | h
      · have := nsize_occS x a h; omega
      · have := nsizeL_occSL xs a h; omega
end

/-- the occurrences strictly inside a set -/
def strictOcc (P : Node) : List Node := occSL P.setValues ++ occSL P.setOrder

theorem nsize_strictOcc (P a : Node) (h : a ∈ strictOcc P) : nsize a < nsize P := by
  cases P with
  | set s vs o m r =>
    simp only [strictOcc, setValues, setOrder, List.mem_append] at h
    simp only [nsize]
    rcases h with h | h
    · have := nsizeL_occSL vs a h; omega
    · have := nsizeL_occSL o a h; omega
  | _ => simp [strictOcc, setValues, setOrder] at h

theorem strictOcc_sub (P a : Node) (h : a ∈ strictOcc P) : a ∈ occS P := by
  cases P with
  | set s vs o m r => simp only [strictOcc, setValues, setOrder] at h; simp [occS, h]
  | _ => simp [strictOcc, setValues, setOrder] at h

mutual
  theorem occS_isSet : (x a : Node) → a ∈ occS x → a.isSet = true
    | .atom _, a, h => by simp [occS] at h
    | .ident _, a, h => by simp [occS] at h
    | .inherit _ _, a, h => by simp [occS] at h
    | .entry _ l _ _, a, h => occS_isSet l a (by simpa [occS] using h)
    | .bind _ _ _ v _ _, a, h => occS_isSet v a (by simpa [occS] using h)
    | .set s vs o m r, a, h => by
      simp only [occS, List.mem_cons, List.mem_append] at h
      rcases h with rfl | h | h
      · rfl
      · exact occSL_isSet vs a h
      · exact occSL_isSet o a h
  theorem occSL_isSet : (xs : List Node) → (a : Node) → a ∈ occSL xs → a.isSet = true
    | [], a, h => by simp at h
    | x :: xs, a, h => by
      simp only [occSL_cons, List.mem_append] at h
      rcases h with h | h
      · exact occS_isSet x a h
      · exact occSL_isSet xs a h
end


mutual
  theorem findSet_mem (c : Nat) : (x r : Node) → findSet c x = some r → r ∈ occS x ∧ r.setSid? = some c
    | .atom _, r, h => by simp [findSet] at h
    | .ident _, r, h => by simp [findSet] at h
    | .inherit _ _, r, h => by simp [findSet] at h
    | .entry _ l _ _, r, h => by simpa [occS] using findSet_mem c l r (by simpa [findSet] using h)
    | .bind _ _ _ v _ _, r, h => by simpa [occS] using findSet_mem c v r (by simpa [findSet] using h)
    | .set s vs o m rr, r, h => by
      simp only [findSet] at h
      by_cases hs : s = c
      · simp only [hs, if_true, Option.some.injEq] at h
        subst h; simp [occS, setSid?, hs]
      · simp only [hs, if_false] at h
        cases hv : findSetL c vs with
        | some x =>
          simp only [hv, Option.some.injEq] at h; subst h
          have := findSetL_mem c vs x hv
          exact ⟨by simp [occS, this.1], this.2⟩
        | none =>
          simp only [hv] at h
          have := findSetL_mem c o r h
          exact ⟨by simp [occS, this.1], this.2⟩
  theorem findSetL_mem (c : Nat) : (xs : List Node) → (r : Node) → findSetL c xs = some r →
      r ∈ occSL xs ∧ r.setSid? = some c
    | [], r, h => by simp [findSetL] at h
    | x :: xs, r, h => by
      simp only [findSetL] at h
      cases hx : findSet c x with
      | some y =>
        simp only [hx, Option.some.injEq] at h; subst h
        have := findSet_mem c x y hx
        exact ⟨by simp [this.1], this.2⟩
      | none =>
        simp only [hx] at h
        have := findSetL_mem c xs r h
        exact ⟨by simp [this.1], this.2⟩
end

mutual
  theorem findSet_isSome (c : Nat) : (x a : Node) → a ∈ occS x → a.setSid? = some c → (findSet c x).isSome = true
    | .atom _, a, h, _ => by simp [occS] at h
    | .ident _, a, h, _ => by simp [occS] at h
    | .inherit _ _, a, h, _ => by simp [occS] at h
    | .entry _ l _ _, a, h, hc => by simpa [findSet] using findSet_isSome c l a (by simpa [occS] using h) hc
    | .bind _ _ _ v _ _, a, h, hc => by simpa [findSet] using findSet_isSome c v a (by simpa [occS] using h) hc
    | .set s vs o m r, a, h, hc => by
      simp only [findSet]
      by_cases hs : s = c
      · simp [hs]
      · simp only [hs, if_false]
        simp only [occS, List.mem_cons, List.mem_append] at h
        rcases h with rfl | h | h
        · simp [setSid?] at hc; exact absurd hc hs
        · have := findSetL_isSome c vs a h hc
          cases hv : findSetL c vs with
          | some x => rfl
          | none => simp [hv] at this
        · cases hv : findSetL c vs with
          | some x => rfl
          | none => exact findSetL_isSome c o a h hc
  theorem findSetL_isSome (c : Nat) : (xs : List Node) → (a : Node) → a ∈ occSL xs → a.setSid? = some c →
      (findSetL c xs).isSome = true
    | [], a, h, _ => by simp at h
    | x :: xs, a, h, hc => by
      simp only [occSL_cons, List.mem_append] at h
      simp only [findSetL]
      cases hx : findSet c x with
      | some y => rfl
      | none =>
        rcases h with h | h
        · have := findSet_isSome c x a h hc; simp [hx] at this
        · exact findSetL_isSome c xs a h hc
end

theorem subAt_mem_occS (p : List Text) : ∀ (T cur : Node), subAt T p = some cur → cur.isSet = true →
    cur ∈ occS T := by
  induction p with
  | nil =>
    intro T cur h hs
    simp at h; subst h
    obtain ⟨s, vs, o, m, r, rfl⟩ := (isSet_iff T).mp hs
    simp [occS]
  | cons k ks ih =>
    intro T cur h hs
    simp only [subAt] at h
    cases hst : stepInto T k with
    | none => simp [hst] at h
    | some val =>
      simp only [hst] at h
      obtain ⟨s, o, m, r, i, ne, bf, af, pre, post, rfl, _⟩ := stepInto_some T k val hst
      have := ih val cur h hs
      simp [occS, occSL_append, this]

/-- with coherent copies, `findSet` returns the object as it is at its place in `values` -/
theorem findSet_of_subAt (T cur : Node) (c : Nat) (p : List Text) (hcoh : Coh T)
    (hp : subAt T p = some cur) (hc : cur.setSid? = some c) : findSet c T = some cur := by
  obtain ⟨vs, o, m, r, rfl⟩ := setSid_some _ _ hc
  have hm := subAt_mem_occS p T _ hp rfl
  have hs := findSet_isSome c T _ hm hc
  cases hf : findSet c T with
  | none => simp [hf] at hs
  | some x =>
    obtain ⟨hx, hxc⟩ := findSet_mem c T x hf
    rw [hcoh x hx _ hm (by rw [hxc, hc])]

/-- a mutation that only removes items from `values` / `attrpath_order` -/
def Shrinks (g : Node → Node) : Prop :=
  ∀ s vs o m r, ∃ vs' o', g (.set s vs o m r) = .set s vs' o' m r ∧ vs'.Sublist vs ∧ o'.Sublist o

theorem occSL_sublist (xs ys : List Node) (h : xs.Sublist ys) (a : Node) (ha : a ∈ occSL xs) : a ∈ occSL ys := by
  induction h with
  | slnil => exact ha
  | cons y _ ih => simp [ih ha]
  | cons_cons y _ ih =>
    simp only [occSL_cons, List.mem_append] at ha ⊢
    rcases ha with h | h
    · exact Or.inl h
    · exact Or.inr (ih h)

theorem occS_shrinks (g : Node → Node) (hg : Shrinks g) (P a : Node) (hP : P.isSet = true)
    (ha : a ∈ occS (g P)) : a = g P ∨ a ∈ strictOcc P := by
  obtain ⟨s, vs, o, m, r, rfl⟩ := (isSet_iff P).mp hP
  obtain ⟨vs', o', e, h1, h2⟩ := hg s vs o m r
  rw [e] at ha ⊢
  simp only [occS, List.mem_cons, List.mem_append] at ha
  rcases ha with h | h | h
  · exact Or.inl h
  · right; simp [strictOcc, setValues, occSL_sublist _ _ h1 a h]
  · right; simp [strictOcc, setOrder, occSL_sublist _ _ h2 a h]

mutual
  theorem updSet_id_of_no_occ (c : Nat) (g : Node → Node) :
      (y : Node) → (∀ q ∈ occS y, q.setSid? ≠ some c) → updSet c g y = y
    | .atom _, _ => rfl
    | .ident _, _ => rfl
    | .inherit _ _, _ => rfl
    | .entry sg l b a, h => by
      simp only [updSet, updSet_id_of_no_occ c g l (fun q hq => h q (by simpa [occS] using hq))]
    | .bind i n ne v b a, h => by
      simp only [updSet, updSet_id_of_no_occ c g v (fun q hq => h q (by simpa [occS] using hq))]
    | .set s vs o m r, h => by
      have hs : ¬ s = c := by
        intro e; exact h (.set s vs o m r) (by simp [occS]) (by simp [setSid?, e])
      simp only [updSet, hs, if_false,
        updSetL_id_of_no_occ c g vs (fun q hq => h q (by simp [occS, hq])),
        updSetL_id_of_no_occ c g o (fun q hq => h q (by simp [occS, hq]))]
  theorem updSetL_id_of_no_occ (c : Nat) (g : Node → Node) :
      (ys : List Node) → (∀ q ∈ occSL ys, q.setSid? ≠ some c) → updSetL c g ys = ys
    | [], _ => rfl
    | y :: ys, h => by
      simp only [updSetL, updSet_id_of_no_occ c g y (fun q hq => h q (by simp [hq])),
        updSetL_id_of_no_occ c g ys (fun q hq => h q (by simp [hq]))]
end

mutual
  theorem occS_updSet (c : Nat) (g : Node → Node) : (x a' : Node) → a' ∈ occS (updSet c g x) →
      (∃ a ∈ occS x, a.setSid? ≠ some c ∧ a' = updSet c g a) ∨
      (∃ P ∈ occS x, P.setSid? = some c ∧ a' ∈ occS (g P))
    | .atom _, a', h => by simp [updSet, occS] at h
    | .ident _, a', h => by simp [updSet, occS] at h
    | .inherit _ _, a', h => by simp [updSet, occS] at h
    | .entry sg l b a, a', h => by
      simpa [occS] using occS_updSet c g l a' (by simpa [updSet, occS] using h)
    | .bind i n ne v b a, a', h => by
      simpa [occS] using occS_updSet c g v a' (by simpa [updSet, occS] using h)
    | .set s vs o m r, a', h => by
      by_cases hs : s = c
      · right
        simp only [updSet, hs, if_true] at h
        exact ⟨.set s vs o m r, by simp [occS], by simp [setSid?, hs], by rw [hs]; exact h⟩
      · simp only [updSet, hs, if_false, occS, List.mem_cons, List.mem_append] at h
        rcases h with h | h | h
        · left
          refine ⟨.set s vs o m r, by simp [occS], by simp [setSid?, hs], ?_⟩
          simp only [updSet, hs, if_false]; exact h
        · rcases occSL_updSetL c g vs a' h with ⟨a, ha, h1, h2⟩ | ⟨P, hP, h1, h2⟩
          · exact Or.inl ⟨a, by simp [occS, ha], h1, h2⟩
          · exact Or.inr ⟨P, by simp [occS, hP], h1, h2⟩
        · rcases occSL_updSetL c g o a' h with ⟨a, ha, h1, h2⟩ | ⟨P, hP, h1, h2⟩
          · exact Or.inl ⟨a, by simp [occS, ha], h1, h2⟩
          · exact Or.inr ⟨P, by simp [occS, hP], h1, h2⟩
  theorem occSL_updSetL (c : Nat) (g : Node → Node) : (xs : List Node) → (a' : Node) →
      a' ∈ occSL (updSetL c g xs) →
      (∃ a ∈ occSL xs, a.setSid? ≠ some c ∧ a' = updSet c g a) ∨
      (∃ P ∈ occSL xs, P.setSid? = some c ∧ a' ∈ occS (g P))
    | [], a', h => by simp [updSetL] at h
    | x :: xs, a', h => by
      simp only [updSetL, occSL_cons, List.mem_append] at h
      rcases h with h | h
      · rcases occS_updSet c g x a' h with ⟨a, ha, h1, h2⟩ | ⟨P, hP, h1, h2⟩
        · exact Or.inl ⟨a, by simp [ha], h1, h2⟩
        · exact Or.inr ⟨P, by simp [hP], h1, h2⟩
      · rcases occSL_updSetL c g xs a' h with ⟨a, ha, h1, h2⟩ | ⟨P, hP, h1, h2⟩
        · exact Or.inl ⟨a, by simp [ha], h1, h2⟩
        · exact Or.inr ⟨P, by simp [hP], h1, h2⟩
end

mutual
  theorem occS_trans : (x a b : Node) → a ∈ occS x → b ∈ occS a → b ∈ occS x
    | .atom _, a, b, ha, _ => by simp [occS] at ha
    | .ident _, a, b, ha, _ => by simp [occS] at ha
    | .inherit _ _, a, b, ha, _ => by simp [occS] at ha
    | .entry sg l bb aa, a, b, ha, hb => by
      simp only [occS] at ha ⊢; exact occS_trans l a b ha hb
    | .bind i n ne v bb aa, a, b, ha, hb => by
      simp only [occS] at ha ⊢; exact occS_trans v a b ha hb
    | .set s vs o m r, a, b, ha, hb => by
      simp only [occS, List.mem_cons, List.mem_append] at ha
      rcases ha with rfl | ha | ha
      · exact hb
      · simp only [occS, List.mem_cons, List.mem_append]
        exact Or.inr (Or.inl (occSL_trans vs a b ha hb))
      · simp only [occS, List.mem_cons, List.mem_append]
        exact Or.inr (Or.inr (occSL_trans o a b ha hb))
  theorem occSL_trans : (xs : List Node) → (a b : Node) → a ∈ occSL xs → b ∈ occS a → b ∈ occSL xs
    | [], a, b, ha, _ => by simp at ha
    | x :: xs, a, b, ha, hb => by
      simp only [occSL_cons, List.mem_append] at ha ⊢
      rcases ha with ha | ha
      · exact Or.inl (occS_trans x a b ha hb)
      · exact Or.inr (occSL_trans xs a b ha hb)
end

theorem updSet_sid_ne (c : Nat) (g : Node → Node) (a : Node) (hs : a.isSet = true) (h : a.setSid? ≠ some c) :
    (updSet c g a).setSid? = a.setSid? := by
  obtain ⟨s, vs, o, m, r, rfl⟩ := (isSet_iff a).mp hs
  have : ¬ s = c := by intro e; exact h (by simp [setSid?, e])
  simp [updSet, this, setSid?]

theorem shrinks_sid (g : Node → Node) (hg : Shrinks g) (P : Node) (hs : P.isSet = true) :
    (g P).setSid? = P.setSid? := by
  obtain ⟨s, vs, o, m, r, rfl⟩ := (isSet_iff P).mp hs
  obtain ⟨vs', o', e, _, _⟩ := hg s vs o m r
  rw [e]; rfl

/-- nothing strictly inside a copy of the object `c` is a copy of `c` -/
theorem no_occ_inside (x P b : Node) (c : Nat) (hx : Coh x) (hP : P ∈ occS x) (hPc : P.setSid? = some c)
    (hb : b ∈ strictOcc P) : ∀ q ∈ occS b, q.setSid? ≠ some c := by
  intro q hq hqc
  have hbx : b ∈ occS x := occS_trans x P b hP (strictOcc_sub P b hb)
  have hqx : q ∈ occS x := occS_trans x b q hbx hq
  have : q = P := hx q hqx P hP (by rw [hqc, hPc])
  subst this
  have h1 := nsize_occS b q hq
  have h2 := nsize_strictOcc q b hb
  omega

/-- Coherence survives a removal made on every copy of one object. -/
theorem coh_updSet (c : Nat) (g : Node → Node) (hg : Shrinks g) (x : Node) (hx : Coh x) :
    Coh (updSet c g x) := by
  intro a' ha' b' hb' hsid
  -- classify an occurrence of the result
  have classify : ∀ z', z' ∈ occS (updSet c g x) →
      (∃ z ∈ occS x, z.setSid? ≠ some c ∧ z' = updSet c g z ∧ z'.setSid? = z.setSid?) ∨
      (∃ P ∈ occS x, P.setSid? = some c ∧ z' = g P ∧ z'.setSid? = some c) ∨
      (∃ P ∈ occS x, P.setSid? = some c ∧ z' ∈ strictOcc P ∧ z' ∈ occS x) := by
    intro z' hz'
    rcases occS_updSet c g x z' hz' with ⟨z, hz, h1, h2⟩ | ⟨P, hP, h1, h2⟩
    · exact Or.inl ⟨z, hz, h1, h2, by rw [h2]; exact updSet_sid_ne c g z (occS_isSet x z hz) h1⟩
    · rcases occS_shrinks g hg P z' (occS_isSet x P hP) h2 with e | hin
      · exact Or.inr (Or.inl ⟨P, hP, h1, e, by rw [e, shrinks_sid g hg P (occS_isSet x P hP), h1]⟩)
      · exact Or.inr (Or.inr ⟨P, hP, h1, hin, occS_trans x P z' hP (strictOcc_sub P z' hin)⟩)
  rcases classify a' ha' with ⟨a, ha, ha1, ha2, ha3⟩ | ⟨P, hP, hP1, ha2, ha3⟩ | ⟨P, hP, hP1, hin, hax⟩ <;>
  rcases classify b' hb' with ⟨b, hb, hb1, hb2, hb3⟩ | ⟨Q, hQ, hQ1, hb2, hb3⟩ | ⟨Q, hQ, hQ1, hjn, hbx⟩
  · have : a = b := hx a ha b hb (by rw [← ha3, ← hb3, hsid])
    rw [ha2, hb2, this]
  · exfalso; apply ha1; rw [← ha3, hsid, hb3]
  · have : a = b' := hx a ha b' hbx (by rw [← ha3, hsid])
    rw [ha2, this]
    exact updSet_id_of_no_occ c g b' (no_occ_inside x Q b' c hx hQ hQ1 hjn)
  · exfalso; apply hb1; rw [← hb3, ← hsid, ha3]
  · have : P = Q := hx P hP Q hQ (by rw [hP1, hQ1])
    rw [ha2, hb2, this]
  · exfalso
    have : b' = Q := hx b' hbx Q hQ (by rw [← hsid, ha3, hQ1])
    rw [this] at hjn
    have := nsize_strictOcc Q Q hjn
    omega
  · have : b = a' := hx b hb a' hax (by rw [← hb3, ← hsid])
    rw [hb2, this]
    exact (updSet_id_of_no_occ c g a' (no_occ_inside x P a' c hx hP hP1 hin)).symm
  · exfalso
    have : a' = P := hx a' hax P hP (by rw [hsid, hb3, hP1])
    rw [this] at hin
    have := nsize_strictOcc P P hin
    omega
  · exact hx a' hax b' hbx hsid

end Nima
