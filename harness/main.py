"""Entry point: ./check <PROPERTY> [--tier quick|thorough] [--replay PATH]"""
from __future__ import annotations

import argparse
import importlib
import json
import os
import sys
import traceback

from . import framework as fw
from .translate import translate


def main(argv=None) -> int:
    ap = argparse.ArgumentParser()
    ap.add_argument("property")
    ap.add_argument("--tier", default=os.environ.get("VERIF_TIER", "quick"), choices=["quick", "thorough"])
    ap.add_argument("--replay")
    args = ap.parse_args(argv)
    pid = args.property
    seed = int(os.environ.get("VERIF_SEED", "0") or 0)
    try:
        mod = importlib.import_module(f"harness.props.{pid.lower()}")
    except ModuleNotFoundError as exc:
        print(f"no check for {pid}: {exc}", file=sys.stderr)
        return 2
    if args.replay:
        return mod.replay(json.loads(open(args.replay).read()))
    ctx = fw.Ctx(pid, args.tier, seed)
    try:
        return run(ctx, mod)
    except fw.Infra as exc:
        print(f"INFRA: {exc}", file=sys.stderr)
        return 2
    finally:
        if ctx._driver is not None:
            ctx._driver.close()


def run(ctx: fw.Ctx, mod) -> int:
    pid = ctx.pid
    # 1. translator: regenerate Gen/*.lean from /repo's working tree
    tr = translate.regenerate()
    for name, problem in tr.problems.items():
        if name in getattr(mod, "GEN_TABLES", ()):
            ctx.tie_break("translator", f"extractor {name}: {problem}")
    ctx.extra["translator"] = {k: ("ok" if k not in tr.problems else tr.problems[k]) for k in tr.tables}

    # 2. prove: build the property's theorems and audit them
    targets = [f"NimaVerif.Props.{pid}", f"NimaVerif.Audit.{pid}", "nima_driver"]
    ok, log = fw.lake_build(targets)
    ctx.obligations = fw.prop_theorems(pid)
    if not ok:
        # which theorems failed? (error lines name the file and position)
        errs = [l for l in log.splitlines() if "error" in l][:12]
        ctx.tie_break("theorem", "lake build failed", log=errs)
        # the driver may still be buildable from the model alone
        ok2, _ = fw.lake_build(["nima_driver"])
        if not ok2 and not fw.DRIVER_EXE.exists():
            raise fw.Infra("driver does not build:\n" + log[-3000:])
    else:
        axioms, problems = fw.audit_axioms(pid, log)
        bad_src = fw.audit_sources()
        for p in problems + bad_src:
            ctx.tie_break("audit", p)
        if not problems and not bad_src:
            ctx.discharged = list(ctx.obligations)
        ctx.extra["axioms"] = {k: v for k, v in axioms.items()}
        if ctx.tier == "thorough" and getattr(mod, "LEANCHECKER", True):
            rc, out, _ = fw.run_cmd(
                ["lake", "env", "leanchecker", f"NimaVerif.Props.{pid}"], cwd=fw.LEAN, timeout=1800
            )
            ctx.extra["leanchecker"] = "ok" if rc == 0 else out[-500:]
            if rc != 0:
                ctx.tie_break("audit", "leanchecker rejected Props." + pid)

    # 3+4. correspondence and observation (the property module fills ctx)
    mod.run(ctx)

    # 5. classify failures against known findings
    open_known, _fixed = fw.load_known(pid)
    known_cases = fw.load_known_cases(pid)
    reproduced: dict[str, int] = {}
    fresh = []
    for f in ctx.failures:
        hit = fw.known_hit(open_known, known_cases, f)
        if hit is not None:
            reproduced[hit["id"]] = reproduced.get(hit["id"], 0) + 1
        else:
            fresh.append(f)

    # 6. broken tie and no failing input yet: search
    if ctx.tie_breaks and not fresh and hasattr(mod, "search"):
        before = len(ctx.failures)
        mod.search(ctx)
        for f in ctx.failures[before:]:
            hit = fw.known_hit(open_known, known_cases, f)
            if hit is not None:
                reproduced[hit["id"]] = reproduced.get(hit["id"], 0) + 1
            else:
                fresh.append(f)

    for k in open_known:
        if k["id"] in reproduced:
            print(f"KNOWN-FINDING: property={pid} {k['what']} [{k['id']}; {reproduced[k['id']]} case(s)]")
    known_list = [{"id": k, "cases": n} for k, n in sorted(reproduced.items())]
    checker = f"cd lean && lake build NimaVerif.Props.{pid} NimaVerif.Audit.{pid}"

    rc = 0
    if fresh:
        seen = set()
        for f in fresh:
            kk = json.dumps(f["key"], sort_keys=True, default=str)
            if kk in seen:
                continue
            seen.add(kk)
            if len(seen) > 5:
                break
            path = fw.write_replay(pid, {"property": pid, "seed": ctx.seed, "tier": ctx.tier, **f})
            print(f"VIOLATION property={pid} replay={path}")
            print(f"  what: {f['what']}", file=sys.stderr)
        rc = 1
    elif ctx.tie_breaks:
        path = fw.write_replay(
            pid,
            {
                "property": pid,
                "seed": ctx.seed,
                "tier": ctx.tier,
                "kind": "tie-broken",
                "no_longer_checks": ctx.tie_breaks[:10],
                "note": "the theorem / translator / correspondence named here no longer checks; "
                "no failing input was found on the implementation by the search",
            },
        )
        print(f"VIOLATION property={pid} replay={path} no-failing-input-found")
        for t in ctx.tie_breaks[:5]:
            print(f"  tie: {t['kind']}: {t['what']}", file=sys.stderr)
        rc = 1
    fw.write_evidence(ctx, len(fresh) if fresh else (1 if rc else 0), known_list, checker)
    return rc


if __name__ == "__main__":
    try:
        sys.exit(main())
    except fw.Infra as exc:
        print(f"INFRA: {exc}", file=sys.stderr)
        sys.exit(2)
    except Exception:
        traceback.print_exc()
        sys.exit(2)
