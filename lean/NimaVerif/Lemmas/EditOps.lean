import NimaVerif.Lemmas.EditTree
/-! The operations of `cli/manipulations.py` (model: `Model/Edit.lean`) read through `denote`. -/
namespace Nima
open Node

theorem setValue_unscoped (p : Text) (v : Node) (d : Doc) (h1 : d.noTarget = none)
    (h2 : splitScopeNpath p = .ok none) :
    setValue p (.one v) d = setValueInAttrset d.target true p v d := by
  simp [setValue, h1, h2, resolveTarget]

theorem removeValue_unscoped (p : Text) (d : Doc) (h1 : d.noTarget = none)
    (h2 : splitScopeNpath p = .ok none) :
    removeValue p d = removeValueInAttrset d.target p d := by
  simp only [removeValue, h1, h2, resolveTarget, removeValueInAttrset]
  cases formatNPath currentAnchor p with
  | error e => rfl
  | ok segs =>
    cases segs with
    | nil => rfl
    | cons a r =>
      simp only
      split
      · rfl
      · split
        · split
          · rfl
          · split <;> rfl
        · split
          · rfl
          · rfl

theorem findAttrpathLeaf_single (ts : Node) (k : Text) : findAttrpathLeaf ts [k] = none := by
  simp [findAttrpathLeaf, walkAttrpathStack]


end Nima
