import NimaVerif.Model.NPath
/-!
SPEC (C13): how Nix reads a text of the *data fragment* — integers, floats, `"…"` strings without
interpolation, `true`/`false`/`null`, lists, attribute sets with plain identifier keys, parentheses,
and a unary minus in front of a number where an operator expression may stand (top level, binding
value, inside parentheses) but NOT as a list element (list elements are `expr_select`; `[ -1 ]` is a
syntax error, `[ (-1) ]` is a list holding -1).

The reader is deliberately *partial*: whatever is outside the fragment (comments, paths,
applications such as `1 e-07`, juxtaposed tokens such as `1.5.2`, interpolation, `rec`, `inherit`,
attrpaths with dots, duplicate keys) gives `none`. `some d` means: Nix reads the text as the data `d`.

Token rules mirrored from the Nix lexer (`lexer.l`):
  ID     [a-zA-Z_][a-zA-Z0-9_'-]*        INT  [0-9]+   (must fit a signed 64-bit integer)
  FLOAT  (([1-9][0-9]*\.[0-9]*)|(0?\.[0-9]+))([Ee][+-]?[0-9]+)?
  STRING body: `decodeBody` (Model/Escape.lean); a raw carriage return inside a string literal is
         normalised to a line feed by Nix (`unescapeStr`), so a body holding a raw CR is outside the
         fragment (the CR would not be read back)
A literal or identifier must be followed by white space, `;`, `]`, `}`, `)` (identifiers also by `=`) or
the end of the text; anything else would start a different Nix token (a path `1/2`, an application
`1a`, …) and is rejected.
-/
namespace Nima

inductive Tok where
  | int (n : Nat) | float (t : Text) | str (s : Text) | ident (s : Text)
  | lbrack | rbrack | lbrace | rbrace | lparen | rparen | eq | semi | minus
deriving DecidableEq, Repr, Inhabited

/-- The real number a decimal literal denotes, `mant × 10^exp`, in normal form: `mant` has no
    trailing zero and zero is `⟨0, 0⟩`, so two literals denote the same number exactly when their
    `Dec`s are equal (`1e+16`, `1.0e+16`, `10000000000000000.0` are all `⟨1, 16⟩`). -/
structure Dec where
  mant : Nat
  exp : Int
deriving DecidableEq, Repr, Inhabited

/-- The data a text denotes. Floats are kept as (sign, the real number the literal denotes): two
    floats are the same when their literals denote the same number (Nix and Python both round that
    number to the nearest double). The sign is kept apart so that `-0.0` is not `0.0`. -/
inductive Data where
  | null
  | bool (b : Bool)
  | int (i : Int)
  | float (neg : Bool) (val : Dec)
  | str (s : Text)
  | list (xs : List Data)
  | attrs (kvs : List (Text × Data))
deriving Repr, Inhabited

def isWs (c : Char) : Bool := c == ' ' || c == '\n' || c == '\t' || c == '\r'
def isNumChar (c : Char) : Bool :=
  isAsciiDigit c || c == '.' || c == 'e' || c == 'E' || c == '+' || c == '-'

/-- what may follow a literal -/
def litEnd : Text → Bool
  | [] => true
  | c :: _ => isWs c || c == ';' || c == ']' || c == '}' || c == ')'
/-- what may follow an identifier -/
def identEnd : Text → Bool
  | [] => true
  | c :: _ => isWs c || c == ';' || c == ']' || c == '}' || c == ')' || c == '='

/-- Largest integer literal Nix accepts (`2^63 - 1`). -/
def nixIntMax : Nat := 9223372036854775807

/-- `[0-9]+` -/
def isIntTok (t : Text) : Bool := !t.isEmpty && t.all isAsciiDigit

/-- `([Ee][+-]?[0-9]+)?` -/
def isExpPart : Text → Bool
  | [] => true
  | e :: rest =>
    (e == 'e' || e == 'E') &&
    (match rest with
     | '+' :: ds => !ds.isEmpty && ds.all isAsciiDigit
     | '-' :: ds => !ds.isEmpty && ds.all isAsciiDigit
     | ds => !ds.isEmpty && ds.all isAsciiDigit)

/-- The whole text is one FLOAT token. -/
def isNixFloat (t : Text) : Bool :=
  let ip := t.takeWhile isAsciiDigit
  match t.dropWhile isAsciiDigit with
  | '.' :: r =>
    let fp := r.takeWhile isAsciiDigit
    let ex := r.dropWhile isAsciiDigit
    isExpPart ex &&
      ((match ip with | c :: _ => c != '0' | [] => false)       -- [1-9][0-9]*\.[0-9]*
        || ((ip.isEmpty || ip == ['0']) && !fp.isEmpty))       -- 0?\.[0-9]+
  | _ => false

/-- strip trailing zeros of the mantissa (fuel: every step divides by ten) -/
def decNormF : Nat → Nat → Int → Dec
  | 0, m, e => ⟨m, e⟩
  | f + 1, m, e => if m % 10 = 0 then decNormF f (m / 10) (e + 1) else ⟨m, e⟩

/-- normal form of `m × 10^e` -/
def decNorm (m : Nat) (e : Int) : Dec := if m = 0 then ⟨0, 0⟩ else decNormF m m e

/-- `([Ee][+-]?[0-9]+)?` as an integer (0 when absent) -/
def expValue : Text → Int
  | [] => 0
  | _ :: '+' :: ds => (Nat.ofDigitChars 10 ds 0 : Nat)
  | _ :: '-' :: ds => - ((Nat.ofDigitChars 10 ds 0 : Nat) : Int)
  | _ :: ds => (Nat.ofDigitChars 10 ds 0 : Nat)

/-- The number a decimal literal `D* (. D*)? ([Ee][+-]?D+)?` denotes (FLOAT tokens of Nix and the
    `repr` of a Python float are both of this form): the digits of the integer and fraction parts
    as one mantissa, the exponent lowered by the number of fraction digits. -/
def decValue (t : Text) : Dec :=
  let ip := t.takeWhile isAsciiDigit
  match t.dropWhile isAsciiDigit with
  | '.' :: r =>
    let fp := r.takeWhile isAsciiDigit
    decNorm (Nat.ofDigitChars 10 (ip ++ fp) 0) (expValue (r.dropWhile isAsciiDigit) - (fp.length : Int))
  | ex => decNorm (Nat.ofDigitChars 10 ip 0) (expValue ex)

/-- From just after an opening `"`: the raw body up to the closing quote, and what follows it. -/
def scanStr : Text → Option (Text × Text)
  | [] => none
  | '"' :: rest => some ([], rest)
  | '\\' :: c :: cs => (scanStr cs).map fun p => ('\\' :: c :: p.1, p.2)
  | c :: cs => (scanStr cs).map fun p => (c :: p.1, p.2)

/-- One lexing step on a non-empty text: the token read (none for white space) and the rest. -/
def lexStep : Text → Option (Option Tok × Text)
  | [] => none
  | c :: cs =>
    if isWs c then some (none, cs)
    else if c = '[' then some (some .lbrack, cs)
    else if c = ']' then some (some .rbrack, cs)
    else if c = '{' then some (some .lbrace, cs)
    else if c = '}' then some (some .rbrace, cs)
    else if c = '=' then some (some .eq, cs)
    else if c = ';' then some (some .semi, cs)
    else if c = '(' then some (some .lparen, cs)
    else if c = ')' then some (some .rparen, cs)
    else if c = '-' then some (some .minus, cs)
    else if c = '"' then
      match scanStr cs with
      | none => none
      | some (body, rest) =>
        if litEnd rest && !body.contains '\r' then
          (decodeBody body).map fun s => (some (.str s), rest)
        else none
    else if isAsciiDigit c || c = '.' then
      let t := (c :: cs).takeWhile isNumChar
      let rest := (c :: cs).dropWhile isNumChar
      if !litEnd rest then none
      else if isIntTok t then
        let n := Nat.ofDigitChars 10 t 0
        if n ≤ nixIntMax then some (some (.int n), rest) else none
      else if isNixFloat t then some (some (.float t), rest)
      else none
    else if identStart c then
      let t := c :: cs.takeWhile nixIdentRest
      let rest := cs.dropWhile nixIdentRest
      if identEnd rest then some (some (.ident t), rest) else none
    else none

/-- the lexer, with fuel (every step consumes at least one character) -/
def lexF : Nat → Text → Option (List Tok)
  | 0, _ => none
  | _ + 1, [] => some []
  | n + 1, c :: cs =>
    match lexStep (c :: cs) with
    | none => none
    | some (t, rest) => (lexF n rest).map (t.toList ++ ·)

def lexData (s : Text) : Option (List Tok) := lexF (s.length + 1) s

/-- attribute names the fragment accepts: identifiers that are not keywords -/
def isDataKey (k : Text) : Bool := isNixIdent k && !nixKeywords.contains k

def dTrue : Text := "true".toList
def dFalse : Text := "false".toList
def dNull : Text := "null".toList

def keysNodup : List Text → Bool
  | [] => true
  | k :: ks => !ks.contains k && keysNodup ks

mutual
/-- a list element (`expr_select` level) -/
def pElem : Nat → List Tok → Option (Data × List Tok)
  | 0, _ => none
  | n + 1, ts =>
    match ts with
    | .int k :: r => some (.int k, r)
    | .float t :: r => some (.float false (decValue t), r)
    | .str s :: r => some (.str s, r)
    | .ident s :: r =>
      if s = dTrue then some (.bool true, r)
      else if s = dFalse then some (.bool false, r)
      else if s = dNull then some (.null, r)
      else none
    | .lbrack :: r => (pElems n r).map fun p => (.list p.1, p.2)
    | .lbrace :: r =>
      (pBinds n r).bind fun p =>
        if keysNodup (p.1.map (·.1)) then some (.attrs p.1, p.2) else none
    | .lparen :: r =>
      (pValue n r).bind fun p =>
        match p.2 with
        | .rparen :: r' => some (p.1, r')
        | _ => none
    | _ => none
/-- list elements up to the closing bracket -/
def pElems : Nat → List Tok → Option (List Data × List Tok)
  | 0, _ => none
  | n + 1, ts =>
    match ts with
    | .rbrack :: r => some ([], r)
    | _ => (pElem n ts).bind fun p => (pElems n p.2).map fun q => (p.1 :: q.1, q.2)
/-- a value where an operator expression may stand: additionally `-` NUMBER -/
def pValue : Nat → List Tok → Option (Data × List Tok)
  | 0, _ => none
  | n + 1, ts =>
    match ts with
    | .minus :: .int k :: r => some (.int (-(k : Int)), r)
    | .minus :: .float t :: r => some (.float true (decValue t), r)
    | _ => pElem n ts
/-- `name = value;` bindings up to the closing brace -/
def pBinds : Nat → List Tok → Option (List (Text × Data) × List Tok)
  | 0, _ => none
  | n + 1, ts =>
    match ts with
    | .rbrace :: r => some ([], r)
    | .ident k :: .eq :: r =>
      if isDataKey k then
        (pValue n r).bind fun p =>
          match p.2 with
          | .semi :: r' => (pBinds n r').map fun q => ((k, p.1) :: q.1, q.2)
          | _ => none
      else none
    | _ => none
end

/-- SPEC. The data a whole text denotes. -/
def readData (t : Text) : Option Data :=
  (lexData t).bind fun toks =>
    (pValue (toks.length + 1) toks).bind fun p => if p.2.isEmpty then some p.1 else none

/-- SPEC. What a single `name = value;` binding text denotes: read it inside braces. -/
def readBinding (t : Text) : Option (Text × Data) :=
  match readData (('{' :: ' ' :: t) ++ [' ', '}']) with
  | some (.attrs [kv]) => some kv
  | _ => none

end Nima
