import NimaVerif.Model.Value
import NimaVerif.Model.DataReader
import NimaVerif.Model.ValueSpec
import NimaVerif.Model.SExp
/-!
Driver requests for C13 (values built programmatically).

  value  := n | (b t|f) | (i <decimal>) | (f <hex repr>) | (s <hex>) | (l value…) | (d (<hexkey> value)…)
  ctx    := (fromdict d) | (values d) | (binding <hexkey> value) | (list (l …)) | (setitem d <hexkey> value)
            | (setitemon d <t|f multiline> <hexkey> value)
  (value <indent> <t|f inline> ctx)  -> (ok <hex-text> <read> <inDomain> <readable> <mustRefuse>)   read := none | (some data)
                                      | (err <class> <inDomain> <readable> <mustRefuse>)           (the rebuild raises)
  (readdata <hex-text>)              -> none | (some data)
  (readbinding <hex-text>)           -> none | (some <hexkey> data)
  data   := null | (b t|f) | (i n) | (f <t|f neg> <hex "<mant>e<exp>">) | (s <hex>) | (l data…) | (a (<hexkey> data)…)
-/
namespace Nima.Drv.Value
open Nima

partial def decElem : SExp → Option Elem
  | .atom "n" => some .none
  | .list [.atom "b", .atom b] => some (.bool (b == "t"))
  | .list [.atom "i", .atom n] => n.toInt?.map Elem.int
  | .list [.atom "f", .atom h] => (decText h).map Elem.float
  | .list [.atom "s", .atom h] => (decText h).map Elem.str
  | .list (.atom "l" :: xs) => (xs.mapM decElem).map Elem.list
  | _ => none

partial def decVal : SExp → Option PyVal
  | .list (.atom "d" :: kvs) =>
    (kvs.mapM fun (kv : SExp) => match kv with
      | .list [.atom k, v] => do
        let k ← decText k
        let v ← decVal v
        pure (k, v)
      | _ => none).map PyVal.dict
  | e => (decElem e).map PyVal.elem

def decDict (e : SExp) : Option (List (Text × PyVal)) :=
  match decVal e with
  | some (.dict kvs) => some kvs
  | _ => none

partial def encData : Data → SExp
  | .null => .atom "null"
  | .bool b => .list [.atom "b", sBool b]
  | .int i => .list [.atom "i", .atom (toString i)]
  | .float neg v => .list [.atom "f", sBool neg, sText (toString v.mant ++ "e" ++ toString v.exp).toList]
  | .str s => .list [.atom "s", sText s]
  | .list xs => .list (.atom "l" :: xs.map encData)
  | .attrs kvs => .list (.atom "a" :: kvs.map fun kv => .list [sText kv.1, encData kv.2])

def encRead : Option Data → SExp
  | none => .atom "none"
  | some d => .list [.atom "some", encData d]

def decCtx : SExp → Option Ctx
  | .list [.atom "fromdict", d] => (decDict d).map Ctx.fromDict
  | .list [.atom "values", d] => (decDict d).map Ctx.values
  | .list [.atom "binding", .atom k, v] => do
    let k ← decText k
    let v ← decVal v
    pure (Ctx.binding k v)
  | .list [.atom "list", l] =>
    match decElem l with
    | some (.list xs) => some (Ctx.list xs)
    | _ => none
  | .list [.atom "setitem", d, .atom k, v] => do
    let d ← decDict d
    let k ← decText k
    let v ← decVal v
    pure (Ctx.setItem d k v)
  | .list [.atom "setitemon", d, .atom ml, .atom k, v] => do
    let d ← decDict d
    let k ← decText k
    let v ← decVal v
    pure (Ctx.setItemOn d (ml == "t") k v)
  | _ => none

/-- text of a context rendered at (indent, inline) (`renderCtxText` is the case `0, false`), and
    whether it is a lone binding (read inside braces) -/
def renderTextAt (indent : Nat) (inline : Bool) : Ctx → Text × Bool
  | .binding k v => (renderBinding k (bindValue v) indent inline, true)
  | c => (renderExpr (ctxExpr c) indent inline, false)

/-- `rebuild(indent, inline)` of a context (`renderCtx` is the case `0, false`): the refusal does not
    depend on the layout arguments -/
def renderAt (indent : Nat) (inline : Bool) (c : Ctx) : Except Err (Text × Bool) :=
  if exprRefused (ctxExpr c) then .error .value else .ok (renderTextAt indent inline c)

def handle' (req : SExp) : SExp :=
  match req with
  | .list [.atom "value", .atom ind, .atom inl, ctx] =>
    match ind.toNat?, decCtx ctx with
    | some i, some c =>
      let flags := [sBool (ctxInDomain c), sBool (ctxReadable c), sBool (dataOutOfRange (expected c))]
      match renderAt i (inl == "t") c with
      | .error e => .list ([.atom "err", .atom e.cls] ++ flags)
      | .ok (t, isBinding) =>
        let rd : SExp :=
          if isBinding then
            match readBinding t with
            | some (k, d) => .list [.atom "some", .list [.atom "a", .list [sText k, encData d]]]
            | none => .atom "none"
          else encRead (readData t)
        .list ([.atom "ok", sText t, rd] ++ flags)
    | _, _ => .list [.atom "bad-arg"]
  | .list [.atom "readdata", .atom h] =>
    match decText h with
    | none => .list [.atom "bad-arg"]
    | some t => encRead (readData t)
  | .list [.atom "readbinding", .atom h] =>
    match decText h with
    | none => .list [.atom "bad-arg"]
    | some t =>
      match readBinding t with
      | some (k, d) => .list [.atom "some", sText k, encData d]
      | none => .atom "none"
  | _ => .list [.atom "bad-op"]

def ops : List String := ["value", "readdata", "readbinding"]

def handle (req : SExp) : Option SExp :=
  match req with
  | .list (.atom op :: _) => if ops.contains op then some (handle' req) else none
  | _ => none

end Nima.Drv.Value
