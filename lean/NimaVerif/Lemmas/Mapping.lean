import NimaVerif.Lemmas.NodeUpd
import NimaVerif.Model.LayerSpec
import NimaVerif.Lemmas.NodeEq
/-! Helper lemmas for C14: alignment of `attrpath_order` with `values` under the mapping operations. -/
namespace Nima
-- name tokens are compared by spelling in this file (see `NameCmp` in Model/Edit.lean)
attribute [local instance] NameCmp.spelled

open Node EditM

/-! ### the functions the mapping operations apply to a set object (`Model/LayerSpec.lean`) -/

theorem appendValue_eq (sid : Nat) (b : Node) :
    appendValue sid b = EditM.modify fun d => d.updSet sid (appendValueFn b) := by
  unfold appendValue; congr
theorem appendOrder_eq (sid : Nat) (x : Node) :
    appendOrderIfNonEmpty sid x = EditM.modify fun d => d.updSet sid (appendOrderFn x) := by
  unfold appendOrderIfNonEmpty; congr

/-! ### alignment -/

theorem syncedL_iff (vs o : List Node) : syncedL vs o = true ↔ o = [] ∨ o = vs := by
  simp [syncedL, Node.beqL_iff, List.isEmpty_iff]

theorem renderItems_of_synced {vs o : List Node} (h : syncedL vs o = true) :
    renderItems vs o = vs := by
  rcases (syncedL_iff vs o).1 h with rfl | rfl
  · cases vs <;> simp [renderItems]
  · cases o <;> simp [renderItems]

theorem good_iff (s : Node) :
    Good s = true ↔ noEntriesL s.setOrder = true ∧ (s.setOrder = [] ∨ s.setOrder = s.setValues) := by
  simp [Good, NoEntries, Synced, syncedL_iff]

/-- what `_collect_attrpath_order` builds: each item of `values` is kept, or replaced by an entry -/
theorem order_eq_values_of_noEntries (g : Node → Node) (vs : List Node)
    (hg : ∀ v, g v = v ∨ (g v).isEntry = true) (hn : noEntriesL (vs.map g) = true) :
    vs.map g = vs := by
  induction vs with
  | nil => rfl
  | cons x xs ih =>
    simp only [noEntriesL, List.map_cons, List.all_cons, Bool.and_eq_true, Bool.not_eq_eq_eq_not,
      Bool.not_true] at hn
    rcases hg x with he | he
    · rw [List.map_cons, he, ih (by simpa [noEntriesL] using hn.2)]
    · rw [hn.1] at he; cases he

/-! ### names are kept by `updBind` -/

@[simp] theorem itemKeys_updBind (id : Nat) (v n : Node) :
    (updBind id v n).itemKeys = n.itemKeys := by
  cases n with
  | bind i nm ne val b a => by_cases h : i = id <;> simp [updBind, h, itemKeys]
  | _ => simp [updBind, itemKeys]

@[simp] theorem keysOf_updBindL (id : Nat) (v : Node) (xs : List Node) :
    keysOf (updBindL id v xs) = keysOf xs := by
  simp [keysOf, updBindL_eq_map, List.flatMap_map]

@[simp] theorem noEntriesL_updBindL (id : Nat) (v : Node) (xs : List Node) :
    noEntriesL (updBindL id v xs) = noEntriesL xs := by
  simp [noEntriesL, updBindL_eq_map, List.all_map, Function.comp_def]

theorem syncedL_updBindL (id : Nat) (v : Node) {vs o : List Node} (h : syncedL vs o = true) :
    syncedL (updBindL id v vs) (updBindL id v o) = true := by
  rcases (syncedL_iff vs o).1 h with rfl | rfl <;> simp [syncedL_iff]

/-! ### `allSets` -/

@[simp] theorem allSetsL_append (p : Node → Bool) (xs ys : List Node) :
    allSetsL p (xs ++ ys) = (allSetsL p xs && allSetsL p ys) := by
  induction xs with
  | nil => simp [allSetsL]
  | cons x xs ih => simp [allSetsL, ih, Bool.and_assoc]

theorem allSetsL_mem {p : Node → Bool} {xs : List Node} (h : allSetsL p xs = true) {x : Node}
    (hx : x ∈ xs) : x.allSets p = true := by
  induction xs with
  | nil => cases hx
  | cons y ys ih =>
    simp only [allSetsL, Bool.and_eq_true] at h
    rcases List.mem_cons.1 hx with rfl | hm
    · exact h.1
    · exact ih h.2 hm

theorem allSetsL_of_forall {p : Node → Bool} {xs : List Node}
    (h : ∀ x ∈ xs, x.allSets p = true) : allSetsL p xs = true := by
  induction xs with
  | nil => rfl
  | cons y ys ih =>
    simp only [allSetsL, Bool.and_eq_true]
    exact ⟨h y (by simp), ih fun x hx => h x (by simp [hx])⟩

theorem allSetsL_sublist {p : Node → Bool} {xs ys : List Node} (hs : List.Sublist xs ys)
    (h : allSetsL p ys = true) : allSetsL p xs = true :=
  allSetsL_of_forall fun _ hx => allSetsL_mem h (hs.subset hx)

mutual
  theorem allSets_updBind (id : Nat) (v : Node) (hv : v.allSets Good = true) :
      ∀ n : Node, n.allSets Good = true → (updBind id v n).allSets Good = true
    | .atom _, _ => by simp [updBind, allSets]
    | .ident _, _ => by simp [updBind, allSets]
    | .set sid vs o m r, h => by
        simp only [allSets, Bool.and_eq_true] at h
        obtain ⟨⟨hg, hvs⟩, ho⟩ := h
        simp only [updBind, allSets, Bool.and_eq_true]
        refine ⟨⟨?_, allSetsL_updBind id v hv vs hvs⟩, allSetsL_updBind id v hv o ho⟩
        rw [good_iff] at hg ⊢
        simp only [setOrder, setValues] at hg ⊢
        refine ⟨by simpa using hg.1, ?_⟩
        rcases hg.2 with rfl | rfl <;> simp
    | .bind i n ne val b a, h => by
        simp only [allSets] at h
        by_cases hi : i = id
        · simp [updBind, hi, allSets, hv]
        · simp only [updBind, hi, if_false, allSets]
          exact allSets_updBind id v hv val h
    | .inherit _ _, _ => by simp [updBind, allSets]
    | .entry segs leaf b a, h => by
        simp only [allSets] at h
        simp only [updBind, allSets]
        exact allSets_updBind id v hv leaf h
  theorem allSetsL_updBind (id : Nat) (v : Node) (hv : v.allSets Good = true) :
      ∀ xs : List Node, allSetsL Good xs = true → allSetsL Good (updBindL id v xs) = true
    | [], _ => by simp [updBindL, allSetsL]
    | x :: xs, h => by
        simp only [allSetsL, Bool.and_eq_true] at h
        simp only [updBindL, allSetsL, Bool.and_eq_true]
        exact ⟨allSets_updBind id v hv x h.1, allSetsL_updBind id v hv xs h.2⟩
end

/-! ### `updSet` -/

theorem updSet_of_sid {sid : Nat} {f : Node → Node} {n : Node} (h : n.setSid? = some sid) :
    updSet sid f n = f n := by
  cases n <;> simp [setSid?] at h
  subst h
  simp [updSet]

theorem isEntry_of_isSet {n : Node} (h : n.isSet = true) : n.isEntry = false := by
  cases n <;> simp_all [isSet, isEntry]

theorem updSet_isEntry (sid : Nat) (f : Node → Node)
    (hset : ∀ n, n.isSet = true → (f n).isSet = true) (n : Node) :
    (updSet sid f n).isEntry = n.isEntry := by
  cases n with
  | set s vs o m r =>
    by_cases h : s = sid
    · simp only [updSet, h, if_true]
      rw [isEntry_of_isSet (hset _ rfl)]; rfl
    · simp [updSet, h, isEntry]
  | _ => simp [updSet, isEntry]

theorem noEntriesL_updSetL (sid : Nat) (f : Node → Node)
    (hset : ∀ n, n.isSet = true → (f n).isSet = true) (xs : List Node) :
    noEntriesL (updSetL sid f xs) = noEntriesL xs := by
  simp [noEntriesL, updSetL_eq_map, List.all_map, Function.comp_def, updSet_isEntry sid f hset]

theorem syncedL_updSetL (sid : Nat) (f : Node → Node) {vs o : List Node}
    (h : syncedL vs o = true) : syncedL (updSetL sid f vs) (updSetL sid f o) = true := by
  rcases (syncedL_iff vs o).1 h with rfl | rfl <;> simp [syncedL_iff]

mutual
  theorem allSets_updSet (sid : Nat) (f : Node → Node)
      (hset : ∀ n, n.isSet = true → (f n).isSet = true)
      (hf : ∀ n, n.setSid? = some sid → n.allSets Good = true → (f n).allSets Good = true) :
      ∀ n : Node, n.allSets Good = true → (updSet sid f n).allSets Good = true
    | .atom _, _ => by simp [updSet, allSets]
    | .ident _, _ => by simp [updSet, allSets]
    | .set s vs o m r, h => by
        by_cases hs : s = sid
        · simp only [updSet, hs, if_true]
          exact hf _ (by simp [setSid?]) (by simpa [hs] using h)
        · simp only [allSets, Bool.and_eq_true] at h
          obtain ⟨⟨hg, hvs⟩, ho⟩ := h
          simp only [updSet, hs, if_false, allSets, Bool.and_eq_true]
          refine ⟨⟨?_, allSetsL_updSet sid f hset hf vs hvs⟩, allSetsL_updSet sid f hset hf o ho⟩
          rw [good_iff] at hg ⊢
          simp only [setOrder, setValues] at hg ⊢
          refine ⟨by simpa [noEntriesL_updSetL sid f hset] using hg.1, ?_⟩
          rcases hg.2 with rfl | rfl <;> simp
    | .bind i n ne val b a, h => by
        simp only [allSets] at h
        simp only [updSet, allSets]
        exact allSets_updSet sid f hset hf val h
    | .inherit _ _, _ => by simp [updSet, allSets]
    | .entry segs leaf b a, h => by
        simp only [allSets] at h
        simp only [updSet, allSets]
        exact allSets_updSet sid f hset hf leaf h
  theorem allSetsL_updSet (sid : Nat) (f : Node → Node)
      (hset : ∀ n, n.isSet = true → (f n).isSet = true)
      (hf : ∀ n, n.setSid? = some sid → n.allSets Good = true → (f n).allSets Good = true) :
      ∀ xs : List Node, allSetsL Good xs = true → allSetsL Good (updSetL sid f xs) = true
    | [], _ => by simp [updSetL, allSetsL]
    | x :: xs, h => by
        simp only [allSetsL, Bool.and_eq_true] at h
        simp only [updSetL, allSetsL, Bool.and_eq_true]
        exact ⟨allSets_updSet sid f hset hf x h.1, allSetsL_updSet sid f hset hf xs h.2⟩
end

/-- two successive in-place mutations of the same object are one -/
theorem updSet_sid_of_ne {sid : Nat} {f : Node → Node} {n : Node} {t : Nat}
    (hn : n.setSid? = some t) (ht : t ≠ sid) : (updSet sid f n).setSid? = some t := by
  cases n <;> simp [setSid?] at hn
  subst hn
  simp [updSet, ht, setSid?]

mutual
  theorem updSet_updSet (sid : Nat) (f1 f2 : Node → Node)
      (h1 : ∀ n, n.setSid? = some sid → (f1 n).setSid? = some sid) :
      ∀ n : Node, updSet sid f2 (updSet sid f1 n) = updSet sid (f2 ∘ f1) n
    | .atom _ => rfl
    | .ident _ => rfl
    | .set s vs o m r => by
        by_cases hs : s = sid
        · simp only [updSet, hs, if_true, Function.comp]
          exact updSet_of_sid (h1 _ (by simp [setSid?]))
        · simp only [updSet, hs, if_false]
          rw [updSetL_updSet sid f1 f2 h1 vs, updSetL_updSet sid f1 f2 h1 o]
    | .bind i n ne val b a => by
        simp only [updSet]; rw [updSet_updSet sid f1 f2 h1 val]
    | .inherit _ _ => rfl
    | .entry segs leaf b a => by
        simp only [updSet]; rw [updSet_updSet sid f1 f2 h1 leaf]
  theorem updSetL_updSet (sid : Nat) (f1 f2 : Node → Node)
      (h1 : ∀ n, n.setSid? = some sid → (f1 n).setSid? = some sid) :
      ∀ xs : List Node, updSetL sid f2 (updSetL sid f1 xs) = updSetL sid (f2 ∘ f1) xs
    | [] => rfl
    | x :: xs => by
        simp only [updSetL]
        rw [updSet_updSet sid f1 f2 h1 x, updSetL_updSet sid f1 f2 h1 xs]
end

theorem layer_updSet_updSet (sid : Nat) (f1 f2 : Node → Node)
    (h1 : ∀ n, n.setSid? = some sid → (f1 n).setSid? = some sid) (l : Layer) :
    (l.updSet sid f1).updSet sid f2 = l.updSet sid (f2 ∘ f1) := by
  simp [Layer.updSet, updSetL_updSet sid f1 f2 h1]

theorem doc_updSet_updSet (sid : Nat) (f1 f2 : Node → Node)
    (h1 : ∀ n, n.setSid? = some sid → (f1 n).setSid? = some sid) (d : Doc) :
    (d.updSet sid f1).updSet sid f2 = d.updSet sid (f2 ∘ f1) := by
  have e1 : (Node.updSet sid f2 ∘ Node.updSet sid f1) = Node.updSet sid (f2 ∘ f1) :=
    funext fun n => updSet_updSet sid f1 f2 h1 n
  have e2 : (Layer.updSet sid f2 ∘ Layer.updSet sid f1) = Layer.updSet sid (f2 ∘ f1) :=
    funext fun l => layer_updSet_updSet sid f1 f2 h1 l
  have e3 : (updSetL sid f2 ∘ updSetL sid f1) = updSetL sid (f2 ∘ f1) :=
    funext fun xs => updSetL_updSet sid f1 f2 h1 xs
  simp only [Doc.updSet, updSet_updSet sid f1 f2 h1, updSetL_updSet sid f1 f2 h1, Option.map_map,
    List.map_map, e1, e2, e3]

/-! ### documents -/

theorem layer_allSets_updBind (id : Nat) (v : Node) (hv : v.allSets Good = true) (l : Layer)
    (h : l.allSets Good = true) : (l.updBind id v).allSets Good = true := by
  simp only [Layer.allSets, Bool.and_eq_true] at h ⊢
  exact ⟨allSetsL_updBind id v hv _ h.1, allSetsL_updBind id v hv _ h.2⟩

theorem layer_allSets_updSet (sid : Nat) (f : Node → Node)
    (hset : ∀ n, n.isSet = true → (f n).isSet = true)
    (hf : ∀ n, n.setSid? = some sid → n.allSets Good = true → (f n).allSets Good = true)
    (l : Layer) (h : l.allSets Good = true) : (l.updSet sid f).allSets Good = true := by
  simp only [Layer.allSets, Bool.and_eq_true] at h ⊢
  exact ⟨allSetsL_updSet sid f hset hf _ h.1, allSetsL_updSet sid f hset hf _ h.2⟩

theorem doc_allSets_updBind (id : Nat) (v : Node) (hv : v.allSets Good = true) (d : Doc)
    (h : d.allSets Good = true) : (d.updBind id v).allSets Good = true := by
  simp only [Doc.allSets, Bool.and_eq_true, List.all_eq_true] at h
  obtain ⟨⟨⟨⟨⟨h1, h2⟩, h3⟩, h4⟩, h5⟩, h6⟩ := h
  simp only [Doc.allSets, Doc.updBind, Bool.and_eq_true, List.all_eq_true, List.mem_map]
  refine ⟨⟨⟨⟨⟨allSets_updBind id v hv _ h1, ?_⟩, allSetsL_updBind id v hv _ h3⟩,
    allSetsL_updBind id v hv _ h4⟩, ?_⟩, ?_⟩
  · cases hs : d.scratch with
    | none => rfl
    | some s => rw [hs] at h2; exact allSets_updBind id v hv _ h2
  · rintro _ ⟨l, hl, rfl⟩
    exact layer_allSets_updBind id v hv l (h5 l hl)
  · cases hs : d.topScope with
    | none => rfl
    | some s => rw [hs] at h6; exact allSetsL_updBind id v hv _ h6

theorem doc_allSets_updSet (sid : Nat) (f : Node → Node)
    (hset : ∀ n, n.isSet = true → (f n).isSet = true)
    (hf : ∀ n, n.setSid? = some sid → n.allSets Good = true → (f n).allSets Good = true)
    (d : Doc) (h : d.allSets Good = true) : (d.updSet sid f).allSets Good = true := by
  simp only [Doc.allSets, Bool.and_eq_true, List.all_eq_true] at h
  obtain ⟨⟨⟨⟨⟨h1, h2⟩, h3⟩, h4⟩, h5⟩, h6⟩ := h
  simp only [Doc.allSets, Doc.updSet, Bool.and_eq_true, List.all_eq_true, List.mem_map]
  refine ⟨⟨⟨⟨⟨allSets_updSet sid f hset hf _ h1, ?_⟩, allSetsL_updSet sid f hset hf _ h3⟩,
    allSetsL_updSet sid f hset hf _ h4⟩, ?_⟩, ?_⟩
  · cases hs : d.scratch with
    | none => rfl
    | some s => rw [hs] at h2; exact allSets_updSet sid f hset hf _ h2
  · rintro _ ⟨l, hl, rfl⟩
    exact layer_allSets_updSet sid f hset hf l (h5 l hl)
  · cases hs : d.topScope with
    | none => rfl
    | some s => rw [hs] at h6; exact allSetsL_updSet sid f hset hf _ h6

theorem goodScope_updBind (id : Nat) (v : Node) (d : Doc) (h : GoodScope d = true) :
    GoodScope (d.updBind id v) = true := by
  simp only [GoodScope, Bool.and_eq_true] at h ⊢
  exact ⟨by simpa [Doc.updBind] using h.1, syncedL_updBindL id v h.2⟩

theorem goodScope_updSet (sid : Nat) (f : Node → Node)
    (hset : ∀ n, n.isSet = true → (f n).isSet = true) (d : Doc) (h : GoodScope d = true) :
    GoodScope (d.updSet sid f) = true := by
  simp only [GoodScope, Bool.and_eq_true] at h ⊢
  exact ⟨by simpa [Doc.updSet, noEntriesL_updSetL sid f hset] using h.1, syncedL_updSetL sid f h.2⟩

/-! ### what the mapping operations do to the document -/

theorem setSetItem_existing {s : Node} {k : Text} {b : Node} {bid : Nat} (v : Node) (d : Doc)
    (hb : findBinding s.setValues k = some b) (hid : b.bindId? = some bid) :
    setSetItem s k v d = (.ok (), d.updBind bid v) := by
  unfold setSetItem
  simp only [hb, hid]
  rfl

theorem setSetItem_new {s : Node} {k : Text} {sid : Nat} (v : Node) (d : Doc)
    (hb : findBinding s.setValues k = none) (hs : s.setSid? = some sid) :
    setSetItem s k v d = (.ok (), ({ d with next := d.next + 1 } : Doc).updSet sid
      (appendOrderFn (.bind d.next k false v [] []) ∘ appendValueFn (.bind d.next k false v [] []))) := by
  unfold setSetItem
  simp only [hb, hs, appendValue_eq, appendOrder_eq, EditM.bind_apply, fresh_apply,
    EditM.modify_apply]
  rw [doc_updSet_updSet]
  intro n hn
  cases n <;> simp_all [setSid?, appendValueFn]

theorem setSetItem_notSet {s : Node} {k : Text} (v : Node) (d : Doc)
    (hb : findBinding s.setValues k = none) (hs : s.setSid? = none) :
    setSetItem s k v d = (.error (.internal "not-a-set"), d) := by
  unfold setSetItem
  simp only [hb, hs]
  rfl

theorem setDelItem_existing {s : Node} {k : Text} {b : Node} {bid sid : Nat} (d : Doc)
    (hb : findBinding s.setValues k = some b) (hid : b.bindId? = some bid)
    (hs : s.setSid? = some sid) :
    setDelItem s k d = (.ok (), d.updSet sid (delItemFn bid)) := by
  unfold setDelItem
  simp only [hb, hs, hid, EditM.modify_apply]
  congr

theorem setDelItem_missing {s : Node} {k : Text} (d : Doc)
    (hb : findBinding s.setValues k = none) : setDelItem s k d = (.error .key, d) := by
  unfold setDelItem
  simp only [hb]
  rfl

/-! ### the set functions keep alignment -/

theorem isSet_appendValueFn (b n : Node) (h : n.isSet = true) : (appendValueFn b n).isSet = true := by
  cases n <;> simp_all [isSet, appendValueFn]
theorem isSet_appendOrderFn (b n : Node) (h : n.isSet = true) : (appendOrderFn b n).isSet = true := by
  cases n with
  | set s vs o m r => by_cases ho : o.isEmpty = true <;> simp [appendOrderFn, ho, isSet]
  | _ => simp_all [isSet]
theorem isSet_delItemFn (bid : Nat) (n : Node) (h : n.isSet = true) : (delItemFn bid n).isSet = true := by
  cases n <;> simp_all [isSet, delItemFn]

theorem good_appendBoth (nb : Node) (hne : nb.isEntry = false) (hnb : nb.allSets Good = true)
    (n : Node) (h : n.allSets Good = true) :
    ((appendOrderFn nb ∘ appendValueFn nb) n).allSets Good = true := by
  cases n with
  | set s vs o m r =>
    simp only [allSets, Bool.and_eq_true] at h
    obtain ⟨⟨hg, hvs⟩, ho⟩ := h
    rw [good_iff] at hg
    simp only [setOrder, setValues] at hg
    simp only [Function.comp, appendValueFn, appendOrderFn]
    rcases hg.2 with rfl | rfl
    · simp [allSets, good_iff, setOrder, setValues, noEntriesL, hvs, hnb, allSetsL]
    · cases o with
      | nil => simp [allSets, good_iff, setOrder, setValues, noEntriesL, hnb, allSetsL]
      | cons x xs =>
        have hn := hg.1
        simp only [noEntriesL, List.all_cons, Bool.and_eq_true] at hn
        simp only [allSetsL, Bool.and_eq_true] at hvs
        simp [allSets, good_iff, setOrder, setValues, noEntriesL, hnb, allSetsL, hne, hn.1, hvs.1,
          hvs.2]
        simpa using hn.2
  | _ => simpa [Function.comp, appendValueFn, appendOrderFn] using h

theorem eraseP_bindId_eq (bid : Nat) (vs : List Node) :
    (vs.eraseP fun n => n.isBind && n.bindId? == some bid) =
      vs.eraseP fun n => n.bindId? == some bid := by
  congr 1
  funext n
  cases n <;> simp [isBind, bindId?]

theorem noEntriesL_sublist {xs ys : List Node} (hs : List.Sublist xs ys)
    (h : noEntriesL ys = true) : noEntriesL xs = true := by
  simp only [noEntriesL, List.all_eq_true] at h ⊢
  exact fun x hx => h x (hs.subset hx)

theorem good_delItemFn (bid : Nat) (n : Node) (h : n.allSets Good = true) :
    (delItemFn bid n).allSets Good = true := by
  cases n with
  | set s vs o m r =>
    simp only [allSets, Bool.and_eq_true] at h
    obtain ⟨⟨hg, hvs⟩, ho⟩ := h
    rw [good_iff] at hg
    simp only [setOrder, setValues] at hg
    simp only [delItemFn, allSets, Bool.and_eq_true]
    refine ⟨⟨?_, allSetsL_sublist List.eraseP_sublist hvs⟩, ?_⟩
    · rw [good_iff]
      simp only [setOrder, setValues]
      rcases hg.2 with rfl | rfl
      · simp [noEntriesL]
      · cases o with
        | nil => simp [noEntriesL]
        | cons x xs =>
          simp only [List.isEmpty_cons, Bool.false_eq_true, if_false, eraseP_bindId_eq]
          exact ⟨noEntriesL_sublist List.eraseP_sublist hg.1, by simp⟩
    · split
      · exact ho
      · exact allSetsL_sublist List.eraseP_sublist ho
  | _ => simpa [delItemFn] using h

/-! ### preservation of the document invariant -/

theorem docGood_iff (d : Doc) : DocGood d = true ↔ d.allSets Good = true ∧ GoodScope d = true := by
  simp [DocGood]

theorem allSets_bind_value {p : Node → Bool} {b v : Node} (hb : b.allSets p = true)
    (hv : b.bindValue? = some v) : v.allSets p = true := by
  cases b <;> simp [bindValue?] at hv
  subst hv
  simpa [allSets] using hb

theorem docGood_setSetItem (s : Node) (k : Text) (v : Node) (d : Doc)
    (hv : v.allSets Good = true) (h : DocGood d = true) :
    DocGood (setSetItem s k v d).2 = true := by
  rw [docGood_iff] at h ⊢
  cases hb : findBinding s.setValues k with
  | some b =>
    obtain ⟨bid, hid⟩ := isBind_bindId (findBinding_some hb).2.1
    rw [setSetItem_existing v d hb hid]
    exact ⟨doc_allSets_updBind bid v hv d h.1, goodScope_updBind bid v d h.2⟩
  | none =>
    cases hs : s.setSid? with
    | none => rw [setSetItem_notSet v d hb hs]; exact h
    | some sid =>
      rw [setSetItem_new v d hb hs]
      have hset : ∀ n : Node, n.isSet = true →
          ((appendOrderFn (.bind d.next k false v [] []) ∘
            appendValueFn (.bind d.next k false v [] [])) n).isSet = true :=
        fun n hn => isSet_appendOrderFn _ _ (isSet_appendValueFn _ _ hn)
      refine ⟨doc_allSets_updSet sid _ hset (fun n _ hn => good_appendBoth _ rfl ?_ n hn) _ ?_,
        goodScope_updSet sid _ hset _ ?_⟩
      · simpa [allSets] using hv
      · simpa [Doc.allSets] using h.1
      · simpa [GoodScope] using h.2

theorem docGood_setDelItem (s : Node) (k : Text) (d : Doc) (h : DocGood d = true) :
    DocGood (setDelItem s k d).2 = true := by
  rw [docGood_iff] at h ⊢
  cases hb : findBinding s.setValues k with
  | none => rw [setDelItem_missing d hb]; exact h
  | some b =>
    obtain ⟨bid, hid⟩ := isBind_bindId (findBinding_some hb).2.1
    cases hs : s.setSid? with
    | none =>
      have : setDelItem s k d = (.error .key, d) := by
        unfold setDelItem; simp only [hb, hs]; rfl
      rw [this]; exact h
    | some sid =>
      rw [setDelItem_existing d hb hid hs]
      exact ⟨doc_allSets_updSet sid _ (isSet_delItemFn bid) (fun n _ hn => good_delItemFn bid n hn) d h.1,
        goodScope_updSet sid _ (isSet_delItemFn bid) d h.2⟩

/-! ### the scope mapping -/

theorem scopeSetItem_existing {k : Text} {b : Node} {bid : Nat} (v : Node) (d : Doc)
    (hb : findBinding d.scope k = some b) (hid : b.bindId? = some bid) :
    scopeSetItem k v d = (.ok (), d.updBind bid v) := by
  unfold scopeSetItem
  simp only [hb, hid]
  rfl

theorem scopeSetItem_new {k : Text} (v : Node) (d : Doc) (hb : findBinding d.scope k = none) :
    scopeSetItem k v d = (.ok (), { d with
      next := d.next + 1, scope := d.scope ++ [.bind d.next k false v [] []],
      stOrder := if d.stOrder.isEmpty then d.stOrder
                 else d.stOrder ++ [.bind d.next k false v [] []] }) := by
  unfold scopeSetItem
  simp only [hb]

def scopeOrderPred (bid : Nat) : Node → Bool
  | .bind i .. => i == bid
  | .entry _ leaf _ _ => leaf.bindId? == some bid
  | _ => false

theorem scopeDelItem_existing {k : Text} {b : Node} {bid : Nat} (d : Doc)
    (hb : findBinding d.scope k = some b) (hid : b.bindId? = some bid) :
    scopeDelItem k d = (.ok (), { d with
      scope := d.scope.eraseP fun n => n.isBind && n.bindId? == some bid
      stOrder := if d.stOrder.isEmpty then d.stOrder else d.stOrder.eraseP (scopeOrderPred bid) }) := by
  unfold scopeDelItem
  simp only [hb, hid]
  congr

theorem scopeDelItem_missing {k : Text} (d : Doc) (hb : findBinding d.scope k = none) :
    scopeDelItem k d = (.error .key, d) := by
  unfold scopeDelItem
  simp only [hb]

theorem eraseP_congr_on {p q : Node → Bool} (xs : List Node) (h : ∀ x ∈ xs, p x = q x) :
    xs.eraseP p = xs.eraseP q := by
  induction xs with
  | nil => rfl
  | cons x xs ih =>
    simp only [List.eraseP_cons, h x (by simp)]
    rw [ih fun y hy => h y (by simp [hy])]

theorem scopeOrderPred_eq (bid : Nat) (n : Node) (h : n.isEntry = false) :
    scopeOrderPred bid n = (n.isBind && n.bindId? == some bid) := by
  cases n <;> simp_all [scopeOrderPred, isBind, bindId?, isEntry]

theorem docGood_scopeSetItem (k : Text) (v : Node) (d : Doc)
    (hv : v.allSets Good = true) (h : DocGood d = true) :
    DocGood (scopeSetItem k v d).2 = true := by
  rw [docGood_iff] at h ⊢
  cases hb : findBinding d.scope k with
  | some b =>
    obtain ⟨bid, hid⟩ := isBind_bindId (findBinding_some hb).2.1
    rw [scopeSetItem_existing v d hb hid]
    exact ⟨doc_allSets_updBind bid v hv d h.1, goodScope_updBind bid v d h.2⟩
  | none =>
    rw [scopeSetItem_new v d hb]
    obtain ⟨ha, hg⟩ := h
    simp only [Doc.allSets, Bool.and_eq_true] at ha
    obtain ⟨⟨⟨⟨⟨h1, h2⟩, h3⟩, h4⟩, h5⟩, h6⟩ := ha
    simp only [GoodScope, Bool.and_eq_true] at hg
    have hnb : (Node.bind d.next k false v [] []).allSets Good = true := by simpa [allSets] using hv
    constructor
    · simp only [Doc.allSets, Bool.and_eq_true]
      refine ⟨⟨⟨⟨⟨h1, h2⟩, ?_⟩, ?_⟩, h5⟩, h6⟩
      · simp [h3, allSetsL, hnb]
      · split
        · exact h4
        · simp [h4, allSetsL, hnb]
    · simp only [GoodScope, Bool.and_eq_true]
      rcases (syncedL_iff _ _).1 hg.2 with h0 | h0
      · simp [h0, noEntriesL, syncedL_iff]
      · by_cases he : d.stOrder.isEmpty = true
        · have : d.stOrder = [] := by simpa using he
          simp [this, noEntriesL, syncedL_iff]
        · have hn := hg.1
          rw [if_neg he]
          refine ⟨?_, ?_⟩
          · simp only [noEntriesL, List.all_eq_true] at hn ⊢
            intro x hx
            rcases List.mem_append.1 hx with hx | hx
            · exact hn x hx
            · simp only [List.mem_singleton] at hx; subst hx; rfl
          · rw [syncedL_iff, h0]; exact Or.inr rfl

theorem docGood_scopeDelItem (k : Text) (d : Doc) (h : DocGood d = true) :
    DocGood (scopeDelItem k d).2 = true := by
  rw [docGood_iff] at h ⊢
  cases hb : findBinding d.scope k with
  | none => rw [scopeDelItem_missing d hb]; exact h
  | some b =>
    obtain ⟨bid, hid⟩ := isBind_bindId (findBinding_some hb).2.1
    rw [scopeDelItem_existing d hb hid]
    obtain ⟨ha, hg⟩ := h
    simp only [Doc.allSets, Bool.and_eq_true] at ha
    obtain ⟨⟨⟨⟨⟨h1, h2⟩, h3⟩, h4⟩, h5⟩, h6⟩ := ha
    simp only [GoodScope, Bool.and_eq_true] at hg
    constructor
    · simp only [Doc.allSets, Bool.and_eq_true]
      refine ⟨⟨⟨⟨⟨h1, h2⟩, allSetsL_sublist List.eraseP_sublist h3⟩, ?_⟩, h5⟩, h6⟩
      split
      · exact h4
      · exact allSetsL_sublist List.eraseP_sublist h4
    · simp only [GoodScope, Bool.and_eq_true]
      rcases (syncedL_iff _ _).1 hg.2 with h0 | h0
      · simp [h0, noEntriesL, syncedL_iff]
      · by_cases he : d.stOrder.isEmpty = true
        · have : d.stOrder = [] := by simpa using he
          simp [this, noEntriesL, syncedL_iff]
        · have hn := hg.1
          rw [if_neg he]
          refine ⟨noEntriesL_sublist List.eraseP_sublist hn, ?_⟩
          rw [syncedL_iff]
          right
          rw [h0]
          apply eraseP_congr_on
          intro x hx
          apply scopeOrderPred_eq
          simp only [noEntriesL, List.all_eq_true, h0] at hn
          simpa using hn x hx

/-! ### reaching nested sets -/

theorem setGetItem_allSets {p : Node → Bool} {s : Node} {k : Text} {v : Node}
    (hs : s.allSets p = true) (h : setGetItem s k = .ok v) : v.allSets p = true := by
  have hvals : ∀ {n : Node}, n.allSets p = true → allSetsL p n.setValues = true := by
    intro n hn
    cases n <;> simp_all [allSets, setValues, allSetsL]
  have hfind : ∀ {n b w : Node} {key : Text}, n.allSets p = true →
      findBinding n.setValues key = some b → b.bindValue? = some w → w.allSets p = true := by
    intro n b w key hn hb hw
    exact allSets_bind_value (allSetsL_mem (hvals hn) (findBinding_some hb).1) hw
  unfold setGetItem at h
  split at h
  · rename_i b hb
    split at h
    · rename_i w hw
      injection h with h; subst h
      exact hfind hs hb hw
    · cases h
  · split at h
    · injection h with h; subst h; rfl
    · split at h
      · cases h
      · rename_i segs _
        split at h
        · cases h
        · -- the dotted walk
          have hwalk : ∀ (segs : List Text) (cur : Node), cur.allSets p = true →
              setGetItem.walk cur segs = .ok v → v.allSets p = true := by
            intro segs
            induction segs with
            | nil => intro cur _ hw; simp [setGetItem.walk] at hw
            | cons seg more ih =>
              intro cur hc hw
              cases more with
              | nil =>
                simp only [setGetItem.walk] at hw
                split at hw
                · rename_i b hb
                  split at hw
                  · rename_i w hw'
                    injection hw with hw; subst hw
                    exact hfind hc hb hw'
                  · cases hw
                · cases hw
              | cons seg2 more2 =>
                simp only [setGetItem.walk] at hw
                split at hw
                · rename_i b hb
                  split at hw
                  · rename_i w _ _ _ _ _ hw'
                    exact ih _ (hfind hc hb hw') hw
                  · cases hw
                · cases hw
          exact hwalk _ _ hs h

theorem reachFrom_allSets {p : Node → Bool} (path : List Text) :
    ∀ {cur s : Node}, cur.allSets p = true → reachFrom cur path = .ok s → s.allSets p = true := by
  induction path with
  | nil => intro cur s hc h; simp only [reachFrom] at h; injection h with h; subst h; exact hc
  | cons k ks ih =>
    intro cur s hc h
    simp only [reachFrom] at h
    split at h
    · rename_i v _ _ _ _ _ hv
      exact ih (setGetItem_allSets hc hv) h
    · cases h
    · cases h

end Nima
