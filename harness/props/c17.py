"""C17 — imports resolve relative to the importing file, whatever the working directory.

Tie: translator (the `resolved_path` recipe and the data flow of parse_file / source_path_context /
NixPath.from_cst / Import._follow_import, re-extracted from the Python AST on every run and proved
equal to the model's by `tie_*`) + correspondence of `parse_file(entry)[k1][k2]…` on REAL temporary
directory trees under REAL working directories with the Lean model `implLookup`, of pathlib's pure
operations with `parsePath/parent`, and of `NixPath.resolved_path` with the recipe interpreter.

Oracle (implementation only, independent of the model and of the code's path plumbing): the kernel.
Each hop's target is `os.stat(<canonical directory of the file that contains the literal>/<literal>)`
(`os.stat(<home directory>/x)` for a `~/x` literal; HOME is set to a directory of the temporary tree)
and the file it names is recognised by its inode; the expected result is the value planted in that
file by the generator.
"""
from __future__ import annotations

import itertools
import os
import shutil
import stat as statmod
import tempfile
from pathlib import Path

from .. import framework as fw
from ..framework import hx, unhx

GEN_TABLES = ("resolved_path", "import_plumbing")

DIR_NAMES = ["a", "b", "lib", "pkgs", "x-y", "d.e", "p+q", "_u", "N9"]
FILE_NAMES = ["default.nix", "f.nix", "g.nix", "mod.nix", "pkg-1.2.nix", "h+i.nix"]
OTHER_ARGS = ['"./f.nix"', "5", "foo", "null", "{ }", "[ ]", "true", "''x''", '"/etc/passwd"']
ANGLES = ["<nixpkgs>", "<nixpkgs/lib>", "<f.nix>"]
TOPS = ["plain", "plain", "plain", "let", "lambda", "rec"]
NOTSET = ["5", "[ 1 2 ]", '"s"']


# ---------------------------------------------------------------- layouts (symbolic, JSON-able)
# file spec: {"top": kind | "notset:<text>", "bindings": [[key, val], …]}
# val: ["lit", n] | ["imp", arg] | ["set", [[k, v], …]];  arg: ["path", text] | ["paren", arg] | ["cmt", arg] | ["letin", arg] | ["other", text]
# `$BASE` in a literal / entry stands for the (canonical) temporary directory, `$HOME` for the home dir.
def subst(text: str, base: str, home: str | None) -> str:
    text = text.replace("$BASE2", base.lstrip("/")).replace("$BASE", base)
    if home is not None:
        text = text.replace("$HOME", home)
    return text


def render_arg(a, base, home) -> str:
    if a[0] == "path":
        return subst(a[1], base, home)
    if a[0] == "paren":
        return "(" + render_arg(a[1], base, home) + ")"
    if a[0] == "cmt":  # a comment on its own line between `import` and its argument
        return "\n    # note\n    " + render_arg(a[1], base, home)
    if a[0] == "letin":  # the path is the body of a parenthesised let
        return "(let q = 1; in " + render_arg(a[1], base, home) + ")"
    return a[1]


def render_val(v, base, home) -> str:
    if v[0] == "lit":
        return str(v[1])
    if v[0] == "imp":
        return "import " + render_arg(v[1], base, home)
    return "{ " + "".join(f"{k} = {render_val(x, base, home)}; " for k, x in v[1]) + "}"


def render_file(spec, base, home) -> str:
    top = spec["top"]
    if top.startswith("notset:"):
        return top[len("notset:"):] + "\n"
    body = "{\n" + "".join(f"  {k} = {render_val(v, base, home)};\n" for k, v in spec["bindings"]) + "}\n"
    if top == "let":
        return "let\n  u = 1;\nin\n" + body
    if top == "lambda":
        return "{ pkgs ? null }:\n" + body
    if top == "rec":
        return "rec " + body
    return body


def materialise(layout, base: str, home: str | None):
    """Write the layout under `base`; returns {inode: relpath}."""
    inodes = {}
    for d in layout.get("dirs", []):
        os.makedirs(os.path.join(base, d), exist_ok=True)
    for rel, spec in layout["files"].items():
        p = os.path.join(base, rel)
        os.makedirs(os.path.dirname(p), exist_ok=True)
        with open(p, "w", encoding="utf-8") as fh:
            fh.write(render_file(spec, base, home))
        st = os.stat(p)
        inodes[(st.st_dev, st.st_ino)] = rel
    return inodes


# ---------------------------------------------------------------- model requests
def sx_arg(a, base, home):
    if a[0] == "cmt":
        return sx_arg(a[1], base, home)
    if a[0] == "letin":
        return ["paren", sx_arg(a[1], base, home)]
    if a[0] == "path":
        return ["path", hx(subst(a[1], base, home))]
    if a[0] == "paren":
        return ["paren", sx_arg(a[1], base, home)]
    return ["other"]


def sx_val(v, base, home):
    if v[0] == "lit":
        return ["lit", v[1]]
    if v[0] == "imp":
        return ["imp", sx_arg(v[1], base, home)]
    return ["set"] + [[hx(k), sx_val(x, base, home)] for k, x in v[1]]


def sx_fs(layout, base, home, extra_dirs=()):
    files = []
    for rel, spec in layout["files"].items():
        if spec["top"].startswith("notset:"):
            c = ["notset"]
        else:
            c = ["attrs"] + [[hx(k), sx_val(v, base, home)] for k, v in spec["bindings"]]
        files.append([hx(base + "/" + rel), c])
    dirs = [hx(base)] + [hx(base + "/" + d) for d in layout.get("dirs", [])] + [hx(d) for d in extra_dirs]
    return files, dirs


def canon_model_val(v):
    """Reply value -> the canonical JSON form used for comparison."""
    if v[0] == "lit":
        return ["lit", int(v[1])]
    if v[0] == "imp":
        return ["imp", canon_model_arg(v[1])]
    return ["set", [[unhx(b[0]), canon_model_val(b[1])] for b in v[1:]]]


def canon_model_arg(a):
    if a[0] == "path":
        return ["path", unhx(a[1])]
    if a[0] == "paren":
        return ["paren", canon_model_arg(a[1])]
    return ["other"]


def canon_reply(r):
    if r[0] == "ok":
        return ["ok", canon_model_val(r[1])]
    if r[0] == "err":
        return ["err", r[1]]
    return ["bad", r]


def canon_layout_val(v, base, home):
    if v[0] == "lit":
        return ["lit", v[1]]
    if v[0] == "imp":
        return ["imp", canon_layout_arg(v[1], base, home)]
    return ["set", [[k, canon_layout_val(x, base, home)] for k, x in v[1]]]


def canon_layout_arg(a, base, home):
    if a[0] == "cmt":
        return canon_layout_arg(a[1], base, home)
    if a[0] == "letin":
        return ["paren", canon_layout_arg(a[1], base, home)]
    if a[0] == "path":
        return ["path", subst(a[1], base, home)]
    if a[0] == "paren":
        return ["paren", canon_layout_arg(a[1], base, home)]
    return ["other"]


# ---------------------------------------------------------------- the implementation
def exc_class(exc: BaseException) -> str:
    if isinstance(exc, OSError):
        return "os"
    if isinstance(exc, KeyError):
        return "key"
    if isinstance(exc, TypeError):
        return "type"
    if isinstance(exc, ValueError):
        return "value"
    return "internal:" + type(exc).__name__


def canon_real(v):
    from nix_manipulator.expressions.binding import Binding
    from nix_manipulator.expressions.import_expression import Import
    from nix_manipulator.expressions.parenthesis import Parenthesis
    from nix_manipulator.expressions.path import NixPath
    from nix_manipulator.expressions.set import AttributeSet

    def arg(a):
        if isinstance(a, NixPath):
            return ["path", a.path]
        if isinstance(a, Parenthesis):
            return ["paren", arg(a.value)]
        return ["other"]

    if isinstance(v, Import):
        return ["imp", arg(v.argument)]
    if isinstance(v, AttributeSet):
        return ["set", [[b.name, canon_real(b.value)] for b in v.values if isinstance(b, Binding)]]
    val = getattr(v, "value", None)
    if isinstance(val, int) and not isinstance(val, bool):
        return ["lit", val]
    return ["unknown", type(v).__name__]


def run_real(cwd_abs: str, entry: str, keys, as_path: bool, home: str | None):
    """`parse_file(entry)[k1][k2]…` in the real code under a real working directory."""
    from nix_manipulator import parse_file

    old = os.getcwd()
    old_home = os.environ.get("HOME")
    try:
        os.chdir(cwd_abs)
        if home is not None:
            os.environ["HOME"] = home
        try:
            v = parse_file(Path(entry) if as_path else entry)
            for k in keys:
                v = v[k]
            return ["ok", canon_real(v)]
        except Exception as exc:  # noqa: BLE001
            return ["err", exc_class(exc)]
    finally:
        os.chdir(old)
        if old_home is None:
            os.environ.pop("HOME", None)
        else:
            os.environ["HOME"] = old_home


# ---------------------------------------------------------------- the oracle (kernel + planted values)
def stat_file(path: str, inodes):
    """The regular file of the layout that the kernel finds at `path`, or 'os'."""
    try:
        st = os.stat(path)
    except OSError:
        return "os"
    if not statmod.S_ISREG(st.st_mode):
        return "os"
    return inodes.get((st.st_dev, st.st_ino), "os")


def lit_kind(text: str) -> str:
    if text.startswith("<") and text.endswith(">"):
        return "angle"
    if text.startswith("~/"):
        return "home"
    if text.startswith("/"):
        return "abs"
    if text.startswith("../"):
        return "parent"
    return "rel"


def strip_paren(a):
    while a[0] in ("paren", "cmt", "letin"):
        a = a[1]
    return a


def oracle(layout, inodes, base, home, cwd_abs, entry, keys, home_relative=False, lexical=False):
    """What the property requires. Returns (outcome, kinds of the literals followed).
    `lexical`: collapse `.`/`..` in each hop's target textually first (Nix's own reading of a path
    literal); differs from the kernel's only where a `..` follows a component that does not exist."""
    kinds = []
    norm = os.path.normpath if lexical else (lambda p: p)
    cur = stat_file(os.path.join(cwd_abs, entry), inodes)
    if cur == "os":
        return ["err", "os"], kinds

    def enter(rel, k):
        spec = layout["files"][rel]
        if spec["top"].startswith("notset:"):
            return None, "value"
        for kk, vv in spec["bindings"]:
            if kk == k:
                return vv, None
        return None, "key"

    v, err = enter(cur, keys[0])
    if err:
        return ["err", err], kinds
    for k in keys[1:]:
        if v[0] == "lit":
            return ["err", "type"], kinds
        if v[0] == "set":
            nxt = next((vv for kk, vv in v[1] if kk == k), None)
            if nxt is None:
                return ["err", "key"], kinds
            v = nxt
            continue
        a = strip_paren(v[1])
        if a[0] != "path":
            return ["err", "type"], kinds
        text = subst(a[1], base, home)
        kind = lit_kind(text)
        kinds.append(kind)
        if kind == "angle":
            return ["err", "value"], kinds
        if kind == "home" and not home_relative:
            target = os.path.join(home, text[2:])
        else:
            # the directory of the file that contains the literal, by its canonical location
            target = os.path.join(os.path.dirname(os.path.join(base, cur)), text)
        cur = stat_file(norm(target), inodes)
        if cur == "os":
            return ["err", "os"], kinds
        v, err = enter(cur, k)
        if err:
            return ["err", err], kinds
    return ["ok", canon_layout_val(v, base, home)], kinds


# ---------------------------------------------------------------- generator G-fs
def gen_layout(rng, depth, n_files, with_home):
    """A directory tree, files with planted values, import bindings spelled in many ways.
    Returns (layout, intended) where intended[(file, key-path)] = target file or error class."""
    dirs = [""]
    for _ in range(rng.randint(2, 3 + depth)):
        parent = rng.choice(dirs)
        if parent.count("/") + (1 if parent else 0) >= depth:
            continue
        name = rng.choice(DIR_NAMES)
        d = f"{parent}/{name}" if parent else name
        if d not in dirs:
            dirs.append(d)
    files = {}
    names = list(FILE_NAMES)
    while len(files) < n_files:
        d = rng.choice(dirs)
        rel = (d + "/" if d else "") + rng.choice(names)
        if rel in files or rel in dirs:
            continue
        files[rel] = None
    rels = list(files)
    layout = {"files": {}, "dirs": [d for d in dirs if d] + ["empty"]}
    if with_home:
        layout["dirs"].append("home")
    intended = {}
    for idx, rel in enumerate(rels):
        if rng.random() < 0.06:
            layout["files"][rel] = {"top": "notset:" + rng.choice(NOTSET), "bindings": []}
            continue
        d = os.path.dirname(rel)
        binds = [["v", ["lit", idx * 10 + 1]]]
        nested = [["x", ["lit", idx * 10 + 2]]]
        for j in range(rng.randint(2, 5)):
            key = f"i{j}"
            arg, want = gen_import(rng, rel, d, rels, dirs, with_home)
            for _ in range(rng.choice([0, 0, 0, 1, 2])):
                arg = ["paren", arg]
            if arg[0] == "path" and rng.random() < 0.12:
                arg = [rng.choice(["cmt", "letin"]), arg]
            if rng.random() < 0.2:
                nested.append([key, ["imp", arg]])
                intended[(rel, ("s", key))] = want
            else:
                binds.append([key, ["imp", arg]])
                intended[(rel, (key,))] = want
        binds.append(["s", ["set", nested]])
        rng.shuffle(binds)
        layout["files"][rel] = {"top": rng.choice(TOPS), "bindings": binds}
    if with_home:
        layout["files"]["home/h.nix"] = {"top": "plain", "bindings": [["v", ["lit", 7771]], ["s", ["set", [["x", ["lit", 7772]]]]]]}
    return layout, intended


def relpath(target: str, d: str) -> str:
    return os.path.relpath("/" + target, "/" + d if d else "/")


def gen_import(rng, rel, d, rels, dirs, with_home):
    """One import argument inside the file `rel` (in directory `d`), and what it should reach."""
    r = rng.random()
    target = rng.choice(rels)
    rp = relpath(target, d)
    if r < 0.30:  # plain relative: ./child, ../parent, sibling
        text = rp if rp.startswith("../") else "./" + rp
        return ["path", text], target
    if r < 0.38:  # bare relative (needs a slash to be a path literal)
        if "/" in rp and not rp.startswith("."):
            return ["path", rp], target
        return ["path", "./" + rp if not rp.startswith("../") else rp], target
    if r < 0.50:  # detour through an existing directory and back
        kids = [x for x in dirs if x and os.path.dirname(x) == d]
        if kids and rng.random() < 0.6:
            k = os.path.basename(rng.choice(kids))
            return ["path", f"./{k}/../{rp}"], target
        if d:
            return ["path", f"../{os.path.basename(d)}/{rp}"], target
        return ["path", "./" + rp if not rp.startswith("../") else rp], target
    if r < 0.60:  # absolute
        if rng.random() < 0.5:
            return ["path", "$BASE/" + target], target
        td = os.path.dirname(target)
        if td:
            return ["path", f"$BASE/{td}/../{td}/{os.path.basename(target)}"], target
        return ["path", "$BASE/empty/../" + target], target
    if r < 0.68:  # climb above the temporary directory and come back by name
        ups = "../" * ((d.count("/") + 1 if d else 0) + rng.choice([2, 3, 9]))  # `/..` is `/`
        return ["path", ups + "$BASE2/" + target], target
    if r < 0.73:  # missing file
        return ["path", "./" + rng.choice(["nope.nix", "ghost/f.nix", "../../../../../../../../nope.nix"])], "os"
    if r < 0.78:  # lexically fine, physically not: through a directory that does not exist
        return ["path", f"./ghost/../{rp}"], "os"
    if r < 0.82:  # a directory, or through a regular file
        if rng.random() < 0.5:
            return ["path", "./" + rng.choice(["../" + os.path.basename(d) if d else "empty", "empty", "empty/.."])], "os"
        return ["path", f"./{os.path.basename(rel)}/../{os.path.basename(rel)}"], "os"
    if r < 0.87:
        return ["path", rng.choice(ANGLES)], "value"
    if r < 0.92:
        return ["other", rng.choice(OTHER_ARGS)], "type"
    if r < 0.96 or not with_home:  # unconstrained: whatever the kernel makes of it is what is required
        pool = ["..", "..", "ghost", os.path.basename(rel)] + [os.path.basename(x) for x in dirs if x] + \
            [os.path.basename(x) for x in rels]
        comps = [rng.choice(pool) for _ in range(rng.randint(1, 5))]
        return ["path", rng.choice(["./", "../", "$BASE/"]) + "/".join(comps)], "unknown"
    return ["path", rng.choice(["~/h.nix", "~/nope.nix"])], "home"


def gen_chain(rng, layout, intended, max_hops):
    """A key list that walks import bindings (by construction), ending on a planted value, a nested
    set, the import object itself, or an error."""
    rels = [r for r, s in layout["files"].items() if not r.startswith("home/")]
    cur = rng.choice(rels)
    entry = cur
    keys = []
    hops = 0
    while True:
        spec = layout["files"][cur]
        if spec["top"].startswith("notset:"):
            keys.append("v")
            break
        imps = [kp for (f, kp) in intended if f == cur]
        if hops < max_hops and imps and rng.random() < 0.92:
            good = [kp for kp in imps if intended[(cur, kp)] in layout["files"]]
            kp = rng.choice(good if good and rng.random() < 0.7 else imps)
            keys += list(kp)
            want = intended[(cur, kp)]
            hops += 1
            if want in layout["files"]:
                cur = want
                continue
            if want in ("home", "unknown"):
                keys.append(rng.choice(["v", "v", "s"]))
                break
            if rng.random() < 0.8:
                keys.append("v")  # look through the broken import: error expected
            break
        keys += rng.choice([["v"], ["v"], ["s", "x"], ["s"], ["zz"], ["v", "q"]])
        break
    return entry, keys, hops


def spellings(rng, base, cwd_rel, entry_rel, layout):
    """Ways to spell the entry file (relative to base) from working directory `cwd_rel`."""
    cwd_abs = cwd_rel if cwd_rel.startswith("/") else os.path.join(base, cwd_rel)
    rp = os.path.relpath(os.path.join(base, entry_rel), cwd_abs)
    out = [("abs", "$BASE/" + entry_rel), ("rel", rp), ("dot", "./" + rp)]
    ed = os.path.dirname(entry_rel)
    if ed:
        out.append(("detour", os.path.join(os.path.dirname(rp), "..", os.path.basename(ed), os.path.basename(entry_rel))))
    out.append(("abs-detour", "$BASE/empty/..//" + entry_rel))
    out.append(("slashes", rp.replace("/", "//") + ""))
    return out


# ---------------------------------------------------------------- one evaluated case
def classify(real, want, want_rel, kinds):
    if want != want_rel and real == want_rel:
        return {"clause": "home-literal"}
    return {"clause": "resolution", "literal": (kinds[-1] if kinds else "entry"),
            "expected": want[0] + ":" + (want[1] if want[0] == "err" else want[1][0]),
            "got": real[0] + ":" + (real[1] if real[0] == "err" else real[1][0])}


class Batch:
    """Cases evaluated on the real tree now; model requests collected and asked in one go."""

    def __init__(self, ctx):
        self.ctx = ctx
        self.reqs = []
        self.meta = []
        self._ghost = {}

    def add(self, layout, base, home, inodes, cwd_rel, entry, keys, as_path, observe=True):
        ctx = self.ctx
        cwd_abs = cwd_rel if cwd_rel.startswith("/") else (os.path.join(base, cwd_rel) if cwd_rel else base)
        entry_abs = subst(entry, base, home)
        real = run_real(cwd_abs, entry_abs, keys, as_path, home)
        want, kinds = oracle(layout, inodes, base, home, cwd_abs, entry_abs, keys)
        inp = {"layout": layout, "cwd": cwd_rel, "entry": entry, "keys": keys, "as_path": as_path,
               "home": home is not None}
        # `./ghost/../x` (ghost missing): the kernel says ENOENT, Nix's lexical reading says `./x`; the
        # property does not choose, so either outcome is accepted (the model follows the kernel).
        want_lex = want
        if id(layout) not in self._ghost:
            self._ghost[id(layout)] = "ghost" in repr(layout)
        if self._ghost[id(layout)] or real != want:
            want_lex, _ = oracle(layout, inodes, base, home, cwd_abs, entry_abs, keys, lexical=True)
        if observe and real != want and real != want_lex:
            want_rel, _ = oracle(layout, inodes, base, home, cwd_abs, entry_abs, keys, home_relative=True)
            ctx.fail(classify(real, want, want_rel, kinds), inp,
                     f"parse_file({entry!r})[{']['.join(map(repr, keys))}] with cwd={cwd_rel or '.'!r}: "
                     f"the code gives {real!r}, the property requires {want!r}",
                     observed=real, required=want)
        files, dirs = sx_fs(layout, base, home, extra_dirs=[cwd_abs])
        ks = [hx(k) for k in keys]
        # the home path the code sees: HOME as run_real sets it, else the process's own
        home_text = hx(home if home is not None else os.path.expanduser("~"))
        self.reqs.append(["fslookup", ["impl", home_text], files, dirs, hx(cwd_abs), hx(entry_abs), ks])
        self.meta.append(("impl", real, inp))
        self.reqs.append(["fslookup", ["spec", home_text], files, dirs, hx(cwd_abs), hx(entry_abs), ks])
        self.meta.append(("spec", want, inp))
        ctx.count("outcome:" + (real[1] if real[0] == "err" else "ok-" + real[1][0]))
        for k in kinds:
            ctx.count("literal:" + k)
        return real, want, kinds

    def flush(self):
        ctx = self.ctx
        replies = ctx.driver.ask_many(self.reqs)
        ctx.corr_checked += len(self.reqs)
        for (what, expect, inp), rq, got in zip(self.meta, self.reqs, replies):
            got = canon_reply(got)
            if got != expect:
                ctx.count("disagreements:" + what)
                if sum(1 for t in ctx.tie_breaks if t["kind"] in ("correspondence", "spec")) < 6:
                    if what == "impl":
                        ctx.tie_break("correspondence", "implLookup disagrees with parse_file(entry)[keys…]",
                                      request=inp, implementation=expect, model=got)
                    else:
                        ctx.tie_break("spec", "specFrom (Lean SPEC) disagrees with the kernel/inode oracle",
                                      request=inp, oracle=expect, model=got)
        self.reqs, self.meta = [], []


def with_tree(layout, with_home, fn):
    """Materialise `layout` in a fresh temporary directory (outside /repo and /verif), run fn, clean up."""
    raw = tempfile.mkdtemp(prefix="c17-")
    try:
        base = os.path.realpath(raw)
        home = os.path.join(base, "home") if with_home else None
        inodes = materialise(layout, base, home)
        return fn(layout, base, home, inodes)
    finally:
        shutil.rmtree(raw, ignore_errors=True)


def cwd_choices(rng, layout, entry_rel, n):
    ds = [""] + [d for d in layout["dirs"] if d != "home"]
    first = [os.path.dirname(entry_rel), ""]
    rest = [d for d in ds if d not in first]
    rng.shuffle(rest)
    out = []
    for c in first + rest + ["/", "/tmp"]:
        if c not in out:
            out.append(c)
    special = [c for c in out if c.startswith("/")]
    out = out[: max(1, n - 1)] + [rng.choice(special)]
    return out[:n] if len(out) >= n else out


def explore(ctx, n_layouts, depth, max_hops, chains_per_layout, n_cwds, observe=True, with_home_rate=0.25):
    rng = ctx.rng
    for _ in range(n_layouts):
        with_home = rng.random() < with_home_rate
        layout, intended = gen_layout(rng, depth, rng.randint(3, 4 + depth), with_home)

        def body(lay, base, home, inodes, intended=intended):
            batch = Batch(ctx)
            for _ in range(chains_per_layout):
                entry_rel, keys, hops = gen_chain(rng, lay, intended, max_hops)
                results = set()
                for cwd_rel in cwd_choices(rng, lay, entry_rel, n_cwds):
                    sp = spellings(rng, base, cwd_rel, entry_rel, lay)
                    chosen = [sp[0]] + rng.sample(sp[1:], 2)
                    for kind, entry in chosen:
                        as_path = rng.random() < 0.3
                        real, want, kinds = batch.add(lay, base, home, inodes, cwd_rel, entry, keys, as_path, observe)
                        results.add(repr(real))
                        ctx.count("spelling:" + kind)
                        ctx.count("hops:%d" % len(kinds))
                        ctx.case({"cwd": cwd_rel, "entry": entry, "keys": keys, "files": sorted(lay["files"])},
                                 nontrivial=bool(kinds) and (kind != "abs" or cwd_rel != os.path.dirname(entry_rel)))
                if observe and len(results) > 1:
                    ctx.fail({"clause": "cwd-or-spelling-dependence"},
                             {"layout": lay, "entry_file": entry_rel, "keys": keys},
                             f"results differ across working directories / spellings: {sorted(results)}")
            batch.flush()

        with_tree(layout, with_home, body)


# ---------------------------------------------------------------- pure-path correspondence
PATH_ALPHABET = ["a", ".", "/", "~", "<", ">"]
SRCS = [None, "x.nix", "d/x.nix", "/r/d/x.nix", "../x.nix", "d/../x.nix", "..", ".", "/"]
# values of $HOME under which `resolved_path` is run on texts that start with `~` (nothing is read
# from the filesystem): canonical, the root, with `..` and a trailing slash, relative, doubled slash
HOMES = ["/hm/u", "/", "/a/../b/", "rel/h", "/x//y"]


def pure_correspondence(ctx, max_len):
    from nix_manipulator.expressions.path import NixPath

    reqs, expect, what = [], [], []
    texts = ["".join(t) for L in range(0, max_len + 1) for t in itertools.product(PATH_ALPHABET, repeat=L)]
    texts += ["./a/b.nix", "../../a", "//a", "///a", "a//b/", "~/a", "<a/b>", "a/./b", "/..", "./.", "ä/ö", "a b/c",
              "~/a/../b.nix", "~/.config/x.nix", "~//a", "~/~/a", "<~/a>", "~a/b", "~/./a"]
    old_home = os.environ.get("HOME")
    try:
        for s in texts:
            p = Path(s)
            parts = [x for x in p.parts if x != p.anchor]
            reqs.append(["pathops", hx(s)])
            expect.append(["ok", "t" if p.is_absolute() else "f", [hx(x) for x in parts],
                           [hx(x) for x in p.parent.parts if x != p.parent.anchor]])
            what.append(("pathlib", s, None, None))
            for hm in (HOMES if s.startswith("~") else HOMES[:1]):
                os.environ["HOME"] = hm
                home_text = os.path.expanduser("~")  # what Path.home() / expanduser() start from
                for src in (SRCS if len(s) <= max_len - 1 else SRCS[:3]):
                    try:
                        r = NixPath(path=s, source_path=None if src is None else Path(src)).resolved_path()
                        e = ["ok", "t" if r.is_absolute() else "f", [hx(x) for x in r.parts if x != r.anchor]]
                    except Exception as exc:  # noqa: BLE001
                        e = ["err", exc_class(exc)]
                    reqs.append(["resolved", hx(s), "none" if src is None else hx(src), hx(home_text)])
                    expect.append(e)
                    what.append(("resolved_path", s, src, hm))
                    if s.startswith("~/"):
                        ctx.count("pure_home_literal_requests")
    finally:
        if old_home is None:
            os.environ.pop("HOME", None)
        else:
            os.environ["HOME"] = old_home
    replies = ctx.driver.ask_many(reqs)
    ctx.corr_checked += len(reqs)
    bad = 0
    for w, ex, got in zip(what, expect, replies):
        if ex != got:
            bad += 1
            if bad <= 3:
                ctx.tie_break("correspondence", f"{w[0]} disagrees on {w[1]!r} (source_path={w[2]!r}, HOME={w[3]!r})",
                              implementation=ex, model=got)
    ctx.count("pure_path_requests", len(reqs))
    ctx.count("pure_path_disagreements", bad)


# ---------------------------------------------------------------- fixed cases (always run first)
def fixed_cases(ctx):
    """The witness of the repaired finding C17-home-literal (Lean: C17.home_literal_reads_home; before
    the repair C17.cex_home): `import ~/h.nix` must read $HOME/h.nix, not the `~` directory next to the
    importing file, from every working directory."""
    layout = {
        "dirs": ["w", "w/~", "home", "empty"],
        "files": {
            "w/a.nix": {"top": "plain", "bindings": [["h", ["imp", ["path", "~/h.nix"]]], ["v", ["lit", 5]]]},
            "w/~/h.nix": {"top": "plain", "bindings": [["v", ["lit", 1]]]},
            "home/h.nix": {"top": "plain", "bindings": [["v", ["lit", 2]]]},
        },
    }

    def body(lay, base, home, inodes):
        batch = Batch(ctx)
        for cwd_rel, entry in (("w", "a.nix"), ("", "w/a.nix"), ("empty", "$BASE/w/a.nix"), ("home", "$BASE/w/a.nix")):
            batch.add(lay, base, home, inodes, cwd_rel, entry, ["h", "v"], False)
            ctx.case({"fixed": "home-literal", "cwd": cwd_rel, "entry": entry})
        batch.flush()

    with_tree(layout, True, body)


def run(ctx: fw.Ctx):
    ctx.extra["rule"] = (
        "G-fs: random directory trees (depth <= 3 quick / 4 thorough) in real temporary directories, files with "
        "planted integers, import literals spelled ./child, ../parent, sibling, bare a/b, detours d/../, absolute, "
        "absolute with detour, climbing above the tree and back, missing / ghost-directory / directory / through-a-file "
        "targets, <angle>, ~/home, non-path arguments, parenthesised; key chains of <= 3 / 5 import hops built by "
        "construction; each chain under 3 (quick) / 4 working directories (the entry's directory, the tree root, "
        "other directories, / or /tmp) x 3 spellings of the entry (absolute, relative, ./, detour, doubled slashes; "
        "str and Path). Non-trivial = at least one import hop followed and the entry spelled relative or the "
        "working directory different from the entry's directory. Pure paths: every string <= 5 (6) over {a . / ~ < >}, "
        "those starting with ~ under 5 values of HOME (canonical, /, with .. and trailing slash, relative, doubled slash)."
    )
    ctx.trusted_base = [
        "Lean 4 kernel; axioms propext, Classical.choice, Quot.sound only",
        "translator harness/translate/gen_paths.py (symbolic execution of resolved_path and of the plumbing)",
        "correspondence harness (this file) and the driver's hex line protocol",
        "the Linux kernel's path resolution (os.stat + inode identity) as the independent observer of which file a path names",
        "SPEC definitions specTarget / specGet / specFrom / FS.locateFrom (Model/Paths.lean)",
        "CPython pathlib pure-path semantics (modelled by parsePath/parent/join/expanduser; checked by correspondence)",
    ]
    ctx.assumptions = [
        "NoSymlinks: the filesystem model has no symbolic links (lexical `.parent` vs physical `..` differ across symlinks); generated trees contain none and the temporary directory is canonicalised with realpath",
        "the working directory does not change between parse_file and the lookups (configurations, not histories)",
        "files are valid Nix whose top level is an attribute set (possibly under let / lambda / rec) or a non-set; a top-level `import` expression and directories-as-default.nix are outside the model (both fail loudly in the code)",
        "path literals without interpolation; attribute names are plain identifiers",
        "the home path is what os.path.expanduser('~') returns (HOME, set by the harness to a directory of the temporary tree for layouts with `~/` literals); `~user` is not a Nix path literal and the password database is outside the model",
    ]
    fixed_cases(ctx)
    pure_correspondence(ctx, 5 if ctx.quick else 6)
    if ctx.quick:
        explore(ctx, n_layouts=70, depth=3, max_hops=3, chains_per_layout=10, n_cwds=3)
    else:
        explore(ctx, n_layouts=500, depth=4, max_hops=5, chains_per_layout=16, n_cwds=4)
    _simplest_first(ctx)


def _simplest_first(ctx):
    """Report, per failure class, the failing input with the fewest keys / files."""
    ctx.failures.sort(key=lambda f: (len(f["input"].get("keys", ())), len(f["input"].get("layout", {}).get("files", ()))))


def search(ctx: fw.Ctx):
    """Broken tie: explore wider with the oracle (no model needed to find a failing input)."""
    explore(ctx, n_layouts=60 if ctx.quick else 400, depth=4, max_hops=5, chains_per_layout=14, n_cwds=4)
    _simplest_first(ctx)


def replay(payload: dict) -> int:
    inp = payload.get("input", {})
    if "layout" not in inp or "keys" not in inp:
        print("nothing to replay:", list(inp))
        return 0
    layout = inp["layout"]
    out = []

    def body(lay, base, home, inodes):
        cases = [(inp["cwd"], inp["entry"])] if "entry" in inp else \
            [("", "$BASE/" + inp["entry_file"]), (os.path.dirname(inp["entry_file"]), os.path.basename(inp["entry_file"]))]
        for cwd_rel, entry in cases:
            cwd_abs = cwd_rel if cwd_rel.startswith("/") else (os.path.join(base, cwd_rel) if cwd_rel else base)
            entry_abs = subst(entry, base, home)
            real = run_real(cwd_abs, entry_abs, inp["keys"], inp.get("as_path", False), home)
            want, kinds = oracle(lay, inodes, base, home, cwd_abs, entry_abs, inp["keys"])
            print(f"tree under {base}:")
            for rel in sorted(lay["files"]):
                print(f"  {rel}: {render_file(lay['files'][rel], base, home)!r}")
            print(f"cwd={cwd_abs} parse_file({entry_abs!r}){''.join('[%r]' % k for k in inp['keys'])}")
            print("  code gives       :", real)
            print("  property requires:", want, "(literals followed:", kinds, ")")
            out.append(real == want)

    with_tree(layout, bool(inp.get("home")) or "home/h.nix" in layout["files"], body)
    return 0 if all(out) else 1
