"""Input streams and property oracles (on the IMPLEMENTATION) for the edit properties."""
from __future__ import annotations

import copy

from . import editcorr as ec
from . import framework as fw
from .gen import docs
from .oracle import cstread


def build_stream(ctx: fw.Ctx, enum_stride: int, n_random: int, max_ops: int, enum_offset: int = 0):
    """Histories: a deterministic slice of the wrapper × body × operation cross product plus
    random documents with random histories. Returns HistRec list (real code already run)."""
    hists = []
    for i, (text, ops, info) in enumerate(docs.enumerate_single_ops()):
        # the slice depends on the seed; the un-wrapped documents are always taken in full, so that what a
        # change does to the bare shapes is seen whatever the seed
        if (i + enum_offset + ctx.seed) % enum_stride != 0 and info.get("wrapper") != "bare":
            continue
        hists.append(ec.run_real(text, ops, dict(info, stream="enum")))
    for text, ops, info in docs.enumerate_special():
        hists.append(ec.run_real(text, ops, dict(info, stream="special")))
    for _ in range(n_random):
        text, info = docs.gen_doc(ctx.rng)
        ops = docs.gen_ops(text, ctx.rng, ctx.rng.randint(1, max_ops))
        hists.append(ec.run_real(text, ops, dict(info, stream="random")))
    for h in hists:
        for r in h.recs:
            ctx.count("op:" + r.op[0] + ":" + r.result)
        ctx.count("doc:" + str(h.info.get("class", h.info.get("wrapper"))))
    return hists


import re as _re

_SEG = r'(?:[A-Za-z_][A-Za-z0-9_\']*|"(?:[^"\\]|\\.)*")'
_PATH_RE = _re.compile(r"@*" + _SEG + r"(?:\." + _SEG + r")*\Z", _re.DOTALL)


def path_wellformed(path: str) -> bool:
    """The NPath grammar as the properties state it (C12): optional `@` selectors, then segments
    separated by unquoted dots, each segment either bare (letters, digits, `_`, `'`, not starting
    with a digit or `'`) or quoted with `\\"` and `\\\\` escapes. Everything else is malformed."""
    return bool(_PATH_RE.match(path))


def shape_of_path(path: str) -> str:
    if path.startswith("@"):
        return "scoped"
    if '"' in path:
        return "quoted"
    if "." in path:
        return "nested"
    return "plain" if path else "empty"


# ---------------------------------------------------------------- reference semantics (attribute trees)
def split_path(path: str):
    """Independent NPath reader for well-formed paths: list of decoded names."""
    out, cur, i, q = [], [], 0, False
    quoted = False
    while i < len(path):
        c = path[i]
        if q:
            if c == "\\" and i + 1 < len(path):
                n = path[i + 1]
                cur.append({"n": "\n", "r": "\r", "t": "\t"}.get(n, n if n in '"\\' else "\\" + n))
                i += 2
                continue
            if c == '"':
                q = False
            else:
                cur.append(c)
        elif c == '"':
            q = True
            quoted = True
        elif c == ".":
            out.append("".join(cur))
            cur = []
            quoted = False
        else:
            cur.append(c)
        i += 1
    out.append("".join(cur))
    return out


def tree_get(tree, names):
    cur = tree
    for n in names:
        if not isinstance(cur, dict) or n not in cur:
            return None
        cur = cur[n]
    return cur


def spec_set(tree: dict, names: list[str], value):
    """Documented semantics of `set`: the path holds VALUE afterwards, intermediate sets are
    created; everything else keeps its value. Returns None when the path runs through a non-set."""
    t = copy.deepcopy(tree)
    cur = t
    for n in names[:-1]:
        nxt = cur.get(n)
        if nxt is None:
            nxt = cur[n] = {}
        elif not isinstance(nxt, dict):
            return None
        cur = nxt
    cur[names[-1]] = value
    return t


def spec_rm(tree: dict, names: list[str], attrpath_parents: set):
    """Documented semantics of `rm`: the path is gone; an *attrpath* parent left empty is pruned;
    explicit sets stay (even empty)."""
    t = copy.deepcopy(tree)
    chain = [t]
    cur = t
    for n in names[:-1]:
        if not isinstance(cur, dict) or n not in cur:
            return None
        cur = cur[n]
        chain.append(cur)
    if not isinstance(cur, dict) or names[-1] not in cur:
        return None
    del cur[names[-1]]
    # prune emptied attrpath parents, innermost first
    for depth in range(len(names) - 1, 0, -1):
        node = chain[depth]
        if isinstance(node, dict) and not node and tuple(names[:depth]) in attrpath_parents:
            del chain[depth - 1][names[depth - 1]]
        else:
            break
    return t


def attrpath_parents_in(binding_nodes, mode: str = "parents") -> set:
    """Paths (tuples of names) that exist in a binding sequence only as attrpath prefixes
    (`a.b = 1;` makes ('a',) an attrpath parent)."""
    out = set()
    explicit = set()

    def walk(bindings, prefix):
        for b in bindings:
            if b.type != "binding":
                continue
            ap = b.child_by_field_name("attrpath")
            names = [cstread.attr_name(a) for a in ap.named_children if a.type != "comment"]
            if any(n is None for n in names):
                continue
            for k in range(1, len(names)):
                out.add(tuple(prefix + names[:k]))
            explicit.add(tuple(prefix + names))
            val = b.child_by_field_name("expression")
            if val.type in ("attrset_expression", "rec_attrset_expression"):
                bs = [c for c in val.named_children if c.type == "binding_set"]
                walk(bs[0].named_children if bs else [], prefix + names)

    walk(binding_nodes, [])
    if mode == "prefixes":
        return out
    if mode == "mixed":
        return out & explicit
    return out - explicit


def attrpath_parents_of(text: str) -> set:
    root = cstread.ts_parse(text)
    tgt = cstread.find_target(root)
    if tgt is None:
        return set()
    bs = [c for c in tgt.named_children if c.type == "binding_set"]
    return attrpath_parents_in(bs[0].named_children if bs else [])


def attrpath_prefixes_of(text: str, mode: str = "prefixes") -> set:
    """every proper prefix of a dotted binding of the target set (`mode="mixed"`: those that are ALSO
    defined by an explicit binding, e.g. `a = { … }; a.b = 2;` — valid Nix, the definitions merge)"""
    root = cstread.ts_parse(text)
    tgt = cstread.find_target(root)
    if tgt is None:
        return set()
    bs = [c for c in tgt.named_children if c.type == "binding_set"]
    return attrpath_parents_in(bs[0].named_children if bs else [], mode)


def quoted_identifier_segment(path: str) -> bool:
    """does the path have a quoted segment whose content is a plain identifier (`a."b".c`)? The tool
    treats `"b"` and `b` as different names (open C12 finding)"""
    return bool(_re.search(r'(?:^|[.@])"[A-Za-z_][A-Za-z0-9_\']*"(?:\.|$)', path))


def let_layer_parents(text: str) -> list[set]:
    """attrpath parents of every let layer on the spine, outermost first"""
    root = cstread.ts_parse(text)
    tgt = cstread.find_target(root)
    out = []
    node = tgt
    while node is not None and node.parent is not None:
        par = node.parent
        if par.type == "let_expression" and par.child_by_field_name("body") == node:
            bs = [c for c in par.named_children if c.type == "binding_set"]
            out.append(attrpath_parents_in(bs[0].named_children if bs else []))
        node = par
    out.reverse()
    return out


def value_as_tree(value_text: str):
    root = cstread.ts_parse(value_text)
    kids = [c for c in root.named_children if c.type != "comment"]
    if len(kids) != 1 or root.has_error:
        return None
    try:
        return cstread.plain(cstread.read_value(kids[0]))
    except cstread.Duplicate:
        return None


def ident_body_tree(text: str):
    """`let … body = { … }; in body`: the attribute tree of the set the top-level name denotes"""
    root = cstread.ts_parse(text)
    kids = [c for c in root.named_children if c.type != "comment"]
    if len(kids) != 1 or kids[0].type != "let_expression":
        return None
    body = kids[0].child_by_field_name("body")
    if body is None or body.type != "variable_expression":
        return None
    bs = [c for c in kids[0].named_children if c.type == "binding_set"]
    name = body.text.decode()
    for b in (bs[0].named_children if bs else []):
        if b.type != "binding":
            continue
        ap = b.child_by_field_name("attrpath")
        dn = [cstread.attr_name(a) for a in ap.named_children if a.type != "comment"]
        if dn == [name]:
            tgt = cstread.find_target(b.child_by_field_name("expression"))
            return None if tgt is None else cstread.read_value(tgt)
    return None


def safe_tree(text: str):
    try:
        t = cstread.read_doc_tree(text)
        if t is None:
            t = ident_body_tree(text)
    except cstread.Duplicate as exc:
        return ("duplicate", str(exc))
    return None if t is None else cstread.plain(t)
