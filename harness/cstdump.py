"""Real tree-sitter CST -> `Cst` S-expression of the container fragment (lean/NimaVerif/Model/Cst.lean).

The tree is read through harness/oracle/cstread.ts_parse (own parser instance, no code of
nix_manipulator). Anything outside the fragment is refused with `OutsideFragment(why)`:

    source_code : comments, exactly one expression, comments
    expression  : variable / integer / float / "string" / path leaf, `[ … ]`, `{ … }`, `rec { … }`,
                  `( comments expr comments )`, `function comments argument` (apply_expression),
                  `with comments environment comments ; comments body` (with_expression),
                  `assert comments condition comments ; comments body` (assert_expression),
                  `expression comments . a₁.a₂.….aₙ` (select_expression without `or` default; every
                  segment an identifier or a "string" without `${…}`; whitespace only between `.` and
                  the attrpath, nothing at all between the segments and dots of the attrpath),
                  `name comments : comments body` (function_expression whose argument is ONE identifier;
                  `{ a, b }: …` and `x@{ … }: …` are refused as "function with formals"),
                  `! comments operand` / `- comments operand` (unary_expression),
                  `left comments OP comments right` (binary_expression; OP one of `//` `++` `+` `-` `*` `/`
                  `==` `!=` `<` `<=` `>` `>=` `&&` `||` `->`),
                  `if comments condition comments then comments consequence comments else comments alternative`
                  (if_expression), `expression comments ? comments a₁.a₂.….aₙ` (has_attr_expression; attrpath as for
                  a select)
    set members : bindings whose attrpath is ONE identifier or "string" (no inherit, no `${…}` name),
                  comments anywhere between the tokens of a binding, none between `rec` and `{`

The parser contract the Lean theorems rest on — `flatten(cst) == text`, every byte outside a leaf is
whitespace, and two neighbouring nodes are on the same row exactly when the gap between them has no
line break (the model derives the rows the Python reads from the gaps) — is checked here on every
sample (`dump` raises `ContractBroken` otherwise).
"""
from __future__ import annotations

from .framework import hx
from .oracle import cstread

LEAF_KINDS = {
    "variable_expression": "i",
    "integer_expression": "n",
    "float_expression": "f",
    "string_expression": "s",
    "path_expression": "p",
    "hpath_expression": "p",
    "spath_expression": "p",
}
KW_KINDS = {"with_expression": ("with", "environment"), "assert_expression": ("assert", "condition")}
BIN_OPS = {"//", "++", "+", "-", "*", "/", "==", "!=", "<", "<=", ">", ">=", "&&", "||", "->"}
WS = set(b" \t\r\n")


class OutsideFragment(Exception):
    pass


class ContractBroken(Exception):
    pass


class _Conv:
    def __init__(self, text: str):
        self.b = text.encode("utf-8")

    def t(self, s: int, e: int) -> str:
        return self.b[s:e].decode("utf-8")

    def gap(self, s: int, e: int) -> str:
        g = self.b[s:e]
        if any(c not in WS for c in g):
            raise ContractBroken(f"non-whitespace bytes between leaves: {g!r}")
        return g.decode("utf-8")

    def rows(self, prev, node, g: str):
        """The model derives `comment.start_point.row == prev.end_point.row` from the gap (no line
        break in it); check that against the positions tree-sitter reports."""
        if prev is not None and (node.start_point[0] == prev.end_point[0]) != ("\n" not in g):
            raise ContractBroken(f"row equality is not `no line break in the gap`: {g!r}")

    # ------------------------------------------------------------------ tree form
    # cst  : ("l", kind, text) | ("L", items, closeGap) | ("S", rec, recGap, items, closeGap)
    #      | ("P", items, closeGap) | ("A", cst, gc, gap, cst)
    #      | ("K", isWith, c1, g1, head, c2, g2, c3, g3, body)
    #      | ("D", cst, c1, g1, gd, [segment text])                gc : [(gap, comment text)]
    #      | ("O", cst, c1, g1, gd, [segment text], c2, g2, g3, cst)      select with `or` default
    #      | ("F1", name, c1, g1, c2, g2, body)                    name c1 g1 `:` c2 g2 body
    #      | ("U", op, c, g, operand)                              op c g operand
    #      | ("B", l, c1, g1, op, c2, g2, r)                       left c1 g1 op c2 g2 right
    #      | ("I", c1, g1, cond, c2, g2, c3, g3, thn, c4, g4, c5, g5, els)   `if` … `then` … `else` …
    #      | ("H", cst, c1, g1, c2, g2, [segment text])             expression c1 g1 `?` c2 g2 attrpath
    # item : ("c", gap, text) | ("e", gap, cst) | ("b", gap, name, c1, g1, c2, g2, cst, c3, g3)
    def expr(self, n):
        k = LEAF_KINDS.get(n.type)
        if k is not None:
            if n.type == "variable_expression" and (n.child_count != 1 or n.children[0].type != "identifier"):
                raise OutsideFragment("variable_expression shape")
            if any(c.type == "comment" for c in _walk(n)):
                raise OutsideFragment("comment inside a leaf")
            return ("l", k, self.t(n.start_byte, n.end_byte))
        if n.type == "list_expression":
            ch = n.children
            if not ch or ch[0].type != "[" or ch[-1].type != "]":
                raise OutsideFragment("list shape")
            items, pos, prev = [], ch[0].end_byte, ch[0]
            for c in ch[1:-1]:
                g = self.gap(pos, c.start_byte)
                self.rows(prev, c, g)
                if c.type == "comment":
                    items.append(("c", g, self.t(c.start_byte, c.end_byte)))
                else:
                    items.append(("e", g, self.expr(c)))
                pos, prev = c.end_byte, c
            return ("L", items, self.gap(pos, ch[-1].start_byte))
        if n.type in ("attrset_expression", "rec_attrset_expression"):
            ch = list(n.children)
            rec = n.type == "rec_attrset_expression"
            rec_gap = ""
            if rec:
                if len(ch) < 3 or ch[0].type != "rec" or ch[1].type != "{":
                    raise OutsideFragment("comment between rec and {")
                rec_gap = self.gap(ch[0].end_byte, ch[1].start_byte)
                ch = ch[1:]
            if not ch or ch[0].type != "{" or ch[-1].type != "}":
                raise OutsideFragment("set shape")
            members = []
            for c in ch[1:-1]:
                if c.type == "binding_set":
                    members.extend(c.children)
                else:
                    members.append(c)
            items, pos, prev = [], ch[0].end_byte, ch[0]
            for c in members:
                g = self.gap(pos, c.start_byte)
                self.rows(prev, c, g)
                if c.type == "comment":
                    items.append(("c", g, self.t(c.start_byte, c.end_byte)))
                elif c.type == "binding":
                    items.append(self.binding(g, c))
                else:
                    raise OutsideFragment(c.type)
                pos, prev = c.end_byte, c
            return ("S", rec, rec_gap, items, self.gap(pos, ch[-1].start_byte))
        if n.type == "parenthesized_expression":
            ch = n.children
            if len(ch) < 3 or ch[0].type != "(" or ch[-1].type != ")":
                raise OutsideFragment("parenthesis shape")
            items, pos, prev, n_expr = [], ch[0].end_byte, ch[0], 0
            for c in ch[1:-1]:
                g = self.gap(pos, c.start_byte)
                self.rows(prev, c, g)
                if c.type == "comment":
                    items.append(("c", g, self.t(c.start_byte, c.end_byte)))
                else:
                    n_expr += 1
                    items.append(("e", g, self.expr(c)))
                pos, prev = c.end_byte, c
            if n_expr != 1:
                raise OutsideFragment("parenthesis shape")
            return ("P", items, self.gap(pos, ch[-1].start_byte))
        if n.type == "apply_expression":
            ch = n.children
            fn, arg = n.child_by_field_name("function"), n.child_by_field_name("argument")
            if fn is None or arg is None or len(ch) < 2 or ch[0].id != fn.id or ch[-1].id != arg.id:
                raise OutsideFragment("apply shape")
            f = self.expr(fn)
            run, pos, prev = [], fn.end_byte, fn
            for c in ch[1:-1]:
                if c.type != "comment":
                    raise OutsideFragment("apply shape")
                g = self.gap(pos, c.start_byte)
                self.rows(prev, c, g)
                run.append((g, self.t(c.start_byte, c.end_byte)))
                pos, prev = c.end_byte, c
            g = self.gap(pos, arg.start_byte)
            self.rows(prev, arg, g)
            return ("A", f, run, g, self.expr(arg))
        if n.type in KW_KINDS:
            return self.keyword(n)
        if n.type == "select_expression":
            return self.select(n)
        if n.type == "function_expression":
            return self.lam(n)
        if n.type == "unary_expression":
            return self.unary(n)
        if n.type == "binary_expression":
            return self.binary(n)
        if n.type == "if_expression":
            return self.ite(n)
        if n.type == "has_attr_expression":
            return self.has_attr(n)
        raise OutsideFragment(n.type)

    def ite(self, n):
        """`if` c1 g1 condition c2 g2 `then` c3 g3 consequence c4 g4 `else` c5 g5 alternative"""
        shape = OutsideFragment("if shape")
        ch = n.children
        cond, thn, els = (n.child_by_field_name(f) for f in ("condition", "consequence", "alternative"))
        if cond is None or thn is None or els is None or len(ch) < 6 or ch[0].type != "if" or ch[-1].id != els.id:
            raise shape
        if self.t(ch[0].start_byte, ch[0].end_byte) != "if":
            raise shape
        # stages: 0 before the condition, 1 before `then`, 2 before the consequence, 3 before `else`, 4 before the
        # alternative
        want = [cond, "then", thn, "else", els]
        runs = [[], [], [], [], []]
        gaps = [None] * 5
        parts = [None] * 5
        stage, pos, prev = 0, ch[0].end_byte, ch[0]
        for c in ch[1:]:
            g = self.gap(pos, c.start_byte)
            self.rows(prev, c, g)
            if c.type == "comment":
                if stage > 4:
                    raise shape
                runs[stage].append((g, self.t(c.start_byte, c.end_byte)))
            elif stage <= 4 and isinstance(want[stage], str):
                if c.type != want[stage] or c.child_count != 0 or self.t(c.start_byte, c.end_byte) != want[stage]:
                    raise shape
                gaps[stage], stage = g, stage + 1
            elif stage <= 4 and c.id == want[stage].id:
                gaps[stage], parts[stage], stage = g, self.expr(c), stage + 1
            else:
                raise shape
            pos, prev = c.end_byte, c
        if stage != 5:
            raise shape
        return ("I", runs[0], gaps[0], parts[0], runs[1], gaps[1], runs[2], gaps[2], parts[2], runs[3], gaps[3],
                runs[4], gaps[4], parts[4])

    def has_attr(self, n):
        """expression c1 g1 `?` c2 g2 a₁ `.` a₂ …"""
        shape = OutsideFragment("has-attr shape")
        ch = n.children
        base, ap = n.child_by_field_name("expression"), n.child_by_field_name("attrpath")
        if (base is None or ap is None or len(ch) < 3 or ch[0].id != base.id or ch[-1].id != ap.id
                or ap.type != "attrpath"):
            raise shape
        e = self.expr(base)
        runs = [[], []]
        gaps = [None, None]
        stage, pos, prev = 0, base.end_byte, base
        for c in ch[1:]:
            g = self.gap(pos, c.start_byte)
            self.rows(prev, c, g)
            if c.type == "comment":
                if stage > 1:
                    raise shape
                runs[stage].append((g, self.t(c.start_byte, c.end_byte)))
            elif stage == 0 and c.type == "?":
                if c.child_count != 0 or self.t(c.start_byte, c.end_byte) != "?":
                    raise shape
                gaps[0], stage = g, 1
            elif stage == 1 and c.id == ap.id:
                gaps[1], stage = g, 2
            else:
                raise shape
            pos, prev = c.end_byte, c
        if stage != 2:
            raise shape
        return ("H", e, runs[0], gaps[0], runs[1], gaps[1], self.attrpath(ap))

    def binary(self, n):
        """left c1 g1 operator c2 g2 right — `binary_expression`"""
        shape = OutsideFragment("binary shape")
        ch = n.children
        left, op, right = (n.child_by_field_name(f) for f in ("left", "operator", "right"))
        if (left is None or op is None or right is None or len(ch) < 3 or ch[0].id != left.id
                or ch[-1].id != right.id or left.type == "comment" or right.type == "comment"):
            raise shape
        if op.child_count != 0 or op.is_named or op.type not in BIN_OPS or self.t(op.start_byte, op.end_byte) != op.type:
            raise OutsideFragment("binary operator")
        lhs = self.expr(left)
        runs = [[], []]  # comments before the operator, before the right operand
        gaps = [None, None]
        r = None
        stage, pos, prev = 0, left.end_byte, left
        for c in ch[1:]:
            g = self.gap(pos, c.start_byte)
            self.rows(prev, c, g)
            if c.type == "comment":
                if stage > 1:
                    raise shape
                runs[stage].append((g, self.t(c.start_byte, c.end_byte)))
            elif stage == 0 and c.id == op.id:
                gaps[0], stage = g, 1
            elif stage == 1 and c.id == right.id:
                gaps[1], r, stage = g, self.expr(c), 2
            else:
                raise shape
            pos, prev = c.end_byte, c
        if stage != 2:
            raise shape
        return ("B", lhs, runs[0], gaps[0], op.type, runs[1], gaps[1], r)

    def unary(self, n):
        """operator c g operand — `unary_expression`"""
        shape = OutsideFragment("unary shape")
        ch = n.children
        if len(ch) < 2 or ch[0].type not in ("!", "-") or ch[0].child_count != 0:
            raise shape
        op, operand = ch[0], ch[-1]
        if operand.type == "comment":
            raise shape
        run, pos, prev = [], op.end_byte, op
        for c in ch[1:-1]:
            if c.type != "comment":
                raise shape
            g = self.gap(pos, c.start_byte)
            self.rows(prev, c, g)
            run.append((g, self.t(c.start_byte, c.end_byte)))
            pos, prev = c.end_byte, c
        g = self.gap(pos, operand.start_byte)
        self.rows(prev, operand, g)
        return ("U", self.t(op.start_byte, op.end_byte), run, g, self.expr(operand))

    def lam(self, n):
        """name c1 g1 `:` c2 g2 body — a function whose argument is one identifier"""
        shape = OutsideFragment("function shape")
        ch = n.children
        name, body = n.child_by_field_name("universal"), n.child_by_field_name("body")
        if n.child_by_field_name("formals") is not None or any(c.type in ("formals", "@") for c in ch):
            raise OutsideFragment("function with formals")
        if (name is None or body is None or len(ch) < 3 or ch[0].id != name.id or ch[-1].id != body.id
                or name.type != "identifier" or name.child_count != 0):
            raise shape
        runs = [[], []]  # comments before `:`, before the body
        gaps = [None, None]
        b = None
        stage, pos, prev = 0, name.end_byte, name
        for c in ch[1:]:
            g = self.gap(pos, c.start_byte)
            self.rows(prev, c, g)
            if c.type == "comment":
                if stage > 1:
                    raise shape
                runs[stage].append((g, self.t(c.start_byte, c.end_byte)))
            elif stage == 0 and c.type == ":":
                if self.t(c.start_byte, c.end_byte) != ":":
                    raise shape
                gaps[0], stage = g, 1
            elif stage == 1 and c.id == body.id:
                gaps[1], b, stage = g, self.expr(c), 2
            else:
                raise shape
            pos, prev = c.end_byte, c
        if stage != 2:
            raise shape
        return ("F1", self.t(name.start_byte, name.end_byte), runs[0], gaps[0], runs[1], gaps[1], b)

    def select(self, n):
        """expression c1 g1 `.` gd a₁ `.` a₂ … `.` aₙ [c2 g2 `or` g3 default]"""
        ch = n.children
        base, ap = n.child_by_field_name("expression"), n.child_by_field_name("attrpath")
        dflt = n.child_by_field_name("default")
        if base is None or ap is None or len(ch) < 3 or ch[0].id != base.id or ap.type != "attrpath":
            raise OutsideFragment("select shape")
        e = self.expr(base)
        run, pos, prev, dot = [], base.end_byte, base, None
        k = None
        for k, c in enumerate(ch[1:], start=1):
            if c.type == "comment":
                if dot is not None:
                    raise OutsideFragment("select shape")   # comment between `.` and the attrpath
                g = self.gap(pos, c.start_byte)
                self.rows(prev, c, g)
                run.append((g, self.t(c.start_byte, c.end_byte)))
                pos, prev = c.end_byte, c
            elif c.type == "." and dot is None:
                g1 = self.gap(pos, c.start_byte)
                self.rows(prev, c, g1)
                if self.t(c.start_byte, c.end_byte) != ".":
                    raise OutsideFragment("select shape")
                dot, pos, prev = c, c.end_byte, c
            elif dot is not None and c.id == ap.id:
                gd = self.gap(pos, c.start_byte)
                self.rows(prev, c, gd)
                break
            else:
                raise OutsideFragment("select shape")
        else:
            raise OutsideFragment("select shape")
        attrs = self.attrpath(ap)
        rest = ch[k + 1:]
        if dflt is None:
            if rest:
                raise OutsideFragment("select shape")
            return ("D", e, run, g1, gd, attrs)
        # c2 g2 `or` g3 default
        run2, pos, prev, orn = [], ap.end_byte, ap, None
        for j, c in enumerate(rest):
            if c.type == "comment":
                if orn is not None:
                    raise OutsideFragment("select shape")   # comment between `or` and the default
                g = self.gap(pos, c.start_byte)
                self.rows(prev, c, g)
                run2.append((g, self.t(c.start_byte, c.end_byte)))
                pos, prev = c.end_byte, c
            elif c.type == "or" and orn is None:
                g2 = self.gap(pos, c.start_byte)
                self.rows(prev, c, g2)
                if self.t(c.start_byte, c.end_byte) != "or":
                    raise OutsideFragment("select shape")
                orn, pos, prev = c, c.end_byte, c
            elif orn is not None and c.id == dflt.id and j == len(rest) - 1:
                g3 = self.gap(pos, c.start_byte)
                self.rows(prev, c, g3)
                return ("O", e, run, g1, gd, attrs, run2, g2, g3, self.expr(c))
            else:
                raise OutsideFragment("select shape")
        raise OutsideFragment("select shape")

    def attrpath(self, ap):
        """segments of the attrpath of a select: `a₁.a₂.….aₙ` with nothing between segments and dots"""
        shape = OutsideFragment("select attrpath shape")
        ch = ap.children
        if len(ch) % 2 != 1:
            raise shape
        segs, pos = [], ap.start_byte
        for i, c in enumerate(ch):
            if c.start_byte != pos:
                raise shape   # whitespace (or a comment) inside the attrpath
            if i % 2 == 1:
                if c.type != "." or c.end_byte - c.start_byte != 1:
                    raise shape
            elif c.type == "identifier":
                if c.child_count != 0:
                    raise shape
                segs.append(self.t(c.start_byte, c.end_byte))
            elif c.type == "string_expression":
                if any(x.type in ("interpolation", "comment") for x in _walk(c)):
                    raise shape
                segs.append(self.t(c.start_byte, c.end_byte))
            else:
                raise shape   # `${…}` segment, comment
            pos = c.end_byte
        if pos != ap.end_byte or not segs:
            raise shape
        return segs

    def keyword(self, n):
        """`with` c1 g1 environment c2 g2 `;` c3 g3 body  /  `assert` c1 g1 condition c2 g2 `;` c3 g3 body"""
        word, head_field = KW_KINDS[n.type]
        shape = OutsideFragment(word + " shape")
        ch = n.children
        head, body = n.child_by_field_name(head_field), n.child_by_field_name("body")
        if head is None or body is None or len(ch) < 4 or ch[0].type != word or ch[-1].id != body.id:
            raise shape
        if self.t(ch[0].start_byte, ch[0].end_byte) != word:
            raise shape
        runs = [[], [], []]  # comments before the head, before `;`, before the body
        gaps = [None, None, None]
        parts = [None, None]
        stage, pos, prev = 0, ch[0].end_byte, ch[0]
        for c in ch[1:]:
            g = self.gap(pos, c.start_byte)
            self.rows(prev, c, g)
            if c.type == "comment":
                if stage > 2:
                    raise shape
                runs[stage].append((g, self.t(c.start_byte, c.end_byte)))
            elif stage == 0 and c.id == head.id:
                gaps[0], parts[0], stage = g, self.expr(c), 1
            elif stage == 1 and c.type == ";":
                gaps[1], stage = g, 2
            elif stage == 2 and c.id == body.id:
                gaps[2], parts[1], stage = g, self.expr(c), 3
            else:
                raise shape
            pos, prev = c.end_byte, c
        if stage != 3:
            raise shape
        return ("K", word == "with", runs[0], gaps[0], parts[0], runs[1], gaps[1], runs[2], gaps[2], parts[1])

    def binding(self, g, n):
        ch = n.children
        if len(ch) < 4 or ch[0].type != "attrpath" or ch[-1].type != ";":
            raise OutsideFragment("binding shape")
        ap = ch[0]
        if ap.child_count != 1 or ap.children[0].type not in ("identifier", "string_expression"):
            raise OutsideFragment("attrpath with several segments / dynamic name")
        name = self.t(ap.start_byte, ap.end_byte)
        runs = [[], [], []]  # comments before `=`, before the value, before `;`
        gaps = [None, None, None]
        stage, pos, value, prev = 0, ap.end_byte, None, ap
        for c in ch[1:]:
            g2 = self.gap(pos, c.start_byte)
            self.rows(prev, c, g2)
            if c.type == "comment":
                if stage > 2:
                    raise OutsideFragment("binding shape")
                runs[stage].append((g2, self.t(c.start_byte, c.end_byte)))
            elif c.type == "=" and stage == 0:
                gaps[0] = g2
                stage = 1
            elif c.type == ";" and stage == 2:
                gaps[2] = g2
                stage = 3
            elif stage == 1 and value is None:
                gaps[1] = g2
                value = self.expr(c)
                stage = 2
            else:
                raise OutsideFragment("binding shape")
            pos, prev = c.end_byte, c
        if stage != 3 or value is None:
            raise OutsideFragment("binding shape")
        return ("b", g, name, runs[0], gaps[0], runs[1], gaps[1], value, runs[2], gaps[2])

    def file(self, root):
        items, pos, n_expr, prev = [], 0, 0, None
        for c in root.children:
            g = self.gap(pos, c.start_byte)
            self.rows(prev, c, g)
            if c.type == "comment":
                items.append(("c", g, self.t(c.start_byte, c.end_byte)))
            else:
                n_expr += 1
                items.append(("e", g, self.expr(c)))
            pos, prev = c.end_byte, c
        if n_expr != 1:
            raise OutsideFragment("no top-level expression")
        return ("F", items, self.gap(pos, len(self.b)))


def _walk(n):
    st = list(n.children)
    while st:
        x = st.pop()
        yield x
        st.extend(x.children)


# ---------------------------------------------------------------------- flatten (the contract) and S-expression
def flatten(x) -> str:
    k = x[0]
    if k == "l":
        return x[2]
    if k == "L":
        return "[" + "".join(flatten(i) for i in x[1]) + x[2] + "]"
    if k == "S":
        return ("rec" + x[2] if x[1] else "") + "{" + "".join(flatten(i) for i in x[3]) + x[4] + "}"
    if k == "P":
        return "(" + "".join(flatten(i) for i in x[1]) + x[2] + ")"
    if k == "A":
        return flatten(x[1]) + "".join(g + c for g, c in x[2]) + x[3] + flatten(x[4])
    if k == "K":
        gc = lambda r: "".join(g + c for g, c in r)  # noqa: E731
        return (("with" if x[1] else "assert") + gc(x[2]) + x[3] + flatten(x[4]) + gc(x[5]) + x[6] + ";"
                + gc(x[7]) + x[8] + flatten(x[9]))
    if k == "D":
        return flatten(x[1]) + "".join(g + c for g, c in x[2]) + x[3] + "." + x[4] + ".".join(x[5])
    if k == "O":
        return (flatten(x[1]) + "".join(g + c for g, c in x[2]) + x[3] + "." + x[4] + ".".join(x[5])
                + "".join(g + c for g, c in x[6]) + x[7] + "or" + x[8] + flatten(x[9]))
    if k == "F1":
        gc = lambda r: "".join(g + c for g, c in r)  # noqa: E731
        return x[1] + gc(x[2]) + x[3] + ":" + gc(x[4]) + x[5] + flatten(x[6])
    if k == "U":
        return x[1] + "".join(g + c for g, c in x[2]) + x[3] + flatten(x[4])
    if k == "B":
        gc = lambda r: "".join(g + c for g, c in r)  # noqa: E731
        return flatten(x[1]) + gc(x[2]) + x[3] + x[4] + gc(x[5]) + x[6] + flatten(x[7])
    if k == "I":
        gc = lambda r: "".join(g + c for g, c in r)  # noqa: E731
        return ("if" + gc(x[1]) + x[2] + flatten(x[3]) + gc(x[4]) + x[5] + "then" + gc(x[6]) + x[7] + flatten(x[8])
                + gc(x[9]) + x[10] + "else" + gc(x[11]) + x[12] + flatten(x[13]))
    if k == "H":
        gc = lambda r: "".join(g + c for g, c in r)  # noqa: E731
        return flatten(x[1]) + gc(x[2]) + x[3] + "?" + gc(x[4]) + x[5] + ".".join(x[6])
    if k == "c":
        return x[1] + x[2]
    if k == "e":
        return x[1] + flatten(x[2])
    if k == "b":
        gc = lambda r: "".join(g + c for g, c in r)  # noqa: E731
        return x[1] + x[2] + gc(x[3]) + x[4] + "=" + gc(x[5]) + x[6] + flatten(x[7]) + gc(x[8]) + x[9] + ";"
    if k == "F":
        return "".join(flatten(i) for i in x[1]) + x[2]
    raise AssertionError(k)


def sexp(x):
    k = x[0]
    if k == "l":
        return ["l", x[1], hx(x[2])]
    if k == "L":
        return ["L", [sexp(i) for i in x[1]], hx(x[2])]
    if k == "S":
        return ["S", "t" if x[1] else "f", hx(x[2]), [sexp(i) for i in x[3]], hx(x[4])]
    if k == "P":
        return ["P", [sexp(i) for i in x[1]], hx(x[2])]
    if k == "A":
        return ["A", sexp(x[1]), [[hx(g), hx(c)] for g, c in x[2]], hx(x[3]), sexp(x[4])]
    if k == "K":
        gc = lambda r: [[hx(g), hx(c)] for g, c in r]  # noqa: E731
        return ["K", "w" if x[1] else "a", gc(x[2]), hx(x[3]), sexp(x[4]), gc(x[5]), hx(x[6]), gc(x[7]), hx(x[8]),
                sexp(x[9])]
    if k == "D":
        return ["D", sexp(x[1]), [[hx(g), hx(c)] for g, c in x[2]], hx(x[3]), hx(x[4]), [hx(a) for a in x[5]]]
    if k == "O":
        return ["O", sexp(x[1]), [[hx(g), hx(c)] for g, c in x[2]], hx(x[3]), hx(x[4]), [hx(a) for a in x[5]],
                [[hx(g), hx(c)] for g, c in x[6]], hx(x[7]), hx(x[8]), sexp(x[9])]
    if k == "F1":
        gc = lambda r: [[hx(g), hx(c)] for g, c in r]  # noqa: E731
        return ["F1", hx(x[1]), gc(x[2]), hx(x[3]), gc(x[4]), hx(x[5]), sexp(x[6])]
    if k == "U":
        return ["U", hx(x[1]), [[hx(g), hx(c)] for g, c in x[2]], hx(x[3]), sexp(x[4])]
    if k == "B":
        gc = lambda r: [[hx(g), hx(c)] for g, c in r]  # noqa: E731
        return ["B", sexp(x[1]), gc(x[2]), hx(x[3]), hx(x[4]), gc(x[5]), hx(x[6]), sexp(x[7])]
    if k == "I":
        gc = lambda r: [[hx(g), hx(c)] for g, c in r]  # noqa: E731
        return ["I", gc(x[1]), hx(x[2]), sexp(x[3]), gc(x[4]), hx(x[5]), gc(x[6]), hx(x[7]), sexp(x[8]), gc(x[9]),
                hx(x[10]), gc(x[11]), hx(x[12]), sexp(x[13])]
    if k == "H":
        gc = lambda r: [[hx(g), hx(c)] for g, c in r]  # noqa: E731
        return ["H", sexp(x[1]), gc(x[2]), hx(x[3]), gc(x[4]), hx(x[5]), [hx(a) for a in x[6]]]
    if k == "c":
        return ["c", hx(x[1]), hx(x[2])]
    if k == "e":
        return ["e", hx(x[1]), sexp(x[2])]
    if k == "b":
        gc = lambda r: [[hx(g), hx(c)] for g, c in r]  # noqa: E731
        return ["b", hx(x[1]), hx(x[2]), gc(x[3]), hx(x[4]), gc(x[5]), hx(x[6]), sexp(x[7]), gc(x[8]), hx(x[9])]
    if k == "F":
        return ["F", [sexp(i) for i in x[1]], hx(x[2])]
    raise AssertionError(k)


def code_tokens(x) -> list[str]:
    """code tokens of the tree form, comments left out (the model's `File.codeTokens`)"""
    k = x[0]
    if k == "l":
        return [x[2]]
    if k == "L":
        return ["["] + [t for i in x[1] for t in code_tokens(i)] + ["]"]
    if k == "S":
        return (["rec"] if x[1] else []) + ["{"] + [t for i in x[3] for t in code_tokens(i)] + ["}"]
    if k == "P":
        return ["("] + [t for i in x[1] for t in code_tokens(i)] + [")"]
    if k == "A":
        return code_tokens(x[1]) + code_tokens(x[4])
    if k == "K":
        return ["with" if x[1] else "assert"] + code_tokens(x[4]) + [";"] + code_tokens(x[9])
    if k == "D":
        return code_tokens(x[1]) + [t for a in x[5] for t in (".", a)]
    if k == "O":
        return code_tokens(x[1]) + [t for a in x[5] for t in (".", a)] + ["or"] + code_tokens(x[9])
    if k == "F1":
        return [x[1], ":"] + code_tokens(x[6])
    if k == "U":
        return [x[1]] + code_tokens(x[4])
    if k == "B":
        return code_tokens(x[1]) + [x[4]] + code_tokens(x[7])
    if k == "I":
        return ["if"] + code_tokens(x[3]) + ["then"] + code_tokens(x[8]) + ["else"] + code_tokens(x[13])
    if k == "H":
        return code_tokens(x[1]) + ["?"] + [t for i, a in enumerate(x[6]) for t in ((".", a) if i else (a,))]
    if k == "c":
        return []
    if k == "e":
        return code_tokens(x[2])
    if k == "b":
        return [x[2], "="] + code_tokens(x[7]) + [";"]
    if k == "F":
        return [t for i in x[1] for t in code_tokens(i)]
    raise AssertionError(k)


def dump(text: str):
    """tree form of `text`; raises OutsideFragment / ContractBroken"""
    root = cstread.ts_parse(text)
    if root.has_error or cstread.has_missing(root):
        raise OutsideFragment("syntax error")
    if root.type != "source_code":
        raise OutsideFragment(root.type)
    tree = _Conv(text).file(root)
    if flatten(tree) != text:
        raise ContractBroken(f"flatten(cst) != text for {text!r}")
    return tree


def request(text: str):
    """driver request `(roundtrip <cst>)` for a fragment program"""
    return ["roundtrip", sexp(dump(text))]
