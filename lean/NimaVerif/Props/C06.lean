import NimaVerif.Lemmas.Trivia
/-! # C06 — trivia-algebra theorems (being proved; see Lemmas/Trivia.lean). -/
namespace Nima.C06
theorem formatTrivia_nil (i : Nat) : formatTrivia [] i = [] := rfl
end Nima.C06
