/-
L9 (C20): rebuild-call multiplicities and the cost recurrence.

`Skel` is the skeleton of an expression tree: a class tag and the children by field (a field may
hold several children: list items, bindings, comments). A multiplicity table `m K f` says how often
ONE render of a `K` object renders (an alias or copy of) each child in field `f` — the maximum over
control-flow paths, extracted from the Python AST by `harness/translate/gen_multiplicity.py`.
`calls m e` is then (an upper bound for) the number of `rebuild` invocations when `e` is rendered:

    calls m (node K cs) = 1 + Σ_{(f, c) ∈ cs} m K f * calls m c

Import-free (core Lean only): used by the driver.
-/
namespace Nima.Cost

inductive Skel where
  | node (cls : String) (children : List (String × Skel))
deriving Repr, Inhabited

/-- a table row: (class, field path, multiplicity) -/
abbrev Table := List (String × String × Nat)

/-- multiplicity of `(k, f)` in a table; an edge that is rendered at all is rendered once -/
def mult (t : Table) (k f : String) : Nat :=
  match t.find? (fun e => e.1 == k && e.2.1 == f) with
  | some e => e.2.2
  | none => 1

mutual
  def calls (m : String → String → Nat) : Skel → Nat
    | .node k cs => 1 + callsL m k cs
  def callsL (m : String → String → Nat) (k : String) : List (String × Skel) → Nat
    | [] => 0
    | (f, c) :: rest => m k f * calls m c + callsL m k rest
end

mutual
  def size : Skel → Nat
    | .node _ cs => 1 + sizeL cs
  def sizeL : List (String × Skel) → Nat
    | [] => 0
    | (_, c) :: rest => size c + sizeL rest
end

mutual
  /-- every edge `(class of parent, field)` of the skeleton satisfies `p` -/
  def allEdges (p : String → String → Bool) : Skel → Bool
    | .node k cs => allEdgesL p k cs
  def allEdgesL (p : String → String → Bool) (k : String) : List (String × Skel) → Bool
    | [] => true
    | (f, c) :: rest => p k f && allEdges p c && allEdgesL p k rest
end

mutual
  /-- the largest number of edges with multiplicity ≥ 2 on a path from the root to a leaf -/
  def ddepth (m : String → String → Nat) : Skel → Nat
    | .node k cs => ddepthL m k cs
  def ddepthL (m : String → String → Nat) (k : String) : List (String × Skel) → Nat
    | [] => 0
    | (f, c) :: rest => max ((if 2 ≤ m k f then 1 else 0) + ddepth m c) (ddepthL m k rest)
end

def leaf (k : String) : Skel := .node k []

/-- wrap `e` along a chain of edges, outermost first: `wrap [(K₁,f₁),(K₂,f₂)] e = K₁{f₁: K₂{f₂: e}}` -/
def wrap : List (String × String) → Skel → Skel
  | [], e => e
  | (k, f) :: rest, e => .node k [(f, wrap rest e)]

/-- `n`-fold nesting of a cycle of edges around `e` (curried lambdas: `[(FunctionDefinition, output)]`;
    right-nested parenthesised operators: `[(BinaryExpression, right), (Parenthesis, value)]`) -/
def nest (path : List (String × String)) : Nat → Skel → Skel
  | 0, e => e
  | n + 1, e => wrap path (nest path n e)

/-- product of the multiplicities along a chain of edges -/
def pathMult (m : String → String → Nat) : List (String × String) → Nat
  | [] => 1
  | (k, f) :: rest => m k f * pathMult m rest

/-- rows of a table with multiplicity ≥ 2, as (class, field) -/
def doubled (t : Table) : List (String × String) :=
  (t.filter (fun e => 2 ≤ e.2.2)).map (fun e => (e.1, e.2.1))

/-! ## The doubled entries of the unchanged tree (hand-written; tied to the generated table by
`Props/C20.lean: tie_doubled_known`). `recursive`: the field can hold an arbitrary expression, so the
entry compounds with nesting depth. -/

structure Doubled where
  cls : String
  field : String
  recursive : Bool
deriving Repr, DecidableEq

def todayDoubled : List Doubled := [
  -- findings: each has a depth family in known_findings.json that shows 2ⁿ on the real code
  ⟨"FunctionDefinition", "output", true⟩,      -- _render_output: inline preview, then the real render
  ⟨"WithStatement", "body", true⟩,             -- rebuild: inline body, then multi-line body
  ⟨"BinaryExpression", "right", true⟩,         -- rebuild: right operand, then _resolve_right_operand again
  ⟨"Inherit", "from_expression", true⟩,        -- rebuild: source preview, then render_inherit_source
  ⟨"Assertion", "expression", true⟩,           -- rebuild: condition inline, then on its own line
  ⟨"Binding", "value", true⟩,                  -- render_value: NixList.simple_inline_preview, then rebuild
  -- the same path of Binding.rebuild for raw Python values (coerce_expression makes the object):
  -- not reachable from parse (from_cst always stores an expression)
  ⟨"Binding", "@new:NixList", true⟩,
  ⟨"Binding", "@new:Primitive", false⟩,
  ⟨"Binding", "@new:NullPrimitive", false⟩,
  ⟨"Binding", "@new:FloatExpression", false⟩,
  -- comments between `{` and `}` of empty formals: rendered for the inline attempt and again by
  -- format_trivia; comments have no children, so this costs a constant factor only
  ⟨"FunctionDefinition", "argument_set_inner_trivia", false⟩
]

def todayTable : Table := todayDoubled.map (fun d => (d.cls, d.field, 2))

/-- today's multiplicities: 2 on the doubled entries, 1 elsewhere -/
def mToday : String → String → Nat := mult todayTable

end Nima.Cost
