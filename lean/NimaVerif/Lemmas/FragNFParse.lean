import NimaVerif.Lemmas.FragNF
/-! The layout invariants (`Expr.nfInv`) of what `fromCst` builds, and the spacing normal form of
the whole round trip. Core Lean only. -/
namespace Nima.Frag
open Nima

/-! ### the parse side: layout invariants -/

theorem alt_append_single {ts : List Trivia} (h : Alt ts) (t : Trivia)
    (hc : closedT ts ∨ t.isLayout = false) : Alt (ts ++ [t]) := by
  match ts, h with
  | [], _ => trivial
  | [x], _ =>
    refine ⟨fun hh => ?_, trivial⟩
    rcases hc with (h0 | ⟨c, hl⟩) | hc
    · cases h0
    · simp at hl; subst hl; cases hh.1
    · rw [hc] at hh; cases hh.2
  | x :: y :: r, h =>
    have ih := alt_append_single (ts := y :: r) h.2 t (by
      rcases hc with (h0 | ⟨c, hl⟩) | hc
      · cases h0
      · exact Or.inl (Or.inr ⟨c, by rw [List.getLast?_cons_of_ne_nil (by simp)] at hl; exact hl⟩)
      · exact Or.inr hc)
    exact ⟨h.1, ih⟩

theorem alt_append_closed : ∀ {a b : List Trivia}, Alt a → closedT a → Alt b → Alt (a ++ b)
  | a, [], ha, _, _ => by simpa using ha
  | a, t :: b, ha, hc, hb => by
    have h1 : Alt (a ++ [t]) := alt_append_single ha t (Or.inl hc)
    have : a ++ t :: b = (a ++ [t]) ++ b := by simp
    rw [this]
    -- generalise: appending to a list whose last element is fixed
    clear this
    induction a with
    | nil => simpa using hb
    | cons x a ih =>
      cases a with
      | nil =>
        simp only [List.cons_append, List.nil_append] at h1 ⊢
        exact ⟨h1.1, hb⟩
      | cons y r =>
        simp only [List.cons_append] at h1 ⊢
        refine ⟨h1.1, ?_⟩
        have hc' : closedT (y :: r) := by
          rcases hc with h0 | ⟨c, hl⟩
          · cases h0
          · exact Or.inr ⟨c, by rw [List.getLast?_cons_of_ne_nil (by simp)] at hl; exact hl⟩
        exact ih (alt_tail ha) hc' h1.2

theorem closedT_append_comment (ts : List Trivia) (c : Comment) : closedT (ts ++ [.comment c]) :=
  Or.inr ⟨c, by simp⟩

theorem closedT_nil : closedT [] := Or.inl rfl

theorem alt_single (t : Trivia) : Alt [t] := trivial

theorem appendGapTriviaOff_cases (ts : List Trivia) (g : Text) (b : Bool) :
    appendGapTriviaOff ts g b = ts ∨ ∃ t, t.isLayout = true ∧ appendGapTriviaOff ts g b = ts ++ [t] := by
  unfold appendGapTriviaOff; split
  · exact Or.inl rfl
  · split
    · exact Or.inr ⟨_, rfl, rfl⟩
    · split
      · exact Or.inr ⟨_, rfl, rfl⟩
      · exact Or.inl rfl

theorem alt_appendGap {ts : List Trivia} (h : Alt ts) (hc : closedT ts) (g : Text) (b : Bool) :
    Alt (appendGapTriviaOff ts g b) := by
  rcases appendGapTriviaOff_cases ts g b with e | ⟨t, _, e⟩ <;> rw [e]
  · exact h
  · exact alt_append_single h t (Or.inl hc)

theorem appendGap_noNL (ts : List Trivia) {g : Text} (h : containsNL g = false) (b : Bool) :
    appendGapTriviaOff ts g b = ts := by
  unfold appendGapTriviaOff; simp [h]

/-- comments of a binding: the result is alternating and closed when the start is -/
theorem gcTrivia_alt : ∀ (cs : GC) (acc : List Trivia), Alt acc → closedT acc →
    Alt (gcTrivia acc cs) ∧ closedT (gcTrivia acc cs)
  | [], acc, ha, hc => ⟨ha, hc⟩
  | p :: rest, acc, ha, hc => by
    rw [gcTrivia]
    exact gcTrivia_alt rest _ (alt_append_single (alt_appendGap ha hc _ _) _ (Or.inr rfl)) (closedT_append_comment _ _)

theorem gcTrivia_ne_nil_hasCmt : ∀ (cs : GC) (acc : List Trivia), cs ≠ [] →
    (gcTrivia acc cs).any Trivia.isComment = true
  | [], _, h => absurd rfl h
  | p :: rest, acc, _ => by
    rw [gcTrivia]
    cases rest with
    | nil => simp [gcTrivia, Trivia.isComment]
    | cons q r => exact gcTrivia_ne_nil_hasCmt (q :: r) _ (by simp)

theorem gcTrivia_any_mono : ∀ (cs : GC) (acc : List Trivia), acc.any Trivia.isComment = true →
    (gcTrivia acc cs).any Trivia.isComment = true
  | [], _, h => h
  | p :: rest, acc, h => by
    rw [gcTrivia]
    apply gcTrivia_any_mono rest
    rw [List.any_append]
    rcases appendGapTriviaOff_cases acc p.1 true with e | ⟨t, _, e⟩ <;> rw [e]
    · simp [h]
    · simp [h]

theorem effAfter_setBefore (e : Expr) (b : List Trivia) (na : Bool) : (e.setBefore b).effAfter na = e.effAfter na := by
  cases e <;> rfl

theorem effAfter_addAfter (e : Expr) (ts : List Trivia) : (e.addAfter ts).effAfter false = e.effAfter false ++ ts := by
  cases e <;> simp [Expr.addAfter, Expr.setAfter, Expr.after, Expr.effAfter]

theorem nfInv_setBefore {e : Expr} (h : e.nfInv) {b : List Trivia} (hb : Alt b) : (e.setBefore b).nfInv := by
  cases e with
  | leaf k t b' a => exact ⟨h.1, hb, h.2.2⟩
  | list v m inn b' a => exact ⟨h.1, h.2.1, hb, h.2.2.2⟩
  | set v m r inn b' a => exact ⟨h.1, h.2.1, hb, h.2.2.2⟩
  | binding n v g b' a => exact ⟨h.1, h.2.1, h.2.2.1, hb, h.2.2.2.2⟩
  | paren v lg tg lb tb b' a => exact ⟨h.1, h.2.1, h.2.2.1, hb, h.2.2.2.2⟩
  | app n x g fa b' a => exact ⟨h.1, h.2.1, h.2.2.1, h.2.2.2.1, hb, h.2.2.2.2.2⟩
  | wth env bd c g s b' a => obtain ⟨h1, h2, h3, h4, _, h6⟩ := h; exact ⟨h1, h2, h3, h4, hb, h6⟩
  | asrt => exact h.elim
  | sel e ats g ab b' a => obtain ⟨h1, h2, h3, _, h5⟩ := h; exact ⟨h1, h2, h3, hb, h5⟩
  | selOr e ats g ab d dg db b' a => obtain ⟨h1, h2, h3, h4, h5, h6, _, h8⟩ := h; exact ⟨h1, h2, h3, h4, h5, h6, hb, h8⟩
  | lam n bcc g k body b' a => obtain ⟨h1, h2, h3, h4, h5, _, h7⟩ := h; exact ⟨h1, h2, h3, h4, h5, hb, h7⟩
  | un op e g bt b' a => obtain ⟨h1, h2, h3, h4, _, h6⟩ := h; exact ⟨h1, h2, h3, h4, hb, h6⟩
  | bin op l r x y b' a => obtain ⟨h1, h2, h3, h4, h5, _, h7⟩ := h; exact ⟨h1, h2, h3, h4, h5, hb, h7⟩
  | ite c t e cg aic aig btc btg atc tg bec beg aec eg b' a =>
    obtain ⟨h1, h2, h3, h4, h5, h6, h7, h8, h9, h10, h11, h12, _, h14⟩ := h
    exact ⟨h1, h2, h3, h4, h5, h6, h7, h8, h9, h10, h11, h12, hb, h14⟩
  | has e ats lg rg bq aq b' a => obtain ⟨h1, h2, h3, h4, h5, _, h7⟩ := h; exact ⟨h1, h2, h3, h4, h5, hb, h7⟩

theorem nfInv_addAfter {e : Expr} (h : e.nfInv) (hc : closedT (e.effAfter false)) {ts : List Trivia} (hts : Alt ts) :
    (e.addAfter ts).nfInv := by
  cases e with
  | leaf k t b a => exact ⟨h.1, h.2.1, alt_append_closed h.2.2 hc hts⟩
  | list v m inn b a => exact ⟨h.1, h.2.1, h.2.2.1, alt_append_closed h.2.2.2.1 hc hts, h.2.2.2.2⟩
  | set v m r inn b a => exact ⟨h.1, h.2.1, h.2.2.1, alt_append_closed h.2.2.2.1 hc hts, h.2.2.2.2⟩
  | binding n v g b a =>
    refine ⟨h.1, h.2.1, h.2.2.1, h.2.2.2.1, ?_, h.2.2.2.2.2⟩
    show Alt (v.after ++ (a ++ ts))
    rw [← List.append_assoc]
    exact alt_append_closed h.2.2.2.2.1 hc hts
  | paren v lg tg lb tb b a => exact ⟨h.1, h.2.1, h.2.2.1, h.2.2.2.1, alt_append_closed h.2.2.2.2 hc hts⟩
  | app n x g fa b a => exact ⟨h.1, h.2.1, h.2.2.1, h.2.2.2.1, h.2.2.2.2.1, alt_append_closed h.2.2.2.2.2 hc hts⟩
  | wth env bd c g s b a => obtain ⟨h1, h2, h3, h4, h5, h6⟩ := h; exact ⟨h1, h2, h3, h4, h5, alt_append_closed h6 hc hts⟩
  | asrt => exact h.elim
  | sel e ats g ab b a => obtain ⟨h1, h2, h3, h4, h5⟩ := h; exact ⟨h1, h2, h3, h4, alt_append_closed h5 hc hts⟩
  | selOr e ats g ab d dg db b a =>
    obtain ⟨h1, h2, h3, h4, h5, h6, h7, h8⟩ := h; exact ⟨h1, h2, h3, h4, h5, h6, h7, alt_append_closed h8 hc hts⟩
  | lam n bcc g k body b a => obtain ⟨h1, h2, h3, h4, h5, h6, h7⟩ := h; exact ⟨h1, h2, h3, h4, h5, h6, alt_append_closed h7 hc hts⟩
  | un op e g bt b a => obtain ⟨h1, h2, h3, h4, h5, h6⟩ := h; exact ⟨h1, h2, h3, h4, h5, alt_append_closed h6 hc hts⟩
  | bin op l r x y b a => obtain ⟨h1, h2, h3, h4, h5, h6, h7⟩ := h; exact ⟨h1, h2, h3, h4, h5, h6, alt_append_closed h7 hc hts⟩
  | ite c t e cg aic aig btc btg atc tg bec beg aec eg b a =>
    obtain ⟨h1, h2, h3, h4, h5, h6, h7, h8, h9, h10, h11, h12, h13, h14⟩ := h
    exact ⟨h1, h2, h3, h4, h5, h6, h7, h8, h9, h10, h11, h12, h13, alt_append_closed h14 hc hts⟩
  | has e ats lg rg bq aq b a => obtain ⟨h1, h2, h3, h4, h5, h6, h7⟩ := h; exact ⟨h1, h2, h3, h4, h5, h6, alt_append_closed h7 hc hts⟩

theorem closedT_append {a b : List Trivia} (ha : closedT a) (hb : closedT b) : closedT (a ++ b) := by
  rcases hb with h | ⟨c, hc⟩
  · subst h; simpa using ha
  · have hne : b ≠ [] := by intro e; subst e; cases hc
    refine Or.inr ⟨c, ?_⟩
    rw [List.getLast?_append]; simp [hc]

def allClosed : List Expr → Prop
  | [] => True
  | e :: rest => closedT (e.effAfter false) ∧ allClosed rest

theorem allNfInv_append : ∀ {a b : List Expr}, allNfInv a → allNfInv b → allNfInv (a ++ b)
  | [], _, _, hb => hb
  | _ :: _, _, ha, hb => ⟨ha.1, allNfInv_append ha.2 hb⟩
theorem allClosed_append : ∀ {a b : List Expr}, allClosed a → allClosed b → allClosed (a ++ b)
  | [], _, _, hb => hb
  | _ :: _, _, ha, hb => ⟨ha.1, allClosed_append ha.2 hb⟩

theorem modifyLast_nfInv : ∀ {items : List Expr} {ts : List Trivia}, allNfInv items → allClosed items → Alt ts →
    allNfInv (modifyLast (fun e => e.addAfter ts) items)
  | [], _, _, _, _ => trivial
  | [e], _, h, hc, ht => ⟨nfInv_addAfter h.1 hc.1 ht, trivial⟩
  | e :: e' :: rest, _, h, hc, ht => ⟨h.1, modifyLast_nfInv (items := e' :: rest) h.2 hc.2 ht⟩

theorem modifyLast_closed : ∀ {items : List Expr} {ts : List Trivia}, allClosed items → closedT ts →
    allClosed (modifyLast (fun e => e.addAfter ts) items)
  | [], _, _, _ => trivial
  | [e], _, hc, ht => ⟨by rw [effAfter_addAfter]; exact closedT_append hc.1 ht, trivial⟩
  | e :: e' :: rest, _, hc, ht => ⟨hc.1, modifyLast_closed (items := e' :: rest) hc.2 ht⟩

theorem nonLastClosed_modifyLast (f : Expr → Expr) : ∀ {items : List Expr}, allClosed items →
    nonLastClosed (modifyLast f items)
  | [], _ => trivial
  | [e], _ => trivial
  | e :: e' :: rest, hc => by
    have ih := nonLastClosed_modifyLast f (items := e' :: rest) hc.2
    cases rest with
    | nil => exact ⟨hc.1, trivial⟩
    | cons x r => exact ⟨hc.1, ih⟩

theorem nonLastClosed_of_all : ∀ {items : List Expr}, allClosed items → nonLastClosed items
  | [], _ => trivial
  | [e], _ => trivial
  | e :: e' :: rest, hc => ⟨hc.1, nonLastClosed_of_all (items := e' :: rest) hc.2⟩

theorem closed_last_modifyLast : ∀ {items : List Expr} {ts : List Trivia}, items ≠ [] → allClosed items → closedT ts →
    ts ≠ [] → allClosed (modifyLast (fun e => e.addAfter ts) items) := fun _ hc ht _ => modifyLast_closed hc ht

theorem leafOk_ne_semi {k : LeafKind} {t : Text} (h : leafOk k t = true) : t ≠ [';'] := by
  intro e; subst e
  cases k <;> simp [leafOk, isIdentChar, isAsciiLetter, isAsciiDigit, isWsChar] at h

theorem nameOk_ne_semi {n : Text} (h : nameOk n = true) : n ≠ [';'] := by
  simp only [nameOk, Bool.and_eq_true, bne_iff_ne, ne_eq] at h
  exact h.2

theorem fromGap_onNewline {g : Text} (h : containsNL g = true) : (Layout.fromGap g).onNewline = true := by
  unfold Layout.fromGap; simp [h]

theorem appendGap_ne_nil_NL {g : Text} {b : Bool} (h : appendGapTriviaOff [] g b ≠ []) : containsNL g = true := by
  cases hc : containsNL g with
  | true => rfl
  | false => rw [appendGap_noNL [] hc] at h; exact absurd rfl h

theorem any_isComment_append_left {a b : List Trivia} (h : a.any Trivia.isComment = true) :
    (a ++ b).any Trivia.isComment = true := by rw [List.any_append, h]; rfl

theorem bv_onNewline (c1 c2 : GC) (g2 : Text) :
    bindOnNewline (flattenGC c2 ++ g2) (appendGapTriviaOff (gcTrivia (gcTrivia [] c1) c2) g2) = false →
    appendGapTriviaOff (gcTrivia (gcTrivia [] c1) c2) g2 = [] := by
  intro hb
  unfold bindOnNewline at hb
  simp only [Bool.or_eq_false_iff] at hb
  have hany : (gcTrivia (gcTrivia [] c1) c2).any Trivia.isComment = false := by
    cases hx : (gcTrivia (gcTrivia [] c1) c2).any Trivia.isComment with
    | false => rfl
    | true =>
      have : (appendGapTriviaOff (gcTrivia (gcTrivia [] c1) c2) g2).any Trivia.isComment = true := by
        rcases appendGapTriviaOff_cases (gcTrivia (gcTrivia [] c1) c2) g2 true with e | ⟨t, _, e⟩ <;> rw [e]
        · exact hx
        · exact any_isComment_append_left hx
      rw [this] at hb; cases hb.2
  have hc1 : c1 = [] := by
    cases c1 with
    | nil => rfl
    | cons p r =>
      have := gcTrivia_any_mono c2 _ (gcTrivia_ne_nil_hasCmt (p :: r) [] (by simp))
      rw [this] at hany; cases hany
  have hc2 : c2 = [] := by
    cases c2 with
    | nil => rfl
    | cons p r =>
      have := gcTrivia_ne_nil_hasCmt (p :: r) (gcTrivia [] c1) (by simp)
      rw [this] at hany; cases hany
  subst hc1; subst hc2
  simp only [gcTrivia, flattenGC, List.flatMap_nil, List.nil_append] at hb ⊢
  cases hnl : containsNL g2 with
  | false => exact appendGap_noNL [] hnl true
  | true => rw [fromGap_onNewline hnl] at hb; cases hb.1

theorem binding_nf {n : Text} {c1 c2 c3 : GC} {g2 : Text} {ve b : Expr} {before : List Trivia}
    (hn : nameOk n = true) (hb : bindingFromCst n c1 c2 g2 ve c3 before = .ok b)
    (hve : ve.nfInv) (hvb : ve.before = []) (hva : ve.after = []) (hnb : ve.notBinding = true)
    (hbf : Alt before) : b.nfInv ∧ closedT (b.effAfter false) := by
  have s12 := gcTrivia_alt c2 _ (gcTrivia_alt c1 [] trivial closedT_nil).1 (gcTrivia_alt c1 [] trivial closedT_nil).2
  have hbv : Alt (appendGapTriviaOff (gcTrivia (gcTrivia [] c1) c2) g2 ++ ve.before) := by
    rw [hvb, List.append_nil]; exact alt_appendGap s12.1 s12.2 _ _
  have hv1 : (ve.setBefore (appendGapTriviaOff (gcTrivia (gcTrivia [] c1) c2) g2 ++ ve.before)).nfInv :=
    nfInv_setBefore hve hbv
  have hnb1 : (ve.setBefore (appendGapTriviaOff (gcTrivia (gcTrivia [] c1) c2) g2 ++ ve.before)).notBinding = true := by
    rw [notBinding_setBefore]; exact hnb
  have heff1 : (ve.setBefore (appendGapTriviaOff (gcTrivia (gcTrivia [] c1) c2) g2 ++ ve.before)).effAfter false = [] := by
    rw [effAfter_setBefore, effAfter_notBinding hnb, hva]
  have hon : bindOnNewline (flattenGC c2 ++ g2)
      (appendGapTriviaOff (gcTrivia (gcTrivia [] c1) c2) g2 ++ ve.before) = false →
      appendGapTriviaOff (gcTrivia (gcTrivia [] c1) c2) g2 ++ ve.before = [] := by
    rw [hvb, List.append_nil]; exact bv_onNewline c1 c2 g2
  unfold bindingFromCst at hb
  cases c3 with
  | nil =>
    simp only at hb
    split at hb
    · cases hb
    · injection hb with hb; subst hb
      have hv2 := nfInv_addAfter hv1 (by rw [heff1]; exact closedT_nil) (ts := gcTrivia [] []) trivial
      refine ⟨⟨nameOk_ne_semi hn, hv2, by rw [notBinding_addAfter]; exact hnb1, hbf, ?_, ?_, ?_⟩, ?_⟩
      · simp [gcTrivia, hva]; trivial
      · simp [gcTrivia, hva]; trivial
      · simpa [gcTrivia] using hon
      · simp [Expr.effAfter, gcTrivia, hva]; exact closedT_nil
    · cases hb
  | cons p rest =>
    simp only at hb
    have s3 := gcTrivia_alt rest [] trivial closedT_nil
    by_cases hnl : containsNL p.1 = true
    · simp only [hnl, Bool.not_true, Bool.false_eq_true, if_false] at hb
      have s3' := gcTrivia_alt (p :: rest) [] trivial closedT_nil
      split at hb
      · cases hb
      · injection hb with hb; subst hb
        have hv2 := nfInv_addAfter hv1 (by rw [heff1]; exact closedT_nil) s3'.1
        refine ⟨⟨nameOk_ne_semi hn, hv2, by rw [notBinding_addAfter]; exact hnb1, hbf, ?_, ?_, ?_⟩, ?_⟩
        · simp only [after_addAfter, after_setBefore, hva, List.nil_append, List.append_nil]; exact s3'.1
        · simp only [after_addAfter, after_setBefore, hva, List.nil_append]; exact s3'.1
        · simpa using hon
        · simp only [Expr.effAfter, after_addAfter, after_setBefore, hva, List.nil_append, List.append_nil,
            Bool.false_eq_true, if_false]; exact s3'.2
      · cases hb
    · have hnl' : containsNL p.1 = false := by simpa using hnl
      simp only [hnl', Bool.not_false, if_true] at hb
      split at hb
      · cases hb
      · injection hb with hb; subst hb
        have hv2 := nfInv_addAfter hv1 (by rw [heff1]; exact closedT_nil)
          (ts := [Trivia.comment (mkComment p.2 true)]) trivial
        have hc2 : closedT (((ve.setBefore (appendGapTriviaOff (gcTrivia (gcTrivia [] c1) c2) g2 ++ ve.before)).addAfter
            [Trivia.comment (mkComment p.2 true)]).effAfter false) := by
          rw [effAfter_addAfter, heff1]; exact closedT_append_comment [] _
        have hv3 := nfInv_addAfter hv2 hc2 s3.1
        have halt : Alt ([Trivia.comment (mkComment p.2 true)] ++ gcTrivia [] rest) :=
          alt_append_closed trivial (closedT_append_comment [] _) s3.1
        have hcl : closedT ([Trivia.comment (mkComment p.2 true)] ++ gcTrivia [] rest) :=
          closedT_append (closedT_append_comment [] _) s3.2
        refine ⟨⟨nameOk_ne_semi hn, hv3, by rw [notBinding_addAfter, notBinding_addAfter]; exact hnb1, hbf, ?_, ?_, ?_⟩, ?_⟩
        · simp only [after_addAfter, after_setBefore, hva, List.nil_append, List.append_nil]; exact halt
        · simp only [after_addAfter, after_setBefore, hva, List.nil_append]; exact halt
        · simpa using hon
        · simp only [Expr.effAfter, after_addAfter, after_setBefore, hva, List.nil_append, List.append_nil,
            Bool.false_eq_true, if_false]; exact hcl
      · cases hb

/-- the loop state of `parse_delimited_sequence` as far as layout goes -/
def StN (st : SeqSt) : Prop :=
  allNfInv st.items ∧ allClosed st.items ∧ Alt st.before ∧
  (st.prev ≠ .none → closedT st.before) ∧
  (st.prev = .none → (st.before = [] ∨ st.before = [.emptyLine]) ∧ st.items = [])

theorem pushGap_alt {st : SeqSt} (h : StN st) (g : Text) : Alt (pushGap st g) := by
  unfold pushGap; split
  · exact h.2.2.1
  · rename_i hp
    exact alt_appendGap h.2.2.1 (h.2.2.2.1 (by simpa using hp)) _ _

theorem seqComment_nf (m : Mode) {st : SeqSt} (h : StN st) (g t : Text) : StN (seqComment m st g t) := by
  unfold seqComment
  split
  · rename_i hin
    rw [canInline_eq] at hin
    simp only [Bool.and_eq_true, Bool.not_eq_true'] at hin
    have hnl : containsNL g = false := hin.1.2
    have hpn : st.prev ≠ .none := by
      cases m <;> (intro e; rw [e] at hin; simp [prevAllowsInline] at hin)
    have hpg : pushGap st g = st.before := by
      unfold pushGap; split
      · rfl
      · exact appendGap_noNL _ hnl _
    refine ⟨modifyLast_nfInv h.1 h.2.1 trivial, modifyLast_closed h.2.1 (closedT_append_comment [] _), ?_, ?_, ?_⟩
    · rw [hpg]; exact h.2.2.1
    · intro _; rw [hpg]; exact h.2.2.2.1 hpn
    · intro e; cases e
  · refine ⟨h.1, h.2.1, alt_append_single (pushGap_alt h g) _ (Or.inr rfl), fun _ => closedT_append_comment _ _,
      fun e => by cases e⟩

theorem openBefore_cases (its : Items) : openBefore its = [] ∨ openBefore its = [.emptyLine] := by
  unfold openBefore
  cases its.firstGap with
  | none => exact Or.inl rfl
  | some g => simp only; split
              · exact Or.inr rfl
              · exact Or.inl rfl

theorem stN_init (its : Items) : StN { before := openBefore its } := by
  refine ⟨trivial, trivial, ?_, fun h => absurd rfl h, fun _ => ⟨openBefore_cases its, rfl⟩⟩
  rcases openBefore_cases its with h | h <;> rw [h] <;> trivial

/-- after the loop -/
theorem finishSeq_nf {st : SeqSt} (h : StN st) (cgo : Option Text) (hc : Bool)
    (hcont : hc = true → st.prev ≠ .none) :
    allNfInv (finishSeq st cgo hc).1 ∧ nonLastClosed (finishSeq st cgo hc).1 ∧ Alt (finishSeq st cgo hc).2 ∧
    (cgo = none → allClosed (finishSeq st cgo hc).1) := by
  obtain ⟨hinv, hcl, halt, hpc, hpn⟩ := h
  -- when there is content, `before` is closed
  have stage1 : ∃ items inner, (if st.before.isEmpty then (st.items, []) else if st.items.isEmpty then ([], st.before)
        else (modifyLast (fun e => e.addAfter st.before) st.items, [])) = ((items, inner) : List Expr × List Trivia) ∧
      allNfInv items ∧ Alt inner ∧ (hc = true → allClosed items ∧ closedT inner) ∧
      (st.prev ≠ .none → allClosed items) ∧ nonLastClosed items := by
    by_cases hb : st.before.isEmpty = true
    · exact ⟨st.items, [], by rw [if_pos hb], hinv, trivial, fun _ => ⟨hcl, closedT_nil⟩, fun _ => hcl,
        nonLastClosed_of_all hcl⟩
    · by_cases hi : st.items.isEmpty = true
      · exact ⟨[], st.before, by rw [if_neg hb, if_pos hi], trivial, halt,
          fun hh => ⟨trivial, hpc (hcont hh)⟩, fun _ => trivial, trivial⟩
      · exact ⟨_, [], by rw [if_neg hb, if_neg hi], modifyLast_nfInv hinv hcl halt, trivial,
          fun hh => ⟨modifyLast_closed hcl (hpc (hcont hh)), closedT_nil⟩,
          fun hp => modifyLast_closed hcl (hpc hp), nonLastClosed_modifyLast _ hcl⟩
  obtain ⟨items, inner, he, h1, h2, h3, h4, h5⟩ := stage1
  unfold finishSeq
  simp only [he]
  cases cgo with
  | none =>
    refine ⟨h1, h5, h2, fun _ => ?_⟩
    by_cases hp : st.prev = .none
    · -- nothing was parsed: the items are those of the start state
      by_cases hb : st.before.isEmpty = true
      · rw [if_pos hb] at he; injection he with he1 _; rw [← he1]; exact hcl
      · by_cases hi : st.items.isEmpty = true
        · rw [if_neg hb, if_pos hi] at he; injection he with he1 _; rw [← he1]; trivial
        · have := (hpn hp).2
          rw [this] at hi; exact absurd rfl hi
    · exact h4 hp
  | some cg =>
    simp only
    split
    · rename_i hcond
      simp only [Bool.and_eq_true] at hcond
      obtain ⟨hcl', hci⟩ := h3 hcond.1
      split
      · exact ⟨h1, h5, alt_append_single h2 _ (Or.inl hci), fun e => by cases e⟩
      · exact ⟨modifyLast_nfInv h1 hcl' trivial, nonLastClosed_modifyLast _ hcl', h2, fun e => by cases e⟩
    · exact ⟨h1, h5, h2, fun e => by cases e⟩

theorem alt_emptyInner {items : List Expr} {inner : List Trivia} (h : Alt inner) (between : Text) :
    Alt (emptyInner items inner between) := by
  unfold emptyInner; split
  · split <;> trivial
  · exact h

theorem seqComment_prev (m : Mode) (st : SeqSt) (g t : Text) : (seqComment m st g t).prev = .cmt := by
  unfold seqComment; split <;> rfl

theorem parseSeq_prev : (its : Items) → ∀ (m : Mode) (st st' : SeqSt), its.parseSeq m st = .ok st' →
    (its.isNil = false ∨ st.prev ≠ .none) → st'.prev ≠ .none
  | .nil, _, st, st', hp, h => by
    simp only [Items.parseSeq] at hp; injection hp with hp; subst hp
    rcases h with h | h
    · cases h
    · exact h
  | .cmt g t rest, m, st, st', hp, _ => by
    simp only [Items.parseSeq] at hp
    exact parseSeq_prev rest m _ st' hp (Or.inr (by rw [seqComment_prev]; simp))
  | .elem g c rest, m, st, st', hp, _ => by
    simp only [Items.parseSeq] at hp
    cases hpe : c.parse with
    | error err => rw [hpe] at hp; cases hp
    | ok e =>
      rw [hpe] at hp
      cases m with
      | set => cases hp
      | file => simp only at hp; exact parseSeq_prev rest _ _ st' hp (Or.inr (by simp))
      | paren => simp only at hp; exact parseSeq_prev rest _ _ st' hp (Or.inr (by simp))
      | list => simp only at hp; exact parseSeq_prev rest _ _ st' hp (Or.inr (by simp))
  | .bind g n c1 g1 c2 g2 v c3 g3 rest, m, st, st', hp, _ => by
    simp only [Items.parseSeq] at hp
    cases hpv : v.parse with
    | error err => rw [hpv] at hp; cases hp
    | ok ve =>
      rw [hpv] at hp
      cases m with
      | file => cases hp
      | list => cases hp
      | paren => cases hp
      | set =>
        simp only at hp
        cases hb : bindingFromCst n c1 c2 g2 ve c3 (pushGap st g) with
        | error err => rw [hb] at hp; cases hp
        | ok b =>
          rw [hb] at hp; simp only at hp
          exact parseSeq_prev rest _ _ st' hp (Or.inr (by simp))

theorem parseSeq_prev_of_content (its : Items) (m : Mode) (st st' : SeqSt) (hp : its.parseSeq m st = .ok st')
    (h : its.isNil = false) : st'.prev ≠ .none := parseSeq_prev its m st st' hp (Or.inl h)

/-! ### top level: nothing in front of the first token -/

def headBeforeOk : List Expr → Prop
  | [] => True
  | e :: _ => e.before = [] ∨ headCmt e.before

def HeadInv (st : SeqSt) : Prop :=
  (st.items = [] → (st.prev = .none ∧ st.before = []) ∨ (st.prev ≠ .none ∧ headCmt st.before)) ∧
  headBeforeOk st.items

theorem headCmt_append {a : List Trivia} (h : headCmt a) (b : List Trivia) : headCmt (a ++ b) := by
  cases a with
  | nil => exact absurd h (by simp [headCmt])
  | cons x r => cases x <;> simp [headCmt] at h ⊢

theorem headCmt_appendGap {a : List Trivia} (h : headCmt a) (g : Text) (b : Bool) :
    headCmt (appendGapTriviaOff a g b) := by
  rcases appendGapTriviaOff_cases a g b with e | ⟨t, _, e⟩ <;> rw [e]
  · exact h
  · exact headCmt_append h _

theorem headBeforeOk_modifyLast (ts : List Trivia) : ∀ {l : List Expr}, headBeforeOk l →
    headBeforeOk (modifyLast (fun e => e.addAfter ts) l)
  | [], _ => trivial
  | [e], h => by simpa [modifyLast, headBeforeOk] using h
  | e :: e' :: r, h => h

theorem headBeforeOk_append {l : List Expr} (hne : l ≠ []) (h : headBeforeOk l) (l' : List Expr) :
    headBeforeOk (l ++ l') := by
  cases l with
  | nil => exact absurd rfl hne
  | cons e r => exact h

theorem modifyLast_ne_nil {α : Type} (f : α → α) {l : List α} (h : l ≠ []) : modifyLast f l ≠ [] := by
  intro e
  have := modifyLast_isEmpty f l
  rw [e] at this
  cases l with
  | nil => exact h rfl
  | cons _ _ => cases this

theorem items_head : (its : Items) → ∀ (m : Mode) (cg : Text) (st st' : SeqSt), (m = .file ∨ m = .paren) →
    its.wf m cg = true → its.parseSeq m st = .ok st' → HeadInv st → HeadInv st'
  | .nil, m, cg, st, st', _, _, hp, h => by
    simp only [Items.parseSeq] at hp; injection hp with hp; subst hp; exact h
  | .cmt g t rest, m, cg, st, st', hm, hwf, hp, h => by
    simp only [Items.wf, Bool.and_eq_true] at hwf
    simp only [Items.parseSeq] at hp
    refine items_head rest m cg _ st' hm hwf.2 hp ?_
    unfold seqComment
    split
    · rename_i hin
      rw [canInline_eq] at hin
      simp only [Bool.and_eq_true, Bool.not_eq_true', List.isEmpty_eq_false_iff] at hin
      exact ⟨fun he => absurd he (modifyLast_ne_nil _ hin.2), headBeforeOk_modifyLast _ h.2⟩
    · refine ⟨fun he => Or.inr ⟨by simp, ?_⟩, h.2⟩
      simp only at he
      rcases h.1 he with ⟨hp0, hb0⟩ | ⟨hp1, hb1⟩
      · unfold pushGap; simp [hp0, hb0, headCmt]
      · unfold pushGap
        have : (st.prev == Prev.none) = false := by simpa using hp1
        simp only [this, Bool.false_eq_true, if_false]
        exact headCmt_append (headCmt_appendGap hb1 _ _) _
  | .elem g c rest, m, cg, st, st', hm, hwf, hp, h => by
    simp only [Items.wf, Bool.and_eq_true] at hwf
    simp only [Items.parseSeq] at hp
    cases hpe : c.parse with
    | error err => rw [hpe] at hp; cases hp
    | ok e =>
      rw [hpe] at hp
      have heb : e.before = [] := by
        obtain ⟨e', hpe', _, heb', _, _⟩ := cst_parse_spec false c hwf.1.2 (fun h => by cases h)
        rw [hpe] at hpe'; injection hpe' with h'; subst h'; exact heb'
      suffices key : headBeforeOk (st.items ++ [e.setBefore (pushGap st g ++ e.before)]) by
        rcases hm with rfl | rfl
        · simp only at hp
          exact items_head rest .file cg _ st' (Or.inl rfl) hwf.2 hp ⟨fun he => by simp at he, key⟩
        · simp only at hp
          exact items_head rest .paren cg _ st' (Or.inr rfl) hwf.2 hp ⟨fun he => by simp at he, key⟩
      by_cases hi : st.items = []
      · rw [hi]
        simp only [List.nil_append, headBeforeOk, before_setBefore]
        rcases h.1 hi with ⟨hp0, hb0⟩ | ⟨hp1, hb1⟩
        · left
          have : pushGap st g = [] := by unfold pushGap; simp [hp0, hb0]
          rw [this, heb]; rfl
        · right
          unfold pushGap
          have : (st.prev == Prev.none) = false := by simpa using hp1
          simp only [this, Bool.false_eq_true, if_false]
          exact headCmt_append (headCmt_appendGap hb1 _ _) _
      · exact headBeforeOk_append hi h.2 _
  | .bind g n c1 g1 c2 g2 v c3 g3 rest, m, cg, st, st', hm, _, hp, _ => by
    simp only [Items.parseSeq] at hp
    cases hpv : v.parse with
    | error err => rw [hpv] at hp; cases hp
    | ok ve => rw [hpv] at hp; rcases hm with rfl | rfl <;> cases hp

theorem finishSeq_none_head (st : SeqSt) (hc : Bool) (h : headBeforeOk st.items) :
    headBeforeOk (finishSeq st none hc).1 := by
  unfold finishSeq
  by_cases hb : st.before.isEmpty = true
  · simp only [hb, if_true]; exact h
  · by_cases hi : st.items.isEmpty = true
    · simp only [hb, hi, if_true, Bool.false_eq_true, if_false]; trivial
    · simp only [hb, hi, Bool.false_eq_true, if_false]; exact headBeforeOk_modifyLast _ h

theorem leadE_of_head {ts : List Trivia} (h : ts = [] ∨ headCmt ts) : leadE ts = 0 := by
  rcases h with h | h
  · subst h; rfl
  · cases ts with
    | nil => rfl
    | cons t r => cases t <;> simp [headCmt] at h <;> rfl

theorem alt_appBeforeArg (sp : AppSplit) (g : Text) : Alt (appBeforeArg sp g) := by
  unfold appBeforeArg
  split
  · trivial
  · have h := gcTrivia_alt sp.rest [] trivial closedT_nil
    split
    · exact alt_append_single h.1 _ (Or.inl h.2)
    · simpa using h.1

/-- `WithStatement.from_cst` on a `with` without comments -/
theorem withFromCst_shape (he be : Expr) (g1 g2 g3 : Text) :
    withFromCst he be [] g1 [] g2 [] g3 =
      .wth he (if (appendGapTrivia [] (g2 ++ ';' :: g3)).isEmpty then be
        else be.setBefore (appendGapTrivia [] (g2 ++ ';' :: g3) ++ be.before)) [] g1 [] [] [] := by
  unfold withFromCst
  simp only [collectTrivia, collectGo, semiSeq, List.isEmpty_nil, Bool.not_true, Bool.false_and, Bool.false_eq_true,
    if_false, if_true]
  rcases appendGapTrivia_cases (g2 ++ ';' :: g3) with e | e | e <;> rw [e] <;> simp [splitInline]

/-- `FunctionCall.from_cst`: the layout invariants -/
theorem app_nf {fe ae : Expr} (cs : GC) (g : Text) (hf : fe.nfInv) (hfb : fe.before = []) (ha : ae.nfInv)
    (hab : ae.before = []) : (appFromCst fe ae cs g).nfInv := by
  unfold appFromCst
  simp only [hab, List.append_nil]
  have halt := alt_appBeforeArg (appSplit cs true true []) g
  refine ⟨hf, nfInv_setBefore ha ?_, hfb, fun hon => ?_, trivial, trivial⟩
  · split
    · exact alt_dropWhile _ halt
    · exact halt
  · simp only [hon, if_true, before_setBefore]
    exact leadE_dropWhile _


mutual
theorem cst_nf : (c : Cst) → c.wf = true → c.basic = true → ∀ (e : Expr), c.parse = .ok e →
    e.nfInv ∧ e.before = [] ∧ e.after = [] ∧ e.notBinding = true
  | .kw w c1 g1 h c2 g2 c3 g3 b, hwf, hbs, ex, hp => by
    simp only [Cst.wf, Bool.and_eq_true, List.isEmpty_iff] at hwf
    obtain ⟨⟨⟨⟨⟨⟨⟨hc1, _⟩, hhw⟩, hc2⟩, _⟩, hc3⟩, _⟩, hbw⟩ := hwf
    subst hc1; subst hc2; subst hc3
    simp only [Cst.basic, Bool.and_eq_true] at hbs
    obtain ⟨⟨hw, hhb⟩, hbb⟩ := hbs
    subst hw
    simp only [Cst.parse] at hp
    cases hph : h.parse with
    | error err => rw [hph] at hp; cases hp
    | ok he =>
      rw [hph] at hp
      cases hpb : b.parse with
      | error err => rw [hpb] at hp; cases hp
      | ok be =>
        rw [hpb] at hp
        simp only [if_true] at hp
        injection hp with hp; subst hp
        obtain ⟨hhn, hhbf, _, _⟩ := cst_nf h hhw hhb he hph
        obtain ⟨hbn, hbbf, _, _⟩ := cst_nf b hbw hbb be hpb
        rw [withFromCst_shape]
        refine ⟨⟨hhn, hhbf, rfl, ?_, trivial, trivial⟩, rfl, rfl, rfl⟩
        rcases appendGapTrivia_cases (g2 ++ ';' :: g3) with e | e | e <;> rw [e]
        · exact hbn
        · exact nfInv_setBefore hbn (by rw [hbbf]; trivial)
        · exact nfInv_setBefore hbn (by rw [hbbf]; trivial)
  | .sel e c1 g1 gd attrs, hwf, hbs, ex, hp => by
    simp only [Cst.wf, Bool.and_eq_true, List.isEmpty_iff] at hwf
    obtain ⟨⟨⟨⟨⟨hew, hc1⟩, _⟩, _⟩, _⟩, _⟩ := hwf
    subst hc1
    simp only [Cst.basic] at hbs
    simp only [Cst.parse] at hp
    cases hpe : e.parse with
    | error err => rw [hpe] at hp; cases hp
    | ok ee =>
      rw [hpe] at hp; injection hp with hp; subst hp
      obtain ⟨hen, heb, _, _⟩ := cst_nf e hew hbs ee hpe
      exact ⟨⟨hen, heb, by simp [collectTrivia, collectGo], trivial, trivial⟩, rfl, rfl, rfl⟩
  | .selOr e c1 g1 gd attrs c2 g2 g3 d, hwf, hbs, ex, hp => by
    simp only [Cst.wf, Bool.and_eq_true, List.isEmpty_iff] at hwf
    obtain ⟨⟨⟨⟨⟨⟨⟨⟨⟨hew, hc1⟩, _⟩, _⟩, _⟩, _⟩, hc2⟩, _⟩, _⟩, hdw⟩ := hwf
    subst hc1; subst hc2
    simp only [Cst.basic, Bool.and_eq_true] at hbs
    simp only [Cst.parse] at hp
    cases hpe : e.parse with
    | error err => rw [hpe] at hp; cases hp
    | ok ee =>
      rw [hpe] at hp
      cases hpd : d.parse with
      | error err => rw [hpd] at hp; cases hp
      | ok de =>
        rw [hpd] at hp; injection hp with hp; subst hp
        obtain ⟨hen, heb, _, _⟩ := cst_nf e hew hbs.1 ee hpe
        obtain ⟨hdn, hdb, _, _⟩ := cst_nf d hdw hbs.2 de hpd
        exact ⟨⟨hen, heb, by simp [collectTrivia, collectGo], hdn, hdb, by simp [collectTrivia, collectGo], trivial, trivial⟩,
          rfl, rfl, rfl⟩
  | .lam n c1 g1 c2 g2 b, hwf, hbs, ex, hp => by
    simp only [Cst.wf, Bool.and_eq_true, List.isEmpty_iff] at hwf
    obtain ⟨⟨⟨⟨⟨hn, hc1⟩, _⟩, hc2⟩, _⟩, hbw⟩ := hwf
    subst hc1; subst hc2
    simp only [Cst.basic, Bool.and_eq_true, decide_eq_true_eq] at hbs
    simp only [Cst.parse] at hp
    cases hpb : b.parse with
    | error err => rw [hpb] at hp; cases hp
    | ok be =>
      rw [hpb] at hp; injection hp with hp; subst hp
      obtain ⟨hbn, hbb, _, _⟩ := cst_nf b hbw hbs.2 be hpb
      have hnsemi : n ≠ [';'] := by
        intro h; subst h; revert hn; decide
      have hk : (if g2.count '\n' > 0 then 1 else 0) ≤ 1 := by split <;> omega
      refine ⟨?_, rfl, rfl, rfl⟩
      unfold lamFromCst
      simp only
      by_cases hc : g2.count '\n' ≤ 1
      · have h0 : g2.count '\n' - 1 = 0 := by omega
        simp only [h0, List.replicate_zero, List.isEmpty_nil, if_true]
        refine ⟨hbn, by simp [collectTrivia, collectGo], hk, fun _ => hbb, hnsemi, trivial, trivial⟩
      · have h1 : g2.count '\n' - 1 = 1 := by omega
        have hpos : g2.count '\n' > 0 := by omega
        simp only [h1, List.replicate_one, List.isEmpty_cons, Bool.false_eq_true, if_false, hpos, if_true]
        refine ⟨nfInv_setBefore hbn (by rw [hbb]; trivial), by simp [collectTrivia, collectGo], Nat.le_refl _,
          (fun h => by cases h), hnsemi, trivial, trivial⟩
  | .un op c g e, hwf, hbs, ex, hp => by
    simp only [Cst.wf, Bool.and_eq_true, List.isEmpty_iff] at hwf
    obtain ⟨⟨⟨hop, hc⟩, _⟩, hew⟩ := hwf
    subst hc
    simp only [Cst.basic] at hbs
    simp only [Cst.parse] at hp
    cases hpe : e.parse with
    | error err => rw [hpe] at hp; cases hp
    | ok ee =>
      rw [hpe] at hp; injection hp with hp; subst hp
      obtain ⟨hen, heb, _, _⟩ := cst_nf e hew hbs ee hpe
      have hopsemi : op ≠ [';'] := by
        intro h; subst h; revert hop; decide
      exact ⟨⟨hen, heb, by simp [collectTrivia, collectGo], hopsemi, trivial, trivial⟩, rfl, rfl, rfl⟩
  | .bin l c1 g1 op c2 g2 r, hwf, hbs, ex, hp => by
    simp only [Cst.wf, Bool.and_eq_true, List.isEmpty_iff] at hwf
    obtain ⟨⟨⟨⟨⟨⟨⟨hlw, hc1⟩, _⟩, hop⟩, _⟩, hc2⟩, _⟩, hrw⟩ := hwf
    simp only [Cst.basic, Bool.and_eq_true] at hbs
    simp only [Cst.parse] at hp
    cases hpl : l.parse with
    | error err => rw [hpl] at hp; cases hp
    | ok le =>
      rw [hpl] at hp
      cases hpr : r.parse with
      | error err => rw [hpr] at hp; cases hp
      | ok re =>
        rw [hpr] at hp; injection hp with hp; subst hp
        obtain ⟨hln, hlb, _, _⟩ := cst_nf l hlw hbs.1 le hpl
        obtain ⟨hrn, hrb, _, _⟩ := cst_nf r hrw hbs.2 re hpr
        have hopsemi : op ≠ [';'] := by
          intro h; subst h; revert hop; decide
        exact ⟨⟨hln, hlb, hrn, hrb, hopsemi, trivial, trivial⟩, rfl, rfl, rfl⟩
  | .ite c1 g1 c c2 g2 c3 g3 t c4 g4 c5 g5 e, hwf, hbs, ex, hp => by
    obtain ⟨⟨h1, h2, h3, h4, h5⟩, ⟨hcw, htw, hew⟩, _⟩ := ite_wf hwf
    subst h1; subst h2; subst h3; subst h4; subst h5
    simp only [Cst.basic, Bool.and_eq_true] at hbs
    simp only [Cst.parse] at hp
    cases hpt : t.parse with
    | error err => rw [hpt] at hp; cases hp
    | ok te =>
      rw [hpt] at hp
      cases hpe : e.parse with
      | error err => rw [hpe] at hp; cases hp
      | ok ee =>
        rw [hpe] at hp
        cases hpc : c.parse with
        | error err => rw [hpc] at hp; cases hp
        | ok ce =>
          rw [hpc] at hp; injection hp with hp; subst hp
          obtain ⟨hcn, hcb, _, _⟩ := cst_nf c hcw hbs.1.1 ce hpc
          obtain ⟨htn, htb, _, _⟩ := cst_nf t htw hbs.1.2 te hpt
          obtain ⟨hen, heb, _, _⟩ := cst_nf e hew hbs.2 ee hpe
          rw [iteFromCst_nil]
          exact ⟨⟨hcn, hcb, htn, htb, hen, heb, rfl, rfl, rfl, rfl, rfl, rfl, trivial, trivial⟩, rfl, rfl, rfl⟩
  | .has e c1 g1 c2 g2 attrs, hwf, hbs, ex, hp => by
    have hall : attrs.all attrSegOk = true := by
      simp only [Cst.wf, Bool.and_eq_true] at hwf; exact hwf.2
    obtain ⟨⟨h1, h2⟩, hew, _, _, _⟩ := has_wf hwf
    subst h1; subst h2
    simp only [Cst.basic] at hbs
    simp only [Cst.parse] at hp
    cases hpe : e.parse with
    | error err => rw [hpe] at hp; cases hp
    | ok ee =>
      rw [hpe] at hp; injection hp with hp; subst hp
      obtain ⟨hen, heb, _, _⟩ := cst_nf e hew hbs ee hpe
      have hsemi : ∀ x ∈ attrs, x ≠ [';'] := by
        intro x hx
        have := (List.all_eq_true.mp hall) x hx
        simp only [attrSegOk, Bool.and_eq_true, bne_iff_ne, ne_eq] at this
        exact this.2
      exact ⟨⟨hen, heb, by simp [collectTrivia, collectGo], by simp [collectTrivia, collectGo], hsemi, trivial, trivial⟩,
        rfl, rfl, rfl⟩
  | .paren its cg, hwf, hbs, e, hp => by
    simp only [Cst.wf, Bool.and_eq_true, beq_iff_eq] at hwf
    simp only [Cst.parse] at hp
    cases hps : its.parseSeq .paren {} with
    | error err => rw [hps] at hp; cases hp
    | ok st' =>
      rw [hps] at hp
      simp only at hp
      have hst : StN st' := items_nf its .paren cg {} st' hwf.1.1 (by simpa [Cst.basic] using hbs) hps
        ⟨trivial, trivial, trivial, fun h => absurd rfl h, fun _ => ⟨Or.inl rfl, rfl⟩⟩
      have hhd : HeadInv st' := items_head its .paren cg {} st' (Or.inr rfl) hwf.1.1 hps
        ⟨fun _ => Or.inl ⟨rfl, rfl⟩, trivial⟩
      have hf := finishSeq_nf hst none (!its.isNil) (fun h =>
        parseSeq_prev_of_content its _ _ st' hps (by simpa using h))
      have hh := finishSeq_none_head st' (!its.isNil) hhd.2
      cases hr : (finishSeq st' none (!its.isNil)).1 with
      | nil => rw [hr] at hp; cases hp
      | cons v tl =>
        cases tl with
        | cons w tl' => rw [hr] at hp; cases hp
        | nil =>
          rw [hr] at hp hf hh
          injection hp with hp; subst hp
          exact ⟨⟨hf.1.1, (hf.2.2.2 rfl).1, leadE_of_head hh, trivial, trivial⟩, rfl, rfl, rfl⟩
  | .app f cs g a, hwf, hbs, e, hp => by
    simp only [Cst.wf, Bool.and_eq_true] at hwf
    simp only [Cst.basic, Bool.and_eq_true] at hbs
    obtain ⟨⟨⟨hfw, _⟩, _⟩, haw⟩ := hwf
    simp only [Cst.parse] at hp
    cases hpf : f.parse with
    | error err => rw [hpf] at hp; cases hp
    | ok fe =>
      rw [hpf] at hp
      cases hpa : a.parse with
      | error err => rw [hpa] at hp; cases hp
      | ok ae =>
        rw [hpa] at hp; injection hp with hp; subst hp
        obtain ⟨hfn, hfb, _, _⟩ := cst_nf f hfw hbs.1 fe hpf
        obtain ⟨han, hab, _, _⟩ := cst_nf a haw hbs.2 ae hpa
        exact ⟨app_nf cs g hfn hfb han hab, rfl, rfl, rfl⟩
  | .leaf k t, hwf, _, e, hp => by
    have hspec := leaf_spec (k := k) (t := t) hwf
    simp only [Cst.parse] at hp
    rw [hspec.1] at hp; injection hp with hp; subst hp
    exact ⟨⟨leafOk_ne_semi hwf, trivial, trivial⟩, rfl, rfl, rfl⟩
  | .list its cg, hwf, hbs, e, hp => by
    simp only [Cst.wf, Bool.and_eq_true] at hwf
    simp only [Cst.parse] at hp
    cases hps : its.parseSeq .list { before := openBefore its } with
    | error err => rw [hps] at hp; cases hp
    | ok st' =>
      rw [hps] at hp; injection hp with hp; subst hp
      have hst := items_nf its .list cg _ st' hwf.1 (by simpa [Cst.basic] using hbs) hps (stN_init its)
      have hf := finishSeq_nf hst (some cg) (!its.isNil) (fun h =>
        parseSeq_prev_of_content its _ _ st' hps (by simpa using h))
      exact ⟨⟨hf.1, alt_emptyInner hf.2.2.1 _, trivial, trivial, hf.2.1⟩, rfl, rfl, rfl⟩
  | .set isRec rg its cg, hwf, hbs, e, hp => by
    simp only [Cst.wf, Bool.and_eq_true] at hwf
    simp only [Cst.parse] at hp
    cases hps : its.parseSeq .set { before := openBefore its } with
    | error err => rw [hps] at hp; cases hp
    | ok st' =>
      rw [hps] at hp; injection hp with hp; subst hp
      have hst := items_nf its .set cg _ st' hwf.1.2 (by simpa [Cst.basic] using hbs) hps (stN_init its)
      have hf := finishSeq_nf hst (some cg) (!its.isNil) (fun h =>
        parseSeq_prev_of_content its _ _ st' hps (by simpa using h))
      exact ⟨⟨hf.1, alt_emptyInner hf.2.2.1 _, trivial, trivial, hf.2.1⟩, rfl, rfl, rfl⟩
theorem items_nf : (its : Items) → ∀ (m : Mode) (cg : Text) (st st' : SeqSt), its.wf m cg = true →
    its.basic = true → its.parseSeq m st = .ok st' → StN st → StN st'
  | .nil, m, cg, st, st', _, _, hp, h => by
    simp only [Items.parseSeq] at hp; injection hp with hp; subst hp; exact h
  | .cmt g t rest, m, cg, st, st', hwf, hbs, hp, h => by
    simp only [Items.wf, Bool.and_eq_true] at hwf
    simp only [Items.parseSeq] at hp
    exact items_nf rest m cg _ st' hwf.2 (by simpa [Items.basic] using hbs) hp (seqComment_nf m h g t)
  | .elem g c rest, m, cg, st, st', hwf, hbs, hp, h => by
    simp only [Items.wf, Bool.and_eq_true] at hwf
    simp only [Items.basic, Bool.and_eq_true] at hbs
    simp only [Items.parseSeq] at hp
    cases hpe : c.parse with
    | error err => rw [hpe] at hp; cases hp
    | ok e =>
      rw [hpe] at hp
      obtain ⟨hen, heb, hea, henb⟩ := cst_nf c hwf.1.2 hbs.1 e hpe
      have hnew : ∀ e', e' = e.setBefore (pushGap st g) →
          StN { items := st.items ++ [e'], before := [], prev := .item } := by
        intro e' he'; subst he'
        refine ⟨allNfInv_append h.1 ⟨nfInv_setBefore hen (pushGap_alt h g), trivial⟩,
          allClosed_append h.2.1 ⟨by rw [effAfter_setBefore, effAfter_notBinding henb, hea]; exact closedT_nil, trivial⟩,
          trivial, fun _ => closedT_nil, fun e => by cases e⟩
      cases m with
      | set => cases hp
      | file =>
        simp only at hp
        exact items_nf rest .file cg _ st' hwf.2 hbs.2 hp (hnew _ (by rw [heb, List.append_nil]))
      | paren =>
        simp only at hp
        exact items_nf rest .paren cg _ st' hwf.2 hbs.2 hp (hnew _ (by rw [heb, List.append_nil]))
      | list =>
        simp only at hp
        exact items_nf rest .list cg _ st' hwf.2 hbs.2 hp (hnew _ rfl)
  | .bind g n c1 g1 c2 g2 v c3 g3 rest, m, cg, st, st', hwf, hbs, hp, h => by
    simp only [Items.basic, Bool.and_eq_true] at hbs
    simp only [Items.wf, Bool.and_eq_true, beq_iff_eq] at hwf
    obtain ⟨⟨⟨⟨⟨⟨⟨⟨⟨⟨hm, _⟩, hn⟩, _⟩, _⟩, _⟩, _⟩, hv⟩, _⟩, _⟩, hrest⟩ := hwf
    subst hm
    simp only [Items.parseSeq] at hp
    cases hpv : v.parse with
    | error err => rw [hpv] at hp; cases hp
    | ok ve =>
      rw [hpv] at hp; simp only at hp
      obtain ⟨hven, hvb, hva, hvnb⟩ := cst_nf v hv hbs.1 ve hpv
      cases hb : bindingFromCst n c1 c2 g2 ve c3 (pushGap st g) with
      | error err => rw [hb] at hp; cases hp
      | ok b =>
        rw [hb] at hp; simp only at hp
        have hbn := binding_nf hn hb hven hvb hva hvnb (pushGap_alt h g)
        exact items_nf rest .set cg _ st' hrest hbs.2 hp
          ⟨allNfInv_append h.1 ⟨hbn.1, trivial⟩, allClosed_append h.2.1 ⟨hbn.2, trivial⟩, trivial,
            fun _ => closedT_nil, fun e => by cases e⟩
end

/-! ### the whole file -/

theorem trailing_cases (g : Text) :
    appendGapTriviaOff [] g = [] ∨ appendGapTriviaOff [] g = [.emptyLine] ∨ appendGapTriviaOff [] g = [.linebreak] := by
  unfold appendGapTriviaOff; split
  · exact Or.inl rfl
  · split
    · exact Or.inr (Or.inl rfl)
    · exact Or.inr (Or.inr rfl)

/-- the rendered file: one expression whose leading whitespace is empty and whose trailing trivia
    is closed, then the end-of-file marker -/
theorem srcRebuildP_nf (s : Src) (e : Expr) (he : s.exprs = [e]) (hok : e.ok) (hml : e.mlSafe) (hinv : e.nfInv)
    (hclean : e.inlineClean) (hhead : e.before = [] ∨ headCmt e.before) (hcl : closedT (e.effAfter false))
    (htr : s.trailing = [] ∨ s.trailing = [.emptyLine] ∨ s.trailing = [.linebreak]) :
    (summ s.rebuildP).fileOk = true := by
  obtain ⟨l, f, t, hs, _, _, _, c1, c2, c3, _⟩ := rebuildAP_summ e hok hml hinv hclean false 0 false
  have hl : l = [] := by
    rcases hhead with h | h
    · rw [c1 h]; rfl
    · exact c2 h rfl
  have ht := c3 hcl
  subst hl; subst ht
  have hr : summ (rebuildAllP [e] 0 false).flatten = .lexy [] f true [] := by
    simp only [rebuildAllP, List.flatten_cons, List.flatten_nil, List.append_nil]; exact hs
  have hsolid : Solid (rebuildAllP [e] 0 false).flatten := by
    simp only [rebuildAllP, List.flatten_cons, List.flatten_nil, List.append_nil]
    exact (rebuildAP_lex e hok false 0 false).2
  have hends : endsWithNL (concat (rebuildAllP [e] 0 false).flatten) = false := by
    rw [endsWithNL_summ hsolid, hr]; rfl
  have hne : (concat (rebuildAllP [e] 0 false).flatten).isEmpty = false := by
    cases hx : (concat (rebuildAllP [e] 0 false).flatten).isEmpty with
    | false => rfl
    | true =>
      have : concat (rebuildAllP [e] 0 false).flatten = [] := by simpa using hx
      have := summ_of_concat_nil hsolid this; rw [hr] at this; cases this
  unfold Src.rebuildP
  rw [he]
  rcases htr with h | h | h <;> rw [h]
  · simp only [List.isEmpty_nil, if_true, hr]; rfl
  · have : trimP [Trivia.emptyLine] (fmtP [Trivia.emptyLine] 0) = [FP.ws ['\n']] := by
      simp [trimP, fmtP, fmtGoP, Trivia.isLayout]
    simp only [this, List.isEmpty_cons, Bool.false_eq_true, if_false, concat_cons, concat_nil, text_ws,
      List.append_nil, Bool.not_false, if_true, hne]
    rw [summ_append, summ_append, hr, summ_ws]; rfl
  · have : trimP [Trivia.linebreak] (fmtP [Trivia.linebreak] 0) = [] := by
      simp [trimP, fmtP, fmtGoP, Trivia.isLayout, endsWithNL]
    simp only [this, List.isEmpty_cons, Bool.false_eq_true, if_false, concat_nil, List.isEmpty_nil, Bool.not_true,
      List.getLast?_singleton, Trivia.isLayout, if_true, hends]
    rw [summ_append, hr, summ_ws]; rfl

/-- SPACING NORMAL FORM of the whole round trip -/
theorem file_nf (f : File) (s : Src) (hwf : f.wf = true) (hbasic : f.basic = true) (hp : f.parse = .ok s)
    (hclean : ∀ e ∈ s.exprs, e.inlineClean) : (summ s.rebuildP).fileOk = true := by
  obtain ⟨s', hp', hok, _⟩ := file_parse_spec false f hwf (fun h => by cases h)
  rw [hp] at hp'; injection hp' with hs; subst hs
  have hwf' := hwf
  simp only [File.wf, Bool.and_eq_true, decide_eq_true_eq] at hwf'
  simp only [File.parse] at hp
  cases hps : f.items.parseSeq .file {} with
  | error err => rw [hps] at hp; cases hp
  | ok st' =>
    rw [hps] at hp
    injection hp with hp
    have hcount := items_parse_count f.items .file {} st' hps (Or.inl rfl)
    have hst : StN st' := items_nf f.items .file f.endGap {} st' hwf'.1.1 hbasic hps
      ⟨trivial, trivial, trivial, fun h => absurd rfl h, fun _ => ⟨Or.inl rfl, rfl⟩⟩
    have hhd : HeadInv st' := items_head f.items .file f.endGap {} st' (Or.inl rfl) hwf'.1.1 hps
      ⟨fun _ => Or.inl ⟨rfl, rfl⟩, trivial⟩
    have hinv := items_parse_inv f.items .file f.endGap {} st' hwf'.1.1 hps trivial
    have hfml := finishSeq_inv st' none (!f.items.isNil) hinv.1
    have hf := finishSeq_nf hst none (!f.items.isNil) (fun h =>
      parseSeq_prev_of_content f.items _ _ st' hps (by simpa using h))
    have hlen := finishSeq_length st' none (!f.items.isNil)
    have hex : s.exprs = (finishSeq st' none (!f.items.isNil)).1 := by rw [← hp]
    have htrail : s.trailing = appendGapTriviaOff (finishSeq st' none (!f.items.isNil)).2 f.endGap := by rw [← hp]
    have h1 : s.exprs.length = 1 := by rw [hex, hlen, hcount, hwf'.1.2]; rfl
    -- the items are not empty, so nothing is left over for `trailing`
    have hne : st'.items ≠ [] := by
      intro e; rw [hex, hlen, e] at h1; cases h1
    have hinner : (finishSeq st' none (!f.items.isNil)).2 = [] := by
      unfold finishSeq
      by_cases hb : st'.before.isEmpty = true
      · simp [hb]
      · have hi : st'.items.isEmpty = false := by
          cases hx : st'.items with
          | nil => exact absurd hx hne
          | cons _ _ => rfl
        simp [hb, hi]
    have hheadfin : headBeforeOk (finishSeq st' none (!f.items.isNil)).1 := by
      unfold finishSeq
      by_cases hb : st'.before.isEmpty = true
      · simp only [hb, if_true]; exact hhd.2
      · have hi : st'.items.isEmpty = false := by
          cases hx : st'.items with
          | nil => exact absurd hx hne
          | cons _ _ => rfl
        simp only [hb, Bool.false_eq_true, if_false, hi]
        exact headBeforeOk_modifyLast _ hhd.2
    match hse : s.exprs, h1 with
    | [e], _ =>
      have hall := hf.1; rw [← hex, hse] at hall
      have hclo := hf.2.2.2 rfl; rw [← hex, hse] at hclo
      have hhb := hheadfin; rw [← hex, hse] at hhb
      have heok : e.ok := by have := hok.1; rw [hse] at this; exact this.1
      have hml : e.mlSafe := by
        have := hfml.1; rw [← hex, hse] at this; exact this.1
      refine srcRebuildP_nf s e hse heok hml hall.1 (hclean e (by rw [hse]; simp)) hhb hclo.1 ?_
      rw [htrail, hinner]; exact trailing_cases _

/-! meaning of the summary -/

def FP.isWs : FP → Bool
  | .ws _ => true
  | _ => false

theorem summ_allWs : ∀ (W : List FP), W.all FP.isWs = true → summ W = .blank (concat W)
  | [], _ => rfl
  | p :: rest, h => by
    simp only [List.all_cons, Bool.and_eq_true] at h
    cases p with
    | ws s => rw [summ_cons, summ_allWs rest h.2]; simp [summ1, Summ.comb]
    | tok s => cases h.1
    | cmt s => cases h.1

theorem summ_lexHead (q : FP) (hq : q.isWs = false) (post : List FP) :
    ∃ x i t, q.lex? = some x ∧ summ (q :: post) = .lexy [] x i t := by
  cases q with
  | ws s => cases hq
  | tok s => rw [summ_cons]; cases summ post <;> exact ⟨_, _, _, rfl, rfl⟩
  | cmt s => rw [summ_cons]; cases summ post <;> exact ⟨_, _, _, rfl, rfl⟩

theorem summ_lexLast (pre : List FP) (p : FP) (hp : p.isWs = false) :
    ∃ l f i, summ (pre ++ [p]) = .lexy l f i [] := by
  rw [summ_append]
  have : ∃ x, summ [p] = .lexy [] x true [] := by
    cases p with
    | ws s => cases hp
    | tok s => exact ⟨_, summ_tok s⟩
    | cmt s => exact ⟨_, summ_cmt s⟩
  obtain ⟨x, hx⟩ := this
  rw [hx]
  cases summ pre <;> exact ⟨_, _, _, rfl⟩

/-- WHAT THE SUMMARY SAYS: if the inner flag is set, the whitespace between any two neighbouring
    tokens/comments of the output is an acceptable separator for the second one -/
theorem summ_inner_spec {ps : List FP} {l : Text} {f : Lex} {t : Text} (h : summ ps = .lexy l f true t)
    (pre W post : List FP) (p q : FP) (hps : ps = pre ++ [p] ++ W ++ q :: post)
    (hp : p.isWs = false) (hq : q.isWs = false) (hW : W.all FP.isWs = true) :
    ∃ x, q.lex? = some x ∧ sepOk (concat W) x = true := by
  obtain ⟨l1, f1, i1, h1⟩ := summ_lexLast pre p hp
  obtain ⟨x, i2, t2, hx, h2⟩ := summ_lexHead q hq post
  refine ⟨x, hx, ?_⟩
  rw [hps, summ_append, summ_append, h1, h2, summ_allWs W hW] at h
  simp only [Summ.comb, List.nil_append, List.append_nil] at h
  injection h with _ _ hi _
  simp only [Bool.and_eq_true] at hi
  exact hi.1.2

/-- and nothing is written before the first token when the leading whitespace is empty -/
theorem summ_lead_spec : ∀ {ps : List FP} {f : Lex} {i : Bool} {t : Text}, summ ps = .lexy [] f i t →
    ∀ (W post : List FP) (q : FP), ps = W ++ q :: post → W.all FP.isWs = true → q.isWs = false → concat W = []
  | ps, f, i, t, h, W, post, q, hps, hW, hq => by
    obtain ⟨x, i2, t2, _, h2⟩ := summ_lexHead q hq post
    rw [hps, summ_append, summ_allWs W hW, h2] at h
    simp only [Summ.comb, List.append_nil] at h
    injection h with h _ _ _


/-! ### the exclusion, decidable -/

theorem closedT_of_closedB {ts : List Trivia} (h : closedB ts = true) : closedT ts := by
  unfold closedB at h
  cases hl : ts.getLast? with
  | none => exact Or.inl (List.getLast?_eq_none_iff.mp hl)
  | some t =>
    rw [hl] at h
    cases t with
    | comment c => exact Or.inr ⟨c, hl⟩
    | emptyLine => cases h
    | linebreak => cases h
    | comma => cases h

theorem allFlat_of_B : ∀ {es : List Expr}, allFlatB es = true → allFlat es
  | [], _ => trivial
  | x :: r, h => by
    simp only [allFlatB, Bool.and_eq_true, List.isEmpty_iff] at h
    exact ⟨h.1.1, closedT_of_closedB h.1.2, allFlat_of_B h.2⟩

mutual
theorem inlineClean_of_B : (e : Expr) → e.inlineCleanB = true → e.inlineClean
  | .leaf .., _ => trivial
  | .list v ml _ _ _, h => by
    simp only [Expr.inlineCleanB, Bool.and_eq_true, Bool.or_eq_true] at h
    refine ⟨fun hml => ?_, allInlineClean_of_B v h.2⟩
    rcases h.1 with h1 | h1
    · rw [hml] at h1; cases h1
    · exact allFlat_of_B h1
  | .set v ml _ _ _ _, h => by
    simp only [Expr.inlineCleanB, Bool.and_eq_true, Bool.or_eq_true] at h
    refine ⟨fun hml => ?_, allInlineClean_of_B v h.2⟩
    rcases h.1 with h1 | h1
    · rw [hml] at h1; cases h1
    · exact allFlat_of_B h1
  | .binding _ v _ _ _, h => inlineClean_of_B v h
  | .paren v lg _ _ _ _ _, h => by
    simp only [Expr.inlineCleanB, Bool.and_eq_true, Bool.or_eq_true, List.isEmpty_iff] at h
    refine ⟨fun hon => ?_, inlineClean_of_B v h.2⟩
    rcases h.1 with h1 | h1
    · rw [hon] at h1; cases h1
    · exact h1
  | .app n x g _ _ _, h => by
    simp only [Expr.inlineCleanB, Bool.and_eq_true, Bool.or_eq_true, List.isEmpty_iff] at h
    refine ⟨fun hon => ?_, inlineClean_of_B n h.1.2, inlineClean_of_B x h.2⟩
    rcases h.1.1 with h1 | h1
    · rw [hon] at h1; cases h1
    · exact h1
  | .wth env body _ _ _ _ _, h => by
    simp only [Expr.inlineCleanB, Bool.and_eq_true] at h
    exact ⟨inlineClean_of_B env h.1, inlineClean_of_B body h.2⟩
  | .asrt .., h => by simp [Expr.inlineCleanB] at h
  | .sel e _ _ _ _ _, h => inlineClean_of_B e h
  | .selOr e _ _ _ d _ _ _ _, h => by
    simp only [Expr.inlineCleanB, Bool.and_eq_true] at h
    exact ⟨inlineClean_of_B e h.1, inlineClean_of_B d h.2⟩
  | .lam _ _ _ _ body _ _, h => inlineClean_of_B body h
  | .un _ e _ _ _ _, h => inlineClean_of_B e h
  | .bin _ l r ogl rgl _ _, h => by
    simp only [Expr.inlineCleanB, Bool.and_eq_true, decide_eq_true_eq] at h
    exact ⟨h.1.1.1, h.1.1.2, inlineClean_of_B l h.1.2, inlineClean_of_B r h.2⟩
  | .ite c t e _ _ _ _ _ _ _ _ _ _ _ _ _, h => by
    simp only [Expr.inlineCleanB, Bool.and_eq_true] at h
    exact ⟨inlineClean_of_B c h.1.1, inlineClean_of_B t h.1.2, inlineClean_of_B e h.2⟩
  | .has e _ _ _ _ _ _ _, h => inlineClean_of_B e h
theorem allInlineClean_of_B : (es : List Expr) → allInlineCleanB es = true → allInlineClean es
  | [], _ => trivial
  | e :: rest, h => by
    simp only [allInlineCleanB, Bool.and_eq_true] at h
    exact ⟨inlineClean_of_B e h.1, allInlineClean_of_B rest h.2⟩
end

theorem mem_allInlineClean : ∀ {es : List Expr}, allInlineClean es → ∀ e ∈ es, e.inlineClean
  | [], _, e, he => by cases he
  | x :: r, h, e, he => by
    rcases List.mem_cons.mp he with h1 | h1
    · subst h1; exact h.1
    · exact mem_allInlineClean h.2 e h1

theorem src_inlineClean {s : Src} (h : s.inlineCleanB = true) : ∀ e ∈ s.exprs, e.inlineClean :=
  mem_allInlineClean (allInlineClean_of_B s.exprs h)

end Nima.Frag
