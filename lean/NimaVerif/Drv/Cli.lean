import NimaVerif.Model.Cli
import NimaVerif.Model.SExp
/-!
Driver requests for L9/Cli (C16).

```
(cli <test|set|rm> <stdin|file> <raw> (<positional-hex> …) <parse> <rebuild> <set> <rm>)
   raw      = (ok <hex>) | (err <ExceptionName>)       input after byte decoding, before newline translation
   parse    = (ok <t|f>) | (err <Name>) | na           parse(content): returned (contains_error) / raised
   rebuild  = (ok <hex>) | (err <Name>) | na           source.rebuild()
   set, rm  = (ok <hex>) | (err <Name>) | na           set_value / remove_value on parse(content)
(cli-none)                                             no sub-command
 -> (res <stdout-hex> <exit> <none|ExceptionName> <help t|f>)      (a wrong number of positionals: exit 2)
```
The library outcomes are what the harness observed in process on the text `Inv.content` yields (it
asks `(cli-content <chan> <hex>)` first); the model decides which of them the command line consults and
in which order. `na` (not evaluated) raises `NotEvaluated` if the model does consult it.
-/
namespace Nima.Drv.Cli
open Nima Nima.Cli

def decOutcome (e : SExp) : Option (Except Err Text) :=
  match e with
  | .list [.atom "ok", .atom h] => (decText h).map .ok
  | .list [.atom "err", .atom n] => some (.error (.internal n))
  | .atom "na" => some (.error (.internal "NotEvaluated"))
  | _ => none

def decParse (e : SExp) : Option (Except Err Bool) :=
  match e with
  | .list [.atom "ok", .atom b] => some (.ok (b == "t"))
  | .list [.atom "err", .atom n] => some (.error (.internal n))
  | .atom "na" => some (.error (.internal "NotEvaluated"))
  | _ => none

def decChan : String → Option Channel
  | "stdin" => some .stdin
  | "file" => some .file
  | _ => none

def decCmd : String → Option Cmd
  | "test" => some .test
  | "set" => some .set
  | "rm" => some .rm
  | _ => none

def decTexts : List SExp → Option (List Text)
  | [] => some []
  | .atom h :: rest => do
    let t ← decText h
    let ts ← decTexts rest
    pure (t :: ts)
  | _ => none

def errName : Err → String
  | .internal n => n
  | e => e.cls

def encRes (r : Res) : SExp :=
  .list [.atom "res", sText r.stdout, sNat r.exit,
    .atom (match r.raised with | none => "none" | some e => errName e), sBool r.help]

/-- the library as observed by the harness: constant functions (the source object is `Unit`) -/
def observedLib (parse : Except Err Bool) (rebuild setR rmR : Except Err Text) : Lib Unit :=
  { parse := fun _ => parse.map fun _ => (),
    containsError := fun _ => match parse with | .ok b => b | .error _ => false,
    rebuild := fun _ => rebuild,
    setValue := fun _ _ _ => setR,
    removeValue := fun _ _ => rmR }

def handle' (req : SExp) : SExp :=
  match req with
  | .list [.atom "cli", .atom cmd, .atom chan, raw, .list vals, parse, rebuild, setR, rmR] =>
    match decCmd cmd, decChan chan, decOutcome raw, decTexts vals, decParse parse, decOutcome rebuild,
        decOutcome setR, decOutcome rmR with
    | some cmd, some chan, some raw, some vals, some parse, some rebuild, some setR, some rmR =>
      encRes (cliMain (observedLib parse rebuild setR rmR) (argOutcome cmd chan raw vals))
    | _, _, _, _, _, _, _, _ => .list [.atom "bad-arg"]
  | .list [.atom "cli-none"] =>
    encRes (cliMain (observedLib (.ok false) (.ok []) (.ok []) (.ok [])) .noCommand)
  | .list [.atom "cli-usage"] =>
    encRes (cliMain (observedLib (.ok false) (.ok []) (.ok []) (.ok [])) .usage)
  | .list [.atom "cli-content", .atom chan, raw] =>
    match decChan chan, decOutcome raw with
    | some chan, some raw =>
      match contentWith fileOpt chan raw with
      | .ok t => .list [.atom "ok", sText t]
      | .error e => .list [.atom "err", .atom (errName e)]
    | _, _ => .list [.atom "bad-arg"]
  | _ => .list [.atom "bad-op"]

def ops : List String := ["cli", "cli-none", "cli-usage", "cli-content"]

def handle (req : SExp) : Option SExp :=
  match req with
  | .list (.atom op :: _) => if ops.contains op then some (handle' req) else none
  | _ => none

end Nima.Drv.Cli
