#!/bin/sh
# MANIFEST.setup_cmd: offline; regenerates the translator output from /repo and builds the Lean
# library (models, lemmas, property theorems, audits) and the native driver.
set -e
cd "$(dirname "$0")"
/venv/bin/python -m harness.translate.translate
cd lean
lake build
