import NimaVerif.Props.C19
open Nima.C19
#print axioms updBind_idem
