import NimaVerif.Model.MappingSpec
/-!
Helper lemmas shared by C09 and C14: the `EditM` monad unfolded, and what the by-identity updates
`updBind` / `updSet` do to the lists the lookups read (`findBinding`, `inheritMentions`, names).
-/
namespace Nima
-- name tokens are compared by spelling in this file (see `NameCmp` in Model/Edit.lean)
attribute [local instance] NameCmp.spelled

open Node EditM

/-! ### the EditM monad -/

@[simp] theorem EditM.pure_apply {α} (a : α) (d : Doc) : (pure a : EditM α) d = (.ok a, d) := rfl
@[simp] theorem EditM.bind_apply {α β} (m : EditM α) (f : α → EditM β) (d : Doc) :
    (m >>= f) d = match m d with
      | (.ok a, d') => f a d'
      | (.error e, d') => (.error e, d') := rfl
@[simp] theorem EditM.throw_apply {α} (e : Err) (d : Doc) :
    (EditM.throw e : EditM α) d = (.error e, d) := rfl
@[simp] theorem EditM.get_apply (d : Doc) : EditM.get d = (.ok d, d) := rfl
@[simp] theorem EditM.modify_apply (f : Doc → Doc) (d : Doc) : EditM.modify f d = (.ok (), f d) := rfl
@[simp] theorem fresh_apply (d : Doc) : fresh d = (.ok d.next, { d with next := d.next + 1 }) := rfl
@[simp] theorem assign_apply (bid : Nat) (v : Node) (d : Doc) :
    assign bid v d = (.ok (), d.updBind bid v) := rfl

/-! ### `updBindL` / `updSetL` are maps -/

theorem updBindL_eq_map (id : Nat) (v : Node) (xs : List Node) :
    updBindL id v xs = xs.map (updBind id v) := by
  induction xs with
  | nil => rfl
  | cons x xs ih => simp [updBindL, ih]

theorem updSetL_eq_map (sid : Nat) (f : Node → Node) (xs : List Node) :
    updSetL sid f xs = xs.map (updSet sid f) := by
  induction xs with
  | nil => rfl
  | cons x xs ih => simp [updSetL, ih]

@[simp] theorem updBindL_nil (id : Nat) (v : Node) : updBindL id v [] = [] := rfl
@[simp] theorem updSetL_nil (sid : Nat) (f : Node → Node) : updSetL sid f [] = [] := rfl

@[simp] theorem updBindL_isEmpty (id : Nat) (v : Node) (xs : List Node) :
    (updBindL id v xs).isEmpty = xs.isEmpty := by cases xs <;> rfl
@[simp] theorem updSetL_isEmpty (sid : Nat) (f : Node → Node) (xs : List Node) :
    (updSetL sid f xs).isEmpty = xs.isEmpty := by cases xs <;> rfl

@[simp] theorem updBindL_length (id : Nat) (v : Node) (xs : List Node) :
    (updBindL id v xs).length = xs.length := by simp [updBindL_eq_map]
@[simp] theorem updSetL_length (sid : Nat) (f : Node → Node) (xs : List Node) :
    (updSetL sid f xs).length = xs.length := by simp [updSetL_eq_map]

theorem updBindL_append (id : Nat) (v : Node) (xs ys : List Node) :
    updBindL id v (xs ++ ys) = updBindL id v xs ++ updBindL id v ys := by
  simp [updBindL_eq_map]
theorem updSetL_append (sid : Nat) (f : Node → Node) (xs ys : List Node) :
    updSetL sid f (xs ++ ys) = updSetL sid f xs ++ updSetL sid f ys := by
  simp [updSetL_eq_map]

/-! ### what `updBind` keeps: kind, identity, name of every item -/


@[simp] theorem updBind_isBind (id : Nat) (v n : Node) : (updBind id v n).isBind = n.isBind := by
  cases n with
  | bind i nm ne val b a => by_cases h : i = id <;> simp [updBind, h, isBind]
  | _ => simp [updBind, isBind]
@[simp] theorem updBind_bindName (id : Nat) (v n : Node) :
    (updBind id v n).bindName? = n.bindName? := by
  cases n with
  | bind i nm ne val b a => by_cases h : i = id <;> simp [updBind, h, bindName?]
  | _ => simp [updBind, bindName?]
@[simp] theorem updBind_bindId (id : Nat) (v n : Node) : (updBind id v n).bindId? = n.bindId? := by
  cases n with
  | bind i nm ne val b a => by_cases h : i = id <;> simp [updBind, h, bindId?]
  | _ => simp [updBind, bindId?]
@[simp] theorem updBind_bindNested (id : Nat) (v n : Node) :
    (updBind id v n).bindNested = n.bindNested := by
  cases n with
  | bind i nm ne val b a => by_cases h : i = id <;> simp [updBind, h, bindNested]
  | _ => simp [updBind, bindNested]
@[simp] theorem updBind_isEntry (id : Nat) (v n : Node) :
    (updBind id v n).isEntry = n.isEntry := by
  cases n with
  | bind i nm ne val b a => by_cases h : i = id <;> simp [updBind, h, Node.isEntry]
  | _ => simp [updBind, Node.isEntry]
@[simp] theorem updBind_isSet (id : Nat) (v n : Node) : (updBind id v n).isSet = n.isSet := by
  cases n with
  | bind i nm ne val b a => by_cases h : i = id <;> simp [updBind, h, isSet]
  | _ => simp [updBind, isSet]

/-- the value of an updated binding: `v` for the addressed object, else the updated old value -/
theorem updBind_bindValue (id : Nat) (v n : Node) :
    (updBind id v n).bindValue? =
      if n.bindId? = some id then some v else n.bindValue?.map (updBind id v) := by
  cases n with
  | bind i nm ne val b a => by_cases h : i = id <;> simp [updBind, h, bindValue?, bindId?]
  | _ => simp [updBind, bindValue?, bindId?]

theorem findBinding_updBindL (id : Nat) (v : Node) (vs : List Node) (k : Text) :
    findBinding (updBindL id v vs) k = (findBinding vs k).map (updBind id v) := by
  simp only [findBinding_spelled, updBindL_eq_map, List.find?_map]
  congr 2
  funext x
  simp [Function.comp]

theorem inheritMentions_updBindL (id : Nat) (v : Node) (vs : List Node) (k : Text) :
    inheritMentions (updBindL id v vs) k = inheritMentions vs k := by
  simp only [inheritMentions, updBindL_eq_map, List.any_map]
  congr 1
  funext n
  cases n with
  | bind i nm ne val b a => by_cases h : i = id <;> simp [updBind, h]
  | _ => simp [updBind]

/-! ### `findBinding` -/

theorem findBinding_some {vs : List Node} {k : Text} {b : Node} (h : findBinding vs k = some b) :
    b ∈ vs ∧ b.isBind = true ∧ b.bindName? = some k := by
  simp only [findBinding_spelled] at h
  have h1 := List.find?_some h
  have h2 := List.mem_of_find?_eq_some h
  simp only [Bool.and_eq_true, beq_iff_eq] at h1
  exact ⟨h2, h1.1, h1.2⟩

theorem isBind_bindId {b : Node} (h : b.isBind = true) : ∃ i, b.bindId? = some i := by
  cases b <;> simp [isBind] at h; exact ⟨_, rfl⟩

theorem isBind_bindValue {b : Node} (h : b.isBind = true) : ∃ v, b.bindValue? = some v := by
  cases b <;> simp [isBind] at h; exact ⟨_, rfl⟩

theorem findBinding_append_of_ne (vs : List Node) (nb : Node) (k k' : Text)
    (hnb : nb.bindName? = some k) (hk : k' ≠ k) :
    findBinding (vs ++ [nb]) k' = findBinding vs k' := by
  simp only [findBinding_spelled]
  rw [List.find?_append]
  cases h : vs.find? (fun n => n.isBind && n.bindName? == some k') with
  | some b => simp
  | none =>
    simp only [Option.none_or, List.find?_cons, hnb]
    have : (some k == some k') = false := by
      simp only [beq_eq_false_iff_ne, ne_eq, Option.some.injEq]; exact fun h => hk h.symm
    simp [this]

theorem findBinding_append_new (vs : List Node) (nb : Node) (k : Text)
    (hb : nb.isBind = true) (hnb : nb.bindName? = some k) (hnone : findBinding vs k = none) :
    findBinding (vs ++ [nb]) k = some nb := by
  simp only [findBinding_spelled] at hnone ⊢
  rw [List.find?_append, hnone]
  simp [hb, hnb]

end Nima
